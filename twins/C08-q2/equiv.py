import os, sys; sys.path.insert(0, os.getcwd())  # noqa: E702

"""
Equivalence demonstration for q2 (C08): optimized FQP.__div__ / inv /
optimized_poly_rounded_div compute the scalar inverse, the inverse of the divisor's
leading coefficient, degree + 1 and the field modulus once instead of repeatedly.

Loads the pristine py_ecc/fields/optimized_field_elements.py under another module
name and the edited one from the working tree, builds the same field classes on both
and compares results (coefficients, their types, result class) and exception classes.
"""

import importlib.util
import inspect
import itertools
import random
import time

HERE = os.path.dirname(os.path.abspath(__file__))
T0 = time.time()


def load(name, path):
    spec = importlib.util.spec_from_file_location(name, path)
    mod = importlib.util.module_from_spec(spec)
    sys.modules[name] = mod
    spec.loader.exec_module(mod)
    return mod


OLD = load(
    "pristine_optimized_field_elements",
    os.path.join(HERE, "pristine", "optimized_field_elements.py"),
)
import py_ecc.fields.optimized_field_elements as NEW  # noqa: E402

assert os.path.realpath(NEW.__file__).startswith(os.path.realpath(os.getcwd())), NEW.__file__
assert "lead_inv" in inspect.getsource(NEW.FQP.optimized_poly_rounded_div), "tree not edited"
assert "lead_inv" not in inspect.getsource(OLD.FQP.optimized_poly_rounded_div)

from py_ecc.fields.field_properties import field_properties  # noqa: E402


# ---------------------------------------------------------------- small helpers
def ptrim(a):
    while a and a[-1] == 0:
        a.pop()
    return a


def pmulmod(a, b, m, p):
    res = [0] * (len(a) + len(b) - 1) if a and b else []
    for i, x in enumerate(a):
        for j, y in enumerate(b):
            res[i + j] = (res[i + j] + x * y) % p
    return pmod(res, m, p)


def pmod(a, m, p):
    a = ptrim([x % p for x in a])
    dm = len(m) - 1
    inv = pow(m[-1], -1, p)
    while len(a) - 1 >= dm:
        f = a[-1] * inv % p
        sh = len(a) - 1 - dm
        for i, c in enumerate(m):
            a[sh + i] = (a[sh + i] - f * c) % p
        ptrim(a)
    return a


def pgcd(a, b, p):
    a, b = ptrim(list(a)), ptrim(list(b))
    while b:
        a, b = b, pmod(a, b, p)
    return a


def ppowx(e, m, p):
    # x ** e mod m
    res, base = [1], pmod([0, 1], m, p)
    while e:
        if e & 1:
            res = pmulmod(res, base, m, p)
        base = pmulmod(base, base, m, p)
        e >>= 1
    return res


def psub(a, b, p):
    n = max(len(a), len(b))
    a = a + [0] * (n - len(a))
    b = b + [0] * (n - len(b))
    return ptrim([(x - y) % p for x, y in zip(a, b)])


def irreducible(m, p):
    n = len(m) - 1
    if psub(ppowx(p**n, m, p), [0, 1], p):
        return False
    for q in (2, 3, 5, 7, 11):
        if n % q == 0:
            g = pgcd(m, psub(ppowx(p ** (n // q), m, p), [0, 1], p), p)
            if len(g) != 1:
                return False
    return True


def find_irreducible(p, n, rng):
    while True:
        m = [rng.randrange(p) for _ in range(n)] + [1]
        if m[0] and irreducible(m, p):
            return tuple(m[:n])



# ---------------------------------------------------------------- class factories
def build(mod, small_moduli):
    ns = {}
    for curve in ("bn128", "bls12_381"):
        fp = field_properties[curve]
        P = fp["field_modulus"]
        ns[curve + "_FQ"] = type(curve + "_FQ", (mod.FQ,), {"field_modulus": P})
        ns[curve + "_FQ2"] = type(
            curve + "_FQ2",
            (mod.FQ2,),
            {"field_modulus": P, "FQ2_MODULUS_COEFFS": fp["fq2_modulus_coeffs"]},
        )
        ns[curve + "_FQ12"] = type(
            curve + "_FQ12",
            (mod.FQ12,),
            {"field_modulus": P, "FQ12_MODULUS_COEFFS": fp["fq12_modulus_coeffs"]},
        )
    for (p, n), mc in small_moduli.items():
        base = {2: mod.FQ2, 12: mod.FQ12}[n]
        key = {2: "FQ2_MODULUS_COEFFS", 12: "FQ12_MODULUS_COEFFS"}[n]
        ns["gf%d_FQ" % p] = type("gf%d_FQ" % p, (mod.FQ,), {"field_modulus": p})
        ns["gf%d_%d" % (p, n)] = type(
            "gf%d_%d" % (p, n), (base,), {"field_modulus": p, key: mc}
        )

    # generic FQP subclass taking the modulus explicitly (any degree)
    class GenP(mod.FQP):
        field_modulus = 11

        def __init__(self, coeffs, modulus_coeffs=()):
            self.mc_tuples = [(i, c) for i, c in enumerate(modulus_coeffs) if c]
            super().__init__(coeffs, modulus_coeffs)

    class Gen3(mod.FQP):
        # GF(13^3) with modulus x^3 - 2 (2 is not a cube mod 13)
        field_modulus = 13
        degree = 3
        mc_tuples = [(0, 11)]

        def __init__(self, coeffs):
            super().__init__(coeffs, (11, 0, 0))

    ns["GenP"] = GenP
    ns["Gen3"] = Gen3
    return ns


rng = random.Random(0xC082)
SMALL = {}
for p in (2, 3, 5, 7):
    SMALL[(p, 2)] = find_irreducible(p, 2, rng)
    SMALL[(p, 12)] = find_irreducible(p, 12, rng)
SMALL[(11, 12)] = (0,) * 12  # reducible moduli: behaviour must agree there too
SMALL[(11, 2)] = (10, 0)

O = build(OLD, SMALL)
N = build(NEW, SMALL)


# ---------------------------------------------------------------- canonical forms
def canon(v):
    if isinstance(v, (OLD.FQP, NEW.FQP)):
        return (
            "FQP",
            type(v).__name__,
            tuple(canon(c) for c in v.coeffs),
            tuple(repr(m) for m in v.modulus_coeffs),
            v.degree,
        )
    if isinstance(v, (OLD.FQ, NEW.FQ)):
        return ("FQ", type(v).__name__, v.n)
    if isinstance(v, (bool, int, float, str, type(None))):
        return ("py", type(v).__name__, repr(v))
    if isinstance(v, (list, tuple)):
        return (type(v).__name__,) + tuple(canon(x) for x in v)
    raise AssertionError("unexpected result type %r" % type(v))


def outcome(fn):
    try:
        return ("ok", canon(fn()))
    except RecursionError:
        raise
    except AssertionError:
        raise
    except Exception as e:  # noqa: BLE001
        return ("exc", type(e).__name__, type(e).__mro__[1].__name__)


CHECKS = 0
EXC = {}


def same(f_old, f_new, label):
    global CHECKS
    a, b = outcome(f_old), outcome(f_new)
    CHECKS += 1
    if a != b:
        print("MISMATCH", label, "\n  old:", a, "\n  new:", b)
        sys.exit(1)
    if a[0] == "exc":
        EXC[a[1]] = EXC.get(a[1], 0) + 1
    return a


def both(label, fn):
    """fn(ns) is evaluated on the pristine and on the edited namespace."""
    return same(lambda: fn(O), lambda: fn(N), label)


def reduced(r, p):
    """a successful FQP result has canonical int coefficients"""
    if r[0] == "ok" and r[1][0] == "FQP":
        for c in r[1][2]:
            assert c[0] == "py" and c[1] == "int" and 0 <= int(c[2]) < p, r
    return r


# ---------------------------------------------------------------- element samples
def coeff_samples(p, n, rng, count):
    special = [0, 1, p - 1, p, p + 1, -1, -p, 2 * p + 3, p // 2, -(p // 2) - 1]
    out = [
        [0] * n,
        [1] + [0] * (n - 1),
        [p - 1] + [0] * (n - 1),
        [-1] * n,
        [p - 1] * n,
        [0] * (n - 1) + [1],
        [0] * (n - 1) + [p - 1],
        [1] * n,
        [5] + [0] * (n - 1),
        [0, 1] + [0] * (n - 2),
    ]
    for _ in range(count):
        out.append([rng.randrange(p) for _ in range(n)])
    for _ in range(count // 2 + 1):
        v = [0] * n
        for _ in range(rng.randrange(1, 3)):
            v[rng.randrange(n)] = rng.choice(special)
        out.append(v)
    for _ in range(count // 2 + 1):
        out.append([rng.choice(special + [rng.randrange(-3 * p, 3 * p)]) for _ in range(n)])
    return out


def int_scalars(p, rng):
    return [0, 1, -1, 2, p - 1, p, p + 1, -p, 2 * p + 5, -(3 * p) - 7, True, False,
            rng.randrange(p), -rng.randrange(p), rng.randrange(p**3)]


MALFORMED = [None, 1.5, "3", [1, 2], (1, 2), b"\x01", 2 + 0j, object]


def suite(name, n, p, rng, count, fq_name):
    elems = coeff_samples(p, n, rng, count)
    pairs = [(a, b) for a in elems[:10] for b in elems[:10]]
    pairs += [(rng.choice(elems), rng.choice(elems)) for _ in range(count * 3)]
    for a, b in pairs:
        reduced(both(name + " div", lambda ns: ns[name](a) / ns[name](b)), p)
        both(name + " (x/y)*y", lambda ns: (ns[name](a) / ns[name](b)) * ns[name](b))
        both(name + " mul", lambda ns: ns[name](a) * ns[name](b))
        both(name + " eq", lambda ns: (ns[name](a) / ns[name](b)) * ns[name](b) == ns[name](a))
    for a in elems:
        reduced(both(name + " inv", lambda ns: ns[name](a).inv()), p)
        both(name + " x*inv", lambda ns: ns[name](a) * ns[name](a).inv())
        both(name + " inv inv", lambda ns: ns[name](a).inv().inv())
        both(name + " one/x", lambda ns: ns[name].one() / ns[name](a))
        both(name + " x/one", lambda ns: ns[name](a) / ns[name].one())
        both(name + " x/zero", lambda ns: ns[name](a) / ns[name].zero())
        for s in int_scalars(p, rng):
            reduced(both(name + " /int", lambda ns: ns[name](a) / s), p)
            both(name + " (x/s)*s", lambda ns: (ns[name](a) / s) * s)
            both(name + " *int", lambda ns: ns[name](a) * s)
        # elements whose coefficients are FQ objects (kept unconverted by the class)
        both(name + " FQcoeffs inv", lambda ns: ns[name]([ns[fq_name](c) for c in a]).inv())
        both(name + " FQcoeffs /int", lambda ns: ns[name]([ns[fq_name](c) for c in a]) / 7)
        both(name + " FQcoeffs /x", lambda ns: ns[name](elems[-1]) / ns[name]([ns[fq_name](c) for c in a]))
    for a in elems[:6]:
        for m in MALFORMED:
            both(name + " /bad", lambda ns: ns[name](a) / m)
            both(name + " bad/", lambda ns: m / ns[name](a))
        both(name + " /FQ", lambda ns: ns[name](a) / ns[fq_name](3))
        both(name + " /otherclass", lambda ns: ns[name](a) / ns["Gen3"]([1, 2, 3]))
    exps = [0, 1, 2, 3, 5, 16, p - 1, p, p + 1, p**2 - 1, p**n - 1, p**n, p**12, -1, -5]
    pow_elems = elems[:6] + elems[-3:]
    if n == 12 and p.bit_length() > 64:
        pow_elems = [elems[3], elems[-1]]  # ~0.7s per full-size exponent
    for a in pow_elems:
        for e in exps:
            both(name + " pow", lambda ns: ns[name](a) ** e)
        both(name + " x^(q-2)==inv", lambda ns: ns[name](a) ** (p**n - 2) == ns[name](a).inv())
    # operands are not mutated; repeated calls return equal results
    for a, b in pairs[:12]:
        def nomut(ns, a=a, b=b):
            x, y = ns[name](a), ns[name](b)
            before = (x.coeffs, y.coeffs, x.modulus_coeffs, y.modulus_coeffs, list(x.mc_tuples))
            r1 = x / y
            i1 = y.inv()
            d1 = x / 3
            r2 = x / y
            i2 = y.inv()
            d2 = x / 3
            assert (x.coeffs, y.coeffs, x.modulus_coeffs, y.modulus_coeffs, list(x.mc_tuples)) == before
            assert r1 is not r2 and i1 is not i2
            return [r1, i1, d1, r2, i2, d2, r1 == r2, i1 == i2, d1 == d2]
        both(name + " nomut", nomut)


# ---------------------------------------------------------------- run the suites
for curve in ("bn128", "bls12_381"):
    P = field_properties[curve]["field_modulus"]
    suite(curve + "_FQ2", 2, P, rng, 24, curve + "_FQ")
    suite(curve + "_FQ12", 12, P, rng, 8, curve + "_FQ")
print("big curves done", CHECKS, round(time.time() - T0, 1))

# exhaustive GF(p^2)
for p in (2, 3, 5, 7):
    name = "gf%d_2" % p
    allel = list(itertools.product(range(p), repeat=2))
    for a in allel:
        reduced(both(name + " inv", lambda ns: ns[name](a).inv()), p)
        both(name + " x*inv", lambda ns: ns[name](a) * ns[name](a).inv())
        for s in range(-p - 1, 2 * p + 2):
            reduced(both(name + " /int", lambda ns: ns[name](a) / s), p)
        for b in allel:
            reduced(both(name + " div", lambda ns: ns[name](a) / ns[name](b)), p)
            both(name + " (x/y)*y", lambda ns: (ns[name](a) / ns[name](b)) * ns[name](b))
    suite(name, 2, p, rng, 6, "gf%d_FQ" % p)
print("GF(p^2) done", CHECKS, round(time.time() - T0, 1))

# degree-12 extensions of small fields: all unary for GF(2), sampled otherwise
for p in (2, 3, 5, 7, 11):
    name = "gf%d_12" % p
    if p == 2:
        unary = list(itertools.product(range(2), repeat=12))
    else:
        unary = [tuple(rng.randrange(p) for _ in range(12)) for _ in range(800)]
    for a in unary:
        reduced(both(name + " inv", lambda ns: ns[name](a).inv()), p)
        both(name + " x*inv", lambda ns: ns[name](a) * ns[name](a).inv())
        both(name + " /int", lambda ns: ns[name](a) / (sum(a) - 5))
    for _ in range(800):
        a, b = rng.choice(unary), rng.choice(unary)
        reduced(both(name + " div", lambda ns: ns[name](a) / ns[name](b)), p)
        both(name + " (x/y)*y", lambda ns: (ns[name](a) / ns[name](b)) * ns[name](b))
    suite(name, 12, p, rng, 6, "gf%d_FQ" % p)
suite("gf11_2", 2, 11, rng, 6, "gf11_FQ")
# GF(13^3): every element
for a in itertools.product(range(13), repeat=3):
    reduced(both("Gen3 inv", lambda ns: ns["Gen3"](list(a)).inv()), 13)
    both("Gen3 x*inv", lambda ns: ns["Gen3"](list(a)) * ns["Gen3"](list(a)).inv())
    both("Gen3 /int", lambda ns: ns["Gen3"](list(a)) / (a[0] - 6))
print("small extensions done", CHECKS, round(time.time() - T0, 1))

# optimized_poly_rounded_div called directly: well-formed and malformed polynomials
POLYS = [
    [], [0], [1], [5], [0, 0], [0, 1], [1, 0], [3, 4], [0, 0, 0], [1, 2, 3], [0, 0, 7],
    [7, 0, 0], [1, 2, 3, 4, 5], [0, 0, 0, 0, 1], [10, 10, 10, 10], [-1, -2, -3], [11, 22, 33],
    [12, 0, 13], (1, 2, 3), (0, 5), [True, False, True], [1.5, 2], [2, 1.5], [0, "x"], ["x"],
    ["x", 0], [None], [1, None], [None, 1], [1, 2, "3"], ["3", 2, 1], [0, 0, "y"], [b"1", 1],
    [2 + 0j, 1], [1, [2]],
]
for _ in range(60):
    POLYS.append([rng.randrange(-20, 40) for _ in range(rng.randrange(1, 8))])
for hold, hname in (("gf11_2", "gf11"), ("gf7_12", "gf7"), ("bn128_FQ2", "bn128"), ("Gen3", "gf13")):
    for a in POLYS:
        for b in POLYS:
            def prd(ns, a=a, b=b):
                h = ns[hold]([1] * ns[hold].degree)
                ca, cb = list(a) if isinstance(a, list) else a, list(b) if isinstance(b, list) else b
                r = h.optimized_poly_rounded_div(ca, cb)
                assert list(ca) == list(a) and list(cb) == list(b)  # arguments untouched
                return r
            both("prd %s %r %r" % (hname, a, b), prd)
    # polynomials with FQ entries
    fq = {"gf11_2": "gf11_FQ", "gf7_12": "gf7_FQ", "bn128_FQ2": "bn128_FQ", "Gen3": "gf11_FQ"}[hold]
    for a in POLYS[:20]:
        for b in POLYS[:20]:
            def prdfq(ns, a=a, b=b):
                h = ns[hold]([1] * ns[hold].degree)
                return h.optimized_poly_rounded_div([ns[fq](x) for x in a], [ns[fq](x) for x in b])
            both("prdfq %s %r %r" % (hname, a, b), prdfq)

            def prdmix(ns, a=a, b=b):
                h = ns[hold]([1] * ns[hold].degree)
                return h.optimized_poly_rounded_div(list(a), [ns[fq](x) for x in b])
            both("prdmix %s %r %r" % (hname, a, b), prdmix)
print("poly_rounded_div done", CHECKS, round(time.time() - T0, 1))

# generic FQP shapes: degree 1..4, malformed coefficients / modulus coefficients
for coeffs, mc in [
    ([], []),
    ([4], [3]),
    ([4], [0]),
    ([0], [3]),
    ([1, 2, 3], [2, 0, 1]),
    ([10, 10, 10], [1, 1, 1]),
    ([0, 0, 0], [1, 1, 1]),
    ([1, 2, 3, 4], [2, 0, 0, 0]),
    ([1, 2, 3], [2, 0]),
    ([1, 2], [1.5, 2]),
    ([1, 2], ["a", "b"]),
    ([1, 2], [None, 1]),
    ([1], ["a"]),
    ([1.5, 2], [1, 2]),
    (["a", 2], [1, 2]),
    ([None, 2], [1, 2]),
    ([2, "a"], [1, 2]),
    (["7", "8"], [1, 2]),
]:
    for k, op in enumerate([
        lambda x: x.inv(),
        lambda x: x / 3,
        lambda x: x / 0,
        lambda x: x / -4,
        lambda x: x / x,
        lambda x: x ** 5,
        lambda x: x / 2.5,
        lambda x: x / None,
    ]):
        both("GenP %r %r op%d" % (coeffs, mc, k), lambda ns: op(ns["GenP"](coeffs, mc)))

both("no modulus", lambda ns: ns["GenP"].__mro__[1]([1, 2], [1, 0]) / 2)
both("FQ2 no coeffs", lambda ns: ns["bn128_FQ2"].__mro__[1]([1, 2]).inv())

# call histories: repeat and interleave calls with equal and different arguments
script = []
for rnd in range(4):
    for curve in ("bn128", "bls12_381"):
        for name, n in ((curve + "_FQ2", 2), (curve + "_FQ12", 12)):
            P = field_properties[curve]["field_modulus"]
            for _ in range(5):
                script.append((name, [rng.randrange(P) for _ in range(n)], rng.choice([3, -1, P + 2, 0])))
script = script + script[::-1] + script[::3]


def run_script(ns):
    out = []
    kept = {}
    for name, a, s in script:
        x = kept.setdefault((name, tuple(a)), ns[name](a))  # same object reused later
        out.append([x.inv(), x / s, x / x, ns[name].one() / x, x.inv() * x == ns[name].one()])
    return out


r = both("history", run_script)
res = r[1][1:]
half = len(script) // 1
first = {}
for (name, a, s), item in zip(script, res):
    key = (name, tuple(a), s)
    assert first.setdefault(key, item) == item  # equal arguments -> equal results, any history

print("exception classes seen (identically on both sides):", EXC)
print("OK: %d comparisons identical in %.1fs" % (CHECKS, time.time() - T0))
