import os, sys; sys.path.insert(0, os.getcwd())  # noqa: E401,E702

"""
Equivalence demonstration for twin q1 of property C09.

Loads the pristine py_ecc/bls/g2_primitives.py and py_ecc/bls/ciphersuites.py
(saved under ./pristine/) next to the edited ones of the working tree and checks
that SkToPk / Sign / PopProve / Aggregate / _CoreSign / G1_to_pubkey /
G2_to_signature return equal values of equal type and raise exceptions of the
same class (and message) on a broad set of valid, boundary and malformed inputs,
also when calls are repeated and interleaved.
"""
import importlib
import importlib.util
import random
import time

HERE = os.path.dirname(os.path.abspath(__file__))
PRISTINE = os.path.join(HERE, "pristine")

T0 = time.time()

import py_ecc.bls  # noqa: E402  (the edited tree)
from py_ecc.bls import ciphersuites as new_cs  # noqa: E402
from py_ecc.bls import g2_primitives as new_g2p  # noqa: E402

assert os.path.realpath(new_cs.__file__).startswith(os.path.realpath(os.getcwd())), (
    new_cs.__file__
)


def _load(name, filename):
    spec = importlib.util.spec_from_file_location(
        "py_ecc.bls." + name, os.path.join(PRISTINE, filename)
    )
    mod = importlib.util.module_from_spec(spec)
    sys.modules["py_ecc.bls." + name] = mod
    spec.loader.exec_module(mod)
    return mod


old_g2p = _load("pristine_g2_primitives", "g2_primitives.py")
# the pristine ciphersuites must bind the pristine g2_primitives: swap it in
# sys.modules only while the pristine ciphersuites module body is executed
_saved = sys.modules["py_ecc.bls.g2_primitives"]
sys.modules["py_ecc.bls.g2_primitives"] = old_g2p
try:
    old_cs = _load("pristine_ciphersuites", "ciphersuites.py")
finally:
    sys.modules["py_ecc.bls.g2_primitives"] = _saved

assert old_cs.G2_to_signature is old_g2p.G2_to_signature
assert old_cs.G1_to_pubkey is old_g2p.G1_to_pubkey
assert new_cs.G2_to_signature is new_g2p.G2_to_signature
assert new_cs.G2_to_signature is not old_g2p.G2_to_signature
assert not hasattr(old_g2p, "_words_to_octets") and hasattr(new_g2p, "_words_to_octets")
assert not hasattr(old_cs.BaseG2Ciphersuite, "_sign_point")
assert hasattr(new_cs.BaseG2Ciphersuite, "_sign_point")

from py_ecc.optimized_bls12_381 import (  # noqa: E402
    G1,
    G2,
    Z1,
    Z2,
    add,
    curve_order,
    multiply,
    neg,
)
from py_ecc.fields import (  # noqa: E402
    optimized_bls12_381_FQ as FQ,
    optimized_bls12_381_FQ2 as FQ2,
)

N_CHECKS = 0


def outcome(f, *args):
    try:
        r = f(*args)
        return ("ok", type(r).__name__, r)
    except BaseException as e:  # noqa: B902
        return ("exc", type(e).__name__, str(e))


def same(label, f_old, f_new, *args):
    global N_CHECKS
    a = outcome(f_old, *args)
    b = outcome(f_new, *args)
    if a != b:
        print("MISMATCH", label, repr(args)[:200])
        print("  pristine:", repr(a)[:300])
        print("  edited  :", repr(b)[:300])
        sys.exit(1)
    N_CHECKS += 1
    return a


SUITES = ["G2Basic", "G2MessageAugmentation", "G2ProofOfPossession"]
rng = random.Random(0xC09)

# ---------------------------------------------------------------- SkToPk
valid_sks = [1, 2, 3, curve_order - 1, curve_order - 2, 2**254, 2**32 + 1, True]
valid_sks += [rng.randrange(1, curve_order) for _ in range(6)]
invalid_sks = [
    0, -1, curve_order, curve_order + 1, 2 * curve_order, 2**256, False,
    1.0, "1", None, b"\x01", [1], (1,), 1 + 0j,
]
for name in SUITES:
    o, n = getattr(old_cs, name), getattr(new_cs, name)
    for sk in valid_sks[:6] if name != "G2Basic" else valid_sks:
        r = same(name + ".SkToPk", o.SkToPk, n.SkToPk, sk)
        assert r[0] == "ok" and r[1] == "bytes" and len(r[2]) == 48
    for sk in invalid_sks:
        r = same(name + ".SkToPk invalid", o.SkToPk, n.SkToPk, sk)
        assert r[0] == "exc", (sk, r)

# ---------------------------------------------------------------- encoders
g1_points = [Z1, G1, neg(G1), multiply(G1, 5), multiply(G1, curve_order - 1)]
g1_points.append((FQ(0), FQ(1), FQ(0)))  # infinity
g1_points.append((FQ(5), FQ(7), FQ(0)))  # another representative of infinity
for k in (2, 3, 12345, curve_order - 1):
    x, y, z = multiply(G1, 7)
    g1_points.append((x * k, y * k, z * k))  # projective representatives
g1_points.append((FQ(1), FQ(1), FQ(1)))  # off curve (compress_G1 does not check)
g1_points.append((FQ(0), FQ(2), FQ(1)))  # x == 0
for pt in g1_points:
    same("G1_to_pubkey", old_g2p.G1_to_pubkey, new_g2p.G1_to_pubkey, pt)
for bad in [None, (), (1, 2, 3), (FQ(1), FQ(2)), "abc", 7, multiply(G2, 3)]:
    same("G1_to_pubkey bad", old_g2p.G1_to_pubkey, new_g2p.G1_to_pubkey, bad)

g2_points = [Z2, G2, neg(G2), multiply(G2, 5), multiply(G2, curve_order - 1)]
g2_points.append((FQ2([1, 0]), FQ2([1, 0]), FQ2([0, 0])))
for k in (2, 3, 12345, curve_order - 1):
    x, y, z = multiply(G2, 7)
    g2_points.append((x * k, y * k, z * k))
    kk = FQ2([k, 3])
    g2_points.append((x * kk, y * kk, z * kk))
g2_points.append((FQ2([1, 1]), FQ2([1, 1]), FQ2([1, 0])))  # off curve -> ValueError
g2_points.append((FQ2([0, 0]), FQ2([0, 0]), FQ2([0, 0])))
for pt in g2_points:
    same("G2_to_signature", old_g2p.G2_to_signature, new_g2p.G2_to_signature, pt)
for bad in [None, (), (1, 2, 3), (FQ2([1, 0]), FQ2([1, 0])), "abc", 7, multiply(G1, 3)]:
    same("G2_to_signature bad", old_g2p.G2_to_signature, new_g2p.G2_to_signature, bad)

# the inverse direction and the remaining public names are untouched objects
for nm in ("signature_to_G2", "pubkey_to_G1", "subgroup_check"):
    for enc in (b"\xc0" + b"\x00" * 47, b"\x00" * 48, b"\xc0" + b"\x00" * 95, b""):
        same(nm, getattr(old_g2p, nm), getattr(new_g2p, nm), enc)

# ---------------------------------------------------------------- Sign / PopProve
messages = [b"", b"\x00", b"abc", b"\xff" * 48, bytes(range(256)) * 4]
sign_sks = [1, curve_order - 1, valid_sks[-1]]
bad_messages = ["abc", None, bytearray(b"abc"), memoryview(b"abc"), 5, [b"a"]]
signatures = {}
for name in SUITES:
    o, n = getattr(old_cs, name), getattr(new_cs, name)
    for sk in sign_sks:
        for msg in messages if sk == sign_sks[-1] else messages[:2]:
            r = same(name + ".Sign", o.Sign, n.Sign, sk, msg)
            assert r[0] == "ok" and r[1] == "bytes" and len(r[2]) == 96
            signatures[(name, sk, msg)] = r[2]
    for sk in invalid_sks:
        r = same(name + ".Sign bad sk", o.Sign, n.Sign, sk, b"abc")
        assert r[0] == "exc"
    for msg in bad_messages:
        # (the augmentation suite accepts bytes-like: PK + bytearray is bytes)
        r = same(name + ".Sign bad msg", o.Sign, n.Sign, 5, msg)
        assert r[0] == "exc" or name == "G2MessageAugmentation"
    # both invalid: the secret-key check must still come first
    r = same(name + ".Sign both bad", o.Sign, n.Sign, 0, None)
    assert r[0] == "exc"
    # _CoreSign directly, with foreign tags, including one that is too long
    for dst in (b"", b"X", o.DST, b"Q" * 255, b"Q" * 256, "not-bytes", None):
        same(name + "._CoreSign", o._CoreSign, n._CoreSign, 7, b"msg", dst)
    same(name + "._CoreSign bad", o._CoreSign, n._CoreSign, 0, "m", b"Q" * 256)

o, n = old_cs.G2ProofOfPossession, new_cs.G2ProofOfPossession
proofs = []
for sk in sign_sks + [2]:
    r = same("PopProve", o.PopProve, n.PopProve, sk)
    assert r[0] == "ok" and len(r[2]) == 96
    proofs.append(r[2])
for sk in invalid_sks:
    same("PopProve bad", o.PopProve, n.PopProve, sk)

# suite constants
for name in SUITES:
    assert getattr(old_cs, name).DST == getattr(new_cs, name).DST
assert old_cs.G2ProofOfPossession.POP_TAG == new_cs.G2ProofOfPossession.POP_TAG

# ---------------------------------------------------------------- Aggregate
sigs = list(signatures.values())
s1, s2, s3 = sigs[0], sigs[1], sigs[2]
inf_sig = b"\xc0" + b"\x00" * 95
neg_s1 = new_g2p.G2_to_signature(neg(new_g2p.signature_to_G2(s1)))
undecodable = b"\x00" * 96  # c_flag not set -> ValueError when decoded
not_on_curve = None
for i in range(1, 50):
    cand = bytes([0x80]) + b"\x00" * 46 + bytes([i]) + b"\x00" * 48
    if outcome(new_g2p.signature_to_G2, cand)[0] == "exc":
        not_on_curve = cand
        break
assert not_on_curve is not None
x_too_big = b"\x9f" + b"\xff" * 95


class Seq:
    """A user-defined Sequence-like container (len + iteration)."""

    def __init__(self, items):
        self.items = list(items)

    def __len__(self):
        return len(self.items)

    def __iter__(self):
        return iter(self.items)


aggregate_inputs = [
    [], (), [s1], (s1,), [s1, s2], [s2, s1], [s1, s1], [s1, s2, s3], tuple(sigs[:5]),
    sigs, [s1, neg_s1], [neg_s1, s1, s2], [inf_sig], [inf_sig, inf_sig], [inf_sig, s1],
    [s1, inf_sig], proofs, Seq([s1, s2]), Seq([]), {s1, s2}, {s1: 1},
    # malformed members
    [s1[:95]], [s1 + b"\x00"], [b""], [s1, b""], [bytearray(s1)], [s1, None], [None],
    ["x" * 96], [12], [s1, memoryview(s2)],
    [undecodable], [s1, undecodable], [undecodable, s1],
    [not_on_curve], [s1, not_on_curve], [x_too_big],
    # a decodable-failing member before a validation-failing one: validation of
    # ALL members must still come before any decoding
    [undecodable, s1[:95]], [not_on_curve, None], [s1, undecodable, b""],
    # not sequences at all
    None, 5, s1, iter([s1]), (s for s in [s1]), "abc", b"",
]
for name in SUITES:
    o, n = getattr(old_cs, name), getattr(new_cs, name)
    for inp in aggregate_inputs:
        if name != "G2Basic" and isinstance(inp, (list, tuple)) and len(inp) > 3:
            continue
        if hasattr(inp, "__next__"):
            # one-shot iterators: give each side its own
            a = outcome(o.Aggregate, iter([s1]))
            b = outcome(n.Aggregate, iter([s1]))
            assert a == b, (a, b)
            N_CHECKS += 1
            continue
        same(name + ".Aggregate", o.Aggregate, n.Aggregate, inp)

# arguments are not mutated
lst = [s1, s2, s3]
new_cs.G2Basic.Aggregate(lst)
assert lst == [s1, s2, s3]

# ---------------------------------------------------------------- call histories
# repeat and interleave calls with equal and different arguments; every answer
# must equal the answer recorded the first time, for both versions
history = []
calls = []
for name in SUITES:
    calls.append((name, "SkToPk", (sign_sks[2],)))
    calls.append((name, "Sign", (sign_sks[2], b"abc")))
    calls.append((name, "Aggregate", ([s1, s2],)))
    calls.append((name, "Aggregate", ([],)))
    calls.append((name, "Sign", (0, b"abc")))
calls.append(("G2ProofOfPossession", "PopProve", (2,)))
first = {}
for round_ in range(2):
    order = list(range(len(calls)))
    rng.shuffle(order)
    for i in order:
        name, meth, args = calls[i]
        r = same(
            "history " + name + "." + meth,
            getattr(getattr(old_cs, name), meth),
            getattr(getattr(new_cs, name), meth),
            *args,
        )
        if i in first:
            assert first[i] == r, (calls[i], first[i], r)
        else:
            first[i] = r

# signatures made by one version verify under the other, and module constants
# are unchanged after all of the above
assert new_cs.G2Basic.Verify(
    old_cs.G2Basic.SkToPk(sign_sks[2]),
    b"abc",
    old_cs.G2Basic.Sign(sign_sks[2], b"abc"),
)
from py_ecc.optimized_bls12_381 import Z2 as Z2_after  # noqa: E402

assert Z2_after is Z2 and Z2 == (FQ2.one(), FQ2.one(), FQ2.zero())
assert new_g2p.COMPRESSED_WORD_OCTETS == 48

print("q1 equivalent on %d comparisons in %.1fs" % (N_CHECKS, time.time() - T0))
