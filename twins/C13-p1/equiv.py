import os, sys; sys.path.insert(0, os.getcwd())  # noqa: E702

# Equivalence demonstration for C13/p1: secp256k1 jacobian_double / jacobian_add with
# ``**`` replaced by plain products and z**2 shared between z**2 and z**3 (z**4).
# Compares the edited module (imported from the current directory) against the pristine
# copy saved next to this script.
import importlib.util
import random

HERE = os.path.dirname(os.path.abspath(__file__))

import py_ecc.secp256k1.secp256k1 as new  # noqa: E402

assert os.path.abspath(new.__file__).startswith(os.getcwd()), new.__file__

spec = importlib.util.spec_from_file_location(
    "pristine_secp256k1", os.path.join(HERE, "pristine", "secp256k1.py")
)
old = importlib.util.module_from_spec(spec)
spec.loader.exec_module(old)

P, N = old.P, old.N
assert (new.P, new.N, new.A, new.B, new.G) == (old.P, old.N, old.A, old.B, old.G)
CONSTS = (new.P, new.N, new.A, new.B, new.G)

rng = random.Random(0xC13)
checked = 0


def run(f, *args):
    try:
        return ("ok", f(*args))
    except Exception as e:  # noqa: BLE001
        return ("exc", type(e))


def same(name, *args):
    global checked
    a = run(getattr(old, name), *args)
    b = run(getattr(new, name), *args)
    if a != b or (a[0] == "ok" and type(a[1]) is not type(b[1])):
        print("MISMATCH", name, args, a, b)
        sys.exit(1)
    if a[0] == "ok" and isinstance(a[1], tuple):
        if [type(c) for c in a[1]] != [type(c) for c in b[1]]:
            print("TYPE MISMATCH", name, args, a, b)
            sys.exit(1)
    checked += 1
    return a


def affine_point():
    while True:
        x = rng.randrange(P)
        y2 = (x**3 + 7) % P
        y = pow(y2, (P + 1) // 4, P)
        if y * y % P == y2:
            return (x, y if rng.random() < 0.5 else P - y)


def rep(pt, lam, shift=False):
    # Jacobian representative (lam^2 x, lam^3 y, lam z), optionally unreduced/negative
    x, y = pt
    o = [(x * lam * lam) % P, (y * lam**3) % P, lam % P]
    if shift:
        o = [c + rng.choice([-3, -1, 0, 1, 2, 5]) * P for c in o]
    return tuple(o)


BOUND = [0, 1, 2, 3, P - 1, P, P + 1, 2 * P, -1, -P, -P - 1, 2**256, 2**256 - 1,
         2**512 + 7, N, N - 1, True, False]


def rand_coord():
    r = rng.random()
    if r < 0.3:
        return rng.choice(BOUND)
    if r < 0.6:
        return rng.randrange(P)
    if r < 0.8:
        return rng.randrange(-(2**300), 2**300)
    return rng.randrange(0, 8)


# 1. arbitrary triples (not necessarily on the curve): formal identity, all branches
triples = [(a, b, c) for a in BOUND[:10] for b in BOUND[:10] for c in BOUND[:10]]
for _ in range(3000):
    triples.append((rand_coord(), rand_coord(), rand_coord()))
for t in triples:
    same("jacobian_double", t)
for _ in range(6000):
    same("jacobian_add", rng.choice(triples), rng.choice(triples))
for t in triples[:1500]:
    same("jacobian_add", t, t)

# 2. curve points in many representatives: generic add, doubling through add,
#    inverse points, identity operands (every y == 0 marker, incl. (0,0,0), (0,0,1))
pts = [affine_point() for _ in range(25)] + [old.G]
identities = [(0, 0, 0), (0, 0, 1), (5, 0, 7), (P - 1, 0, 0), (1, False, 1), (3, 0, P)]
oddities = [(1, P, 1), (old.Gx, old.Gy + P, 1), (old.Gx, -old.Gy, 1), (0, 2 * P, 3)]
for a in pts:
    for lam in [1, 2, P - 1, rng.randrange(1, P), rng.randrange(1, P)]:
        for shift in (False, True):
            ra = rep(a, lam, shift)
            same("jacobian_double", ra)
            same("from_jacobian", ra)
            mu = rng.randrange(1, P)
            # same point, other representative -> doubling via add
            r1 = same("jacobian_add", ra, rep(a, mu, shift))
            r2 = same("jacobian_double", rep(a, mu))
            if r1[0] == "ok" and r1[1][2] % P:
                assert new.from_jacobian(r1[1]) == new.from_jacobian(r2[1])
            # inverse point
            na = (a[0], (-a[1]) % P)
            same("jacobian_add", ra, rep(na, mu, shift))
            same("jacobian_add", rep(na, mu, shift), ra)
            # generic
            b = rng.choice(pts)
            rb = rep(b, mu, shift)
            same("jacobian_add", ra, rb)
            same("jacobian_add", rb, ra)
            for i in identities + oddities:
                same("jacobian_add", ra, i)
                same("jacobian_add", i, ra)
for i in identities + oddities:
    same("jacobian_double", i)
    for j in identities + oddities:
        same("jacobian_add", i, j)

# 3. result is independent of representative and equals the affine law (new module)
def affine_add(a, b):
    if a is None:
        return b
    if b is None:
        return a
    if a[0] == b[0]:
        if (a[1] + b[1]) % P == 0:
            return None
        m = 3 * a[0] * a[0] * pow(2 * a[1], -1, P) % P
    else:
        m = (b[1] - a[1]) * pow(b[0] - a[0], -1, P) % P
    x = (m * m - a[0] - b[0]) % P
    return (x, (m * (a[0] - x) - a[1]) % P)


for _ in range(150):
    a, b = rng.choice(pts), rng.choice(pts)
    la, lb = rng.randrange(1, P), rng.randrange(1, P)
    for f in (old, new):
        r = f.jacobian_add(rep(a, la, True), rep(b, lb, True))
        want = affine_add(a, b)
        if want is None:
            assert r[1] % P == 0 or r[2] % P == 0
        else:
            assert f.from_jacobian(r) == want, (a, b)
        assert f.from_jacobian(f.jacobian_double(rep(a, la, True))) == affine_add(a, a)

# 4. malformed inputs: same exception classes
bad = [None, (), (1,), (1, 2), (1, None, 3), (None, 2, 3), (1, 2, None), ("a", 2, 3),
       (1, 2, "z"), (1, "y", 3), ([1], 2, 3), (1, 2, [3]), [1, 2, 3], (1, 2, 3, 4),
       "abc", 7, (1.5, 2, 3)]
for x in bad:
    same("jacobian_double", x)
    for y in bad + [(1, 2, 3), (0, 0, 0)]:
        same("jacobian_add", x, y)
        same("jacobian_add", y, x)

# 5. callers: multiply / add / jacobian_multiply / ecdsa, with repeated and
#    interleaved calls (the edit keeps no state; results must be history-free)
scalars = [0, 1, 2, 3, N - 1, N, N + 1, -1, -5, 2**256, rng.randrange(N), rng.randrange(N)]
hist = []
for k in scalars:
    hist.append(("multiply", (old.G, k)))
    hist.append(("jacobian_multiply", ((old.Gx, old.Gy, 1), k)))
    hist.append(("jacobian_multiply", (rep(pts[0], 12345), k)))
    hist.append(("jacobian_multiply", ((0, 0, 0), k)))
for a in pts[:6]:
    for b in pts[:6]:
        hist.append(("add", (a, b)))
    hist.append(("add", (a, (a[0], P - a[1]))))
    hist.append(("add", (a, (0, 0))))
    hist.append(("add", ((0, 0), a)))
first = {}
seq = hist + hist[::-1] + rng.sample(hist, len(hist))
for name, args in seq:
    r = same(name, *args)
    key = (name, repr(args))
    assert first.setdefault(key, r) == r, "result depends on call history"
for i in range(6):
    priv = bytes([i + 1]) * 32
    msg = bytes([7 * i + 3]) * 32
    sig = same("ecdsa_raw_sign", msg, priv)
    same("ecdsa_raw_recover", msg, sig[1])
    same("privtopub", priv)
    assert new.ecdsa_raw_recover(msg, sig[1]) == new.privtopub(priv)

assert CONSTS == (new.P, new.N, new.A, new.B, new.G), "module constants mutated"
print("OK: %d comparisons identical" % checked)
