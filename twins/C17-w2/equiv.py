import os, sys; sys.path.insert(0, os.getcwd())  # noqa: E401,E702

"""
Equivalence demonstration for twin w2 (property C17).

Loads the pristine copy of py_ecc/optimized_bls12_381/optimized_curve.py (saved
under /tmp/twin6/C17/w2/pristine/) next to the edited module of the current
working tree and checks that the recursive and the iterative `multiply` return
identical projective triples (same coordinates, not merely the same group
element) / raise identical exception classes, for many points and multipliers,
and that everything built on it (subgroup_check, cofactor clearing) agrees too.
"""

import importlib.util
import inspect
import random
import time

T0 = time.time()
HERE = os.path.dirname(os.path.abspath(__file__))
PRISTINE = os.path.join(HERE, "pristine")

import py_ecc  # noqa: E402

assert os.path.abspath(py_ecc.__file__).startswith(os.getcwd()), py_ecc.__file__

from py_ecc.bls.constants import G2_COFACTOR  # noqa: E402
from py_ecc.bls.g2_primitives import subgroup_check  # noqa: E402
from py_ecc.bls.hash_to_curve import clear_cofactor_G1, clear_cofactor_G2  # noqa: E402
from py_ecc.bls.point_compression import modular_squareroot_in_FQ2  # noqa: E402
from py_ecc.fields import (  # noqa: E402
    optimized_bls12_381_FQ as FQ,
    optimized_bls12_381_FQ2 as FQ2,
    optimized_bls12_381_FQ12 as FQ12,
)
from py_ecc.optimized_bls12_381 import optimized_curve as new  # noqa: E402
from py_ecc.optimized_bls12_381 import (  # noqa: E402
    multiply_clear_cofactor_G1,
    multiply_clear_cofactor_G2,
)
from py_ecc.optimized_bls12_381.constants import H_EFF_G1, H_EFF_G2  # noqa: E402
import py_ecc.optimized_bls12_381 as pkg  # noqa: E402

name = "py_ecc.optimized_bls12_381._pristine_optimized_curve"
spec = importlib.util.spec_from_file_location(
    name, os.path.join(PRISTINE, "optimized_curve.py")
)
old = importlib.util.module_from_spec(spec)
sys.modules[name] = old
spec.loader.exec_module(old)

# sanity: which is which, and nothing but `multiply` differs
assert "multiply(double(pt)" in inspect.getsource(old.multiply)
assert "multiply(double(pt)" not in inspect.getsource(new.multiply)
assert pkg.multiply is new.multiply
for fn in ("is_inf", "is_on_curve", "double", "add", "eq", "normalize", "neg", "twist"):
    assert inspect.getsource(getattr(old, fn)) == inspect.getsource(getattr(new, fn)), fn

G1, G2, G12, Z1, Z2 = new.G1, new.G2, new.G12, new.Z1, new.Z2
b, b2, curve_order, q = new.b, new.b2, new.curve_order, new.field_modulus
CHECKS = 0


def same(a, c):
    """Exact sameness: same types, same structure, same field values."""
    if type(a) is not type(c):
        return False
    if isinstance(a, (tuple, list)):
        return len(a) == len(c) and all(same(x, y) for x, y in zip(a, c))
    if a != a and c != c:  # nan
        return True
    return a == c


def outcome(f, *args):
    try:
        return ("ok", f(*args))
    except RecursionError:
        return ("exc", RecursionError)
    except Exception as e:  # noqa: BLE001
        return ("exc", type(e))


def check(label, f_old, f_new, *args):
    global CHECKS
    o = outcome(f_old, *args)
    n = outcome(f_new, *args)
    if o[0] != n[0] or not (same(o[1], n[1]) if o[0] == "ok" else o[1] is n[1]):
        print("MISMATCH", label, str(o)[:300], str(n)[:300])
        sys.exit(1)
    CHECKS += 1
    return n


def check_mul(label, P, n):
    return check("multiply %s" % label, old.multiply, new.multiply, P, n)


# ---------------------------------------------------------------- constants
X = -0xD201000000010000
H1 = (X - 1) ** 2 // 3
H2 = G2_COFACTOR
assert curve_order == X**4 - X**2 + 1 and H_EFF_G1 == 1 - X
assert H2 == (X**8 - 4 * X**7 + 5 * X**6 - 4 * X**4 + 6 * X**3 - 4 * X**2 - 4 * X + 13) // 9
assert H_EFF_G2 == H2 * (3 * X**2 - 3)
H1_FACTORS = [(3, 1), (11, 2), (10177, 2), (859267, 2), (52437899, 2)]
H2_SMALL = [(13, 2), (23, 2), (2713, 1), (11953, 1), (262069, 1)]
_t = 1
for p_, e_ in H2_SMALL:
    _t *= p_**e_
assert H2 % _t == 0
H2_FACTORS = H2_SMALL + [(H2 // _t, 1)]

# ---------------------------------------------------------------- inputs
rng = random.Random(0xC17 + 2)


def rand_E1():
    while True:
        x = FQ(rng.randrange(q))
        rhs = x**3 + b
        y = rhs ** ((q + 1) // 4)
        if y * y == rhs:
            pt = (x, -y if rng.random() < 0.5 else y, FQ(1))
            assert new.is_on_curve(pt, b)
            return pt


def rand_E2():
    while True:
        x = FQ2((rng.randrange(q), rng.randrange(q)))
        y = modular_squareroot_in_FQ2(x**3 + b2)
        if y is not None:
            pt = (x, -y if rng.random() < 0.5 else y, FQ2.one())
            assert new.is_on_curve(pt, b2)
            return pt


def rescale(pt, lam):
    return tuple(c * lam for c in pt)


def exact_order_point(rand_pt, h, p_):
    """A point of exact prime order p_ (p_ a prime factor of the cofactor h)."""
    e = 0
    while h % p_ ** (e + 1) == 0:
        e += 1
    while True:
        T = old.multiply(rand_pt(), curve_order * (h // p_**e))
        if old.is_inf(T):
            continue
        while not old.is_inf(old.multiply(T, p_)):
            T = old.multiply(T, p_)
        return T


# inputs are built with the PRISTINE multiply only
small_1 = [(p_, exact_order_point(rand_E1, H1, p_)) for p_ in (3, 11)]
small_2 = [(p_, exact_order_point(rand_E2, H2, p_)) for p_ in (13, 23)]
tors_1 = [old.multiply(rand_E1(), curve_order * (H1 // p_**e_)) for p_, e_ in H1_FACTORS[2:]]
tors_1.append(old.multiply(rand_E1(), curve_order))
tors_2 = [old.multiply(rand_E2(), curve_order * (H2 // p_**e_)) for p_, e_ in H2_FACTORS[2:]]
tors_2.append(old.multiply(rand_E2(), curve_order))

points_1 = [Z1, (FQ(0), FQ(0), FQ(0)), (FQ(5), FQ(0), FQ(0)), G1, new.neg(G1)]
points_1 += [old.multiply(G1, k) for k in (2, curve_order - 1, rng.randrange(curve_order))]
points_1 += [T for _, T in small_1] + tors_1
points_1 += [old.add(old.multiply(G1, rng.randrange(1, curve_order)), T) for T in tors_1[-2:]]
points_1 += [old.add(G1, small_1[0][1]), rand_E1(), rand_E1()]
points_1 += [rescale(P, FQ(rng.randrange(1, q))) for P in points_1[3::3]]

points_2 = [Z2, (FQ2.zero(),) * 3, (FQ2((5, 1)), FQ2.zero(), FQ2.zero()), G2, new.neg(G2)]
points_2 += [old.multiply(G2, k) for k in (2, curve_order - 1, rng.randrange(curve_order))]
points_2 += [T for _, T in small_2] + tors_2
points_2 += [old.add(old.multiply(G2, rng.randrange(1, curve_order)), T) for T in tors_2[-2:]]
points_2 += [old.add(G2, small_2[0][1]), rand_E2()]
points_2 += [rescale(P, FQ2((rng.randrange(q), rng.randrange(1, q)))) for P in points_2[3::3]]

off_curve = [
    (FQ(1), FQ(2), FQ(1)),
    (FQ(0), FQ(0), FQ(1)),
    (FQ(7), FQ(0), FQ(1)),  # y == 0
    (FQ2((1, 2)), FQ2((3, 4)), FQ2.one()),
    (FQ2((1, 2)), FQ2.zero(), FQ2.one()),
]
odd_repr = [list(G1), list(G2), (G1[0], G1[1], 1), (1.5, 2.5, 1.0), (2.0, 3.0, 0.0)]

BIG = [
    curve_order - 1, curve_order, curve_order + 1, 2 * curve_order, H_EFF_G1, H_EFF_G2,
    H1, H2, curve_order * H1, q, 2**255, 2**255 - 1, 2**256 + 1,
]
BIG += [rng.getrandbits(k) | 1 << (k - 1) for k in (64, 128, 255, 381, 640)]

# ---------------------------------------------------------------- multiply
# 1. every small multiplier on small-order points, identity, generators
for P in [Z1, (FQ(0), FQ(0), FQ(0)), G1, Z2, G2] + [T for _, T in small_1 + small_2]:
    for n in range(0, 50):
        check_mul("small n=%d" % n, P, n)
for p_, T in small_1 + small_2:
    for n in (p_ - 1, p_, p_ + 1, 2 * p_, p_ * p_, 2**p_, 2**p_ - 1, curve_order, H_EFF_G1):
        r = check_mul("order-%d point n=%d" % (p_, n), T, n)
        assert r[0] == "ok" and new.is_inf(r[1]) == (n % p_ == 0)
    assert not subgroup_check(T)

# 2. big multipliers on all points
for i, P in enumerate(points_1):
    for n in BIG if i % 4 == 0 else BIG[:4]:
        check_mul("E1 #%d n~2^%d" % (i, n.bit_length()), P, n)
for i, P in enumerate(points_2):
    for n in BIG if i % 6 == 0 else BIG[:3] + BIG[5:6]:
        check_mul("E2 #%d n~2^%d" % (i, n.bit_length()), P, n)
for i, P in enumerate(off_curve + odd_repr):
    for n in (0, 1, 2, 3, 6, 7, 255, 256, curve_order, H_EFF_G1):
        check_mul("odd #%d n=%d" % (i, n), P, n)

# 3. powers of two and neighbours, many random multipliers
for k in range(1, 70):
    for n in (2**k - 1, 2**k, 2**k + 1):
        check_mul("2^k", G1, n)
    check_mul("2^k", G2, 2**k + 1)
for _ in range(150):
    check_mul("rand", points_1[rng.randrange(len(points_1))], rng.getrandbits(rng.randrange(1, 300)))
for _ in range(50):
    check_mul("rand", points_2[rng.randrange(len(points_2))], rng.getrandbits(rng.randrange(1, 300)))

# 4. FQ12 points share the code
P12 = new.twist(old.multiply(G2, 3))
for n in (0, 1, 2, 3, 5, 8, 13, 1000003):
    check_mul("FQ12", G12, n)
    check_mul("FQ12", P12, n)
assert isinstance(P12[0], FQ12)

# 5. unusual multipliers: bools, floats, negatives, wrong types
nan, inf = float("nan"), float("inf")
WEIRD = [
    True, False, 0.0, 1.0, 2.0, 3.0, 6.0, 7.0, 0.5, 1.5, 2.5, 7.25, 1e3, 2.0**70, 1e30,
    nan, inf, -inf, -1, -2, -3, -7, -8, -1.0, -2.0, -0.5, -2.5, -(2**70), -curve_order,
    None, "3", b"3", [3], (3,), 3 + 0j, FQ(3), FQ2((3, 0)),
]
# py_ecc/__init__ raises the interpreter's recursion limit to 100000; a negative
# multiplier makes the recursive version descend all the way to that limit
# (about 6 s per call) before it fails with RecursionError, so most of the
# negative cases are run under a lower limit, and two under the library default.
LIB_LIMIT = sys.getrecursionlimit()
assert LIB_LIMIT >= 100000
sys.setrecursionlimit(1500)
try:
    for P in (G1, Z1, small_1[0][1], G2, list(G1), None, (G1[0], G2[1], G1[2]), (), (FQ(1),), "abc", 5):
        for n in WEIRD:
            check_mul("weird n=%r" % (n,), P, n)
finally:
    sys.setrecursionlimit(LIB_LIMIT)
assert check_mul("negative, library limit", G1, -1) == ("exc", RecursionError)
assert check_mul("negative, library limit", Z1, -6) == ("exc", RecursionError)
for P in (None, (), (FQ(1),), (FQ(1), FQ(2)), (FQ(1),) * 4, "abc", 5, (None, None, None),
          (G1[0], G2[1], G1[2]), (G1[0], G1[1], None)):
    for n in (0, 1, 2, 3, curve_order):
        check_mul("malformed point", P, n)
check("no args", old.multiply, new.multiply)
check("one arg", old.multiply, new.multiply, G1)
check("three args", old.multiply, new.multiply, G1, 2, 3)

# 6. very long multipliers. The recursive version needs one stack frame per bit
# and is therefore limited by the interpreter's recursion limit (100000 with
# py_ecc imported); within the limit both return the very same triple. (Beyond
# it -- multipliers of more than ~100000 bits -- the recursive version cannot
# answer at all and the iterative one still does; that is not checked here.)
n900 = rng.getrandbits(900) | 1 << 899
check_mul("900 bits", G1, n900)
n3000 = rng.getrandbits(3000) | 1 << 2999
check_mul("3000 bits", G1, n3000)
check_mul("3000 bits", small_1[1][1], n3000)
check_mul("2^2500", G2, 2**2500)

# 7. arguments are not mutated, nothing is remembered between calls
lst = list(G1)
new.multiply(lst, curve_order - 1)
assert same(lst, list(G1))
assert same(new.G1, old.G1) and same(new.G2, old.G2) and same(new.Z1, old.Z1) and same(new.Z2, old.Z2)
pool = [(G1, 5), (G1, 6), (small_1[0][1], 3), (small_1[0][1], 4), (G2, curve_order),
        (Z1, 9), (tors_2[0], H_EFF_G2), (G1, -1), (None, 2), (G1, 5)]
first = {}
sys.setrecursionlimit(1500)  # see section 5: keeps the (G1, -1) entry cheap
try:
    for step in range(80):
        i = rng.randrange(len(pool))
        r = check_mul("history", *pool[i])
        if i in first:
            assert r[0] == first[i][0] and (same(r[1], first[i][1]) if r[0] == "ok" else r[1] is first[i][1])
        else:
            first[i] = r
finally:
    sys.setrecursionlimit(LIB_LIMIT)
assert len(first) == len(pool)

# ------------------------------------------------- users of multiply (C17)
def old_subgroup_check(P):
    return old.is_inf(old.multiply(P, curve_order))


n_true = n_false = 0
small_2_pts = [T for _, T in small_2]
for P in points_1 + points_2[::2] + small_2_pts + off_curve + [G12, new.twist(small_2[0][1])]:
    r = check("subgroup_check", old_subgroup_check, subgroup_check, P)
    n_true += r == ("ok", True)
    n_false += r == ("ok", False)
assert n_true >= 10 and n_false >= 12, (n_true, n_false)
for P in points_1 + off_curve[:3]:
    check("clear G1", lambda p: old.multiply(p, H_EFF_G1), multiply_clear_cofactor_G1, P)
    r = check("clear G1", lambda p: old.multiply(p, H_EFF_G1), clear_cofactor_G1, P)
    if P in points_1:
        assert subgroup_check(r[1])
for P in points_2[1::2] + tors_2 + off_curve[3:]:
    check("clear G2", lambda p: old.multiply(p, H_EFF_G2), multiply_clear_cofactor_G2, P)
    r = check("clear G2", lambda p: old.multiply(p, H_EFF_G2), clear_cofactor_G2, P)
    if P in points_2:
        assert subgroup_check(r[1])

print("w2 equivalence OK: %d comparisons (subgroup_check True/False %d/%d), %.1fs"
      % (CHECKS, n_true, n_false, time.time() - T0))
