from py_ecc.fields import (
    optimized_bls12_381_FQ as FQ,
    optimized_bls12_381_FQ2 as FQ2,
    optimized_bls12_381_FQ12 as FQ12,
    optimized_bls12_381_FQP as FQP,
)
from py_ecc.fields.field_properties import (
    field_properties,
)
from py_ecc.typing import (
    Optimized_Field,
    Optimized_Point2D,
    Optimized_Point3D,
)

field_modulus = field_properties["bls12_381"]["field_modulus"]
curve_order = (
    52435875175126190479447740508185965837690552500527637822603658699938581184513
)

# Curve order should be prime
if not pow(2, curve_order, curve_order) == 2:
    raise ValueError("Curve order is not prime")
# Curve order should be a factor of field_modulus**12 - 1
if not (field_modulus**12 - 1) % curve_order == 0:
    raise ValueError("Curve order is not a factor of field_modulus**12 - 1")

# Curve is y**2 = x**3 + 4
b = FQ(4)
# Twisted curve over FQ**2
b2 = FQ2((4, 4))
# Extension curve over FQ**12; same b value as over FQ
b12 = FQ12((4,) + (0,) * 11)

# Generator for curve over FQ
G1 = (
    FQ(
        3685416753713387016781088315183077757961620795782546409894578378688607592378376318836054947676345821548104185464507  # noqa: E501
    ),
    FQ(
        1339506544944476473020471379941921221584933875938349620426543736416511423956333506472724655353366534992391756441569  # noqa: E501
    ),
    FQ(1),
)
# Generator for twisted curve over FQ2
G2 = (
    FQ2(
        (
            352701069587466618187139116011060144890029952792775240219908644239793785735715026873347600343865175952761926303160,  # noqa: E501
            3059144344244213709971259814753781636986470325476647558659373206291635324768958432433509563104347017837885763365758,  # noqa: E501
        )
    ),
    FQ2(
        (
            1985150602287291935568054521177171638300868978215655730859378665066344726373823718423869104263333984641494340347905,  # noqa: E501
            927553665492332455747201965776037880757740193453592970025027978793976877002675564980949289727957565575433344219582,  # noqa: E501
        )
    ),
    FQ2.one(),
)
# Point at infinity over FQ
Z1 = (FQ.one(), FQ.one(), FQ.zero())
# Point at infinity for twisted curve over FQ2
Z2 = (FQ2.one(), FQ2.one(), FQ2.zero())


# Check if a point is the point at infinity
def is_inf(pt: Optimized_Point3D[Optimized_Field]) -> bool:
    return pt[-1] == pt[-1].__class__.zero()


# Check that a point is on the curve defined by y**2 == x**3 + b
def is_on_curve(pt: Optimized_Point3D[Optimized_Field], b: Optimized_Field) -> bool:
    if is_inf(pt):
        return True
    x, y, z = pt
    return y**2 * z - x**3 == b * z**3


if not is_on_curve(G1, b):
    raise ValueError("Generator is not on curve")
if not is_on_curve(G2, b2):
    raise ValueError("Generator is not on twisted curve")


# Elliptic curve doubling
def double(
    pt: Optimized_Point3D[Optimized_Field],
) -> Optimized_Point3D[Optimized_Field]:
    x, y, z = pt
    W = 3 * x * x
    S = y * z
    B = x * y * S
    H = W * W - 8 * B
    S_squared = S * S
    newx = 2 * H * S
    newy = W * (4 * B - H) - 8 * y * y * S_squared
    newz = 8 * S * S_squared
    return (newx, newy, newz)


# Elliptic curve addition
def add(
    p1: Optimized_Point3D[Optimized_Field], p2: Optimized_Point3D[Optimized_Field]
) -> Optimized_Point3D[Optimized_Field]:
    one, zero = p1[0].one(), p1[0].zero()
    if p1[2] == zero or p2[2] == zero:
        return p1 if p2[2] == zero else p2
    x1, y1, z1 = p1
    x2, y2, z2 = p2
    U1 = y2 * z1
    U2 = y1 * z2
    V1 = x2 * z1
    V2 = x1 * z2
    if V1 == V2 and U1 == U2:
        return double(p1)
    elif V1 == V2:
        return (one, one, zero)
    U = U1 - U2
    V = V1 - V2
    V_squared = V * V
    V_squared_times_V2 = V_squared * V2
    V_cubed = V * V_squared
    W = z1 * z2
    A = U * U * W - V_cubed - 2 * V_squared_times_V2
    newx = V * A
    newy = U * (V_squared_times_V2 - A) - V_cubed * U2
    newz = V_cubed * W
    return (newx, newy, newz)


# Elliptic curve point multiplication
def multiply(
    pt: Optimized_Point3D[Optimized_Field], n: int
) -> Optimized_Point3D[Optimized_Field]:
    if n == 0:
        return (pt[0].one(), pt[0].one(), pt[0].zero())
    elif n == 1:
        return pt
    elif not n % 2:
        return multiply(double(pt), n // 2)
    else:
        return add(multiply(double(pt), int(n // 2)), pt)


def eq(
    p1: Optimized_Point3D[Optimized_Field], p2: Optimized_Point3D[Optimized_Field]
) -> bool:
    x1, y1, z1 = p1
    x2, y2, z2 = p2
    # The cross-multiplied test is vacuous when a z coordinate is zero (e.g. for the
    # representative (0, 0, 0) of infinity), so decide infinity operands first.
    if is_inf(p1) or is_inf(p2):
        return is_inf(p1) and is_inf(p2)
    return x1 * z2 == x2 * z1 and y1 * z2 == y2 * z1


def normalize(
    pt: Optimized_Point3D[Optimized_Field],
) -> Optimized_Point2D[Optimized_Field]:
    x, y, z = pt
    return (x / z, y / z)


# "Twist" a point in E(FQ2) into a point in E(FQ12)
w = FQ12([0, 1] + [0] * 10)


# Convert P => -P
def neg(pt: Optimized_Point3D[Optimized_Field]) -> Optimized_Point3D[Optimized_Field]:
    x, y, z = pt
    return (x, -y, z)


def twist(pt: Optimized_Point3D[FQP]) -> Optimized_Point3D[FQ12]:
    _x, _y, _z = pt
    # Field isomorphism from Z[p] / x**2 to Z[p] / x**2 - 2*x + 2
    xcoeffs = [_x.coeffs[0] - _x.coeffs[1], _x.coeffs[1]]
    ycoeffs = [_y.coeffs[0] - _y.coeffs[1], _y.coeffs[1]]
    zcoeffs = [_z.coeffs[0] - _z.coeffs[1], _z.coeffs[1]]
    nx = FQ12([0] + [xcoeffs[0]] + [0] * 5 + [xcoeffs[1]] + [0] * 4)
    ny = FQ12([ycoeffs[0]] + [0] * 5 + [ycoeffs[1]] + [0] * 5)
    nz = FQ12([0] * 3 + [zcoeffs[0]] + [0] * 5 + [zcoeffs[1]] + [0] * 2)
    return (nx, ny, nz)


# Check that the twist creates a point that is on the curve
G12 = twist(G2)
if not is_on_curve(G12, b12):
    raise ValueError("Twist creates a point not on curve")
