import os, sys; sys.path.insert(0, os.getcwd())
"""
Equivalence demonstration for a behaviour-preserving edit of
py_ecc/secp256k1/secp256k1.py.

Loads the pristine copy (saved next to this script under pristine/) and the
edited file of the working tree (current directory) as two independent module
objects and checks that every function returns values that are equal AND of the
same type / representation, or raises an exception of the same class, on

  * the real secp256k1 constants: curve points, P == Q, Q == -P, identity
    operands, unreduced coordinates, random Jacobian representatives, the
    scalar set {0, 1, 2, N-1, N, N+1, 2N+k, -1, -k, random up to 512 bits},
    bools, integral / non-integral / nan / inf floats, malformed points;
  * the same code with the module constants P, N, A, B, Gx, Gy, G replaced by
    small prime-order curves (A == 0 and A != 0), exhaustively over every pair
    of points and every scalar in a window around [-2N, 3N];
  * repeated and interleaved call sequences (no state may leak between calls);
  * ECDSA sign / recover, which sit on top of the same routines.
"""
import importlib.util
import itertools
import math
import random

HERE = os.path.dirname(os.path.abspath(__file__))
REL = os.path.join("py_ecc", "secp256k1", "secp256k1.py")


def load(name, path):
    spec = importlib.util.spec_from_file_location(name, path)
    mod = importlib.util.module_from_spec(spec)
    spec.loader.exec_module(mod)
    return mod


OLD = load("secp_pristine", os.path.join(HERE, "pristine", "secp256k1.py"))
NEW = load("secp_edited", os.path.join(os.getcwd(), REL))
assert os.path.realpath(NEW.__file__) != os.path.realpath(OLD.__file__)
with open(OLD.__file__) as f1, open(NEW.__file__) as f2:
    assert f1.read() != f2.read(), "edited file is identical to the pristine one"

# the package in the working tree must be the edited file as well
import py_ecc.secp256k1.secp256k1 as PKG  # noqa: E402

assert os.path.realpath(PKG.__file__) == os.path.realpath(NEW.__file__), PKG.__file__

CHECKS = 0
FAILS = []


def canon(v):
    """value together with the exact type structure (nan compares equal to nan)"""
    if isinstance(v, (tuple, list)):
        return (type(v).__name__, tuple(canon(x) for x in v))
    if isinstance(v, float) and math.isnan(v):
        return ("float", "nan")
    if isinstance(v, float):
        return ("float", repr(v))
    return (type(v).__name__, v if isinstance(v, (int, bytes, str, type(None))) else repr(v))


def run(mod, fname, args):
    try:
        return ("ok", canon(getattr(mod, fname)(*args)))
    except RecursionError:
        return ("exc", "RecursionError")
    except Exception as e:  # noqa: BLE001
        return ("exc", type(e).__name__)


def same(fname, *args):
    global CHECKS
    CHECKS += 1
    a = run(OLD, fname, args)
    b = run(NEW, fname, args)
    if a != b:
        FAILS.append((fname, args, a, b))
        if len(FAILS) < 10:
            print("MISMATCH", fname, args, a, b)
    return a


def identity_preserved(fname, *args):
    """where the pristine code hands back one of its arguments, so must the edit"""
    global CHECKS
    CHECKS += 1
    try:
        ro = getattr(OLD, fname)(*args)
        rn = getattr(NEW, fname)(*args)
    except Exception:  # noqa: BLE001
        return
    for x in args:
        if (ro is x) != (rn is x):
            FAILS.append((fname + ":is", args, ro is x, rn is x))


def set_consts(mod, p, n, a, b, g):
    mod.P, mod.N, mod.A, mod.B = p, n, a, b
    mod.Gx, mod.Gy = g
    mod.G = g


REAL = (OLD.P, OLD.N, OLD.A, OLD.B, OLD.G)
assert REAL == (NEW.P, NEW.N, NEW.A, NEW.B, NEW.G)
assert (PKG.P, PKG.N, PKG.A, PKG.B, PKG.G) == REAL
assert type(NEW.G) is type(OLD.G) and canon(NEW.G) == canon(OLD.G)
P, N, A, B, G = REAL
rng = random.Random(0xC18)

# --------------------------------------------------------------------------
# 1. real curve
# --------------------------------------------------------------------------
INF = (0, 0)
ks = [1, 2, 3, 4, 5, 7, N - 1, N - 2, (N + 1) // 2, rng.randrange(N), rng.randrange(N)]
pts = [OLD.multiply(G, k) for k in ks]
neg = lambda pt: (pt[0], (-pt[1]) % P)  # noqa: E731
points = [INF] + pts + [neg(pts[0]), neg(pts[3])]

scalars = [0, 1, 2, 3, 4, N - 1, N, N + 1, 2 * N, 2 * N + 5, 2 * N + 12345, 3 * N - 1,
           -1, -2, -5, -N, -N - 1, -N + 1, -2 * N - 7, 2**256, 2**256 - 1, 2**255,
           2**512 - 1, -(2**300), P, P - 1]
scalars += [rng.getrandbits(b) for b in (8, 64, 128, 255, 256, 257, 384, 512)]
scalars += [-rng.getrandbits(b) for b in (64, 256, 512)]
odd_scalars = [True, False, 2.0, 3.0, 1.0, 0.0, 2.5, -1.0, 1e20, float("nan"),
               float("inf"), -float("inf"), None, "3", 7.75, 6.0]

for pt in points:
    for n in scalars:
        same("multiply", pt, n)
    for n in odd_scalars:
        same("multiply", pt, n)
        same("jacobian_multiply", OLD.to_jacobian(pt), n)
for pt, q in itertools.product(points, repeat=2):
    same("add", pt, q)
    same("jacobian_add", OLD.to_jacobian(pt), OLD.to_jacobian(q))

# lists, unreduced and negative coordinates, bool / float coordinates, malformed
weird_pts = [
    list(pts[0]), [0, 0], (pts[1][0] + P, pts[1][1] + 3 * P), (pts[2][0] - P, pts[2][1] - P),
    (pts[0][0], pts[0][1] + P), (pts[0][0] + P, (-pts[0][1]) % P - P),
    (0, P), (P, 0), (P, P), (5, 0), (0, 5), (1, 1), (2, 3), (True, True), (False, False), (True, False),
    (1.0, 2.0), (1.5, 2.5), (3, 2.0), (0.0, 0.0), (1, float("nan")), (float("nan"), 1),
    (1,), (), (1, 2, 3), (1, 2, 3, 4), None, 5, "ab", (None, None), (1, None), (None, 1),
    ("a", "b"), (pts[0][0], -pts[0][1]),
]
for w in weird_pts:
    for n in [0, 1, 2, 3, 5, N, N + 2, -1, -3, rng.getrandbits(256), True, 2.0, 2.5]:
        same("multiply", w, n)
    for q in [INF, pts[0], pts[1], w]:
        same("add", w, q)
        same("add", q, w)

# Jacobian representatives (random z, z unreduced, z = 0, z = P, negative z)
def rep(pt, z):
    return (pt[0] * z * z % P, pt[1] * z**3 % P, z)


def rep_unreduced(pt, z):
    return (pt[0] * z * z, pt[1] * z**3, z)


jac = []
for pt in pts[:6] + [neg(pts[0])]:
    jac.append(OLD.to_jacobian(pt))
    for z in (1, 2, P - 1, rng.randrange(2, P), P + 1, -3, 2 * P + 7):
        jac.append(rep(pt, z))
    jac.append(rep_unreduced(pt, rng.randrange(2, 2**40)))
jac += [(0, 0, 0), (0, 0, 1), (0, 0, 5), (1, 0, 1), (5, 0, 0), (0, 5, 1), (7, 11, 0), (7, 11, P),
        (1, 1, 1), (3, 0, 2), (0, P, 1), (P, P, P), [pts[0][0], pts[0][1], 1], (True, True, True),
        (1, 2, 1.0), (1.5, 2.5, 1), (1, 2, 2.0), (1, 2), (1,), (), (1, 2, 3, 4), (1, 2, 1, 9),
        (1, 2, True), (4, 5, None), (None, 5, 1), (4, None, 1), None, (1, 2, float("nan")),
        (2, 3, -1), (2, 3, 1 - P), (2, 3, 1 + P)]
for j in jac:
    same("jacobian_double", j)
    same("from_jacobian", j)
    identity_preserved("from_jacobian", j)
    for n in [0, 1, 2, 3, 6, 7, N - 1, N, N + 1, -1, -4, rng.getrandbits(300), 2.0, True]:
        same("jacobian_multiply", j, n)
        identity_preserved("jacobian_multiply", j, n)
for j, k in itertools.product(jac, repeat=2):
    same("jacobian_add", j, k)
    identity_preserved("jacobian_add", j, k)

# malformed triples: the order in which TypeError / IndexError surface must not change
bad = [(1, 2), (1, "a"), (1, "a", 1), ("a", 2, 1), (1, 2, "a"), (1, 2, None), (None, 2, 1), (1, [2], 1),
       (1, 2, [1]), ("%d", 1, 1), ("a", "b"), (1, 2, 1), (3, 4, 5), [1, 2], (1, 2.5, 1), (1, 2, 1.5)]
for j, k in itertools.product(bad, repeat=2):
    same("jacobian_add", j, k)
for j in bad:
    same("jacobian_double", j)
    same("from_jacobian", j)
    for n in [0, 1, 2, 3, 5, -1, N + 3, "3", None, 2.5, float("nan"), 1e30, -0.25, 1e-20, -1e-20, [1]]:
        same("jacobian_multiply", j, n)

# scalars whose descent touches every branch: all n in a window, powers of two +-1
for n in list(range(-40, 300)) + [2**k + d for k in range(2, 260, 7) for d in (-1, 0, 1)]:
    same("jacobian_multiply", jac[1], n)
    same("jacobian_multiply", jac[1], N + n)
    same("jacobian_multiply", jac[1], -N * 3 + n)
    same("multiply", pts[4], n)
for n in [float(k) for k in range(0, 40)] + [k + 0.5 for k in range(0, 12)] + [float(N), float(2**300), -3.0]:
    same("jacobian_multiply", jac[1], n)

# inv and the helpers the anchors name
for a in [0, 1, 2, -1, P - 1, P, P + 1, 2 * P, -P, N, rng.randrange(P), rng.getrandbits(300),
          True, False, 0.0, 1.0, 2.0, None, "a"]:
    for n in [P, N, 2, 3, 1, 7, 97, 0, -5]:
        same("inv", a, n)
for pt in points + weird_pts:
    same("to_jacobian", pt)

# privtopub (bytes, unreduced > N, zero, short/long, malformed)
privs = [b"\x00" * 32, b"\x00" * 31 + b"\x01", b"\x00" * 31 + b"\x02", b"\xff" * 32, b"\xff" * 64, b"",
         b"\x07", N.to_bytes(32, "big"), (N - 1).to_bytes(32, "big"), (N + 1).to_bytes(32, "big"),
         (2 * N + 9).to_bytes(33, "big"), bytes(rng.getrandbits(8) for _ in range(32)),
         bytes(rng.getrandbits(8) for _ in range(64)), bytearray(b"\x01\x02"), [1, 2, 3], "abc", 5, None,
         [256, -1]]
for pk in privs:
    same("privtopub", pk)
    same("bytes_to_int", pk)

# group-law sanity on the edited module alone (affine textbook law)
def affine_add(p1, p2, prime, a):
    if p1 == (0, 0):
        return p2
    if p2 == (0, 0):
        return p1
    (x1, y1), (x2, y2) = p1, p2
    if x1 == x2 and (y1 + y2) % prime == 0:
        return (0, 0)
    if p1 == p2:
        lam = (3 * x1 * x1 + a) * pow(2 * y1, -1, prime) % prime
    else:
        lam = (y2 - y1) * pow(x2 - x1, -1, prime) % prime
    x3 = (lam * lam - x1 - x2) % prime
    return (x3, (lam * (x1 - x3) - y1) % prime)


for pt, q in itertools.product(points, repeat=2):
    CHECKS += 1
    if NEW.add(pt, q) != affine_add(pt, q, P, A):
        FAILS.append(("textbook add", pt, q))

# --------------------------------------------------------------------------
# 2. repeated / interleaved call sequences (no hidden state)
# --------------------------------------------------------------------------
calls = []
for _ in range(150):
    kind = rng.choice(["multiply", "add", "privtopub", "jacobian_multiply"])
    if kind == "multiply":
        calls.append((kind, (rng.choice(points), rng.choice(scalars))))
    elif kind == "add":
        calls.append((kind, (rng.choice(points), rng.choice(points))))
    elif kind == "privtopub":
        calls.append((kind, (rng.choice(privs[:12]),)))
    else:
        calls.append((kind, (rng.choice(jac[:40]), rng.choice(scalars))))
first = [same(f, *a) for f, a in calls]
order = list(range(len(calls)))
rng.shuffle(order)
for i in order + order[::-1]:
    f, a = calls[i]
    r = same(f, *a)
    CHECKS += 1
    if r != first[i]:
        FAILS.append(("history", f, a))
assert (NEW.P, NEW.N, NEW.A, NEW.B, NEW.G) == REAL, "module constants were mutated"

# --------------------------------------------------------------------------
# 3. ECDSA on top
# --------------------------------------------------------------------------
for i in range(6):
    msg = bytes(rng.getrandbits(8) for _ in range(32))
    priv = bytes(rng.getrandbits(8) for _ in range(32))
    sig = same("ecdsa_raw_sign", msg, priv)
    vrs = OLD.ecdsa_raw_sign(msg, priv)
    same("ecdsa_raw_recover", msg, vrs)
    same("ecdsa_raw_recover", msg, (vrs[0] ^ 3, vrs[1], vrs[2]))
    same("ecdsa_raw_recover", msg, (vrs[0], vrs[1], N - vrs[2]))
    same("ecdsa_raw_recover", msg, (vrs[0], 0, vrs[2]))
    same("ecdsa_raw_recover", msg, (vrs[0], vrs[1], 0))
    same("ecdsa_raw_recover", msg, (29, vrs[1], vrs[2]))
    CHECKS += 1
    if NEW.ecdsa_raw_recover(msg, vrs) != NEW.privtopub(priv):
        FAILS.append(("recover != pub", msg))

# --------------------------------------------------------------------------
# 4. small prime-order curves swapped in for the module constants
# --------------------------------------------------------------------------
def is_prime(m):
    return m > 1 and all(m % d for d in range(2, int(m**0.5) + 1))


def small_curves():
    out = []
    wanted_a0, wanted_a = 3, 4
    for p in [q for q in range(7, 200) if is_prime(q)]:
        for a in sorted({0, 1, 2, p - 3}):
            for b in range(1, p):
                if (4 * a**3 + 27 * b * b) % p == 0:
                    continue
                aff = [(x, y) for x in range(p) for y in range(p)
                       if (y * y - x**3 - a * x - b) % p == 0]
                order = len(aff) + 1
                if not is_prime(order) or (0, 0) in aff:
                    continue
                if a == 0 and wanted_a0:
                    wanted_a0 -= 1
                elif a != 0 and wanted_a:
                    wanted_a -= 1
                else:
                    continue
                out.append((p, order, a, b, aff))
                break
        if not wanted_a0 and not wanted_a:
            break
    return out


curves = small_curves()
assert len(curves) >= 5, curves
try:
    for (p, order, a, b, aff) in curves:
        g = aff[len(aff) // 2]
        for m in (OLD, NEW):
            set_consts(m, p, order, a, b, g)
        allpts = [(0, 0)] + aff
        for pt, q in itertools.product(allpts, repeat=2):
            r = same("add", pt, q)
            CHECKS += 1
            if r != ("ok", canon(affine_add(pt, q, p, a))):
                FAILS.append(("small textbook add", p, a, b, pt, q, r))
            same("jacobian_add", (pt[0], pt[1], 1), (q[0], q[1], 1))
        window = list(range(-2 * order - 2, 3 * order + 3)) + [rng.getrandbits(512), -rng.getrandbits(200)]
        for pt in allpts:
            acc = {}
            for n in window:
                r = same("multiply", pt, n)
                acc[n] = r
            # n * P == (n mod N) * P and textbook repeated addition
            cur = (0, 0)
            for k in range(order):
                CHECKS += 1
                if acc[k] != ("ok", canon(cur)) or acc[k - order] != acc[k] or acc[k + order] != acc[k]:
                    FAILS.append(("small multiply", p, a, b, pt, k))
                cur = affine_add(cur, pt, p, a)
        # every Jacobian representative of every point (when the field is tiny)
        if p <= 31:
            reps = [(x * z * z % p, y * z**3 % p, z) for (x, y) in aff for z in range(1, p)]
            reps += [(0, 0, 0), (0, 0, 1), (1, 0, 1), (0, 0, 2)]
            for j in reps:
                same("from_jacobian", j)
                same("jacobian_double", j)
                for n in (0, 1, 2, 3, order - 1, order, order + 1, -1):
                    same("jacobian_multiply", j, n)
            sub = reps[:: max(1, len(reps) // 120)]
            for j, k in itertools.product(sub, repeat=2):
                same("jacobian_add", j, k)
        for d in range(0, 2 * order + 2):
            same("privtopub", d.to_bytes(2, "big"))
finally:
    for m in (OLD, NEW):
        set_consts(m, *REAL)

same("multiply", G, 12345)
print("curves used (p, order, a, b):", [(c[0], c[1], c[2], c[3]) for c in curves])
print("checks:", CHECKS, "mismatches:", len(FAILS))
if FAILS:
    for f in FAILS[:20]:
        print("  ", f)
    sys.exit(1)
print("EQUIVALENT")
