import os, sys; sys.path.insert(0, os.getcwd())  # noqa: E401,E702

"""
Equivalence demonstration for p1 (bounded memo in hash_to_G2).

Run as:  cd /tmp/wt2/C01 && /venv/bin/python /tmp/twin2/C01/p1/equiv.py

Loads the pristine hash_to_curve.py / ciphersuites.py (saved next to this script) under
other module names inside the py_ecc.bls package and compares them with the edited
tree on results and exception classes, including call sequences that repeat, interleave
and overflow the memo table.
"""
import hashlib
import importlib.util
import random
import time

HERE = os.path.dirname(os.path.abspath(__file__))
T0 = time.time()


def load(name, filename):
    spec = importlib.util.spec_from_file_location(
        "py_ecc.bls." + name, os.path.join(HERE, "pristine", filename)
    )
    mod = importlib.util.module_from_spec(spec)
    sys.modules["py_ecc.bls." + name] = mod
    spec.loader.exec_module(mod)
    return mod


import py_ecc.bls.ciphersuites as new_cs  # noqa: E402
import py_ecc.bls.hash_to_curve as new_h2c  # noqa: E402
from py_ecc.optimized_bls12_381 import curve_order as r  # noqa: E402

assert os.path.realpath(new_h2c.__file__).startswith(os.path.realpath(os.getcwd()))
assert hasattr(new_h2c, "_hash_to_G2_memo"), "edited tree expected (p1 applied)"

old_h2c = load("_pristine_hash_to_curve", "hash_to_curve.py")
old_cs = load("_pristine_ciphersuites", "ciphersuites.py")
assert not hasattr(old_h2c, "_hash_to_G2_memo")
# the pristine ciphersuites must use the pristine hash_to_G2
old_cs.hash_to_G2 = old_h2c.hash_to_G2
assert new_cs.hash_to_G2 is new_h2c.hash_to_G2

checks = 0


def canon(v):
    """Exact (representative-level) canonical form of a result."""
    if isinstance(v, tuple):
        return tuple(canon(x) for x in v)
    if hasattr(v, "coeffs"):
        return (type(v).__name__, tuple(int(c) for c in v.coeffs))
    if hasattr(v, "n") and not isinstance(v, int):
        return (type(v).__name__, int(v.n))
    return (type(v).__name__, v)


def outcome(f, *a):
    try:
        return ("ok", canon(f(*a)))
    except BaseException as e:  # noqa: B902
        return ("exc", type(e).__name__)


def same(fnew, fold, *a, expect=None):
    global checks
    n = outcome(fnew, *a)
    o = outcome(fold, *a)
    assert n == o, (fnew, a, n, o)
    if expect is not None:
        assert n == expect, (fnew, a, n, expect)
    checks += 1
    return n


sha256 = hashlib.sha256
DST_B = new_cs.G2Basic.DST
DST_A = new_cs.G2MessageAugmentation.DST
DST_P = new_cs.G2ProofOfPossession.DST
POP = new_cs.G2ProofOfPossession.POP_TAG
rnd = random.Random(20260930)

# --------------------------------------------------------------------------
# A. hash_to_G2 directly
# --------------------------------------------------------------------------
pristine_value = {}


def old_hash(msg, dst, h):
    """pristine is stateless: compute once per distinct (hashable) input."""
    try:
        k = (type(msg), bytes(msg), type(dst), bytes(dst), h)
        hash(k)
    except TypeError:
        return outcome(old_h2c.hash_to_G2, msg, dst, h)
    if k not in pristine_value:
        pristine_value[k] = outcome(old_h2c.hash_to_G2, msg, dst, h)
    return pristine_value[k]


def same_hash(msg, dst, h):
    global checks
    n = outcome(new_h2c.hash_to_G2, msg, dst, h)
    o = old_hash(msg, dst, h)
    assert n == o, (msg, dst, h, n, o)
    checks += 1
    return n


# pristine really is stateless / deterministic
a = outcome(old_h2c.hash_to_G2, b"abc", DST_B, sha256)
b = outcome(old_h2c.hash_to_G2, b"abc", DST_B, sha256)
assert a == b and a[0] == "ok"

msgs = [
    b"",
    b"\x00",
    b"a",
    b"a" * 55,
    b"a" * 56,
    b"a" * 63,
    b"a" * 64,
    b"a" * 65,
    bytes(range(256)),
    rnd.randbytes(3 * 1024 + 7),
]
for m in msgs:
    first = same_hash(m, DST_B, sha256)
    # hit path: repeated call returns an equal value
    assert same_hash(m, DST_B, sha256) == first
# interleave: same message under other DSTs, then the first DST again
for m in msgs[:2]:
    vals = [same_hash(m, d, sha256) for d in (DST_A, POP, DST_B, DST_P, DST_A, DST_B)]
    assert vals[0] == vals[4] and vals[2] == vals[5]
    assert len({vals[0], vals[1], vals[2], vals[3]}) == 4
# message/DST boundary must not be confused: (m + d) split differently
assert same_hash(b"ab", b"c", sha256) != same_hash(b"a", b"bc", sha256)
assert same_hash(b"", b"abc", sha256) != same_hash(b"abc", b"", sha256)
assert same_hash(b"ab", b"c", sha256) == same_hash(b"ab", b"c", sha256)

# inputs that bypass the memo, interleaved with equal-valued bytes inputs
m0 = b"bypass me"
ref = same_hash(m0, DST_B, sha256)
assert same_hash(bytearray(m0), DST_B, sha256) == ref
assert same_hash(m0, bytearray(DST_B), sha256) == ref
assert same_hash(memoryview(m0), DST_B, sha256)[0] in ("ok", "exc")


class MyBytes(bytes):
    pass


assert same_hash(MyBytes(m0), DST_B, sha256) == ref
assert same_hash(m0, MyBytes(DST_B), sha256) == ref
for h in (hashlib.sha512,):
    v = same_hash(m0, DST_B, h)
    assert v != ref
    assert same_hash(m0, DST_B, h) == v
    # and the sha256 entry is not disturbed by the other hash functions
    assert same_hash(m0, DST_B, sha256) == ref
# a python-level wrapper around sha256 is a different object -> general path
assert same_hash(m0, DST_B, lambda *x: hashlib.sha256(*x)) == ref

# malformed inputs: same exception classes, and nothing is cached for them
size_before = len(new_h2c._hash_to_G2_memo)
for bad in [
    (b"m", b"d" * 256, sha256),
    (b"m", b"d" * 255, sha256),
    ("text", DST_B, sha256),
    (None, DST_B, sha256),
    (5, DST_B, sha256),
    (b"m", "dst", sha256),
    (b"m", None, sha256),
    (b"m", DST_B, None),
    (b"m", DST_B, 7),
    ([1, 2], DST_B, sha256),
]:
    x = same_hash(*bad)
    y = same_hash(*bad)
    assert x == y
assert same_hash(b"m", b"d" * 256, sha256) == ("exc", "ValueError")
assert same_hash("text", DST_B, sha256) == ("exc", "TypeError")
assert len(new_h2c._hash_to_G2_memo) == size_before + 1  # only the 255-byte DST

# overflow the table: many distinct inputs, then revisit evicted and resident ones
LIMIT = new_h2c._HASH_TO_G2_MEMO_SIZE
resident = len(new_h2c._hash_to_G2_memo)
assert 0 < resident < LIMIT
oldest = next(iter(new_h2c._hash_to_G2_memo))
assert oldest == (b"", DST_B)
# enough new inputs to push out every entry made so far plus four of the new ones
many = [b"overflow-" + i.to_bytes(2, "big") for i in range(LIMIT + 4)]
# (to keep the runtime down, pristine is consulted for a third of the fill and for
# every revisited input; the rest is checked by the final resident-entry sample)
firsts = [
    same_hash(m, b"EVICT", sha256)
    if i % 3 == 0
    else outcome(new_h2c.hash_to_G2, m, b"EVICT", sha256)
    for i, m in enumerate(many)
]
assert len(new_h2c._hash_to_G2_memo) <= LIMIT
assert oldest not in new_h2c._hash_to_G2_memo
assert (many[0], b"EVICT") not in new_h2c._hash_to_G2_memo
assert (many[-1], b"EVICT") in new_h2c._hash_to_G2_memo
order = [0, 1, LIMIT, LIMIT + 3, 0, 3, 3, LIMIT + 3]
for i in order:
    assert same_hash(many[i], b"EVICT", sha256) == firsts[i]
    assert len(new_h2c._hash_to_G2_memo) <= LIMIT
assert len(set(firsts)) == len(firsts)
# early entries survive the churn unchanged
for m in msgs[:3]:
    same_hash(m, DST_B, sha256)
# every resident entry is exactly what pristine computes (sample)
for (m, d), pt in rnd.sample(sorted(new_h2c._hash_to_G2_memo.items(), key=str), 3):
    assert ("ok", canon(pt)) == outcome(old_h2c.hash_to_G2, m, d, sha256)
    checks += 1
print("A done: %d checks, %.1fs" % (checks, time.time() - T0))

# --------------------------------------------------------------------------
# B. the three ciphersuites (property C01)
# --------------------------------------------------------------------------
suites = [
    (new_cs.G2Basic, old_cs.G2Basic),
    (new_cs.G2MessageAugmentation, old_cs.G2MessageAugmentation),
    (new_cs.G2ProofOfPossession, old_cs.G2ProofOfPossession),
]
sks = [1, 2, r - 2, r - 1, rnd.getrandbits(255) % (r - 1) + 1, 2**7, 2**128 + 1, True]
bad_sks = [0, r, r + 1, -1, 2**255, -r, "1", 1.0, None, b"\x01", [1], r - 0.5]
TRUE = ("ok", ("bool", True))
FALSE = ("ok", ("bool", False))
VERR = ("exc", "ValidationError")

pairs = [(sks[i % len(sks)], msgs[(3 * i) % len(msgs)]) for i in range(8)]
for si, (N, O) in enumerate(suites):
    for sk in bad_sks:
        same(N.SkToPk, O.SkToPk, sk, expect=VERR)
        same(N.Sign, O.Sign, sk, b"msg", expect=VERR)
        same(N.Sign, O.Sign, sk, msgs[0], expect=VERR)
    same(N.Sign, O.Sign, 5, "not bytes", expect=VERR if si != 1 else None)
    same(N.Sign, O.Sign, 5, bytearray(b"x"), expect=VERR if si != 1 else None)
    for j, (sk, m) in enumerate(pairs):
        pk = same(N.SkToPk, O.SkToPk, sk)[1][1]
        sig = same(N.Sign, O.Sign, sk, m)
        assert sig[0] == "ok"
        sig = sig[1][1]
        # honest signature verifies (new always; pristine compared on a subset)
        if (j + si) % 4 == 0:
            same(N.Verify, O.Verify, pk, m, sig, expect=TRUE)
        else:
            assert outcome(N.Verify, pk, m, sig) == TRUE
            checks += 1
        # signing again (memo hit) gives the same bytes; verify again still True
        assert outcome(N.Sign, sk, m) == ("ok", canon(sig))
        if j == 5:
            assert outcome(N.Verify, pk, m, sig) == TRUE
    # interleaved negative cases: wrong message / wrong key stay False
    sk, m = pairs[1]
    pk = N.SkToPk(sk)
    sig = N.Sign(sk, m)
    same(N.Verify, O.Verify, pk, m + b"x", sig, expect=FALSE)
    assert outcome(N.Verify, N.SkToPk(sk + 1), m, sig) == FALSE
    assert outcome(N.Verify, pk, m, sig) == TRUE
    same(N.Verify, O.Verify, pk, m, sig[:-1], expect=FALSE)
    same(N.Verify, O.Verify, pk, "str", sig, expect=FALSE if si != 1 else None)
    print("B suite %s done: %d checks, %.1fs" % (N.__name__, checks, time.time() - T0))

# proofs of possession
N, O = suites[2]
for j, sk in enumerate([1, 2, r - 2, r - 1, sks[4]]):
    pk = N.SkToPk(sk)
    proof = same(N.PopProve, O.PopProve, sk)[1][1]
    if j % 2 == 0:
        same(N.PopVerify, O.PopVerify, pk, proof, expect=TRUE)
    else:
        assert outcome(N.PopVerify, pk, proof) == TRUE
    assert outcome(N.PopProve, sk) == ("ok", canon(proof))
    # a proof is not a signature over the public key under the signing DST
    if j == 0:
        same(N.Verify, O.Verify, pk, pk, proof, expect=FALSE)
        same(N.PopVerify, O.PopVerify, pk, N.Sign(sk, pk), expect=FALSE)
        same(N.PopVerify, O.PopVerify, pk, proof, expect=TRUE)
for sk in bad_sks:
    same(N.PopProve, O.PopProve, sk, expect=VERR)

# aggregate paths share hash_to_G2 as well (repeated messages hit the memo)
Nb, Ob = suites[2]
ks = [3, 4, 5]
pks = [Nb.SkToPk(k) for k in ks]
ms = [b"agg-1", b"agg-2", b"agg-1"]
agg = Nb.Aggregate([Nb.Sign(k, m) for k, m in zip(ks, ms)])
same(Nb.AggregateVerify, Ob.AggregateVerify, pks, ms, agg, expect=TRUE)
same(Nb.AggregateVerify, Ob.AggregateVerify, pks, [b"agg-1"] * 3, agg, expect=FALSE)
assert outcome(Nb.AggregateVerify, pks, ms, agg) == TRUE

# KeyGen unaffected and in range
for ikm in (b"\x00" * 32, bytes(range(32)), rnd.randbytes(48)):
    v = same(N.KeyGen, O.KeyGen, ikm)
    assert 1 <= v[1][1] < r

assert len(new_h2c._hash_to_G2_memo) <= LIMIT
print("OK p1: %d checks identical, %.1fs" % (checks, time.time() - T0))
