import os, sys; sys.path.insert(0, os.getcwd())  # noqa: E702
"""
Equivalence demonstration for a refactoring of py_ecc/bls/ciphersuites.py (C04).

Run as:  cd /tmp/wt2/C04 && /venv/bin/python /tmp/twin/C04/<rN>/equiv.py

The pristine ciphersuites.py (saved next to this script under pristine/) is
loaded with importlib under another module name, inside the same package, so
that both versions share every other module of the working tree.  The five
verification entry points of all three suites are then run on a corpus of
well-formed, malformed and unsafe keys / signatures and the outcomes
(value + type, or exception class) as well as the sequence of arguments that
reach `pairing` are compared.
"""
import importlib
import importlib.util
import random
import time

HERE = os.path.dirname(os.path.abspath(__file__))
T0 = time.time()


def load_as(name, path, overrides=None):
    """Load the source file `path` as module `name` (inside package py_ecc.bls)."""
    overrides = overrides or {}
    saved = {k: sys.modules.get(k) for k in overrides}
    sys.modules.update(overrides)
    try:
        spec = importlib.util.spec_from_file_location(name, path)
        mod = importlib.util.module_from_spec(spec)
        sys.modules[name] = mod
        spec.loader.exec_module(mod)
    finally:
        for k, v in saved.items():
            if v is None:
                sys.modules.pop(k, None)
            else:
                sys.modules[k] = v
    return mod


import py_ecc  # noqa: E402

assert os.path.realpath(py_ecc.__file__).startswith(
    os.path.realpath(os.getcwd()) + os.sep
), "run me with the worktree as current directory"

import py_ecc.bls.ciphersuites as NEW  # noqa: E402

OLD = load_as(
    "py_ecc.bls.ciphersuites_pristine", os.path.join(HERE, "pristine", "ciphersuites.py")
)
assert OLD.__file__ != NEW.__file__

from py_ecc.bls import g2_primitives as g2p  # noqa: E402
from py_ecc.bls import point_compression as pc  # noqa: E402
from py_ecc.bls.constants import POW_2_381, POW_2_382, POW_2_383  # noqa: E402
from py_ecc.optimized_bls12_381 import (  # noqa: E402
    G1,
    G2,
    add,
    b,
    b2,
    curve_order,
    field_modulus as q,
    is_inf,
    is_on_curve,
    multiply,
    normalize,
    pairing as real_pairing,
)

SUITES = ["G2Basic", "G2MessageAugmentation", "G2ProofOfPossession"]

# --------------------------------------------------------------------------
# pairing recorder (shared memo: pairing itself is untouched and pure)
# --------------------------------------------------------------------------
_memo = {}
UNSAFE = []


def _key(pt):
    if is_inf(pt):
        return "inf"
    x, y = normalize(pt)
    cx = tuple(x.coeffs) if hasattr(x, "coeffs") else (x.n,)
    cy = tuple(y.coeffs) if hasattr(y, "coeffs") else (y.n,)
    return (cx, cy)


def make_recorder(log):
    def recorder(Q, P, final_exponentiate=True):
        k = (_key(Q), _key(P), final_exponentiate)
        log.append(k)
        if k not in _memo:
            ok = (
                is_on_curve(Q, b2)
                and is_on_curve(P, b)
                and is_inf(multiply(Q, curve_order))
                and is_inf(multiply(P, curve_order))
                and not is_inf(P)
            )
            if not ok:
                UNSAFE.append(k)
            _memo[k] = real_pairing(Q, P, final_exponentiate=final_exponentiate)
        return _memo[k]

    return recorder


LOG_OLD, LOG_NEW = [], []
OLD.pairing = make_recorder(LOG_OLD)
NEW.pairing = make_recorder(LOG_NEW)

# hash_to_G2 is untouched and pure as well: share a memo to save time
_h2c_memo = {}
_real_hash_to_G2 = NEW.hash_to_G2
assert OLD.hash_to_G2 is _real_hash_to_G2


def hash_to_G2_memo(message, DST, hash_function):
    k = (message, DST, hash_function)
    if k not in _h2c_memo:
        _h2c_memo[k] = _real_hash_to_G2(message, DST, hash_function)
    return _h2c_memo[k]


OLD.hash_to_G2 = hash_to_G2_memo
NEW.hash_to_G2 = hash_to_G2_memo

# --------------------------------------------------------------------------
# corpus
# --------------------------------------------------------------------------
rng = random.Random(0xC04)
B = NEW.G2Basic
MSG = b"message-0"
SKS = [1, 2, 123456789, curve_order - 1]
PKS = [B.SkToPk(sk) for sk in SKS]


def enc48(z):
    return (z % (1 << 384)).to_bytes(48, "big")


def with_flags(z, c, bb, a):
    return (z % POW_2_381) + a * POW_2_381 + bb * POW_2_382 + c * POW_2_383


def g1_x_candidates():
    on, off = [], []
    x = 1
    while len(on) < 3 or len(off) < 2:
        rhs = (x**3 + 4) % q
        y = pow(rhs, (q + 1) // 4, q)
        (on if y * y % q == rhs else off).append(x)
        x += 1
    return on[:3], off[:2]


def bad_keys():
    out = {}
    pk = PKS[2]
    z = int.from_bytes(pk, "big")
    x = z % POW_2_381
    out["empty"] = b""
    out["lead0"] = b"\x00" + pk
    out["lead_ff"] = b"\xff" + pk
    out["trail0"] = pk + b"\x00"
    out["trail_pk"] = pk + pk
    out["trunc_front"] = pk[1:]
    out["trunc_back"] = pk[:-1]
    out["trunc_1"] = pk[:1]
    out["pad96_left"] = b"\x00" * 48 + pk
    out["pad96_right"] = pk + b"\x00" * 48
    out["pad200"] = pk + b"\x00" * 152
    out["zeros48"] = b"\x00" * 48
    out["ff48"] = b"\xff" * 48
    for c in (0, 1):
        for bb in (0, 1):
            for a in (0, 1):
                out[f"flags{c}{bb}{a}"] = enc48(with_flags(x, c, bb, a))
                out[f"x0_flags{c}{bb}{a}"] = enc48(with_flags(0, c, bb, a))
    for name, xv in [
        ("pm1", q - 1),
        ("p", q),
        ("pp1", q + 1),
        ("max", POW_2_381 - 1),
        ("one", 1),
    ]:
        for a in (0, 1):
            out[f"x_{name}_a{a}"] = enc48(with_flags(xv, 1, 0, a))
    on, off = g1_x_candidates()
    for xv in off:
        out[f"offcurve_{xv}"] = enc48(with_flags(xv, 1, 0, 0))
    for xv in on:
        for a in (0, 1):
            out[f"oncurve_cofactor_{xv}_a{a}"] = enc48(with_flags(xv, 1, 0, a))
    # subgroup point + point of the cofactor torsion
    R = g2p.pubkey_to_G1(enc48(with_flags(on[0], 1, 0, 0)))
    T = multiply(R, curve_order)
    assert not is_inf(T)
    mixed = add(g2p.pubkey_to_G1(pk), T)
    out["sub_plus_torsion"] = g2p.G1_to_pubkey(mixed)
    out["pure_torsion"] = g2p.G1_to_pubkey(T)
    for n in [0, 1, 2, 31, 47, 48, 49, 95, 96, 97, 144, 199, 200] + [
        rng.randrange(0, 201) for _ in range(12)
    ]:
        out[f"rand_len{n}_{len(out)}"] = bytes(rng.randrange(256) for _ in range(n))
    for i in range(12):
        r = bytearray(rng.randrange(256) for _ in range(48))
        r[0] = (r[0] & 0x1F) | 0x80 | (0x20 if i % 2 else 0)
        out[f"rand48_c1_{i}"] = bytes(r)
    return out


def g2_candidates():
    """Encodings (z1, z2) with c_flag=1 that decode / fail to decode."""
    on, off = [], []
    k = 0
    while len(on) < 2 or len(off) < 2:
        z1, z2 = with_flags(k % 3, 1, 0, 0), k
        try:
            pc.decompress_G2((z1, z2))
            on.append((z1, z2))
        except ValueError:
            off.append((z1, z2))
        k += 1
    return on[:2], off[:2]


def enc96(z1, z2):
    return enc48(z1) + enc48(z2)


def bad_sigs(sig):
    out = {}
    z1 = int.from_bytes(sig[:48], "big")
    z2 = int.from_bytes(sig[48:], "big")
    out["empty"] = b""
    out["lead0"] = b"\x00" + sig
    out["trail0"] = sig + b"\x00"
    out["trunc_front"] = sig[1:]
    out["trunc_back"] = sig[:-1]
    out["half"] = sig[:48]
    out["second_half"] = sig[48:]
    out["pad200"] = sig + b"\x00" * 104
    out["pad192_left"] = b"\x00" * 96 + sig
    out["zeros96"] = b"\x00" * 96
    out["ff96"] = b"\xff" * 96
    out["swapped"] = sig[48:] + sig[:48]
    for c in (0, 1):
        for bb in (0, 1):
            for a in (0, 1):
                out[f"flags{c}{bb}{a}"] = enc96(with_flags(z1, c, bb, a), z2)
                out[f"inf_flags{c}{bb}{a}"] = enc96(with_flags(0, c, bb, a), 0)
                out[f"z2flags{c}{bb}{a}"] = enc96(z1, with_flags(z2, c, bb, a))
    out["inf_z2_one"] = enc96(with_flags(0, 1, 1, 0), 1)
    for name, xv in [("pm1", q - 1), ("p", q), ("pp1", q + 1), ("max", POW_2_381 - 1)]:
        out[f"x1_{name}"] = enc96(with_flags(xv, 1, 0, 0), z2)
        out[f"x2_{name}"] = enc96(z1, xv)
        out[f"both_{name}"] = enc96(with_flags(xv, 1, 0, 1), xv)
    out["x1_0_x2_0_noinf"] = enc96(with_flags(0, 1, 0, 0), 0)
    on, off = g2_candidates()
    for i, (a1, a2) in enumerate(off):
        out[f"offcurve_{i}"] = enc96(a1, a2)
    for i, (a1, a2) in enumerate(on):
        out[f"oncurve_cofactor_{i}_a0"] = enc96(a1, a2)
        out[f"oncurve_cofactor_{i}_a1"] = enc96(a1 + POW_2_381, a2)
    R = pc.decompress_G2(on[0])
    T = multiply(R, curve_order)
    assert not is_inf(T)
    out["sub_plus_torsion"] = g2p.G2_to_signature(add(g2p.signature_to_G2(sig), T))
    out["pure_torsion"] = g2p.G2_to_signature(T)
    for n in [0, 1, 47, 48, 95, 96, 97, 192, 200] + [
        rng.randrange(0, 201) for _ in range(8)
    ]:
        out[f"rand_len{n}_{len(out)}"] = bytes(rng.randrange(256) for _ in range(n))
    for i in range(10):
        r = bytearray(rng.randrange(256) for _ in range(96))
        r[0] = (r[0] & 0x1F) | 0x80 | (0x20 if i % 2 else 0)
        r[48] &= 0x1F
        out[f"rand96_c1_{i}"] = bytes(r)
    return out


NONBYTES = [None, "00" * 48, 7, bytearray(48), [1, 2], memoryview(PKS[0])]

# --------------------------------------------------------------------------
# running both versions
# --------------------------------------------------------------------------
N_CASES = 0
MISMATCH = []


def outcome(fn, *args):
    try:
        r = fn(*args)
        return ("ret", type(r).__name__, repr(r))
    except BaseException as e:  # noqa: B902
        return ("exc", type(e).__name__)


def both(label, suite, meth, *args, total=True):
    """Call suite.meth(*args) in both versions and compare everything observable."""
    global N_CASES
    N_CASES += 1
    n_old, n_new = len(LOG_OLD), len(LOG_NEW)
    o = outcome(getattr(getattr(OLD, suite), meth), *args)
    n = outcome(getattr(getattr(NEW, suite), meth), *args)
    po, pn = LOG_OLD[n_old:], LOG_NEW[n_new:]
    if o != n or po != pn:
        MISMATCH.append((label, suite, meth, o, n, len(po), len(pn)))
    if total and all(isinstance(a, (bytes, list, tuple)) for a in args):
        # the property itself: a bool, never an exception
        if n[0] != "ret" or n[1] != "bool":
            MISMATCH.append(("NOT-TOTAL", label, suite, meth, n))
    return n


def main():
    keys = bad_keys()
    print(f"{len(keys)} malformed/unsafe keys", flush=True)

    # ---- length/type gates and KeyValidate ------------------------------
    for suite in SUITES:
        for name, k in list(keys.items()) + [(f"valid{i}", p) for i, p in enumerate(PKS)]:
            r = both(f"key:{name}", suite, "KeyValidate", k)
            expect = name.startswith("valid") or name in ("flags100", "flags101")
            assert (r == ("ret", "bool", "True")) == expect, (name, r)
            both(f"key:{name}", suite, "_is_valid_pubkey", k)
        for nb in NONBYTES:
            both(f"nonbytes:{type(nb).__name__}", suite, "KeyValidate", nb, total=False)
            both(f"nonbytes:{type(nb).__name__}", suite, "_is_valid_pubkey", nb, total=False)
            both(f"nonbytes:{type(nb).__name__}", suite, "_is_valid_signature", nb, total=False)
            both(f"nonbytes:{type(nb).__name__}", suite, "_is_valid_message", nb, total=False)
    print(f"gates/KeyValidate done {time.time() - T0:.1f}s", flush=True)

    for suite in SUITES:
        S = getattr(NEW, suite)
        sk, pk = SKS[2], PKS[2]
        sig = S.Sign(sk, MSG)
        sigs = bad_sigs(sig)
        for name, s in sigs.items():
            both(f"sig:{name}", suite, "_is_valid_signature", s)

        # ---- Verify ------------------------------------------------------
        r = both("valid", suite, "Verify", pk, MSG, sig)
        assert r == ("ret", "bool", "True"), r
        r = both("wrong key", suite, "Verify", PKS[1], MSG, sig)
        assert r == ("ret", "bool", "False"), r
        if suite == "G2Basic":
            r = both("wrong msg", suite, "Verify", pk, b"other", sig)
            assert r == ("ret", "bool", "False"), r
        for name, k in keys.items():
            r = both(f"key:{name}", suite, "Verify", k, MSG, sig)
            assert r == ("ret", "bool", str(k == pk)), (name, r)
        for name, s in sigs.items():
            r = both(f"sig:{name}", suite, "Verify", pk, MSG, s)
            assert r == ("ret", "bool", str(s == sig)), (name, r)
        for name in ["empty", "identityish", "oncurve"]:
            k = {
                "empty": keys["empty"],
                "identityish": keys["x0_flags110"],
                "oncurve": keys["sub_plus_torsion"],
            }[name]
            for sname in ["inf_flags110", "sub_plus_torsion", "trunc_back"]:
                both(f"key:{name}+sig:{sname}", suite, "Verify", k, MSG, sigs[sname])
        for nb in NONBYTES:
            both("nonbytes pk", suite, "Verify", nb, MSG, sig, total=False)
            both("nonbytes sig", suite, "Verify", pk, MSG, nb, total=False)
            both("nonbytes msg", suite, "Verify", pk, nb, sig, total=False)
        print(f"{suite}: Verify done {time.time() - T0:.1f}s", flush=True)

        # ---- AggregateVerify --------------------------------------------
        msgs = [b"m-%d" % i for i in range(3)]
        agg = S.Aggregate([S.Sign(s_, m) for s_, m in zip(SKS[:3], msgs)])
        good = list(PKS[:3])
        r = both("valid", suite, "AggregateVerify", good, msgs, agg)
        assert r == ("ret", "bool", "True"), r
        cheap = ["empty", "lead0", "trail0", "trunc_back", "pad96_left", "rand_len200"]
        cheap = [n for n in keys if any(n.startswith(c) for c in cheap)]
        deep = ["x0_flags110", "sub_plus_torsion", "offcurve_", "flags000", "x_p_a0"]
        deep = [n for n in keys if any(n.startswith(d) for d in deep)]
        for pos in range(3):
            for name in cheap + deep:
                # In the non-PoP suites a 48-byte bad key in position i is only
                # found after i pairings; keep those to one position-2 case.
                if suite != "G2ProofOfPossession" and name in deep and pos == 2:
                    if name != "sub_plus_torsion":
                        continue
                lst = list(good)
                lst[pos] = keys[name]
                r = both(f"key:{name}@{pos}", suite, "AggregateVerify", lst, msgs, agg)
                assert r == ("ret", "bool", str(lst == good)), (name, pos, r)
        for sname in ["inf_flags110", "sub_plus_torsion", "trunc_back", "lead0",
                      "offcurve_0", "flags000", "x2_p", "oncurve_cofactor_0_a0"]:
            r = both(f"sig:{sname}", suite, "AggregateVerify", good, msgs, sigs_for(S, agg)[sname])
            assert r == ("ret", "bool", "False"), (sname, r)
        both("no keys", suite, "AggregateVerify", [], [], agg)
        both("len mismatch", suite, "AggregateVerify", good, msgs[:2], agg)
        both("len mismatch2", suite, "AggregateVerify", good[:2], msgs, agg)
        both("dup msgs", suite, "AggregateVerify", good, [msgs[0]] * 3, agg)
        both("tuple", suite, "AggregateVerify", tuple(good), tuple(msgs), agg)
        for nb in NONBYTES:
            both("nonbytes in list", suite, "AggregateVerify", [good[0], nb, good[2]], msgs, agg, total=False)
            both("nonbytes sig", suite, "AggregateVerify", good, msgs, nb, total=False)
            both("nonbytes list", suite, "AggregateVerify", nb, msgs, agg, total=False)
        print(f"{suite}: AggregateVerify done {time.time() - T0:.1f}s", flush=True)

    # ---- PoP-only entry points ------------------------------------------
    suite = "G2ProofOfPossession"
    S = NEW.G2ProofOfPossession
    sk, pk = SKS[2], PKS[2]
    proof = S.PopProve(sk)
    psigs = bad_sigs(proof)
    r = both("valid", suite, "PopVerify", pk, proof)
    assert r == ("ret", "bool", "True"), r
    r = both("wrong key", suite, "PopVerify", PKS[0], proof)
    assert r == ("ret", "bool", "False"), r
    for name, k in keys.items():
        r = both(f"key:{name}", suite, "PopVerify", k, proof)
        assert r == ("ret", "bool", str(k == pk)), (name, r)
    for name, s in psigs.items():
        if not name.startswith(SIG_SUBSET):
            continue
        r = both(f"sig:{name}", suite, "PopVerify", pk, s)
        assert r == ("ret", "bool", str(s == proof)), (name, r)
    for nb in NONBYTES:
        both("nonbytes pk", suite, "PopVerify", nb, proof, total=False)
        both("nonbytes proof", suite, "PopVerify", pk, nb, total=False)
    print(f"PopVerify done {time.time() - T0:.1f}s", flush=True)

    fsig = S.Aggregate([S.Sign(s_, MSG) for s_ in SKS[:3]])
    fsigs = bad_sigs(fsig)
    good = list(PKS[:3])
    r = both("valid", suite, "FastAggregateVerify", good, MSG, fsig)
    assert r == ("ret", "bool", "True"), r
    r = both("missing key", suite, "FastAggregateVerify", good[:2], MSG, fsig)
    assert r == ("ret", "bool", "False"), r
    for pos in range(3):
        for name, k in keys.items():
            # every key in the middle position, a representative subset elsewhere
            if pos != 1 and not name.startswith(KEY_SUBSET):
                continue
            lst = list(good)
            lst[pos] = k
            r = both(f"key:{name}@{pos}", suite, "FastAggregateVerify", lst, MSG, fsig)
            assert r == ("ret", "bool", str(lst == good)), (name, pos, r)
    for name, s in fsigs.items():
        if not name.startswith(SIG_SUBSET):
            continue
        r = both(f"sig:{name}", suite, "FastAggregateVerify", good, MSG, s)
        assert r == ("ret", "bool", str(s == fsig)), (name, r)
    both("no keys", suite, "FastAggregateVerify", [], MSG, fsig)
    # keys that cancel: aggregate public key is the identity
    both("cancelling", suite, "FastAggregateVerify", [PKS[0], PKS[3]], MSG, fsig)
    for nb in NONBYTES:
        both("nonbytes in list", suite, "FastAggregateVerify", [good[0], nb], MSG, fsig, total=False)
        both("nonbytes sig", suite, "FastAggregateVerify", good, MSG, nb, total=False)
        both("nonbytes msg", suite, "FastAggregateVerify", good, nb, fsig, total=False)
        both("nonbytes list", suite, "FastAggregateVerify", nb, MSG, fsig, total=False)
    print(f"FastAggregateVerify done {time.time() - T0:.1f}s", flush=True)

    # ---- signing side shares the gates: keep it identical too -----------
    for suite in SUITES:
        for sk_ in [0, 1, curve_order - 1, curve_order, -1, "1", None, 2.0]:
            both("SkToPk", suite, "SkToPk", sk_, total=False)
        both("Aggregate empty", suite, "Aggregate", [], total=False)
        both("Aggregate bad", suite, "Aggregate", [b"\x00" * 95], total=False)
        both("Aggregate inf", suite, "Aggregate", [b"\xc0" + b"\x00" * 95] * 2, total=False)

    print(f"cases: {N_CASES}; pairing calls old/new: {len(LOG_OLD)}/{len(LOG_NEW)}; "
          f"distinct pairings: {len(_memo)}; unsafe pairing arguments: {len(UNSAFE)}")
    assert LOG_OLD == LOG_NEW
    assert not UNSAFE, UNSAFE[:3]
    if MISMATCH:
        for m in MISMATCH[:20]:
            print("MISMATCH", m)
        sys.exit(1)
    print(f"EQUIVALENT ({time.time() - T0:.1f}s)")


SIG_SUBSET = (
    "empty", "lead0", "trail0", "trunc_back", "half", "pad200", "zeros96",
    "flags", "inf_flags110", "inf_flags111", "z2flags100", "inf_z2_one",
    "x1_p", "x2_p", "offcurve_0", "oncurve_cofactor_0", "sub_plus_torsion",
    "pure_torsion", "rand_len96", "rand96_c1_0",
)
KEY_SUBSET = (
    "empty", "lead0", "trail0", "trunc_back", "pad96_left", "pad200", "zeros48",
    "flags", "x0_flags110", "x0_flags111", "x_p_a0", "x_max_a1", "offcurve_",
    "oncurve_cofactor_", "sub_plus_torsion", "pure_torsion", "rand_len48",
    "rand48_c1_0",
)
_sig_cache = {}


def sigs_for(S, sig):
    k = (S.__name__, sig)
    if k not in _sig_cache:
        _sig_cache[k] = bad_sigs(sig)
    return _sig_cache[k]


if __name__ == "__main__":
    main()
