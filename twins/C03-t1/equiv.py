import os, sys; sys.path.insert(0, os.getcwd())  # noqa: E702

"""
Equivalence demonstration for twin t1 of property C03.

Loads the pristine py_ecc/bls/ciphersuites.py (saved next to this script) under
another module name inside the py_ecc.bls package and compares it with the edited
module of the working tree: every public aggregate API of the three suites is called
with the same arguments on both and the outcome (value + type, or exception class)
must be identical.  Run as
    cd /tmp/wt2/C03 && /venv/bin/python /tmp/twin5/C03/t1/equiv.py
"""

import importlib.util
import itertools
import multiprocessing
import time

HERE = os.path.dirname(os.path.abspath(__file__))
T0 = time.time()

import py_ecc.bls  # noqa: E402
import py_ecc.bls.ciphersuites as new_cs  # noqa: E402
from py_ecc.bls.g2_primitives import (  # noqa: E402
    G1_to_pubkey,
    G2_to_signature,
    pubkey_to_G1,
    signature_to_G2,
)
from py_ecc.optimized_bls12_381 import (  # noqa: E402
    G1,
    G2,
    Z1,
    Z2,
    curve_order,
    multiply,
    neg,
)

assert os.path.realpath(new_cs.__file__).startswith(os.path.realpath(os.getcwd())), (
    "edited module must come from the working tree",
    new_cs.__file__,
)


def load_pristine():
    name = "py_ecc.bls.ciphersuites_pristine"
    spec = importlib.util.spec_from_file_location(
        name, os.path.join(HERE, "pristine", "ciphersuites.py")
    )
    mod = importlib.util.module_from_spec(spec)
    sys.modules[name] = mod
    spec.loader.exec_module(mod)
    return mod


old_cs = load_pristine()
assert old_cs.__file__ != new_cs.__file__
assert open(old_cs.__file__).read() != open(new_cs.__file__).read(), "tree not edited"

MODS = {"old": old_cs, "new": new_cs}
SUITES = ("G2Basic", "G2MessageAugmentation", "G2ProofOfPossession")

# ---------------------------------------------------------------------------
# fixed material (plain bytes; produced once with the edited module, the signing
# path is not touched by the edit and is compared separately below)
# ---------------------------------------------------------------------------
SKS = [1, 2, 3, 12345, curve_order - 1, 2**200 + 7]
MSGS = [b"", b"m1", b"\x00" * 32, b"message three", b"m1x", bytes(range(64))]
PKS = [new_cs.G2Basic.SkToPk(sk) for sk in SKS]
# sk and curve_order - sk give opposite keys: PKS[0] + PKS[4] is the identity
INF_PK = G1_to_pubkey(Z1)
INF_SIG = G2_to_signature(Z2)


def find_non_subgroup_pubkey():
    # a decodable G1 encoding whose point is outside the prime-order subgroup
    from py_ecc.bls.g2_primitives import subgroup_check

    x = 1
    while True:
        cand = (x + 2**383).to_bytes(48, "big")
        try:
            pt = pubkey_to_G1(cand)
        except ValueError:
            x += 1
            continue
        if not subgroup_check(pt):
            return cand
        x += 1


def find_non_subgroup_signature():
    from py_ecc.bls.g2_primitives import subgroup_check

    x = 1
    while True:
        cand = (2**383).to_bytes(48, "big") + x.to_bytes(48, "big")
        try:
            pt = signature_to_G2(cand)
        except ValueError:
            x += 1
            continue
        if not subgroup_check(pt):
            return cand
        x += 1


BAD_SUBGROUP_PK = find_non_subgroup_pubkey()
BAD_SUBGROUP_SIG = find_non_subgroup_signature()
UNDECODABLE_PK = b"\x00" * 48  # c_flag == 0
UNDECODABLE_SIG = b"\x00" * 96
NOT_ON_CURVE_PK = None
_x = 1
while NOT_ON_CURVE_PK is None:
    cand = (_x + 2**383).to_bytes(48, "big")
    try:
        pubkey_to_G1(cand)
    except ValueError:
        NOT_ON_CURVE_PK = cand
    _x += 1


_SIGN_MEMO = {}


def sign(sname, sk, msg):
    # signing is not touched by the edit; memoised so that scenario tables can be
    # rebuilt cheaply (fresh generator arguments for every version)
    key = (sname, sk, msg)
    if key not in _SIGN_MEMO:
        _SIGN_MEMO[key] = getattr(new_cs, sname).Sign(sk, msg)
    return _SIGN_MEMO[key]


def outcome(thunk):
    try:
        v = thunk()
    except BaseException as e:  # noqa: B902
        return ("exc", type(e).__name__)
    return ("ok", type(v).__name__, repr(v))


class WeirdSeq:
    """Sized + iterable but neither list nor tuple."""

    def __init__(self, items):
        self.items = list(items)

    def __len__(self):
        return len(self.items)

    def __iter__(self):
        return iter(self.items)


def gen(items):
    for i in items:
        yield i


class Gen:
    """Marker: replaced by a fresh generator over ``items`` at every call."""

    def __init__(self, items):
        self.items = list(items)


def mk(x):
    return gen(x.items) if isinstance(x, Gen) else x


# ---------------------------------------------------------------------------
# scenario table: label -> callable(module) -> value
# ---------------------------------------------------------------------------
def build_scenarios():
    cheap = {}
    costly = {}

    for sname in SUITES:
        S = getattr(new_cs, sname)
        sigs = [sign(sname, sk, m) for sk, m in zip(SKS, MSGS)]
        # same message signed by everybody (FastAggregateVerify, repeated messages)
        common = b"shared message"
        csigs = [sign(sname, sk, common) for sk in SKS[:4]]

        def A(label, fn, table, sname=sname):
            table[sname + ":" + label] = (sname, fn)

        # ---------------- Aggregate ------------------------------------
        A("agg/empty-list", lambda S: S.Aggregate([]), cheap)
        A("agg/empty-tuple", lambda S: S.Aggregate(()), cheap)
        A("agg/none", lambda S: S.Aggregate(None), cheap)
        A("agg/generator", lambda S, sigs=sigs: S.Aggregate(gen(sigs[:2])), cheap)
        A("agg/weirdseq", lambda S, sigs=sigs: S.Aggregate(WeirdSeq(sigs[:3])), cheap)
        A("agg/set", lambda S, sigs=sigs: S.Aggregate(set(sigs[:3])), cheap)
        A("agg/bytes-arg", lambda S, sigs=sigs: S.Aggregate(sigs[0]), cheap)
        for n in range(1, 7):
            A("agg/first-%d" % n, lambda S, x=sigs[:n]: S.Aggregate(x), cheap)
        for perm in itertools.permutations(range(4)):
            A(
                "agg/perm-%s" % "".join(map(str, perm)),
                lambda S, x=[sigs[i] for i in perm]: S.Aggregate(x),
                cheap,
            )
        A(
            "agg/grouping-(01)(23)",
            lambda S, sigs=sigs: S.Aggregate(
                [S.Aggregate(sigs[0:2]), S.Aggregate(sigs[2:4])]
            ),
            cheap,
        )
        A(
            "agg/grouping-0(123)",
            lambda S, sigs=sigs: S.Aggregate([sigs[0], S.Aggregate(sigs[1:4])]),
            cheap,
        )
        A("agg/duplicate", lambda S, sigs=sigs: S.Aggregate([sigs[1], sigs[1]]), cheap)
        A(
            "agg/triplicate",
            lambda S, sigs=sigs: S.Aggregate([sigs[1], sigs[1], sigs[1]]),
            cheap,
        )
        negsig = G2_to_signature(neg(signature_to_G2(sigs[2])))
        A(
            "agg/sig-plus-negation",
            lambda S, x=[sigs[2], negsig]: S.Aggregate(x),
            cheap,
        )
        A("agg/infinity-only", lambda S: S.Aggregate([INF_SIG]), cheap)
        A(
            "agg/infinity-mixed",
            lambda S, sigs=sigs: S.Aggregate([INF_SIG, sigs[0], INF_SIG, sigs[1]]),
            cheap,
        )
        A(
            "agg/non-subgroup",
            lambda S, sigs=sigs: S.Aggregate([sigs[0], BAD_SUBGROUP_SIG]),
            cheap,
        )
        bads = {
            "short": sigs[0][:95],
            "long": sigs[0] + b"\x00",
            "empty": b"",
            "str": "a" * 96,
            "none": None,
            "int": 5,
            "bytearray": bytearray(sigs[0]),
            "memoryview": memoryview(sigs[0]),
            "undecodable": UNDECODABLE_SIG,
            "ff": b"\xff" * 96,
            "c-flag-only": b"\x80" + b"\x00" * 95,
            "inf-with-a-flag": b"\xe0" + b"\x00" * 95,
            "x-too-big": b"\x9f" + b"\xff" * 95,
        }
        for bname, bad in bads.items():
            for pos in ("first", "last", "only"):
                lst = {
                    "first": [bad, sigs[0]],
                    "last": [sigs[0], bad],
                    "only": [bad],
                }[pos]
                A("agg/bad-%s-%s" % (bname, pos), lambda S, x=lst: S.Aggregate(x), cheap)
        # validation runs over the whole list before anything is decoded
        A(
            "agg/undecodable-then-short",
            lambda S, sigs=sigs: S.Aggregate([UNDECODABLE_SIG, sigs[0][:95]]),
            cheap,
        )

        # ---------------- KeyValidate (precondition "every key valid") ---
        kv_inputs = PKS + [
            INF_PK,
            BAD_SUBGROUP_PK,
            UNDECODABLE_PK,
            NOT_ON_CURVE_PK,
            PKS[0][:47],
            PKS[0] + b"\x00",
            b"",
            b"\xff" * 48,
            b"\xe0" + b"\x00" * 47,
            b"\x9f" + b"\xff" * 47,
            bytearray(PKS[0]),
            "a" * 48,
            None,
            7,
        ]
        for i, k in enumerate(kv_inputs):
            A("keyvalidate/%d" % i, lambda S, k=k: S.KeyValidate(k), cheap)

        # ---------------- AggregateVerify ------------------------------
        def AV(label, pks, msgs, sig, table):
            A(
                "aggverify/" + label,
                lambda S, pks=pks, msgs=msgs, sig=sig: S.AggregateVerify(
                    mk(pks), mk(msgs), sig
                ),
                table,
            )

        agg = {n: S.Aggregate(sigs[:n]) for n in range(1, 7)}
        pop = sname == "G2ProofOfPossession"
        AV("valid-1", PKS[:1], MSGS[:1], agg[1], costly)
        AV("valid-2-tuples", tuple(PKS[:2]), tuple(MSGS[:2]), agg[2], costly)
        AV("valid-3", PKS[:3], MSGS[:3], agg[3], costly)
        if pop:
            AV("valid-6", PKS[:6], MSGS[:6], agg[6], costly)
        AV(
            "valid-3-permuted",
            [PKS[2], PKS[0], PKS[1]],
            [MSGS[2], MSGS[0], MSGS[1]],
            agg[3],
            costly,
        )
        AV("drop-signer", PKS[:2], MSGS[:2], agg[3], costly)
        if pop:
            AV("extra-signer", PKS[:3], MSGS[:3], agg[2], costly)
            AV("swap-msgs", PKS[:2], [MSGS[1], MSGS[0]], agg[2], costly)
        AV("substitute-key", [PKS[0], PKS[3], PKS[2]], MSGS[:3], agg[3], costly)
        AV("substitute-msg", PKS[:3], [MSGS[0], MSGS[4], MSGS[2]], agg[3], costly)
        AV("alter-aggregate", PKS[:3], MSGS[:3], agg[4], costly)
        AV("aggregate-infinity", PKS[:2], MSGS[:2], INF_SIG, costly)
        AV(
            "duplicate-signer",
            [PKS[0], PKS[1], PKS[1]],
            [MSGS[0], MSGS[1], MSGS[1]],
            S.Aggregate([sigs[0], sigs[1], sigs[1]]),
            costly,
        )
        AV(
            "repeated-key-distinct-msgs",
            [PKS[1], PKS[1]],
            [MSGS[1], MSGS[3]],
            S.Aggregate([sigs[1], sign(sname, SKS[1], MSGS[3])]),
            costly,
        )
        AV(
            "repeated-message",
            PKS[:3],
            [common] * 3,
            S.Aggregate(csigs[:3]),
            costly,
        )
        AV("non-subgroup-sig", PKS[:2], MSGS[:2], BAD_SUBGROUP_SIG, cheap)
        AV("undecodable-sig", PKS[:2], MSGS[:2], UNDECODABLE_SIG, cheap)
        AV("short-sig", PKS[:2], MSGS[:2], agg[2][:95], cheap)
        AV("long-sig", PKS[:2], MSGS[:2], agg[2] + b"\x00", cheap)
        AV("str-sig", PKS[:2], MSGS[:2], "s" * 96, cheap)
        AV("none-sig", PKS[:2], MSGS[:2], None, cheap)
        AV("bytearray-sig", PKS[:2], MSGS[:2], bytearray(agg[2]), cheap)
        AV("empty", [], [], agg[1], cheap)
        AV("empty-tuples", (), (), agg[1], cheap)
        AV("empty-inf-sig", [], [], INF_SIG, cheap)
        AV("more-keys", PKS[:3], MSGS[:2], agg[2], cheap)
        AV("more-msgs", PKS[:2], MSGS[:3], agg[2], cheap)
        AV("no-keys", [], MSGS[:2], agg[2], cheap)
        AV("no-msgs", PKS[:2], [], agg[2], cheap)
        AV("none-keys", None, MSGS[:2], agg[2], cheap)
        AV("none-msgs", PKS[:2], None, agg[2], cheap)
        AV("none-both", None, None, agg[2], cheap)
        AV("gen-keys", Gen(PKS[:2]), MSGS[:2], agg[2], cheap)
        AV("gen-keys-bad", Gen([PKS[0], b"x"]), MSGS[:2], agg[2], cheap)
        AV("gen-msgs", PKS[:2], Gen(MSGS[:2]), agg[2], cheap)
        AV("weirdseq", WeirdSeq(PKS[:2]), WeirdSeq(MSGS[:2]), UNDECODABLE_SIG, cheap)
        AV("int-keys", 5, MSGS[:2], agg[2], cheap)
        AV("bytes-as-keys", PKS[0], MSGS[:2], agg[2], cheap)
        AV("str-msg", PKS[:2], [MSGS[0], "m1"], agg[2], cheap)
        AV("none-msg", PKS[:2], [MSGS[0], None], agg[2], cheap)
        AV("bytearray-msg", PKS[:2], [MSGS[0], bytearray(b"m1")], agg[2], cheap)
        AV("unhashable-msg", PKS[:2], [MSGS[0], [1]], agg[2], cheap)
        for bname, bad in {
            "inf": INF_PK,
            "non-subgroup": BAD_SUBGROUP_PK,
            "undecodable": UNDECODABLE_PK,
            "not-on-curve": NOT_ON_CURVE_PK,
            "short": PKS[1][:47],
            "long": PKS[1] + b"\x00",
            "str": "k" * 48,
            "none": None,
            "bytearray": bytearray(PKS[1]),
        }.items():
            AV("bad-key-%s-first" % bname, [bad, PKS[0]], MSGS[:2], agg[2], cheap)
            AV("bad-key-%s-last" % bname, [PKS[0], bad], MSGS[:2], agg[2], cheap)
            # bad key together with a bad message / length mismatch / bad signature
            AV("bad-key-%s+str-msg" % bname, [PKS[0], bad], [b"a", "b"], agg[2], cheap)
            AV("bad-key-%s+mismatch" % bname, [PKS[0], bad], MSGS[:3], agg[2], cheap)
            AV("bad-key-%s+none-msgs" % bname, [bad, PKS[0]], None, agg[2], cheap)
            AV("bad-key-%s+short-sig" % bname, [bad], MSGS[:1], agg[2][:5], cheap)

        # ---------------- FastAggregateVerify (PoP only) ----------------
        if sname == "G2ProofOfPossession":

            def FV(label, pks, msg, sig, table):
                A(
                    "fastaggverify/" + label,
                    lambda S, pks=pks, msg=msg, sig=sig: S.FastAggregateVerify(
                        mk(pks), msg, sig
                    ),
                    table,
                )

            cagg = {n: S.Aggregate(csigs[:n]) for n in range(1, 5)}
            for n in (1, 2, 4):
                FV("valid-%d" % n, PKS[:n], common, cagg[n], costly)
            FV("valid-permuted", [PKS[2], PKS[0], PKS[1]], common, cagg[3], costly)
            FV("drop-signer", PKS[:2], common, cagg[3], costly)
            FV("substitute-key", [PKS[0], PKS[3]], common, cagg[2], costly)
            FV("substitute-msg", PKS[:2], common + b"!", cagg[2], costly)
            FV("alter-aggregate", PKS[:2], common, cagg[3], costly)
            FV(
                "duplicate-key",
                [PKS[0], PKS[1], PKS[1]],
                common,
                S.Aggregate([csigs[0], csigs[1], csigs[1]]),
                costly,
            )
            FV("keys-sum-to-identity", [PKS[0], PKS[4]], common, INF_SIG, cheap)
            FV("empty", [], common, cagg[1], cheap)
            FV("empty-tuple", (), common, INF_SIG, cheap)
            FV("none-keys", None, common, cagg[1], cheap)
            FV("gen-keys", Gen(PKS[:2]), common, cagg[2], cheap)
            FV("gen-keys-bad", Gen([b"x"]), common, cagg[2], cheap)
            FV("str-msg", PKS[:2], "shared", cagg[2], cheap)
            FV("none-msg", PKS[:2], None, cagg[2], cheap)
            FV("short-sig", PKS[:2], common, cagg[2][:95], cheap)
            FV("none-sig", PKS[:2], common, None, cheap)
            FV("undecodable-sig", PKS[:2], common, UNDECODABLE_SIG, cheap)
            FV("non-subgroup-sig", PKS[:2], common, BAD_SUBGROUP_SIG, cheap)
            for bname, bad in {
                "inf": INF_PK,
                "non-subgroup": BAD_SUBGROUP_PK,
                "undecodable": UNDECODABLE_PK,
                "not-on-curve": NOT_ON_CURVE_PK,
                "short": PKS[1][:47],
                "long": PKS[1] + b"\x00",
                "str": "k" * 48,
                "none": None,
            }.items():
                FV("bad-key-%s-first" % bname, [bad, PKS[0]], common, cagg[2], cheap)
                FV("bad-key-%s-last" % bname, [PKS[0], bad], common, cagg[2], cheap)
                FV("bad-key-%s+str-msg" % bname, [PKS[0], bad], "x", cagg[2], cheap)
            # the shared validator must dispatch on the calling class: the base-class
            # FastAggregateVerify logic reached through the other suites is not public,
            # but _AggregatePKs is reachable and unchanged
            A(
                "aggregatepks/2",
                lambda S: S._AggregatePKs(PKS[:2]),
                cheap,
            )
            A("aggregatepks/empty", lambda S: S._AggregatePKs([]), cheap)

        # the suites must still expose the same public surface
        A(
            "surface",
            lambda S: sorted(
                n for n in dir(S) if not n.startswith("_") or n.startswith("_Core")
            ),
            cheap,
        )
    return cheap, costly


CHEAP, COSTLY = build_scenarios()
ALL = dict(CHEAP)
ALL.update(COSTLY)


def run_one(task):
    which, label = task
    sname, fn = ALL[label]
    S = getattr(MODS[which], sname)
    return which, label, outcome(lambda: fn(S))


def main():
    failures = []
    results = {"old": {}, "new": {}}

    # first pass: every scenario on both versions, spread over worker processes
    tasks = [(w, label) for label in ALL for w in ("old", "new")]
    ctx = multiprocessing.get_context("fork")
    with ctx.Pool(min(8, os.cpu_count() or 1)) as pool:
        for which, label, out in pool.imap_unordered(run_one, tasks, chunksize=4):
            results[which][label] = out

    for label in ALL:
        o, n = results["old"][label], results["new"][label]
        if o != n:
            failures.append((label, o, n))

    # sanity on the expectations themselves (so that the comparison is not vacuous)
    def val(label):
        return results["new"][label]

    for sname in SUITES:
        assert val(sname + ":aggverify/valid-3") == ("ok", "bool", "True"), sname
        assert val(sname + ":aggverify/valid-1") == ("ok", "bool", "True"), sname
        assert val(sname + ":aggverify/valid-2-tuples") == ("ok", "bool", "True")
        assert val(sname + ":aggverify/valid-3-permuted") == ("ok", "bool", "True")
        for lab in (
            "drop-signer",
            "substitute-key",
            "substitute-msg",
            "alter-aggregate",
            "empty",
            "more-keys",
            "bad-key-inf-last",
            "bad-key-non-subgroup-first",
        ):
            assert val(sname + ":aggverify/" + lab) == ("ok", "bool", "False"), (
                sname,
                lab,
            )
        assert val(sname + ":agg/empty-list") == ("exc", "ValidationError")
        assert val(sname + ":agg/bad-short-last") == ("exc", "ValidationError")
        assert val(sname + ":agg/undecodable-then-short") == ("exc", "ValidationError")
        assert val(sname + ":agg/none") == ("exc", "TypeError")
        assert val(sname + ":aggverify/none-keys")[0] == "exc"
    assert val("G2Basic:aggverify/repeated-message") == ("ok", "bool", "False")
    assert val("G2ProofOfPossession:aggverify/repeated-message") == (
        "ok",
        "bool",
        "True",
    )
    assert val("G2ProofOfPossession:aggverify/valid-6") == ("ok", "bool", "True")
    assert val("G2ProofOfPossession:aggverify/swap-msgs") == ("ok", "bool", "False")
    assert val("G2ProofOfPossession:aggverify/extra-signer") == ("ok", "bool", "False")
    assert val("G2ProofOfPossession:fastaggverify/valid-4") == ("ok", "bool", "True")
    assert val("G2ProofOfPossession:fastaggverify/drop-signer") == (
        "ok",
        "bool",
        "False",
    )

    # call histories: in this process, repeat the quick scenarios in reverse order
    # with the two versions interleaved; results must not drift
    quick = [
        lab
        for i, lab in enumerate(CHEAP)
        if ("bad-key" not in lab and "bytearray-msg" not in lab and i % 3 == 0)
        or "empty" in lab
    ]
    for label in reversed(quick):
        for which in ("new", "old", "new"):
            _, _, again = run_one((which, label))
            if again != results[which][label]:
                failures.append(("history:" + which + ":" + label, again))

    # module-level constants untouched by either version
    assert Z1[2] == type(Z1[2]).zero() and Z2[2] == type(Z2[2]).zero()
    assert Z1[0] == 1 and Z1[1] == 1
    assert G1 == pubkey_to_G1(PKS[0]) and multiply(G2, 1) is G2

    n_exc = sum(1 for v in results["new"].values() if v[0] == "exc")
    print(
        "compared %d scenarios (%d costly, %d raising) in %.1fs"
        % (len(ALL), len(COSTLY), n_exc, time.time() - T0)
    )
    if failures:
        for f in failures[:40]:
            print("MISMATCH", f)
        return 1
    print("OK: pristine and edited ciphersuites agree on every scenario")
    return 0


if __name__ == "__main__":
    sys.exit(main())
