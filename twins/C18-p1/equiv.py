import os, sys; sys.path.insert(0, os.getcwd())

"""
Equivalence demonstration for property C18 (secp256k1 group law).

Loads the pristine copy of py_ecc/secp256k1/secp256k1.py under another module
name and compares it with the edited module of the current working tree:
same return values (compared by repr, i.e. value AND type, and for the
Jacobian-level functions the exact projective representative), same exception
classes, on curve points, boundary scalars, projective representatives,
malformed inputs, repeated / interleaved call histories, and on small
prime-order curves obtained by replacing the module constants in BOTH modules.
"""

import importlib.util
import random
import time
from fractions import Fraction

HERE = os.path.dirname(os.path.abspath(__file__))
T0 = time.time()

import py_ecc.secp256k1.secp256k1 as new  # noqa: E402

assert os.path.abspath(new.__file__).startswith(os.getcwd()), new.__file__

spec = importlib.util.spec_from_file_location(
    "pristine_secp256k1", os.path.join(HERE, "pristine", "secp256k1.py")
)
old = importlib.util.module_from_spec(spec)
spec.loader.exec_module(old)

with open(new.__file__) as fh_new, open(old.__file__) as fh_old:
    assert fh_new.read() != fh_old.read(), "working tree is not edited"

rng = random.Random(0xC18)
CHECKS = 0
FAILS = []


def outcome(f, *args):
    try:
        return ("ok", repr(f(*args)))
    except RecursionError:
        return ("exc", "RecursionError")
    except Exception as e:  # noqa: BLE001
        return ("exc", type(e).__name__)


def same(name, *args):
    """call <name> of both modules with the same args, compare outcome"""
    global CHECKS
    CHECKS += 1
    before = repr(args)
    o = outcome(getattr(old, name), *args)
    n = outcome(getattr(new, name), *args)
    if repr(args) != before:
        FAILS.append((name, before, "ARGUMENT MUTATED"))
    if o != n:
        FAILS.append((name, before[:200], o, n))
    return o


# --------------------------------------------------------------------------
# independent textbook affine group law (identity encoded as (0, 0))
# --------------------------------------------------------------------------
def ref_add(p, q, P, A):
    if p == (0, 0):
        return q
    if q == (0, 0):
        return p
    if p[0] == q[0]:
        if (p[1] + q[1]) % P == 0:
            return (0, 0)
        lam = (3 * p[0] * p[0] + A) * pow(2 * p[1], -1, P) % P
    else:
        lam = (q[1] - p[1]) * pow(q[0] - p[0], -1, P) % P
    x = (lam * lam - p[0] - q[0]) % P
    return (x, (lam * (p[0] - x) - p[1]) % P)


def ref_mul(p, n, P, A, N):
    n %= N
    r = (0, 0)
    while n:
        if n & 1:
            r = ref_add(r, p, P, A)
        p = ref_add(p, p, P, A)
        n >>= 1
    return r


def snapshot(mod):
    return (mod.P, mod.N, mod.A, mod.B, mod.Gx, mod.Gy, mod.G)


CONSTS = snapshot(old)
assert snapshot(new) == CONSTS
P, N, A, B = old.P, old.N, old.A, old.B
G = old.G
assert P == 2**256 - 2**32 - 977 and A == 0 and B == 7
assert N == 0xFFFFFFFFFFFFFFFFFFFFFFFFFFFFFFFEBAAEDCE6AF48A03BBFD25E8CD0364141


def lift_x(x):
    while True:
        rhs = (x * x * x + 7) % P
        y = pow(rhs, (P + 1) // 4, P)
        if y * y % P == rhs:
            return (x, y if rng.random() < 0.5 else P - y)
        x = (x + 1) % P


def neg(p):
    return p if p == (0, 0) else (p[0], (P - p[1]) % P)


# --------------------------------------------------------------------------
# 1. real curve: points, scalars
# --------------------------------------------------------------------------
points = [G, neg(G), (0, 0)]
points += [old.multiply(G, k) for k in (2, 3, 7, N - 1, N - 2, (N + 1) // 2)]
points += [lift_x(rng.randrange(P)) for _ in range(10)]
points += [lift_x(v) for v in (1, 2, P - 1, P - 3, 2**255)]

k = 0x1234567
scalars = [0, 1, 2, 3, 4, 5, 7, 8, 15, 16, 17, 255, 256, 2**64, 2**128 - 1, 2**255,
           N - 2, N - 1, N, N + 1, N + 2, 2 * N - 1, 2 * N, 2 * N + 1, 2 * N + k,
           3 * N, N * N, N * N + 1, -1, -2, -k, -N, -N - 1, -N + 1, -2 * N - k,
           2**256, 2**256 - 1, 2**512 - 1, P, P - 1, P + 1, True, False]
scalars += [rng.getrandbits(b) for b in (8, 31, 64, 127, 200, 255, 256, 257, 384, 512)]
scalars += [-rng.getrandbits(b) for b in (8, 64, 256, 300, 512)]

# multiply on every point x scalar (affine API) + textbook cross-check on a subset
for pi, pt in enumerate(points):
    for si, n in enumerate(scalars):
        o = same("multiply", pt, n)
        if (pi + si) % 7 == 0:
            assert o == ("ok", repr(ref_mul(pt, int(n), P, A, N))), (pt, n, o)
print("multiply affine done", CHECKS, round(time.time() - T0, 1))

# add on every ordered pair incl. Q = P, Q = -P, identity operands
for p_ in points:
    for q_ in points + [neg(p_), p_]:
        o = same("add", p_, q_)
        assert o == ("ok", repr(ref_add(p_, q_, P, A))), (p_, q_, o)
print("add affine done", CHECKS, round(time.time() - T0, 1))


# Jacobian level: exact representative must match, also for non-unit Z
def rep(pt, z=None):
    if z is None:
        z = rng.randrange(1, P)
    return (pt[0] * z * z % P, pt[1] * z**3 % P, z)


jac = [(0, 0, 1), (0, 0, 0), (5, 0, 7), (0, 0, 12345)]
for pt in points[:12]:
    if pt == (0, 0):
        continue
    jac += [rep(pt, 1), rep(pt), rep(pt, P - 1), rep(pt, 2)]
# unreduced / negative coordinates of a valid point (still ints)
jac += [(G[0] + P, G[1] - P, 1), (G[0] - 3 * P, G[1] + 2 * P, 1 + P), (G[0], G[1], P),
        (G[0], G[1], -1), (G[0], -G[1], 1)]

for a in jac:
    same("jacobian_double", a)
    same("from_jacobian", a)
    for n in scalars[:30] + scalars[-6:]:
        same("jacobian_multiply", a, n)
for a in jac:
    for b in jac:
        same("jacobian_add", a, b)
# same point, different representatives (doubling branch), and inverse branch
for pt in points[3:9]:
    a, b = rep(pt), rep(pt)
    same("jacobian_add", a, b)
    same("jacobian_add", a, rep(neg(pt)))
    same("jacobian_add", rep(pt, 1), b)
    same("jacobian_add", b, rep(pt, 1))
print("jacobian level done", CHECKS, round(time.time() - T0, 1))

# privtopub
privs = [b"", b"\x00", b"\x01", b"\x02", b"\x00" * 32, b"\x00" * 31 + b"\x01",
         b"\xff" * 32, N.to_bytes(32, "big"), (N - 1).to_bytes(32, "big"),
         (N + 1).to_bytes(32, "big"), b"\xff" * 64, bytearray(b"\x05" * 32),
         [1, 2, 3], "abc", [300, 1], (7,)]
privs += [rng.getrandbits(256).to_bytes(32, "big") for _ in range(8)]
for d in privs:
    o = same("privtopub", d)
    if isinstance(d, (bytes, bytearray)):
        assert o == ("ok", repr(ref_mul(G, int.from_bytes(d, "big"), P, A, N)))
for d in (None, 5, 1.5, [None], ["ab"]):
    same("privtopub", d)

# ECDSA on top of the point arithmetic
for _ in range(6):
    priv = rng.getrandbits(256).to_bytes(32, "big")
    msg = rng.getrandbits(256).to_bytes(32, "big")
    o = same("ecdsa_raw_sign", msg, priv)
    vrs = eval(o[1])
    same("ecdsa_raw_recover", msg, vrs)
    same("ecdsa_raw_recover", msg, (vrs[0] ^ 7, vrs[1], vrs[2]))
    same("ecdsa_raw_recover", msg, (vrs[0], vrs[1], N - vrs[2]))
    same("ecdsa_raw_recover", msg, (29, vrs[1], vrs[2]))
    same("ecdsa_raw_recover", msg, (27, 0, vrs[2]))
    same("ecdsa_raw_recover", msg, (27, vrs[1], 0))
    same("ecdsa_raw_recover", msg, (27, vrs[1], N))
    same("ecdsa_raw_recover", msg, (28, 5, vrs[2]))
print("privtopub / ecdsa done", CHECKS, round(time.time() - T0, 1))

# --------------------------------------------------------------------------
# 2. malformed inputs: same exception class (or same value where accepted)
# --------------------------------------------------------------------------
bad_scalars = [None, "3", b"\x03", 2.0, 3.0, 6.0, 7.0, 1.0, 0.0, -1.0, 2.5, 0.5, 1.5,
               5.5, 1e30, float("inf"), float("-inf"), float("nan"), Fraction(7, 1),
               Fraction(7, 2), Fraction(1, 3), [], (), 2 + 0j, 1j, object]
bad_points = [None, (), (1,), (G[0],), (None, None), (None, 0), (0, None), (5, None),
              ("a", "b"), (G[0], "b"), (1.0, 2.0), (G[0], G[1], 1), [G[0], G[1]],
              list(points[4]), 5, "xy", (3, 4), (0, 5), (5, 0), (P, P), (-1, -1),
              (G[0] + P, G[1] + P), (float(G[0]), float(G[1])), (True, True)]
for n in bad_scalars:
    for pt in (G, (0, 0), points[5], [G[0], G[1]], (3, 4)):
        same("multiply", pt, n)
    for a in ((G[0], G[1], 1), rep(G), (0, 0, 1), (1, 0, 0), (3, 4, 5)):
        same("jacobian_multiply", a, n)
for pt in bad_points:
    for n in (0, 1, 2, 3, 6, N - 1, N, N + 1, -1, -5, 2**300 + 5, None, 2.0, 2.5):
        same("multiply", pt, n)
    for q_ in (G, (0, 0), pt, (3, 4), None):
        same("add", pt, q_)
        same("add", q_, pt)
bad_jac = [None, (), (1,), (1, 2), (1, 0), (0, 0), (1, 2, None), (None, 2, 3),
           (1, None, 3), (1, 2, "z"), ("x", 2, 3), (1.0, 2.0, 1.0), (1.0, 2.0, 3.0),
           (3, 4, 1.0), (3, 4, 0), (3, 4, 0.0), (3, 4, P), (3, 4, 2 * P),
           [G[0], G[1], 1], (G[0], G[1], 1, 99), (True, True, True)]
for a in bad_jac:
    same("jacobian_double", a)
    same("from_jacobian", a)
    for n in (0, 1, 2, 3, 5, N, -3, None, 2.0):
        same("jacobian_multiply", a, n)
    for b in ((G[0], G[1], 1), rep(G), (0, 0, 1), (0, 0, 0), a, (3, 4, 5)):
        same("jacobian_add", a, b)
        same("jacobian_add", b, a)
for args in ((0, P), (1, P), (P, P), (2 * P, P), (-1, P), (P - 1, P), (5, N), (0, 0),
             (3, 0), (3, 1), (None, P), (2.0, P), (7, 7), (14, 7), (6, 9)):
    same("inv", *args)
for v in (b"", b"\x00", b"ab", "ab", [1, 2], [256, 1], None, 5, [None], [b"a"], ["xy"]):
    same("bytes_to_int", v)
    same("to_jacobian", v)
print("malformed done", CHECKS, round(time.time() - T0, 1))

# --------------------------------------------------------------------------
# 3. call histories: repeat / interleave equal and different arguments
# --------------------------------------------------------------------------
pool_pts = points[:8] + [[G[0], G[1]], (3, 4), None]
pool_sc = [0, 1, 2, 3, N - 1, N, N + 1, -1, -k, 2 * N + k, 2.0, None,
           rng.getrandbits(512), rng.getrandbits(256)]
first = {}
for i in range(500):
    kind = rng.choice(["multiply", "add", "privtopub", "jacobian_multiply",
                       "jacobian_add", "jacobian_double"])
    if kind == "multiply":
        args = (rng.choice(pool_pts), rng.choice(pool_sc))
    elif kind == "add":
        args = (rng.choice(pool_pts), rng.choice(pool_pts))
    elif kind == "privtopub":
        args = (rng.choice(privs[:12]),)
    elif kind == "jacobian_multiply":
        args = (rng.choice(jac[:16]), rng.choice(pool_sc))
    elif kind == "jacobian_add":
        args = (rng.choice(jac[:16]), rng.choice(jac[:16]))
    else:
        args = (rng.choice(jac[:16]),)
    o = same(kind, *args)
    key = (kind, repr(args))
    # an equal call later in the history must give an equal result
    assert first.setdefault(key, o) == o, key
assert snapshot(old) == CONSTS and snapshot(new) == CONSTS, "module constants changed"
# returned identity tuples must not be aliased to something mutable / mutated
assert new.multiply((0, 0), 5) == (0, 0) and new.add(G, neg(G)) == (0, 0)
assert new.jacobian_multiply((G[0], G[1], 1), 0) == (0, 0, 1)
assert new.jacobian_multiply((G[0], G[1], 1), N) == (0, 0, 1)
assert new.jacobian_double((5, 0, 7)) == (0, 0, 0)
print("histories done", CHECKS, round(time.time() - T0, 1))


# --------------------------------------------------------------------------
# 4. the same code on small prime-order curves (constants replaced in BOTH)
# --------------------------------------------------------------------------
def small_curves():
    out = []
    for a_, b_ in ((0, 7), (0, 3), (2, 3), (1, 1), (-3, 5), (1, 6), (3, 8), (4, 1)):
        for p_ in (11, 13, 17, 19, 23, 29, 31, 37, 43, 61, 67, 73, 79, 97, 101, 103):
            if (4 * a_**3 + 27 * b_ * b_) % p_ == 0:
                continue
            pts = [(x, y) for x in range(p_) for y in range(p_)
                   if (y * y - x**3 - a_ * x - b_) % p_ == 0]
            n_ = len(pts) + 1
            if n_ > 3 and all(n_ % d for d in range(2, int(n_**0.5) + 1)):
                if any(pt == (0, 0) for pt in pts):
                    continue  # (0, 0) must stay free to encode the identity
                out.append((p_, n_, a_ % p_, b_ % p_, pts))
    return out


curves = small_curves()
assert len(curves) >= 6, len(curves)
assert any(c[2] != 0 for c in curves)
try:
    done = 0
    for (p_, n_, a_, b_, pts) in curves:
        if time.time() - T0 > 75 and done >= 6:
            break
        done += 1
        g_ = pts[0]
        for m in (old, new):
            m.P, m.N, m.A, m.B = p_, n_, a_, b_
            m.Gx, m.Gy = g_
            m.G = g_
        allpts = [(0, 0)] + pts
        sub = allpts if len(allpts) <= 45 else allpts[:25] + rng.sample(allpts[25:], 20)
        for x_ in sub:
            for y_ in allpts:
                o = same("add", x_, y_)
                assert o == ("ok", repr(ref_add(x_, y_, p_, a_))), (p_, a_, x_, y_, o)
        sc = list(range(-2 * n_ - 2, 3 * n_ + 3)) + [n_ * n_, -n_ * n_ + 1, 2**64 + 3]
        for x_ in sub:
            for s_ in sc:
                o = same("multiply", x_, s_)
                assert o == ("ok", repr(ref_mul(x_, s_, p_, a_, n_))), (p_, x_, s_, o)
        # Jacobian level with every Z for a few points, exact representatives
        for x_ in pts[:4]:
            for z_ in range(0, p_ + 2):
                ja = (x_[0] * z_ * z_ % p_, x_[1] * z_**3 % p_, z_)
                same("jacobian_double", ja)
                same("from_jacobian", ja)
                for s_ in (0, 1, 2, 3, n_ - 1, n_, n_ + 1, -1, 2 * n_ + 3):
                    same("jacobian_multiply", ja, s_)
                for y_ in pts[:6]:
                    for z2 in (1, 2, p_ - 1):
                        jb = (y_[0] * z2 * z2 % p_, y_[1] * z2**3 % p_, z2)
                        same("jacobian_add", ja, jb)
                        same("jacobian_add", jb, ja)
        for d in (b"", b"\x00", b"\x01", b"\x02", bytes([n_ % 256]), b"\x01\x00", b"\xff" * 4):
            o = same("privtopub", d)
            assert o == ("ok", repr(ref_mul(g_, int.from_bytes(d, "big"), p_, a_, n_)))
        print("  small curve p=%d N=%d A=%d B=%d ok" % (p_, n_, a_, b_), CHECKS,
              round(time.time() - T0, 1))
finally:
    for m in (old, new):
        m.P, m.N, m.A, m.B, m.Gx, m.Gy, m.G = CONSTS

# back on the real curve after the detour: still the same answers as at the start
for pt in points[:6]:
    for n in (0, 1, 2, N - 1, N, N + 1, -1, 2 * N + k):
        o = same("multiply", pt, n)
        assert o == ("ok", repr(ref_mul(pt, n, P, A, N)))
assert snapshot(old) == CONSTS and snapshot(new) == CONSTS

print("checks:", CHECKS, "failures:", len(FAILS), "time: %.1fs" % (time.time() - T0))
for f in FAILS[:20]:
    print("FAIL", f)
sys.exit(1 if FAILS else 0)
