import os, sys; sys.path.insert(0, os.getcwd())
"""
Equivalence demonstration for property C14.

Loads the pristine py_ecc/fields/optimized_field_elements.py (saved next to this
script under pristine/) under another module name and the edited one from the
worktree (cwd), instantiates the same field classes from both (both real curves plus
small / synthetic fields) and checks that every operation returns the same canonical
value of the same type, or raises an exception of the same class, on random
straight-line programs, boundary values and malformed operands.
"""
import importlib.util
import itertools
import random
import signal

HERE = os.path.dirname(os.path.abspath(__file__))

import py_ecc.fields.optimized_field_elements as NEW  # noqa: E402
import py_ecc.fields.field_elements as REF  # noqa: E402
from py_ecc.fields.field_properties import field_properties  # noqa: E402

assert os.path.abspath(NEW.__file__).startswith(os.getcwd()), NEW.__file__

spec = importlib.util.spec_from_file_location(
    "pristine_optimized_field_elements",
    os.path.join(HERE, "pristine", "optimized_field_elements.py"),
)
OLD = importlib.util.module_from_spec(spec)
sys.modules[spec.name] = OLD
spec.loader.exec_module(OLD)
assert OLD is not NEW and OLD.FQ is not NEW.FQ

signal.signal(signal.SIGALRM, lambda *a: (_ for _ in ()).throw(SystemExit("timeout")))
signal.alarm(170)

rng = random.Random(0xC14)
CHECKS = 0


# --------------------------------------------------------------------------- fields
def make(mod, p, c2, c12):
    FQ = type("tFQ", (mod.FQ,), {"field_modulus": p})
    FQP = type("tFQP", (mod.FQP,), {"field_modulus": p})
    FQ2 = type("tFQ2", (mod.FQ2,), {"field_modulus": p, "FQ2_MODULUS_COEFFS": c2})
    FQ12 = type("tFQ12", (mod.FQ12,), {"field_modulus": p, "FQ12_MODULUS_COEFFS": c12})
    return {"FQ": FQ, "FQP": FQP, "FQ2": FQ2, "FQ12": FQ12, "p": p, "c2": c2, "c12": c12}


FIELDS = {}
for name in ("bn128", "bls12_381"):
    fp = field_properties[name]
    FIELDS[name] = (fp["field_modulus"], fp["fq2_modulus_coeffs"], fp["fq12_modulus_coeffs"])
FIELDS["p7"] = (7, (1, 0), (3, 0, 0, 0, 0, 0, 5, 0, 0, 0, 0, 0))
FIELDS["p2"] = (2, (1, 1), (1, 1, 0, 1, 0, 0, 0, 0, 0, 0, 0, 1))
FIELDS["p13"] = (13, (2, 0), (2, 1, 0, 0, 5, 0, 0, 7, 0, 0, 0, 12))
FIELDS["p103"] = (103, (5, 3), (82, 0, 0, 0, 0, 0, -18, 0, 0, 0, 0, 0))
FIELDS["m127"] = (2**127 - 1, (1, 0), (2, 0, 0, 0, 0, 0, -2, 0, 0, 0, 0, 0))
# not a field at all (composite modulus, reducible polynomial): must still agree
FIELDS["n15"] = (15, (0, 0), (0, 0, 0, 0, 0, 0, 0, 0, 0, 0, 0, 0))

PAIRS = {k: (make(OLD, *v), make(NEW, *v)) for k, v in FIELDS.items()}


# ------------------------------------------------------------------------ observing
def canon(v, depth=0):
    """canonical, module independent description of a result"""
    for mod in (OLD, NEW):
        if isinstance(v, mod.FQ):
            return ("FQ", type(v).__name__, type(v.n).__name__, v.n, type(v).field_modulus)
        if isinstance(v, mod.FQP):
            return (
                "FQP",
                type(v).__name__,
                tuple(canon(c, depth + 1) for c in v.coeffs),
                tuple(canon(c, depth + 1) for c in v.modulus_coeffs),
                v.degree,
                tuple(getattr(v, "mc_tuples", ("<none>",))),
            )
    if isinstance(v, (REF.FQ,)):
        return ("refFQ", v.n)
    if isinstance(v, (list, tuple)):
        return (type(v).__name__,) + tuple(canon(c, depth + 1) for c in v)
    if isinstance(v, (int, bool, float, str, bytes, type(None))):
        return (type(v).__name__, repr(v))
    return ("obj", type(v).__name__)


def outcome(fn):
    try:
        return ("ok", canon(fn()))
    except RecursionError:
        raise
    except Exception as e:  # noqa: BLE001
        return ("exc", type(e).__name__, str(e).replace("pristine_", "").replace(
            "py_ecc.fields.optimized_field_elements", "optimized_field_elements"))


def same(label, f_old, f_new):
    global CHECKS
    a, b = outcome(f_old), outcome(f_new)
    CHECKS += 1
    if a != b:
        print("MISMATCH", label, "\n  old:", a, "\n  new:", b)
        sys.exit(1)
    return a


# ------------------------------------------------------------------ random programs
def rand_int(p):
    return rng.choice(
        [0, 1, 2, -1, -2, p, p - 1, p + 1, -p, 2 * p, p // 2, rng.randrange(p),
         rng.randrange(-3 * p, 3 * p + 1), rng.getrandbits(16), True, False]
    )


def leaf(kind, F, p):
    """an element description that can be built in either module"""
    if kind == "FQ":
        return ("mk", "FQ", rand_int(p))
    n = 2 if kind == "FQ2" else 12
    style = rng.random()
    if style < 0.1:
        cs = [0] * n
    elif style < 0.2:
        cs = [1] + [0] * (n - 1)
    elif style < 0.3:
        cs = [rand_int(p)] + [0] * (n - 1)
    elif style < 0.4:
        cs = [0] * (n - 1) + [rand_int(p)]
    else:
        cs = [rand_int(p) for _ in range(n)]
    if rng.random() < 0.12:
        return ("mkfq", kind, cs)  # coefficients given as FQ objects, kept as such
    return ("mk", kind, cs)


def gen(kind, F, p, depth):
    if depth == 0 or rng.random() < 0.18:
        return leaf(kind, F, p)
    ops = ["+", "-", "*", "/", "**", "neg", "int*", "*int", "/int"]
    if kind == "FQ" or rng.random() < 0.03:
        # FQP refuses these with a TypeError: keep them rare there
        ops += ["+int", "int-", "int/"]
    op = rng.choice(ops)
    if op == "neg":
        return ("neg", gen(kind, F, p, depth - 1))
    if op == "**":
        e = rng.choice([0, 1, 2, 3, 5, rng.randrange(40), -1, rng.choice([p - 1, p - 2, p, p * p - 1]) if p < 10**4 else rng.randrange(2**10)])
        return ("**", gen(kind, F, p, depth - 1), e)
    if op in ("int*", "*int", "/int", "+int", "int-", "int/"):
        return (op, gen(kind, F, p, depth - 1), rand_int(p))
    return (op, gen(kind, F, p, depth - 1), gen(kind, F, p, depth - 1))


def ev(t, F):
    tag = t[0]
    if tag == "mk":
        return F[t[1]](t[2])
    if tag == "mkfq":
        return F[t[1]]([F["FQ"](c) for c in t[2]])
    if tag == "neg":
        return -ev(t[1], F)
    if tag == "**":
        return ev(t[1], F) ** t[2]
    a = ev(t[1], F)
    if tag == "int*":
        return t[2] * a
    if tag == "*int":
        return a * t[2]
    if tag == "/int":
        return a / t[2]
    if tag == "+int":
        return a + t[2]
    if tag == "int-":
        return t[2] - a
    if tag == "int/":
        return t[2] / a
    b = ev(t[2], F)
    if tag == "+":
        return a + b
    if tag == "-":
        return a - b
    if tag == "*":
        return a * b
    if tag == "/":
        return a / b
    raise AssertionError(tag)


def observe(t, F):
    v = ev(t, F)
    extra = [v.sgn0, v.sgn0, repr(v)]
    if isinstance(v, (OLD.FQ, NEW.FQ)):
        extra += [int(v), v == v.n, v != v.n + 1, v < 3, v <= v, v > 0, v >= type(v)(5)]
    else:
        extra += [v == v, v != v, v == type(v).one(), v == type(v).zero()]
    return [v] + extra


PLAN = {
    "bn128": {"FQ": (150, 8), "FQ2": (120, 8), "FQ12": (40, 5)},
    "bls12_381": {"FQ": (150, 8), "FQ2": (120, 8), "FQ12": (40, 5)},
    "p7": {"FQ": (200, 8), "FQ2": (200, 8), "FQ12": (90, 6)},
    "p2": {"FQ": (80, 8), "FQ2": (120, 8), "FQ12": (60, 6)},
    "p13": {"FQ": (100, 8), "FQ2": (150, 8), "FQ12": (60, 6)},
    "p103": {"FQ": (100, 8), "FQ2": (150, 8), "FQ12": (60, 6)},
    "m127": {"FQ": (100, 8), "FQ2": (100, 8), "FQ12": (30, 5)},
    # composite modulus: Euclid on polynomials need not terminate there, prime field only
    "n15": {"FQ": (150, 8)},
}
stats = {}
for fname, (Fo, Fn) in PAIRS.items():
    for kind, (count, depth) in PLAN[fname].items():
        for k in range(count):
            t = gen(kind, Fo, Fo["p"], rng.randrange(1, depth + 1))
            r = same(f"{fname}/{kind}/tree{k}: {t!r}"[:600], lambda: observe(t, Fo), lambda: observe(t, Fn))
            stats[r[0]] = stats.get(r[0], 0) + 1

# ------------------------------------------------------ exhaustive small-field tables
for fname in ("p7", "p2", "p13", "n15"):
    Fo, Fn = PAIRS[fname]
    p = Fo["p"]
    vals = list(range(-p - 1, 2 * p + 2))
    for a, b in itertools.product(vals, vals):
        if fname == "p13" and rng.random() < 0.6:
            continue
        for mk in (lambda F, x: F["FQ"](x), lambda F, x: x):
            def run(F):
                x, y = F["FQ"](a), mk(F, b)
                out = []
                for f in (lambda: x + y, lambda: y + x, lambda: x - y, lambda: y - x,
                          lambda: x * y, lambda: y * x, lambda: x / y, lambda: y / x,
                          lambda: x == y, lambda: y == x, lambda: x != y, lambda: x < y,
                          lambda: x <= y, lambda: x > y, lambda: x >= y, lambda: x ** b,
                          lambda: (-x).sgn0):
                    out.append(outcome(f))
                return out
            same(f"{fname} FQ table {a} {b}", lambda: run(Fo), lambda: run(Fn))
    # all of FQ2 for the tiny primes: inverse, division, sgn0, comparisons
    if p <= 7:
        elems = list(itertools.product(range(p), repeat=2))
        for ca in elems:
            for cb in elems:
                def run2(F):
                    x, y = F["FQ2"](ca), F["FQ2"](cb)
                    return [outcome(f) for f in (
                        lambda: x + y, lambda: x - y, lambda: x * y, lambda: x / y,
                        lambda: x == y, lambda: x != y, lambda: x.inv(), lambda: x.sgn0,
                        lambda: x * 3, lambda: 3 * x, lambda: x / 3, lambda: x ** (p * p - 2),
                        lambda: -x, lambda: F["FQP"](ca, F["c2"]).sgn0)]
                same(f"{fname} FQ2 table {ca} {cb}", lambda: run2(Fo), lambda: run2(Fn))

# ------------------------------------------------ malformed operands / constructors
BAD = [None, 1.5, "3", b"\x01", [1], (1, 2), 2 + 0j, float("nan"), object, REF.FQ]


def bad_values(F):
    refFQ = type("rFQ", (REF.FQ,), {"field_modulus": F["p"]})
    other = type("oFQ", (F["FQ"].__mro__[1],), {"field_modulus": 11})
    sub = type("sFQ", (F["FQ"],), {})
    return BAD + [refFQ(3), other(5), sub(4), F["FQ2"]([1, 2]), F["FQ12"]([1] * 12),
                  F["FQP"]([1, 2], F["c2"]), True, False, 0, -1]


for fname in ("bn128", "bls12_381", "p7", "p103"):
    Fo, Fn = PAIRS[fname]
    nbad = len(bad_values(Fo))
    for kind in ("FQ", "FQ2", "FQ12"):
        n = {"FQ": None, "FQ2": 2, "FQ12": 12}[kind]
        for i in range(nbad):
            def runb(F):
                bad = bad_values(F)[i]
                x = F[kind](5) if n is None else F[kind]([3] + [2] * (n - 1))
                fs = [lambda: x + bad, lambda: bad + x, lambda: x - bad, lambda: bad - x,
                      lambda: x * bad, lambda: bad * x, lambda: x / bad, lambda: bad / x,
                      lambda: x == bad, lambda: bad == x, lambda: x != bad, lambda: bad != x,
                      lambda: x ** bad, lambda: x % bad, lambda: x.__div__(bad),
                      lambda: x.__truediv__(bad), lambda: x.__rmul__(bad),
                      lambda: F[kind](bad), lambda: F[kind]([bad] * (n or 1)),
                      lambda: OLD.mod_int(bad, 2) if F is Fo else NEW.mod_int(bad, 2)]
                if n is None:
                    fs += [lambda: x < bad, lambda: x <= bad, lambda: x > bad, lambda: x >= bad,
                           lambda: bad < x, lambda: x.__radd__(bad), lambda: x.__rsub__(bad),
                           lambda: x.__rdiv__(bad), lambda: x.__rtruediv__(bad),
                           lambda: x.__lt__(bad), lambda: x.__eq__(bad), lambda: x.__ne__(bad)]
                return [outcome(f) for f in fs]
            same(f"{fname}/{kind}/bad{i}", lambda: runb(Fo), lambda: runb(Fn))

    # constructors: wrong lengths, empty, missing class attributes, mixed coefficient kinds
    def runc(F):
        fs = [lambda: F["FQ2"]([]), lambda: F["FQ2"]([1]), lambda: F["FQ2"]([1, 2, 3]),
              lambda: F["FQ12"]([1, 2]), lambda: F["FQP"]([1, 2]), lambda: F["FQP"]([], ()),
              lambda: F["FQP"]([1, 2, 3], (1, 0, 2)), lambda: F["FQP"]([1, 2, 3], (1, 0, 2)).sgn0,
              lambda: F["FQP"]([0, 0, 3], (1, 0, 2)).sgn0, lambda: F["FQP"]([0, 0, 0], (1, 0, 2)).sgn0,
              lambda: F["FQP"]([1, 2], F["c2"]) * F["FQP"]([1, 2], F["c2"]),
              lambda: F["FQP"]([1], (3,)) * F["FQP"]([1], (3,)),
              lambda: F["FQP"]([1, 2], F["c2"]) + F["FQP"]([1, 2], F["c2"]),
              lambda: F["FQP"]([4, 2], F["c2"]).inv(),
              lambda: F["FQ2"]([1, F["FQ"](2)]), lambda: F["FQ2"]([F["FQ"](1), 2]),
              lambda: F["FQ2"]([F["FQ"](1), 2]) * F["FQ2"]([3, 4]),
              lambda: F["FQ2"]([F["FQ"](1), 2]) / F["FQ2"]([F["FQ"](3), F["FQ"](4)]),
              lambda: F["FQ2"]([F["FQ"](1), F["FQ"](2)]).inv(),
              lambda: F["FQ2"]([F["FQ"](0), F["FQ"](0)]).inv(),
              lambda: F["FQ2"]([F["FQ"](0), F["FQ"](1)]).sgn0,
              lambda: F["FQ12"]([F["FQ"](i) for i in range(12)]).inv(),
              lambda: F["FQ12"]([F["FQ"](i) for i in range(12)]) ** 5,
              lambda: F["FQ2"]([1, 2]) * F["FQ12"]([1] * 12), lambda: F["FQ12"]([1] * 12) * F["FQ2"]([1, 2]),
              lambda: F["FQ2"]([1, 2]) + F["FQ12"]([1] * 12), lambda: F["FQ2"]([1, 2]) / F["FQ12"]([1] * 12),
              lambda: F["FQ2"]([1, 2]) == F["FQ12"]([1] * 12), lambda: F["FQ2"]([1.5, 2]),
              lambda: F["FQ2"](["a", "b"]), lambda: F["FQ2"](["a", "b"]) / 3, lambda: F["FQ2"]("ab"),
              lambda: F["FQ"](F["FQ"](3)), lambda: F["FQ"](F["FQ2"]([1, 2])), lambda: F["FQ"].one(),
              lambda: F["FQ"].zero(), lambda: F["FQ2"].one(), lambda: F["FQ2"].zero(),
              lambda: F["FQ12"].one(), lambda: F["FQ12"].zero(), lambda: F["FQP"].one(), lambda: F["FQP"].zero(),
              lambda: F["FQ"].__mro__[1](3), lambda: F["FQ2"].__mro__[1]([1, 2]),
              lambda: F["FQ12"].__mro__[1]([1] * 12), lambda: F["FQP"].__mro__[1]([1], (1,)),
              lambda: hash(F["FQ"](3)), lambda: {F["FQ2"]([1, 2]): 1} and 1,
              lambda: sorted([F["FQ"](5), F["FQ"](2), 3, F["FQ"](-1)]),
              lambda: F["FQ"](3) in [1, 2, F["FQ"](3)], lambda: [F["FQ"](3), 4].index(4),
              lambda: F["FQ"](3) in [None]]
        return [outcome(f) for f in fs]
    same(f"{fname}/constructors", lambda: runc(Fo), lambda: runc(Fn))

    # the polynomial division helper called directly, incl. deg(a) < deg(b), zero divisor
    polys = [[0], [1], [0, 0], [5], [1, 2], [0, 3], [3, 0], [1, 2, 3], [0, 0, 0, 1], [4, 0, 0, 0],
             [1, 0, 1, 0, 0], [2, 7, 1, 8, 2, 8], [], [-1, -5, 9], ["a", 1], [1.5, 2.0]]
    polys += [[rng.randrange(-5, Fo["p"] + 5) for _ in range(rng.randrange(1, 14))] for _ in range(25)]
    for a in polys:
        for b in polys:
            def rund(F):
                x = F["FQ12"]([1] * 12)
                a2, b2 = list(a), list(b)
                res = outcome(lambda: x.optimized_poly_rounded_div(a2, b2))
                fa = [F["FQ"](c) if isinstance(c, int) else c for c in a]
                res2 = outcome(lambda: x.optimized_poly_rounded_div(fa, tuple(b)))
                return [res, res2, a2 == list(a), b2 == list(b)]  # arguments not mutated
            same(f"{fname}/polydiv {a} {b}", lambda: rund(Fo), lambda: rund(Fn))

# --------------------------------- call histories: repeat / interleave, no state leaks
for fname in ("bn128", "bls12_381", "p7"):
    Fo, Fn = PAIRS[fname]
    p = Fo["p"]
    seeds = [[rand_int(p) for _ in range(12)] for _ in range(6)]

    def runh(F):
        xs = [F["FQ12"](s) for s in seeds]
        ys = [F["FQ2"](s[:2]) for s in seeds]
        zs = [F["FQ"](s[0]) for s in seeds]
        log = []
        for rnd in range(2):
            for i in range(len(seeds)):
                j = (i * 5 + 1) % len(seeds)
                log.append(outcome(lambda: xs[i].inv()))
                log.append(outcome(lambda: xs[i] / xs[j]))
                log.append(outcome(lambda: ys[i].inv() * ys[j]))
                log.append(outcome(lambda: ys[i].sgn0 + xs[i].sgn0 + zs[i].sgn0))
                log.append(outcome(lambda: zs[i] / zs[j] + zs[j] - 1 == zs[i]))
                log.append(outcome(lambda: xs[i].inv()))
        # operands are untouched
        log.append(canon(xs)); log.append(canon(ys)); log.append(canon(zs))
        log.append(canon(list(F["FQ12"].FQ12_MODULUS_COEFFS)))
        return log
    same(f"{fname}/history", lambda: runh(Fo), lambda: runh(Fn))

# ------------------------------ and the property itself on the edited module (sanity)
from py_ecc.fields import (  # noqa: E402
    bls12_381_FQ2, bls12_381_FQ12, bn128_FQ2, bn128_FQ12,
    optimized_bls12_381_FQ2, optimized_bls12_381_FQ12, optimized_bn128_FQ2, optimized_bn128_FQ12,
)
for R, O, n in ((bn128_FQ2, optimized_bn128_FQ2, 2), (bn128_FQ12, optimized_bn128_FQ12, 12),
                (bls12_381_FQ2, optimized_bls12_381_FQ2, 2), (bls12_381_FQ12, optimized_bls12_381_FQ12, 12)):
    assert issubclass(O, NEW.FQP)
    for _ in range(6):
        ca = [rng.randrange(R.field_modulus) for _ in range(n)]
        cb = [rng.randrange(R.field_modulus) for _ in range(n)]
        r = (R(ca) / R(cb) - R(cb).inv() * 3 + R(ca) ** 5) * R(cb)
        o = (O(ca) / O(cb) - O(cb).inv() * 3 + O(ca) ** 5) * O(cb)
        assert tuple(int(c) for c in r.coeffs) == tuple(int(c) for c in o.coeffs)
        CHECKS += 1

signal.alarm(0)
print("program outcomes:", stats)
print(f"OK: {CHECKS} comparisons identical between pristine and edited module")
