import os, sys; sys.path.insert(0, os.getcwd())  # noqa: E401,E702

"""
Equivalence demonstration for refactoring r1 (property C20).

Loads the pristine py_ecc/fields/optimized_field_elements.py (saved next to this
script) under another module name and the refactored one from the working tree, runs
the same long, seeded scenario on both and checks that

  * every result (value, type name, full instance state) is identical,
  * every exception is of the same class with the same message,
  * operands and class-level constants are bit-for-bit unchanged by every call,
  * repeating calls in another order / after other calls gives the same results.
"""

import importlib
import importlib.util
import random

HERE = os.path.dirname(os.path.abspath(__file__))
PRISTINE = os.path.join(HERE, "pristine", "optimized_field_elements.py")

spec = importlib.util.spec_from_file_location("pristine_ofe", PRISTINE)
OLD = importlib.util.module_from_spec(spec)
sys.modules["pristine_ofe"] = OLD
spec.loader.exec_module(OLD)

NEW = importlib.import_module("py_ecc.fields.optimized_field_elements")
assert os.path.abspath(NEW.__file__).startswith(os.getcwd()), NEW.__file__
assert os.path.abspath(NEW.__file__) != PRISTINE
with open(NEW.__file__) as fh_new, open(PRISTINE) as fh_old:
    assert fh_new.read() != fh_old.read(), "working tree is not refactored"

from py_ecc.fields.field_properties import field_properties  # noqa: E402

BLS = field_properties["bls12_381"]
BN = field_properties["bn128"]


def build(mod):
    """Create the same family of field classes on top of module ``mod``."""
    fam = {}
    for name, p, c2, c12 in (
        ("bls", BLS["field_modulus"], BLS["fq2_modulus_coeffs"],
         BLS["fq12_modulus_coeffs"]),
        ("bn", BN["field_modulus"], BN["fq2_modulus_coeffs"],
         BN["fq12_modulus_coeffs"]),
        ("s7", 7, (1, 0), (2, 0, 0, 0, 0, 0, -2, 0, 0, 0, 0, 0)),
        ("s13", 13, (2, 0), (5, 0, 0, 1, 0, 0, 0, 0, 7, 0, 0, 0)),
        ("s2", 2, (1, 1), (1, 1, 0, 1, 0, 0, 0, 0, 0, 0, 0, 0)),
    ):
        FQ = type(name + "_FQ", (mod.FQ,), {"field_modulus": p})
        FQP = type(name + "_FQP", (mod.FQP,), {"field_modulus": p})
        FQ2 = type(
            name + "_FQ2", (mod.FQ2, FQP),
            {"field_modulus": p, "FQ2_MODULUS_COEFFS": c2},
        )
        FQ12 = type(
            name + "_FQ12", (mod.FQ12, FQP),
            {"field_modulus": p, "FQ12_MODULUS_COEFFS": c12},
        )
        fam[name] = dict(p=p, FQ=FQ, FQP=FQP, FQ2=FQ2, FQ12=FQ12)

    # ad-hoc extension degrees that are not FQ2/FQ12
    class FQ3(mod.FQP):
        field_modulus = 7
        degree = 3

        def __init__(self, coeffs):
            self.mc_tuples = [(0, 2)]
            super().__init__(coeffs, (2, 0, 0))

    class FQ1(mod.FQP):
        field_modulus = 11
        degree = 1

        def __init__(self, coeffs):
            self.mc_tuples = [(0, 3)]
            super().__init__(coeffs, (3,))

    class NoModulusFQ2(mod.FQ2):
        FQ2_MODULUS_COEFFS = (1, 0)

    class NoCoeffsFQ2(mod.FQ2):
        field_modulus = 7

    class NoCoeffsFQ12(mod.FQ12):
        field_modulus = 7

    fam["x"] = dict(FQ3=FQ3, FQ1=FQ1, NoModulusFQ2=NoModulusFQ2,
                    NoCoeffsFQ2=NoCoeffsFQ2, NoCoeffsFQ12=NoCoeffsFQ12)
    return fam


def norm(mod, v):
    """Plain-data image of a value, including the complete instance state."""
    if isinstance(v, mod.FQP):
        d = dict(v.__dict__)
        return (
            "FQP", type(v).__name__,
            tuple(sorted((k, norm(mod, x)) for k, x in d.items())),
            type(v.coeffs).__name__, type(v.__dict__.get("mc_tuples")).__name__,
        )
    if isinstance(v, mod.FQ):
        return ("FQ", type(v).__name__, tuple(sorted(v.__dict__.items())))
    if isinstance(v, (list, tuple)):
        return (type(v).__name__,) + tuple(norm(mod, x) for x in v)
    if isinstance(v, (int, bool, str, float, bytes)) or v is None:
        return (type(v).__name__, v)
    return ("OBJ", type(v).__name__, repr(v))


def attempt(mod, f):
    try:
        return ("OK", norm(mod, f()))
    except BaseException as e:  # noqa: BLE001
        return ("EXC", type(e).__name__, str(e).replace("pristine_ofe", "M").replace(
            "py_ecc.fields.optimized_field_elements", "M"))


def class_state(mod, fam):
    out = []
    for name in sorted(fam):
        for cname in sorted(fam[name]):
            c = fam[name][cname]
            if isinstance(c, type):
                out.append((name, cname, tuple(sorted(
                    (k, repr(x)) for k, x in vars(c).items()
                    if not k.startswith("__") and not callable(x)
                    and not isinstance(x, (classmethod, staticmethod))
                ))))
    return out


def scenario(mod, order_seed):
    fam = build(mod)
    rnd = random.Random(20200620)
    log = {}
    calls = []  # (label, thunk, operands)

    def add(label, thunk, *operands):
        calls.append((label, thunk, operands))

    for name in ("bls", "bn", "s7", "s13", "s2"):
        f = fam[name]
        p = f["p"]
        FQ, FQ2, FQ12 = f["FQ"], f["FQ2"], f["FQ12"]
        edge = [0, 1, 2, p - 1, p, p + 1, -1, -p, 2 * p + 3, 2 ** 400 + 1]

        def rc(n, _p=p):
            return [rnd.choice(edge + [rnd.randrange(_p)]) for _ in range(n)]

        e2 = [FQ2([0, 0]), FQ2([1, 0]), FQ2([0, 1]), FQ2([p - 1, p - 1]),
              FQ2([-1, 5]), FQ2(rc(2)), FQ2(rc(2)), FQ2(tuple(rc(2)))]
        e12 = [FQ12([0] * 12), FQ12([1] + [0] * 11), FQ12([0] * 11 + [1]),
               FQ12([p - 1] * 12), FQ12(rc(12)), FQ12(rc(12))]
        # coefficients handed over as field objects (stored unreduced, as FQ objects)
        e2.append(FQ2([FQ(3), FQ(5)]))
        e12.append(FQ12([FQ(i + 1) for i in range(12)]))
        ints = [0, 1, 2, -1, p, p - 1, 2 ** 300 + 7, True, False]
        junk = [None, "3", 1.5, b"\x01", [1, 2], (1, 2), FQ(3), object]

        for K, els in ((FQ2, e2), (FQ12, e12)):
            tag = f"{name}.{K.__name__}"
            add(f"{tag}.one", lambda K=K: K.one())
            add(f"{tag}.zero", lambda K=K: K.zero())
            for i, a in enumerate(els):
                add(f"{tag}[{i}].repr", lambda a=a: repr(a), a)
                add(f"{tag}[{i}].neg", lambda a=a: -a, a)
                add(f"{tag}[{i}].sgn0", lambda a=a: a.sgn0, a)
                add(f"{tag}[{i}].sq", lambda a=a: a * a, a)
                add(f"{tag}[{i}].inv", lambda a=a: a.inv(), a)
                for e in (0, 1, 2, 3, 5, p, p * p - 1 if K is FQ2 else 17, -3):
                    add(f"{tag}[{i}]**{e}", lambda a=a, e=e: a ** e, a)
                for k in ints:
                    add(f"{tag}[{i}]*int{k!r}", lambda a=a, k=k: a * k, a)
                    add(f"{tag}int{k!r}*[{i}]", lambda a=a, k=k: k * a, a)
                    add(f"{tag}[{i}]/int{k!r}", lambda a=a, k=k: a / k, a)
                for jn, j in enumerate(junk):
                    add(f"{tag}[{i}]*junk{jn}", lambda a=a, j=j: a * j, a)
                    add(f"{tag}junk{jn}*[{i}]", lambda a=a, j=j: j * a, a)
                    add(f"{tag}[{i}]/junk{jn}", lambda a=a, j=j: a / j, a)
                    add(f"{tag}[{i}]+junk{jn}", lambda a=a, j=j: a + j, a)
                    add(f"{tag}[{i}]==junk{jn}", lambda a=a, j=j: a == j, a)
                for jx, b in enumerate(els):
                    add(f"{tag}[{i}]*[{jx}]", lambda a=a, b=b: a * b, a, b)
                    add(f"{tag}[{i}]+[{jx}]", lambda a=a, b=b: a + b, a, b)
                    add(f"{tag}[{i}]-[{jx}]", lambda a=a, b=b: a - b, a, b)
                    add(f"{tag}[{i}]==[{jx}]", lambda a=a, b=b: a == b, a, b)
                    add(f"{tag}[{i}]!=[{jx}]", lambda a=a, b=b: a != b, a, b)
                    if K is FQ2 or (i + jx) % 3 == 0:
                        add(f"{tag}[{i}]/[{jx}]", lambda a=a, b=b: a / b, a, b)
        # mixed extension degrees and mixed fields
        for i, a in enumerate(e2[:4]):
            for jx, b in enumerate(e12[:4]):
                add(f"{name}.mix2x12[{i},{jx}]", lambda a=a, b=b: a * b, a, b)
                add(f"{name}.mix12x2[{i},{jx}]", lambda a=a, b=b: b * a, a, b)
        f["_e2"], f["_e12"] = e2, e12
        # malformed constructions
        add(f"{name}.FQ2(3 coeffs)", lambda FQ2=FQ2: FQ2([1, 2, 3]))
        add(f"{name}.FQ2(empty)", lambda FQ2=FQ2: FQ2([]))
        add(f"{name}.FQ12(2 coeffs)", lambda FQ12=FQ12: FQ12([1, 2]))
        add(f"{name}.FQ2(str)", lambda FQ2=FQ2: FQ2("ab"))
        add(f"{name}.FQ2(None)", lambda FQ2=FQ2: FQ2(None))
        add(f"{name}.FQ2(floats)", lambda FQ2=FQ2: FQ2([1.5, 2.5]) * FQ2([1, 1]))
        add(f"{name}.FQP()", lambda f=f: f["FQP"]([1, 2]))
        add(f"{name}.FQP(2,2)*", lambda f=f: f["FQP"]([1, 2], [1, 0])
            * f["FQP"]([1, 2], [1, 0]))

    # cross-field products (bls element times bn element etc.)
    for n1, n2 in (("bls", "bn"), ("s7", "s13"), ("s7", "bls")):
        for i in range(3):
            a, b = fam[n1]["_e2"][i + 3], fam[n2]["_e2"][i + 4]
            add(f"cross2.{n1}.{n2}[{i}]", lambda a=a, b=b: a * b, a, b)
            a, b = fam[n1]["_e12"][i + 3], fam[n2]["_e12"][i + 2]
            add(f"cross12.{n1}.{n2}[{i}]", lambda a=a, b=b: a * b, a, b)

    X = fam["x"]
    FQ3, FQ1 = X["FQ3"], X["FQ1"]
    e3 = [FQ3([0, 0, 0]), FQ3([1, 0, 0]), FQ3([6, 6, 6]), FQ3([1, 2, 3]),
          FQ3([0, 0, 5])]
    e1 = [FQ1([0]), FQ1([1]), FQ1([10]), FQ1([7])]
    for tag, els in (("FQ3", e3), ("FQ1", e1)):
        for i, a in enumerate(els):
            add(f"{tag}[{i}].inv", lambda a=a: a.inv(), a)
            add(f"{tag}[{i}]**5", lambda a=a: a ** 5, a)
            add(f"{tag}[{i}]**342", lambda a=a: a ** 342, a)
            for jx, b in enumerate(els):
                add(f"{tag}[{i}]*[{jx}]", lambda a=a, b=b: a * b, a, b)
                add(f"{tag}[{i}]/[{jx}]", lambda a=a, b=b: a / b, a, b)
    add("FQ3*FQ1", lambda: e3[3] * e1[2], e3[3], e1[2])
    add("FQ1*FQ3", lambda: e1[2] * e3[3], e3[3], e1[2])
    add("NoModulusFQ2", lambda: X["NoModulusFQ2"]([1, 2]))
    add("NoCoeffsFQ2", lambda: X["NoCoeffsFQ2"]([1, 2]))
    add("NoCoeffsFQ12", lambda: X["NoCoeffsFQ12"]([1] * 12))

    before_classes = class_state(mod, fam)
    idx = list(range(len(calls)))
    random.Random(order_seed).shuffle(idx)
    impure = []
    for k in idx:
        label, thunk, operands = calls[k]
        snap = [norm(mod, o) for o in operands]
        ids = [id(o.coeffs) for o in operands]
        log[label] = attempt(mod, thunk)
        if [norm(mod, o) for o in operands] != snap or [
            id(o.coeffs) for o in operands
        ] != ids:
            # the only permitted change is the sgn0 cache appearing on a.sgn0
            if not label.endswith(".sgn0"):
                impure.append(label)
    # second pass in yet another order: history independence
    random.Random(order_seed + 1).shuffle(idx)
    unstable = []
    for k in idx:
        label, thunk, operands = calls[k]
        if attempt(mod, thunk) != log[label]:
            unstable.append(label)
    assert class_state(mod, fam) == before_classes, "class-level constant changed"
    return log, impure, unstable


def main():
    old_log, old_impure, old_unstable = scenario(OLD, 1)
    new_log, new_impure, new_unstable = scenario(NEW, 1)
    new_log2, new_impure2, new_unstable2 = scenario(NEW, 99)  # another history

    assert old_log.keys() == new_log.keys() == new_log2.keys()
    diff = [k for k in old_log if old_log[k] != new_log[k]]
    diff2 = [k for k in old_log if old_log[k] != new_log2[k]]
    n_exc = sum(1 for v in old_log.values() if v[0] == "EXC")
    kinds = sorted({v[1] for v in old_log.values() if v[0] == "EXC"})
    print(f"{len(old_log)} calls compared, {n_exc} of them raise ({kinds})")
    print("differences old/new:", diff[:10], "other history:", diff2[:10])
    print("impure:", old_impure[:5], new_impure[:5], new_impure2[:5])
    print("unstable:", old_unstable[:5], new_unstable[:5], new_unstable2[:5])
    assert not diff and not diff2
    assert not (old_impure or new_impure or new_impure2)
    assert not (old_unstable or new_unstable or new_unstable2)

    # the extracted helper returns a new list on every call and keeps its argument
    coeffs = BLS["fq12_modulus_coeffs"]
    snap = tuple(coeffs)
    t1, t2 = NEW._sparse_terms(coeffs), NEW._sparse_terms(coeffs)
    assert t1 == t2 == [(i, c) for i, c in enumerate(coeffs) if c] and t1 is not t2
    assert tuple(coeffs) == snap
    fam = build(NEW)
    a, b = fam["bls"]["FQ12"]([1] * 12), fam["bls"]["FQ12"]([2] * 12)
    assert a.mc_tuples == b.mc_tuples and a.mc_tuples is not b.mc_tuples
    print("r1 equivalence: OK")


if __name__ == "__main__":
    main()
