import os, sys; sys.path.insert(0, os.getcwd())

import hashlib
import importlib.util
import random

HERE = os.path.dirname(os.path.abspath(__file__))

from py_ecc.secp256k1 import secp256k1 as new  # noqa: E402

assert os.path.abspath(new.__file__).startswith(os.path.abspath(os.getcwd())), new.__file__

spec = importlib.util.spec_from_file_location(
    "pristine_secp256k1", os.path.join(HERE, "pristine", "secp256k1.py")
)
old = importlib.util.module_from_spec(spec)
spec.loader.exec_module(old)

P, N = old.P, old.N
assert (new.P, new.N, new.A, new.B, new.G, new.Gx, new.Gy) == (
    old.P, old.N, old.A, old.B, old.G, old.Gx, old.Gy
)
CONSTS = ("P", "N", "A", "B", "G", "Gx", "Gy")


def snapshot(mod):
    return tuple(getattr(mod, c) for c in CONSTS)


SNAP_OLD, SNAP_NEW = snapshot(old), snapshot(new)


def outcome(fn, *args):
    try:
        res = fn(*args)
        return ("ok", type(res).__name__, res)
    except RecursionError:
        raise
    except Exception as e:  # noqa: BLE001
        return ("exc", type(e).__name__, str(e))


n_checked = 0
n_ok = 0


def check(name, *args):
    global n_checked, n_ok
    a = outcome(getattr(old, name), *args)
    b = outcome(getattr(new, name), *args)
    assert a == b, (name, args, a, b)
    n_checked += 1
    if a[0] == "ok":
        n_ok += 1
    return a


rng = random.Random(0xC19)


def is_x(x):
    rhs = (x * x * x + 7) % P
    return pow(rhs, (P - 1) // 2, P) == 1


valid_x, invalid_x = [], []
while len(valid_x) < 4 or len(invalid_x) < 4:
    x = rng.randrange(P)
    (valid_x if is_x(x) else invalid_x).append(x)
valid_x, invalid_x = valid_x[:4], invalid_x[:4]
# valid x-coordinates in [N, P) (r >= N case) if any can be found quickly
hi_x = [x for x in range(N, N + 40) if is_x(x)][:2]
hi_x += [x for x in range(P - 40, P) if is_x(x)][:2]

hashes = [
    b"\x00" * 32,
    b"\xff" * 32,
    hashlib.sha256(b"C19").digest(),
    N.to_bytes(32, "big"),
    (N - 1).to_bytes(32, "big"),
    (N + 1).to_bytes(32, "big"),
    b"",
    b"\x01",
    hashlib.sha512(b"long hash").digest(),
]
vs = [0, 1, 26, 27, 28, 29, 35, 36, -1, 27 + 2**64, True]
rs = [0, 1, 2, 3, N - 1, N, N + 1, P - 1, P - 2, old.Gx] + valid_x + invalid_x + hi_x
ss = [0, 1, 2, (N - 1) // 2, (N + 1) // 2, N - 1, N, N + 1, 2 * N, 2 * N + 5,
      3 * N - 1, 2**256 - 1, 2**300 + 17] + [rng.randrange(1, N) for _ in range(2)]

# 1. full grid on a few hashes
for h in hashes[:3]:
    for v in vs:
        for r in rs:
            for s in ss:
                check("ecdsa_raw_recover", h, (v, r, s))

# 2. all hashes on a reduced grid
for h in hashes:
    for v in (26, 27, 28, 29):
        for r in [1, N - 1, N + 1, P - 1, old.Gx] + valid_x[:2] + invalid_x[:1] + hi_x[:1]:
            for s in (0, 1, (N + 1) // 2, N - 1, N, N + 1):
                check("ecdsa_raw_recover", h, (v, r, s))

# 3. real signatures, high-s variants, flipped parity, and the defining equation
for i in range(25):
    priv = rng.randrange(1, N).to_bytes(32, "big")
    h = hashlib.sha256(b"msg%d" % i).digest()
    a = check("ecdsa_raw_sign", h, priv)
    pub = check("privtopub", priv)
    v, r, s = a[2]
    got = check("ecdsa_raw_recover", h, (v, r, s))
    assert got[0] == "ok" and got[2] == pub[2]
    hi = check("ecdsa_raw_recover", h, (55 - v, r, N - s))  # high-s twin
    assert hi[2] == pub[2]
    check("ecdsa_raw_recover", h, (55 - v, r, s))
    check("ecdsa_raw_recover", h, (v, r, s + N))
    check("ecdsa_raw_recover", h, (v, r, N - s))
    # call again after interleaving: results must be stable
    again = check("ecdsa_raw_recover", h, (v, r, s))
    assert again == got

# 4. malformed arguments: exception classes must match
malformed = [
    (b"\x00" * 32, (27, 1)),
    (b"\x00" * 32, (27, 1, 1, 1)),
    (b"\x00" * 32, None),
    (b"\x00" * 32, ("27", 1, 1)),
    (b"\x00" * 32, (27, "1", 1)),
    (b"\x00" * 32, (27, 1, "1")),
    (b"\x00" * 32, (27, 1.0, 1)),
    (b"\x00" * 32, (27, 1, 1.5)),
    (b"\x00" * 32, (27.0, 1, 1)),
    (b"\x00" * 32, (28.0, old.Gx, 5)),
    (b"\x00" * 32, (None, 1, 1)),
    (b"\x00" * 32, (27, None, 1)),
    (b"\x00" * 32, (27, 1, None)),
    (None, (27, 1, 1)),
    (None, (26, 1, 1)),
    (None, (27, 0, 1)),
    (None, (27, invalid_x[0], 1)),
    (12345, (27, 1, 1)),
    ("abc", (27, 1, 1)),
    ("abc", (28, old.Gx, 3)),
    ([1, 2, 300], (27, 1, 1)),
    ([[1]], (27, 1, 1)),
    (bytearray(b"\x05" * 32), [27, 1, 1]),
    (b"\x00" * 32, (27, -1, 1)),
    (b"\x00" * 32, (27, -N, 1)),
    (b"\x00" * 32, (27, 1, -1)),
    (b"\x00" * 32, (27, 1, -N)),
    (b"\x00" * 32, (27, P, 1)),
    (b"\x00" * 32, (27, P + 1, 1)),
]
for h, vrs in malformed:
    check("ecdsa_raw_recover", h, vrs)

# 5. helpers of the module still agree
for a in (0, 1, 2, N - 1, N, N + 1, rng.randrange(N), -5):
    for n in (N, P):
        check("inv", a, n)
for k in (0, 1, 2, N - 1, N, N + 1, -3, rng.randrange(N)):
    check("multiply", old.G, k)
    check("jacobian_multiply", (old.Gx, old.Gy, 1), k)
check("to_jacobian", old.G)
check("add", old.G, old.G)

assert snapshot(old) == SNAP_OLD and snapshot(new) == SNAP_NEW
assert n_ok > 500, n_ok
print("equivalent on", n_checked, "calls;", n_ok, "returned a value")
