import os, sys; sys.path.insert(0, os.getcwd())  # noqa: E401,E702

"""
Equivalence demonstration for refactoring r3 (property C12).

Touched files:
  py_ecc/fields/optimized_field_elements.py      (FQP.__pow__, FQP.__eq__)
  py_ecc/optimized_bls12_381/optimized_pairing.py (linefunc)

Three layers:
  A. the pristine optimized_field_elements.py is loaded under another module name,
     the bn128 / bls12-381 FQ2 and FQ12 classes are rebuilt on top of it, and
     __pow__/__eq__/__ne__ are compared with the classes of the working tree;
  B. the pristine bls12-381 optimized_pairing.py is loaded under another module name
     and its linefunc / miller_loop / pairing are compared with the working tree;
  C. end-to-end values (pairings, final exponentiation, Frobenius, powers) computed on
     the completely pristine tree and stored in expected.json
     (`equiv.py --gen`, run once on the clean tree) are compared with the values the
     working tree computes now.
"""
import importlib.util
import json
import random
import time

HERE = os.path.dirname(os.path.abspath(__file__))
EXPECTED = os.path.join(HERE, "expected.json")
GEN = "--gen" in sys.argv

import py_ecc.fields.optimized_field_elements as new_ofe  # noqa: E402
import py_ecc.optimized_bls12_381.optimized_pairing as new_bls  # noqa: E402
import py_ecc.optimized_bn128.optimized_pairing as new_bn  # noqa: E402
from py_ecc import optimized_bls12_381 as obls  # noqa: E402
from py_ecc import optimized_bn128 as obn  # noqa: E402
from py_ecc.fields import (  # noqa: E402
    optimized_bls12_381_FQ as BLS_FQ,
    optimized_bls12_381_FQ2 as BLS_FQ2,
    optimized_bls12_381_FQ12 as BLS_FQ12,
    optimized_bn128_FQ as BN_FQ,
    optimized_bn128_FQ2 as BN_FQ2,
    optimized_bn128_FQ12 as BN_FQ12,
)
from py_ecc.fields.field_properties import field_properties  # noqa: E402

assert os.path.realpath(new_ofe.__file__).startswith(os.path.realpath(os.getcwd()))
assert os.path.realpath(new_bls.__file__).startswith(os.path.realpath(os.getcwd()))


def load(name, filename):
    spec = importlib.util.spec_from_file_location(name, os.path.join(HERE, "pristine", filename))
    mod = importlib.util.module_from_spec(spec)
    sys.modules[name] = mod
    spec.loader.exec_module(mod)
    return mod


failures = []
checks = 0
exc_seen = {}
t0 = time.time()
rng = random.Random(0xC12C12)


def canon(v):
    if isinstance(v, (tuple, list)):
        return [type(v).__name__] + [canon(x) for x in v]
    if hasattr(v, "coeffs"):
        return ["FQP%d" % len(v.coeffs)] + [int(c) for c in v.coeffs]
    if hasattr(v, "n"):
        return ["FQ", int(v.n)]
    return [type(v).__name__, repr(v)]


def outcome(fn, *args, **kwargs):
    try:
        return ["ok", canon(fn(*args, **kwargs))]
    except BaseException as e:  # noqa: B902
        exc_seen[type(e).__name__] = exc_seen.get(type(e).__name__, 0) + 1
        return ["exc", type(e).__name__]


def check(label, a, b):
    global checks
    checks += 1
    if a != b:
        failures.append((label, a, b))


# =====================================================================================
# A. field element layer: pristine FQP vs refactored FQP
# =====================================================================================
if not GEN:
    old_ofe = load("py_ecc.fields._pristine_optimized_field_elements", "optimized_field_elements.py")
    assert old_ofe.__file__ != new_ofe.__file__

    def build(ofe, curve):
        fp = field_properties[curve]

        class _FQ(ofe.FQ):
            field_modulus = fp["field_modulus"]

        class _FQP(ofe.FQP):
            field_modulus = fp["field_modulus"]

        class _FQ2(ofe.FQ2, _FQP):
            field_modulus = fp["field_modulus"]
            FQ2_MODULUS_COEFFS = fp["fq2_modulus_coeffs"]

        class _FQ12(ofe.FQ12, _FQP):
            field_modulus = fp["field_modulus"]
            FQ12_MODULUS_COEFFS = fp["fq12_modulus_coeffs"]

        return {"FQ": _FQ, "FQ2": _FQ2, "FQ12": _FQ12}

    for curve, lib_fq2, lib_fq12 in (
        ("bn128", BN_FQ2, BN_FQ12),
        ("bls12_381", BLS_FQ2, BLS_FQ12),
    ):
        p = field_properties[curve]["field_modulus"]
        O = build(old_ofe, curve)
        N = build(new_ofe, curve)
        # the classes shipped by the working tree use the refactored methods
        assert lib_fq12.__pow__ is new_ofe.FQP.__pow__ and lib_fq12.__eq__ is new_ofe.FQP.__eq__
        assert O["FQ12"].__pow__ is old_ofe.FQP.__pow__ and O["FQ12"].__pow__ is not N["FQ12"].__pow__

        def coeff_sets(deg):
            sets = [
                [0] * deg,
                [1] + [0] * (deg - 1),
                [p - 1] + [0] * (deg - 1),
                [0] * (deg - 1) + [1],
                [0] * (deg - 1) + [p - 1],
                [p - 1] * deg,
                [1] * deg,
                [0, 1] + [0] * (deg - 2),
                [p, p + 1] + [2 * p] * (deg - 2),  # reduced by the constructor
                [-1] + [0] * (deg - 1),
            ]
            sets += [[rng.randrange(p) for _ in range(deg)] for _ in range(5)]
            if deg == 12:
                sets.append([rng.randrange(p)] + [0] * 5 + [rng.randrange(p)] + [0] * 5)
                sets.append([3, 0, 0, p - 5, 0, 7] + [0] * 6)
            return sets

        exponents = [
            0, 1, 2, 3, 4, 5, 7, 8, 15, 16, 17, 255, 256, 2**64 - 1, 2**64, 2**64 + 1,
            p - 1, p, p + 1, p * p, rng.getrandbits(300), rng.getrandbits(381),
            -1, -2, -p, True, False,
        ]
        bad_exponents = [2.0, 2.5, -1.5, 0.0, "3", None, (1,), [2], 3 + 0j, b"\x02"]

        for cname, deg in (("FQ2", 2), ("FQ12", 12)):
            sets = coeff_sets(deg)
            for si, cs in enumerate(sets):
                xo, xn = O[cname](list(cs)), N[cname](list(cs))
                check((curve, cname, si, "ctor"), canon(xo), canon(xn))
                es = exponents if si < 12 else exponents[:8]
                for e in es:
                    if deg == 12 and isinstance(e, int) and e.bit_length() > 400 and si > 3:
                        continue
                    check(
                        (curve, cname, si, "pow", e),
                        outcome(lambda: xo**e),
                        outcome(lambda: xn**e),
                    )
                if si < 3:
                    for e in bad_exponents:
                        check(
                            (curve, cname, si, "pow-bad", repr(e)),
                            outcome(lambda: xo**e),
                            outcome(lambda: xn**e),
                        )
                    # three-argument pow / pow() builtin
                    check((curve, cname, si, "pow3"), outcome(lambda: pow(xo, 5)), outcome(lambda: pow(xn, 5)))
                    check((curve, cname, si, "pow3m"), outcome(lambda: pow(xo, 5, 7)), outcome(lambda: pow(xn, 5, 7)))
                # input not mutated
                check((curve, cname, si, "pure"), canon(xo), canon(xn))
                check((curve, cname, si, "pure2"), [int(c) % p for c in cs], canon(xn)[1:])

            # ---- __eq__ / __ne__ on all pairs of coefficient sets
            for si, cs in enumerate(sets):
                for sj, ds in enumerate(sets):
                    ao, bo = O[cname](list(cs)), O[cname](list(ds))
                    an, bn_ = N[cname](list(cs)), N[cname](list(ds))
                    check((curve, cname, si, sj, "eq"), outcome(lambda: ao == bo), outcome(lambda: an == bn_))
                    check((curve, cname, si, sj, "ne"), outcome(lambda: ao != bo), outcome(lambda: an != bn_))
            # single-coefficient differences at every position
            base = sets[10]
            for pos in range(deg):
                ds = list(base)
                ds[pos] = (ds[pos] + 1) % p
                r_o = outcome(lambda: O[cname](list(base)) == O[cname](ds))
                r_n = outcome(lambda: N[cname](list(base)) == N[cname](ds))
                check((curve, cname, pos, "eq-onediff"), r_o, r_n)
                check((curve, cname, pos, "eq-onediff-false"), r_n, ["ok", ["bool", "False"]])
            # coefficients stored as FQ objects (constructor keeps them), mixed with ints
            fo = O[cname]([O["FQ"](c) for c in base])
            fn_ = N[cname]([N["FQ"](c) for c in base])
            io, in_ = O[cname](list(base)), N[cname](list(base))
            other_o = O[cname]([O["FQ"](c) for c in sets[11]])
            other_n = N[cname]([N["FQ"](c) for c in sets[11]])
            for lab, (l_o, r_o), (l_n, r_n) in [
                ("fq-fq", (fo, fo), (fn_, fn_)),
                ("fq-int", (fo, io), (fn_, in_)),
                ("int-fq", (io, fo), (in_, fn_)),
                ("fq-fq-diff", (fo, other_o), (fn_, other_n)),
                ("int-fq-diff", (io, other_o), (in_, other_n)),
            ]:
                check((curve, cname, lab, "eq"), outcome(lambda: l_o == r_o), outcome(lambda: l_n == r_n))
                check((curve, cname, lab, "ne"), outcome(lambda: l_o != r_o), outcome(lambda: l_n != r_n))
            check((curve, cname, "fqcoeff-pow"), outcome(lambda: fo**5), outcome(lambda: fn_**5))
            # coefficients of an incomparable type: exception raised while comparing
            so = O[cname]([O["FQ"](1)] * deg)
            sn = N[cname]([N["FQ"](1)] * deg)
            so2, sn2 = O[cname]([O["FQ"](1)] * deg), N[cname]([N["FQ"](1)] * deg)
            so2.coeffs = ("x",) * deg
            sn2.coeffs = ("x",) * deg
            check((curve, cname, "eq-str-coeff"), outcome(lambda: so == so2), outcome(lambda: sn == sn2))
            check((curve, cname, "ne-str-coeff"), outcome(lambda: so != so2), outcome(lambda: sn != sn2))
            # truncated coeffs on the right: zip stops early
            so2.coeffs, sn2.coeffs = (1,), (1,)
            check((curve, cname, "eq-short"), outcome(lambda: so == so2), outcome(lambda: sn == sn2))
            so2.coeffs, sn2.coeffs = (), ()
            check((curve, cname, "eq-empty"), outcome(lambda: so == so2), outcome(lambda: sn == sn2))
            # malformed right-hand sides
            for lab, mk in [
                ("int", lambda C: 1),
                ("zero-int", lambda C: 0),
                ("none", lambda C: None),
                ("str", lambda C: "a"),
                ("tuple", lambda C: tuple(base)),
                ("list", lambda C: list(base)),
                ("fq", lambda C: C["FQ"](1)),
                (
                    "other-degree",
                    lambda C: C["FQ2"]([1, 0]) if cname == "FQ12" else C["FQ12"]([1] + [0] * 11),
                ),
                ("float", lambda C: 1.0),
            ]:
                check(
                    (curve, cname, "eq-bad", lab),
                    outcome(lambda: O[cname](list(base)) == mk(O)),
                    outcome(lambda: N[cname](list(base)) == mk(N)),
                )
                check(
                    (curve, cname, "ne-bad", lab),
                    outcome(lambda: O[cname](list(base)) != mk(O)),
                    outcome(lambda: N[cname](list(base)) != mk(N)),
                )
            # subclass on the right-hand side is accepted by isinstance
            class SubO(O[cname]):
                pass

            class SubN(N[cname]):
                pass

            check(
                (curve, cname, "eq-subclass"),
                outcome(lambda: O[cname](list(base)) == SubO(list(base))),
                outcome(lambda: N[cname](list(base)) == SubN(list(base))),
            )
            check(
                (curve, cname, "eq-subclass-rev"),
                outcome(lambda: SubO(list(base)) == O[cname](list(base))),
                outcome(lambda: SubN(list(base)) == N[cname](list(base))),
            )
    print("layer A done: checks=%d failures=%d t=%.1fs" % (checks, len(failures), time.time() - t0))

# =====================================================================================
# B. pairing layer: pristine bls12-381 optimized_pairing vs refactored
# =====================================================================================
if not GEN:
    old_bls = load(
        "py_ecc.optimized_bls12_381._pristine_optimized_pairing",
        "optimized_bls12_381_optimized_pairing.py",
    )
    assert old_bls.__file__ != new_bls.__file__
    p = obls.field_modulus
    r = obls.curve_order
    G1, G2, Z1, Z2 = obls.G1, obls.G2, obls.Z1, obls.Z2
    mul, add, dbl, neg, twist = obls.multiply, obls.add, obls.double, obls.neg, obls.twist
    cast = new_bls.cast_point_to_fq12

    def rescale(pt, k):
        return (pt[0] * k, pt[1] * k, pt[2] * k)

    def lf(label, *args):
        check(("linefunc", label), outcome(old_bls.linefunc, *args), outcome(new_bls.linefunc, *args))

    # --- G1 points (FQ coordinates): every branch, several representatives
    g1 = [mul(G1, k) for k in (1, 2, 3, 5, r - 1, r - 2, r - 3, rng.randrange(1, r))]
    g1 += [rescale(g1[0], 7), rescale(g1[1], p - 1), rescale(g1[4], 12345)]
    for i, A in enumerate(g1):
        for j, B in enumerate(g1):
            for k, T in enumerate(g1[:5] + g1[8:]):
                lf(("g1", i, j, k), A, B, T)
    # points at infinity / zero coordinates as arguments
    zs = [Z1, (BLS_FQ(0), BLS_FQ(0), BLS_FQ(0)), (BLS_FQ(5), BLS_FQ(9), BLS_FQ(0))]
    for zi, Z in enumerate(zs):
        for A in g1[:3]:
            lf(("z-first", zi), Z, A, g1[3])
            lf(("z-second", zi), A, Z, g1[3])
            lf(("z-third", zi), A, g1[3], Z)
        for zj, W in enumerate(zs):
            lf(("z-z", zi, zj), Z, W, g1[0])
    # 2-torsion-like point (y == 0), not on the curve but exercises the tangent branch
    y0 = (BLS_FQ(3), BLS_FQ(0), BLS_FQ(1))
    lf("y0-tangent", y0, y0, g1[1])
    lf("y0-resc", y0, rescale(y0, 9), g1[1])
    # --- FQ12 points (twisted G2, cast G1) as used by miller_loop
    t2 = [twist(mul(G2, k)) for k in (1, 2, 3, r - 1, rng.randrange(1, r))]
    t2.append(rescale(t2[0], BLS_FQ12([3] + [0] * 11)))
    c1 = [cast(g) for g in g1[:4]]
    for i, A in enumerate(t2):
        for j, B in enumerate(t2):
            lf(("fq12", i, j), A, B, c1[(i + j) % 4])
    # --- FQ2 points
    q2 = [mul(G2, k) for k in (1, 2, r - 1)]
    for i, A in enumerate(q2):
        for j, B in enumerate(q2):
            lf(("fq2", i, j), A, B, q2[(i + 1) % 3])
    # --- malformed arguments
    bad = [
        None, 5, "abc", (), (1, 2, 3), (BLS_FQ(1), BLS_FQ(2)), (BLS_FQ(1),) * 4, [BLS_FQ(1)] * 3,
        (BLS_FQ(1), "y", BLS_FQ(1)), (BLS_FQ2([1, 2]), BLS_FQ2([1, 2]), BLS_FQ2([1, 0])),
        (BN_FQ(1), BN_FQ(2), BN_FQ(1)), (1.0, 2.0, 1.0),
    ]
    for bi, B in enumerate(bad):
        lf(("bad-first", bi), B, g1[0], g1[1])
        lf(("bad-second", bi), g1[0], B, g1[1])
        lf(("bad-third", bi), g1[0], g1[1], B)
        lf(("bad-second-same", bi), g1[0], g1[0], B)
        lf(("bad-all", bi), B, B, B)
    lf("mixed-field", g1[0], q2[0], g1[1])
    lf("mixed-field2", q2[0], q2[0], g1[1])
    lf("mixed-field3", t2[0], q2[0], c1[0])
    print("layer B linefunc done: checks=%d failures=%d t=%.1fs" % (checks, len(failures), time.time() - t0))

    # --- miller_loop / pairing through the refactored linefunc
    pairs = [
        (mul(G2, a), mul(G1, b))
        for a, b in [(1, 1), (2, 3), (r - 1, 5), (rng.randrange(1, r), rng.randrange(1, r))]
    ]
    pairs.append((rescale(pairs[1][0], BLS_FQ2([3, 4])), rescale(pairs[1][1], 77)))
    pairs.append((add(mul(G2, 5), G2), add(mul(G1, 9), G1)))
    acc_o = acc_n = BLS_FQ12.one()
    for i, (Q, P) in enumerate(pairs):
        check(("pairing", i), outcome(old_bls.pairing, Q, P), outcome(new_bls.pairing, Q, P))
        mo = old_bls.pairing(Q, P, final_exponentiate=False)
        mn = new_bls.pairing(Q, P, final_exponentiate=False)
        check(("pairing-nofe", i), canon(mo), canon(mn))
        check(("miller", i), outcome(old_bls.miller_loop, Q, P, False), outcome(new_bls.miller_loop, Q, P, False))
        acc_o, acc_n = acc_o * mo, acc_n * mn
        check(("two-step", i), canon(old_bls.final_exponentiate(acc_o)), canon(new_bls.final_exponentiate(acc_n)))
    for lab, Q, P in [
        ("Z2", Z2, G1), ("Z1", G2, Z1), ("ZZ", Z2, Z1), ("swapped", G1, G2),
        ("offP", G2, (BLS_FQ(1), BLS_FQ(1), BLS_FQ(1))),
        ("offQ", (BLS_FQ2([1, 1]), BLS_FQ2([1, 1]), BLS_FQ2([1, 0])), G1),
        ("noneQ", None, G1), ("noneP", G2, None), ("intP", G2, (1, 2, 1)), ("shortP", G2, G1[:2]),
        ("zero-rep", (BLS_FQ2.zero(),) * 3, (BLS_FQ(0),) * 3),
    ]:
        check(("pairing-bad", lab), outcome(old_bls.pairing, Q, P), outcome(new_bls.pairing, Q, P))
        check(("miller-bad", lab), outcome(old_bls.miller_loop, Q, P), outcome(new_bls.miller_loop, Q, P))
    print("layer B done: checks=%d failures=%d t=%.1fs" % (checks, len(failures), time.time() - t0))

# =====================================================================================
# C. end-to-end values against the completely pristine tree (expected.json)
# =====================================================================================
rng = random.Random(0x12C)
results = {}


def rec(key, fn, *args, **kwargs):
    results[key] = outcome(fn, *args, **kwargs)


for tag, lib, pr, FQ_, FQ2_, FQ12_ in (
    ("bls", obls, new_bls, BLS_FQ, BLS_FQ2, BLS_FQ12),
    ("bn", obn, new_bn, BN_FQ, BN_FQ2, BN_FQ12),
):
    p, r = lib.field_modulus, lib.curve_order
    ks = [(1, 1), (2, 3), (r - 1, r - 2), (rng.randrange(1, r), rng.randrange(1, r))]
    ms = []
    for i, (a, b) in enumerate(ks):
        Q, P = lib.multiply(lib.G2, a), lib.multiply(lib.G1, b)
        rec("%s/pairing/%d" % (tag, i), lib.pairing, Q, P)
        rec("%s/pairing-nofe/%d" % (tag, i), lib.pairing, Q, P, final_exponentiate=False)
        ms.append(lib.pairing(Q, P, final_exponentiate=False))
        if i == 1:
            Qs = (Q[0] * FQ2_([3, 4]), Q[1] * FQ2_([3, 4]), Q[2] * FQ2_([3, 4]))
            Ps = (P[0] * 77, P[1] * 77, P[2] * 77)
            rec("%s/pairing-resc/%d" % (tag, i), lib.pairing, Qs, Ps)
    acc = FQ12_.one()
    for i, m in enumerate(ms):
        acc = acc * m
        rec("%s/two-step/%d" % (tag, i + 1), lib.final_exponentiate, acc)
    rec("%s/pairing/Z2" % tag, lib.pairing, lib.Z2, lib.G1)
    rec("%s/pairing/Z1" % tag, lib.pairing, lib.G2, lib.Z1)
    rec("%s/pairing/swapped" % tag, lib.pairing, lib.G1, lib.G2)
    rec("%s/pairing/offP" % tag, lib.pairing, lib.G2, (FQ_(1), FQ_(1), FQ_(1)))
    rec("%s/pairing/noneP" % tag, lib.pairing, lib.G2, None)
    elems = [
        FQ12_.zero(), FQ12_.one(), FQ12_([p - 1] + [0] * 11), FQ12_([0, 1] + [0] * 10),
        FQ12_([1, 0, 0, p - 1, 0, 7] + [0] * 6),
        FQ12_([rng.randrange(p) for _ in range(12)]), FQ12_([rng.randrange(p) for _ in range(12)]),
    ]
    for i, x in enumerate(elems):
        rec("%s/final_exp/%d" % (tag, i), lib.final_exponentiate, x)
        rec("%s/pow-p/%d" % (tag, i), lambda: x**p)
        rec("%s/pow-small/%d" % (tag, i), lambda: [x**0, x**1, x**2, x**3, x**-1])
        rec("%s/eq/%d" % (tag, i), lambda: [x == e for e in elems] + [x != e for e in elems])
        if tag == "bls":
            rec("bls/exp_by_p/%d" % i, pr.exp_by_p, x)
    rec("%s/final_exp/plain" % tag, lambda: elems[5] ** ((p**12 - 1) // r))
    rec("%s/fq2-pow" % tag, lambda: FQ2_([3, 4]) ** (p * p - 1))
    rec("%s/eq-bad" % tag, lambda: FQ12_.one() == 1)
    rec("%s/pow-bad" % tag, lambda: FQ12_.one() ** 1.5)
    rec("%s/linefunc" % tag, lambda: [
        pr.linefunc(lib.G1, lib.double(lib.G1), lib.multiply(lib.G1, 3)),
        pr.linefunc(lib.G1, lib.G1, lib.multiply(lib.G1, 3)),
        pr.linefunc(lib.G1, lib.neg(lib.G1), lib.multiply(lib.G1, 3)),
    ])

if GEN:
    with open(EXPECTED, "w") as fh:
        json.dump(results, fh, indent=0, sort_keys=True)
    print("wrote", EXPECTED, len(results), "entries, t=%.1fs" % (time.time() - t0))
    sys.exit(0)

with open(EXPECTED) as fh:
    expected = json.load(fh)
check("expected-keys", sorted(expected), sorted(results))
for key in sorted(expected):
    check(("expected", key), expected[key], json.loads(json.dumps(results.get(key))))
# internal consistency of the stored values: two-step/1 equals pairing/0 etc.
check("two-step==pairing bls", results["bls/two-step/1"], results["bls/pairing/0"])
check("two-step==pairing bn", results["bn/two-step/1"], results["bn/pairing/0"])
check("final_exp==plain bls", results["bls/final_exp/5"], results["bls/final_exp/plain"])
check("final_exp==plain bn", results["bn/final_exp/5"], results["bn/final_exp/plain"])
for i in range(7):
    check(("exp_by_p==pow-p", i), results["bls/exp_by_p/%d" % i], results["bls/pow-p/%d" % i])

print("exception classes observed:", exc_seen)
print("checks:", checks, "failures:", len(failures), "time: %.1fs" % (time.time() - t0))
for f in failures[:20]:
    print("FAIL", f)
sys.exit(1 if failures else 0)
