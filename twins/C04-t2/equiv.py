import os, sys; sys.path.insert(0, os.getcwd())  # noqa: E401,E702

"""
Equivalence demonstration for twin t2 (property C04).

Loads the pristine py_ecc/bls/point_compression.py (saved next to this script) under
the module name py_ecc.bls._pristine_point_compression and compares every public
function with the edited py_ecc.bls.point_compression of the worktree in the current
directory (value, type, coefficient representation, exception class).  Then it builds
an "old stack" (g2_primitives + ciphersuites wired to the pristine codec) and compares
the five verification entry points end to end, including the points given to pairing().
"""

import importlib.util
import random
import time

T0 = time.time()
HERE = os.path.dirname(os.path.abspath(__file__))

import py_ecc.bls.point_compression as new_pc  # noqa: E402
import py_ecc.bls.g2_primitives as new_g2p  # noqa: E402
import py_ecc.bls.ciphersuites as new_cs  # noqa: E402

assert os.path.abspath(new_pc.__file__).startswith(os.getcwd()), new_pc.__file__


def load(name, path):
    spec = importlib.util.spec_from_file_location(name, path)
    mod = importlib.util.module_from_spec(spec)
    sys.modules[name] = mod
    spec.loader.exec_module(mod)
    return mod


old_pc = load(
    "py_ecc.bls._pristine_point_compression",
    os.path.join(HERE, "pristine", "point_compression.py"),
)
# the edit must really be present in the worktree copy and absent from the pristine one
import inspect  # noqa: E402

assert "even_roots" in inspect.getsource(new_pc.modular_squareroot_in_FQ2)
assert "even_roots" not in inspect.getsource(old_pc.modular_squareroot_in_FQ2)

# old stack: same (unchanged) g2_primitives / ciphersuites sources, wired to old codec
old_g2p = load("py_ecc.bls._old_g2_primitives", new_g2p.__file__)
for n in ("compress_G1", "compress_G2", "decompress_G1", "decompress_G2"):
    assert getattr(old_g2p, n) is getattr(new_pc, n)
    setattr(old_g2p, n, getattr(old_pc, n))
old_cs = load("py_ecc.bls._old_ciphersuites", new_cs.__file__)
for n in ("G1_to_pubkey", "G2_to_signature", "pubkey_to_G1", "signature_to_G2"):
    assert getattr(old_cs, n) is getattr(new_g2p, n)
    setattr(old_cs, n, getattr(old_g2p, n))

from py_ecc.bls.constants import EIGHTH_ROOTS_OF_UNITY  # noqa: E402
from py_ecc.bls.hash import i2osp  # noqa: E402
from py_ecc.fields import (  # noqa: E402
    optimized_bls12_381_FQ as FQ,
    optimized_bls12_381_FQ2 as FQ2,
)
import py_ecc.optimized_bls12_381 as curve  # noqa: E402
from py_ecc.optimized_bls12_381 import (  # noqa: E402
    G1,
    G2,
    Z1,
    Z2,
    add,
    curve_order,
    field_modulus as q,
    multiply,
    neg,
)

# the restated index computation relies on the eight roots being pairwise distinct
for i in range(8):
    for j in range(i + 1, 8):
        assert EIGHTH_ROOTS_OF_UNITY[i] != EIGHTH_ROOTS_OF_UNITY[j]
ROOTS_SNAPSHOT = tuple(r.coeffs for r in EIGHTH_ROOTS_OF_UNITY)

rng = random.Random(0xC04_2)
P381 = 2**381
N = 0


def canon(v):
    """value + type + representation, recursively"""
    if isinstance(v, FQ):
        return ("FQ", type(v).__name__, type(v.n).__name__, v.n)
    if isinstance(v, FQ2):
        return (
            "FQ2",
            type(v).__name__,
            type(v.coeffs).__name__,
            tuple((type(c).__name__, int(c)) for c in v.coeffs),
        )
    if isinstance(v, (tuple, list)):
        return (type(v).__name__, tuple(canon(e) for e in v))
    return (type(v).__name__, v)


def outcome(f, *args):
    try:
        r = f(*args)
    except BaseException as e:  # noqa: B902
        return ("exc", type(e).__name__)
    return ("ok", canon(r))


def both(name, *args):
    global N
    a = outcome(getattr(old_pc, name), *args)
    b = outcome(getattr(new_pc, name), *args)
    N += 1
    if a != b:
        print("MISMATCH", name, repr(args)[:300], a, b)
        sys.exit(1)
    return a


# ---------------------------------------------------------------------------
# 1. get_flags / is_point_at_infinity
# ---------------------------------------------------------------------------
ints = [0, 1, -1, 2, q - 1, q, q + 1, P381 - 1, P381, P381 + 1, 2**382, 2**383, 2**384 - 1, 2**384]
ints += [2**384 + 5, 2**400 + 2**383, -(2**383), -(2**383) + 5, -(2**381), -(2**384) - 1, True, False]
for flags in range(16):
    for x in (0, 1, q - 1, q, P381 - 1):
        ints.append(flags * P381 + x)
        ints.append(-(flags * P381 + x))
for _ in range(300):
    ints.append(rng.getrandbits(rng.choice([8, 380, 381, 382, 383, 384, 385, 500])))
    ints.append(-rng.getrandbits(rng.choice([8, 381, 384, 400])))
weird = [None, 1.5, "1", b"\x01", FQ(3), [1], (1,), 2**383 + 0.0, complex(1, 1)]
for z in ints + weird:
    both("get_flags", z)
    both("is_point_at_infinity", z)
    both("is_point_at_infinity", z, None)
    both("is_point_at_infinity", z, 0)
    both("is_point_at_infinity", z, 1)
    both("is_point_at_infinity", 2**383 + 2**382, z)
print("flags done", N, round(time.time() - T0, 1), "s")

# ---------------------------------------------------------------------------
# 2. G1 codec
# ---------------------------------------------------------------------------
g1_points = [G1, Z1, multiply(G1, 2), multiply(G1, curve_order - 1), neg(G1)]
g1_points += [multiply(G1, rng.randrange(1, curve_order)) for _ in range(12)]
# projective representatives (z != 1), another representative of infinity
g1_points += [tuple(c * FQ(7) for c in multiply(G1, 5)), (FQ(1), FQ(1), FQ(0)), (FQ(0), FQ(0), FQ(0))]
g1_points += [add(G1, multiply(G1, 3))]
enc_g1 = []
for pt in g1_points:
    r = both("compress_G1", pt)
    if r[0] == "ok":
        enc_g1.append(r[1][1])
for bad in (None, (FQ(1), FQ(2)), (1, 2, 3), (FQ2([1, 0]), FQ2([1, 0]), FQ2([1, 0])), "abc"):
    both("compress_G1", bad)

z_g1 = list(ints) + weird + enc_g1
xg = enc_g1[0] % P381
for x in [xg, 0, 1, 2, 3, 4, 5, q - 1, q - 2, q, q + 1, P381 - 1] + [rng.randrange(q) for _ in range(150)]:
    for flags in range(8):
        z_g1.append(flags * P381 + x)
z_g1 += [e + 2**384 for e in enc_g1[:3]] + [e - 2**384 for e in enc_g1[:3]] + [-e for e in enc_g1[:3]]
# on-curve x outside the subgroup and off-curve x: found by scanning small x
for x in range(0, 60):
    z_g1.append(2**383 + x)
    z_g1.append(2**383 + P381 + x)
for z in z_g1:
    r = both("decompress_G1", z)
    if r[0] == "ok" and isinstance(z, int):
        # round trip through both compressors
        pt = new_pc.decompress_G1(z)
        both("compress_G1", pt)
print("G1 done", N, round(time.time() - T0, 1), "s")

# ---------------------------------------------------------------------------
# 3. FQ2 square root
# ---------------------------------------------------------------------------
vals = [FQ2([0, 0]), FQ2([1, 0]), FQ2([0, 1]), FQ2([1, 1]), FQ2([q - 1, 0]), FQ2([0, q - 1]), FQ2([4, 4]), FQ2([2, 0])]
vals += list(EIGHTH_ROOTS_OF_UNITY)
vals += [FQ2([-1, -5]), FQ2([q + 3, 2 * q + 1])]  # unreduced / negative constructor arguments
vals += [FQ2([FQ(3), FQ(5)]), FQ2([FQ(9), FQ(0)])]  # FQ-valued coefficients are kept as given
for _ in range(25):
    v = FQ2([rng.randrange(q), rng.randrange(q)])
    vals.append(v)
    vals.append(v * v)  # guaranteed squares
    vals.append(FQ2([rng.randrange(q), 0]))
    vals.append(FQ2([0, rng.randrange(q)]))
for v in vals:
    both("modular_squareroot_in_FQ2", v)
# (a plain int is not tried: int ** ((q**2 + 7) // 16) would never finish in either version)
for bad in (None, FQ(4), FQ(0), "x", (1, 2), 0.5):
    both("modular_squareroot_in_FQ2", bad)
print("sqrt done", N, round(time.time() - T0, 1), "s")

# ---------------------------------------------------------------------------
# 4. G2 codec
# ---------------------------------------------------------------------------
g2_points = [G2, Z2, multiply(G2, 2), multiply(G2, curve_order - 1), neg(G2)]
g2_points += [multiply(G2, rng.randrange(1, curve_order)) for _ in range(10)]
g2_points += [
    tuple(c * FQ2([7, 3]) for c in multiply(G2, 5)),
    (FQ2([1, 0]), FQ2([1, 0]), FQ2([0, 0])),
    (FQ2([0, 0]), FQ2([0, 0]), FQ2([0, 0])),
    (FQ2([1, 2]), FQ2([3, 4]), FQ2([1, 0])),  # not on the curve
]
enc_g2 = []
for pt in g2_points:
    r = both("compress_G2", pt)
    if r[0] == "ok":
        enc_g2.append((r[1][1][0][1], r[1][1][1][1]))
for bad in (None, (1, 2, 3), G1, "abc"):
    both("compress_G2", bad)

p_g2 = list(enc_g2)
z1g, z2g = enc_g2[0]
x1g = z1g % P381
for flags in range(8):
    top = flags * P381
    p_g2 += [(x1g + top, z2g), (top, 0), (top, 1), (top + 1, 0), (2**383 + x1g, z2g % P381 + top)]
    p_g2 += [(2**383 + x1g, z2g + top)]
for x in (0, 1, q - 1, q, q + 1, P381 - 1):
    p_g2 += [(2**383 + x, z2g), (2**383 + x1g, x), (2**383 + x, x), (2**383 + P381 + x, x)]
p_g2 += [(z1g, -1), (z1g, -z2g), (z1g, z2g - q), (z1g + 2**384, z2g), (-z1g, z2g), (z1g - 2**384, z2g)]
p_g2 += [(2**383 + 2**382, 0), (2**383 + 2**382, -q), (2**383 + 2**382 + P381, 0), (2**383 + 2**382, q)]
# small x: mixture of on-curve (mostly outside the subgroup) and off-curve
for x in range(0, 24):
    p_g2.append((2**383 + x, x + 7))
    p_g2.append((2**383 + P381 + x, 3 * x))
    p_g2.append((2**383 + x, 0))
    p_g2.append((2**383, x))
for _ in range(30):
    p_g2.append((2**383 + rng.getrandbits(1) * P381 + rng.randrange(q), rng.randrange(q)))
for _ in range(40):
    p_g2.append((rng.getrandbits(384), rng.getrandbits(384)))
weird_p = [None, 5, (1,), (1, 2, 3), (None, None), (2**383 + 1, None), (2**383 + 2**382, None), ("a", "b")]
weird_p += [(1.5, 2), (2**383 + 1, 2.0), (2**383 + x1g, FQ(z2g)), [z1g, z2g], (True, False)]
n_ok = 0
for p in p_g2 + weird_p:
    r = both("decompress_G2", p)
    if r[0] == "ok":
        n_ok += 1
        if isinstance(p, tuple) and all(isinstance(e, int) for e in p):
            both("compress_G2", new_pc.decompress_G2(p))
assert n_ok > 60, n_ok
print("G2 done", N, "decoded ok:", n_ok, round(time.time() - T0, 1), "s")

# repeat an interleaved sequence: no hidden state
seq = [("decompress_G1", z_g1[i]) for i in range(0, len(z_g1), 37)]
seq += [("decompress_G2", p) for p in p_g2[::11]]
first = [both(n, a) for n, a in seq]
rng.shuffle(seq)
again = dict()
for n, a in seq:
    again[(n, repr(a))] = both(n, a)
for n, a in seq:
    assert again[(n, repr(a))] == both(n, a)
assert tuple(r.coeffs for r in EIGHTH_ROOTS_OF_UNITY) == ROOTS_SNAPSHOT

# ---------------------------------------------------------------------------
# 5. end to end: the five verification entry points, old stack vs new stack
# ---------------------------------------------------------------------------
LOG = {"old": [], "new": []}


def make_recorder(tag):
    real = curve.pairing

    def rec(Q, P, final_exponentiate=True):
        LOG[tag].append((canon(Q), canon(P), final_exponentiate))
        return real(Q, P, final_exponentiate=final_exponentiate)

    return rec


old_cs.pairing = make_recorder("old")
new_cs.pairing = make_recorder("new")
M = 0


def both_cs(suite, attr, make_args):
    global M
    a = b = None
    try:
        a = ("ok", getattr(getattr(old_cs, suite), attr)(*make_args()))
    except BaseException as e:  # noqa: B902
        a = ("exc", type(e).__name__)
    try:
        b = ("ok", getattr(getattr(new_cs, suite), attr)(*make_args()))
    except BaseException as e:  # noqa: B902
        b = ("exc", type(e).__name__)
    M += 1
    if a != b or (a[0] == "ok" and type(a[1]) is not type(b[1])) or LOG["old"] != LOG["new"]:
        print("MISMATCH", suite, attr, repr(make_args())[:300], a, b)
        sys.exit(1)
    return a


SUITES = ["G2Basic", "G2MessageAugmentation", "G2ProofOfPossession"]
msg = b"message"
sks = [3, 5, 0x1234567]
B = new_cs.G2Basic
pks = [B.SkToPk(sk) for sk in sks]
for sk in sks + [1, curve_order - 1]:
    both_cs("G2Basic", "SkToPk", lambda sk=sk: (sk,))
good_pk = pks[1]
INF_PK = b"\xc0" + b"\x00" * 47
INF_SIG = INF_PK + b"\x00" * 48


def enc1(z):
    return i2osp(z % 2**384, 48)


key_cands = list(pks) + [INF_PK, b"\x00" * 48, b"\xff" * 48]
key_cands += [enc1(flags * P381 + (int.from_bytes(good_pk, "big") % P381)) for flags in range(8)]
key_cands += [enc1(flags * P381) for flags in range(8)]
key_cands += [enc1(2**383 + x) for x in (0, 1, 2, 3, 4, 5, 6, 7, 8, q - 1, q, q + 1, P381 - 1)]
key_cands += [enc1(2**383 + P381 + x) for x in (2, 3, 4, 5, 6)]
key_cands += [good_pk + b"\x00", b"\x00" + good_pk, good_pk[:47], good_pk[1:], b"", good_pk * 2]
key_cands += [bytes(rng.getrandbits(8) for _ in range(n)) for n in range(0, 201, 3)]
for _ in range(25):
    r = bytearray(rng.getrandbits(8) for _ in range(48))
    r[0] = (r[0] & 0x1F) | 0x80 | (rng.getrandbits(1) << 5)
    key_cands.append(bytes(r))
key_cands += [None, bytearray(good_pk), "k" * 48, 7]

sigs = {s: getattr(new_cs, s).Sign(sks[1], msg) for s in SUITES}
for s in SUITES:
    both_cs(s, "Sign", lambda: (sks[1], msg))
good_sig = sigs["G2Basic"]
sig_cands = [good_sig, B.Sign(sks[0], msg), INF_SIG, b"\x00" * 96, b"\xff" * 96]
sz1 = int.from_bytes(good_sig[:48], "big") % P381
sz2 = int.from_bytes(good_sig[48:], "big")
for flags in range(8):
    sig_cands.append(enc1(flags * P381 + sz1) + enc1(sz2))
    sig_cands.append(enc1(flags * P381) + enc1(0))
    sig_cands.append(enc1(2**383 + sz1) + enc1(flags * P381 + sz2 % P381))
for x in (0, 1, q - 1, q, q + 1, P381 - 1):
    sig_cands += [enc1(2**383 + x) + enc1(sz2), enc1(2**383 + sz1) + enc1(x), enc1(2**383 + x) + enc1(x)]
for x in range(2, 14):
    sig_cands.append(enc1(2**383 + x) + enc1(x + 7))  # on-curve-not-subgroup / off-curve mix
sig_cands += [good_sig + b"\x00", b"\x00" + good_sig, good_sig[:95], good_sig[1:], good_sig[:48], b""]
sig_cands += [bytes(rng.getrandbits(8) for _ in range(n)) for n in range(0, 201, 3)]
for _ in range(15):
    r = bytearray(rng.getrandbits(8) for _ in range(96))
    r[0] = (r[0] & 0x1F) | 0x80 | (rng.getrandbits(1) << 5)
    r[48] &= 0x1F
    sig_cands.append(bytes(r))
sig_cands += [None, bytearray(good_sig), 7]

for s in SUITES:
    step = 1 if s == "G2Basic" else 8
    for k in key_cands[::step]:
        r = both_cs(s, "KeyValidate", lambda k=k: (k,))
        assert r[0] == "ok" and type(r[1]) is bool
        r = both_cs(s, "Verify", lambda k=k: (k, msg, sigs[s]))
        if isinstance(k, bytes):
            assert r[0] == "ok" and type(r[1]) is bool
    for sg in sig_cands[::step]:
        r = both_cs(s, "Verify", lambda sg=sg: (good_pk, msg, sg))
        if isinstance(sg, bytes):
            assert r[0] == "ok" and type(r[1]) is bool
    assert both_cs(s, "Verify", lambda: (good_pk, msg, sigs[s])) == ("ok", True)
    assert both_cs(s, "Verify", lambda: (pks[0], msg, sigs[s])) == ("ok", False)
print("Verify done", M, round(time.time() - T0, 1), "s")

P = "G2ProofOfPossession"
proof = new_cs.G2ProofOfPossession.PopProve(sks[1])
both_cs(P, "PopProve", lambda: (sks[1],))
assert both_cs(P, "PopVerify", lambda: (good_pk, proof)) == ("ok", True)
assert both_cs(P, "PopVerify", lambda: (pks[0], proof)) == ("ok", False)
for k in key_cands[1::5]:
    both_cs(P, "PopVerify", lambda k=k: (k, proof))
for sg in sig_cands[1::5]:
    both_cs(P, "PopVerify", lambda sg=sg: (good_pk, sg))

msgs = [b"m0", b"m1", b"m2"]
bad_keys = [INF_PK, enc1(2**383 + 4), enc1(2**383 + 2), good_pk + b"\x00", enc1(2**383 + q), None]
for s in SUITES:
    cls = getattr(new_cs, s)
    agg = cls.Aggregate([cls.Sign(sk, m) for sk, m in zip(sks, msgs)])
    both_cs(s, "Aggregate", lambda: ([cls.Sign(sk, m) for sk, m in zip(sks, msgs)],))
    assert both_cs(s, "AggregateVerify", lambda: (pks, msgs, agg)) == ("ok", True)
    for i, bk in enumerate(bad_keys):
        for pos in range(3) if (s == "G2Basic" and i < 3) else [i % 3]:
            lst = list(pks)
            lst[pos] = bk
            r = both_cs(s, "AggregateVerify", lambda lst=lst: (list(lst), msgs, agg))
            if isinstance(bk, bytes):
                assert r == ("ok", False)
    for bs in (INF_SIG, enc1(2**383 + 2) + enc1(9), enc1(2**383 + 3) + enc1(10), good_sig[:95], b"\x00" * 96):
        assert both_cs(s, "AggregateVerify", lambda bs=bs: (pks, msgs, bs)) == ("ok", False)
    both_cs(s, "AggregateVerify", lambda: ([], [], agg))
    both_cs(s, "Aggregate", lambda: ([good_sig, INF_SIG, enc1(2**383 + 2) + enc1(9)],))
    both_cs(s, "Aggregate", lambda: ([good_sig, enc1(2**383 + 3) + enc1(10)],))
cls = new_cs.G2ProofOfPossession
fagg = cls.Aggregate([cls.Sign(sk, msg) for sk in sks])
assert both_cs(P, "FastAggregateVerify", lambda: (pks, msg, fagg)) == ("ok", True)
assert both_cs(P, "FastAggregateVerify", lambda: (pks[:2], msg, fagg)) == ("ok", False)
for i, bk in enumerate(bad_keys):
    for pos in range(3) if i < 2 else [i % 3]:
        lst = list(pks)
        lst[pos] = bk
        both_cs(P, "FastAggregateVerify", lambda lst=lst: (list(lst), msg, fagg))
neg_pk = new_g2p.G1_to_pubkey(neg(new_g2p.pubkey_to_G1(pks[0])))
both_cs(P, "FastAggregateVerify", lambda: ([pks[0], neg_pk], msg, INF_SIG))
both_cs(P, "_AggregatePKs", lambda: ([pks[0], neg_pk],))
both_cs(P, "_AggregatePKs", lambda: (pks,))
both_cs(P, "_AggregatePKs", lambda: ([enc1(2**383 + 4), pks[0]],))
both_cs(P, "_AggregatePKs", lambda: ([enc1(2**383 + 2)],))
assert LOG["old"] == LOG["new"] and len(LOG["new"]) > 20
assert tuple(r.coeffs for r in EIGHTH_ROOTS_OF_UNITY) == ROOTS_SNAPSHOT

print(
    "OK: %d codec comparisons, %d end-to-end comparisons, %d pairing evaluations identical, %.1f s"
    % (N, M, len(LOG["new"]), time.time() - T0)
)
sys.exit(0)
