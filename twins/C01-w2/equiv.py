import os, sys; sys.path.insert(0, os.getcwd())  # noqa: E702

"""
Equivalence demonstration for C01/w2 (KeyGen restructuring).

Loads the pristine py_ecc/bls/ciphersuites.py (saved next to this script) under
another module name inside the py_ecc.bls package and compares KeyGen of the
edited working tree with it: same key for every IKM / key_info, same exception
classes and messages for malformed inputs, same sequence of HKDF calls, same
behaviour on the (artificially forced) SK == 0 retry path, independence from
call history, and usability of every key returned (1 <= SK <= r - 1).
"""
import hashlib
import importlib.util
import random
import time

HERE = os.path.dirname(os.path.abspath(__file__))
T0 = time.time()

import py_ecc.bls.ciphersuites as new  # noqa: E402

assert os.path.abspath(new.__file__).startswith(os.getcwd()), new.__file__

spec = importlib.util.spec_from_file_location(
    "py_ecc.bls.ciphersuites_pristine", os.path.join(HERE, "pristine", "ciphersuites.py")
)
old = importlib.util.module_from_spec(spec)
sys.modules[spec.name] = old
spec.loader.exec_module(old)

assert hasattr(new, "_KEYGEN_L") and not hasattr(old, "_KEYGEN_L"), "edited tree expected"
assert new._KEYGEN_L == 48 and new._KEYGEN_L_OCTETS == b"\x000" == old.i2osp(48, 2)
assert new._KEYGEN_SALT == b"BLS-SIG-KEYGEN-SALT-"

r = new.curve_order
assert r == old.curve_order
SUITES = ["G2Basic", "G2MessageAugmentation", "G2ProofOfPossession"]
checks = 0


def outcome(fn, *args, **kw):
    try:
        v = fn(*args, **kw)
        return ("ok", type(v).__name__, v)
    except BaseException as e:  # noqa: B902
        return ("exc", type(e).__name__, str(e))


def same(label, fo, fn, *args, **kw):
    global checks
    a = outcome(fo, *args, **kw)
    b = outcome(fn, *args, **kw)
    if a != b:
        print("MISMATCH", label, repr(args)[:200], kw, a, b)
        sys.exit(1)
    checks += 1
    return a


rng = random.Random(777)


def rb(n):
    return bytes(rng.getrandbits(8) for _ in range(n))


# ------------------------------------------------------------ well-formed inputs
ikms = [b"", b"\x00", b"\x00" * 32, b"\xff" * 32, b"\x01" * 31, b"\x01" * 32, b"\x01" * 33,
        b"a" * 55, b"a" * 56, b"a" * 63, b"a" * 64, b"a" * 65, b"a" * 119, b"a" * 128,
        bytes(range(256)), rb(4096), b"BLS-SIG-KEYGEN-SALT-"]
ikms += [rb(rng.randrange(0, 100)) for _ in range(1500)]
infos = [b"", b"\x00", b"\x000", b"0", b"info", b"\xff" * 64, rb(200), rb(1000),
         b"a" * 29, b"a" * 30, b"a" * 31, b"a" * 32, b"a" * 61, b"a" * 62, b"a" * 63]
results = {}
for name in SUITES:
    co, cn = getattr(old, name), getattr(new, name)
    for i, ikm in enumerate(ikms):
        a = same(name + ".KeyGen", co.KeyGen, cn.KeyGen, ikm)
        assert a[0] == "ok" and a[1] == "int" and 1 <= a[2] <= r - 1
        results[(name, ikm, b"")] = a[2]
        if i < 40 or i % 25 == 0:
            for info in infos:
                a = same(name + ".KeyGen+info", co.KeyGen, cn.KeyGen, ikm, info)
                assert a[0] == "ok" and 1 <= a[2] <= r - 1
                results[(name, ikm, info)] = a[2]
                same(name + ".KeyGen kw", co.KeyGen, cn.KeyGen, IKM=ikm, key_info=info)
# base class / the suites share the code and give the same key
for ikm in ikms[:50]:
    a = same("Base.KeyGen", old.BaseG2Ciphersuite.KeyGen, new.BaseG2Ciphersuite.KeyGen, ikm)
    assert a[2] == results[("G2Basic", ikm, b"")] == results[("G2ProofOfPossession", ikm, b"")]
# explicit default equals omitted default
for ikm in ikms[:20]:
    assert new.G2Basic.KeyGen(ikm, b"") == new.G2Basic.KeyGen(ikm) == results[("G2Basic", ikm, b"")]
# known-answer (EIP-2333 / draft v4 style vector computed by the pristine code)
assert new.G2Basic.KeyGen(b"\x01" * 32) == old.G2Basic.KeyGen(b"\x01" * 32)
print("well-formed: %d checks, %.1fs" % (checks, time.time() - T0))

# ------------------------------------------- other byte-like / malformed inputs
weird = [bytearray(b"abc"), bytearray(), bytearray(rb(40)), memoryview(b"abc"), "abc", "", None, 0, 1,
         1.5, [1, 2], (1,), (), [], {1: 2}, object, b"abc".hex(), range(3), True]
for name in SUITES:
    co, cn = getattr(old, name), getattr(new, name)
    for w in weird:
        same(name + ".KeyGen weird IKM", co.KeyGen, cn.KeyGen, w)
        same(name + ".KeyGen weird info", co.KeyGen, cn.KeyGen, b"\x01" * 32, w)
        same(name + ".KeyGen weird IKM+info", co.KeyGen, cn.KeyGen, w, b"info")
        for w2 in weird:
            same(name + ".KeyGen weird both", co.KeyGen, cn.KeyGen, w, w2)
    same(name + ".KeyGen no args", co.KeyGen, cn.KeyGen)
    same(name + ".KeyGen 3 args", co.KeyGen, cn.KeyGen, b"", b"", b"")
# arguments are not mutated
ba, bi = bytearray(b"seed" * 8), bytearray(b"info")
k1 = new.G2Basic.KeyGen(ba, bi)
assert ba == bytearray(b"seed" * 8) and bi == bytearray(b"info")
assert k1 == old.G2Basic.KeyGen(bytes(ba), bytes(bi)) == new.G2Basic.KeyGen(ba, bi)
print("malformed: %d checks, %.1fs" % (checks, time.time() - T0))

# ------------------------------------------------ same sequence of HKDF calls
trace = {"old": [], "new": []}


def wrap(mod, tag):
    saved = (mod.hkdf_extract, mod.hkdf_expand, mod.os2ip)

    def ex(salt, ikm, _f=saved[0]):
        trace[tag].append(("extract", bytes(salt), bytes(ikm)))
        return _f(salt, ikm)

    def xp(prk, info, length, _f=saved[1]):
        trace[tag].append(("expand", bytes(prk), bytes(info), length))
        return _f(prk, info, length)

    mod.hkdf_extract, mod.hkdf_expand = ex, xp
    return saved


def unwrap(mod, saved):
    mod.hkdf_extract, mod.hkdf_expand, mod.os2ip = saved


so, sn = wrap(old, "old"), wrap(new, "new")
try:
    for ikm in ikms[:60]:
        for info in (b"", b"info", rb(70)):
            same("traced KeyGen", old.G2Basic.KeyGen, new.G2Basic.KeyGen, ikm, info)
    assert trace["old"] == trace["new"] and len(trace["old"]) == 2 * 60 * 3
    checks += 1

    # ---------------------------------------- forced SK == 0: the retry path
    # os2ip is made to return a multiple of r for the first n calls, so both
    # loops must go round n extra times, re-hashing the salt each time.
    for n_zero in (0, 1, 2, 3, 7):
        for zero_val in (0, r, 5 * r):
            for ikm, info in ((b"\x01" * 32, b""), (b"", b"x"), (rb(48), rb(48))):
                outs = []
                for mod, saved, tag in ((old, so, "old"), (new, sn, "new")):
                    del trace[tag][:]
                    state = {"n": 0}

                    def fake(x, _f=saved[2], _s=state):
                        _s["n"] += 1
                        return zero_val if _s["n"] <= n_zero else _f(x)

                    mod.os2ip = fake
                    outs.append((outcome(mod.G2ProofOfPossession.KeyGen, ikm, info), state["n"]))
                    mod.os2ip = saved[2]
                assert outs[0] == outs[1], (n_zero, outs)
                assert outs[0][1] == n_zero + 1 and 1 <= outs[0][0][2] <= r - 1
                assert trace["old"] == trace["new"] and len(trace["new"]) == 2 * (n_zero + 1)
                # salts: H(salt), H(H(salt)), ...
                salt = b"BLS-SIG-KEYGEN-SALT-"
                for j in range(n_zero + 1):
                    salt = hashlib.sha256(salt).digest()
                    assert trace["new"][2 * j][1] == salt
                    assert trace["new"][2 * j][2] == ikm + b"\x00"
                    assert trace["new"][2 * j + 1][2:] == (info + b"\x000", 48)
                if n_zero == 0:
                    assert outs[0][0][2] == new.G2Basic.KeyGen(ikm, info)
                checks += 1
finally:
    unwrap(old, so)
    unwrap(new, sn)
print("traces / retry path: %d checks, %.1fs" % (checks, time.time() - T0))


# -------------------------- a suite with another hash function shares the code
def mk(mod):
    class Sha512Suite(mod.G2Basic):
        xmd_hash_function = hashlib.sha512

    class Sha1Suite(mod.G2ProofOfPossession):
        xmd_hash_function = hashlib.sha1

    return Sha512Suite, Sha1Suite


for co, cn in zip(mk(old), mk(new)):
    for ikm in ikms[:80]:
        a = same("alt-hash KeyGen", co.KeyGen, cn.KeyGen, ikm, b"k")
        assert 1 <= a[2] <= r - 1
    for w in weird[:8]:
        same("alt-hash KeyGen weird", co.KeyGen, cn.KeyGen, w, w)

# --------------------------------------------------------------- call history
keys = list(results.items())
rng.shuffle(keys)
for (name, ikm, info), val in keys[:4000]:
    cn = getattr(new, name)
    if rng.random() < 0.2:  # interleave failing calls and other-argument calls
        outcome(cn.KeyGen, "bad", None)
        cn.KeyGen(rb(8), rb(3))
    assert cn.KeyGen(ikm, info) == val
    checks += 1
assert new._KEYGEN_L == 48 and new._KEYGEN_L_OCTETS == b"\x000"
assert new._KEYGEN_SALT == b"BLS-SIG-KEYGEN-SALT-" and new.curve_order == old.curve_order == r

# ------------------------------------------- generated keys are usable (C01)
for ikm in (b"\x01" * 32, b"", ikms[15]):
    sk = new.G2ProofOfPossession.KeyGen(ikm)
    assert sk == old.G2ProofOfPossession.KeyGen(ikm)
    pk = new.G2ProofOfPossession.SkToPk(sk)
    assert pk == old.G2ProofOfPossession.SkToPk(sk)
    checks += 1
sk = new.G2Basic.KeyGen(b"\x02" * 32, b"demo")
sig = new.G2Basic.Sign(sk, b"message")
assert sig == old.G2Basic.Sign(sk, b"message")
assert new.G2Basic.Verify(new.G2Basic.SkToPk(sk), b"message", sig) is True
proof = new.G2ProofOfPossession.PopProve(sk)
assert new.G2ProofOfPossession.PopVerify(new.G2ProofOfPossession.SkToPk(sk), proof) is True
checks += 2
print("OK: %d checks in %.1fs" % (checks, time.time() - T0))
