from abc import (
    ABC,
    abstractmethod,
)
from hashlib import (
    sha256,
)
from math import (
    ceil,
    log2,
)
from typing import (
    Sequence,
)

from eth_typing import (
    BLSPubkey,
    BLSSignature,
)
from eth_utils import (
    ValidationError,
)

from py_ecc.fields import (
    optimized_bls12_381_FQ12 as FQ12,
)
from py_ecc.optimized_bls12_381 import (
    G1,
    Z1,
    Z2,
    add,
    curve_order,
    final_exponentiate,
    multiply,
    neg,
    pairing,
)

from .g2_primitives import (
    G1_to_pubkey,
    G2_to_signature,
    is_inf,
    pubkey_to_G1,
    signature_to_G2,
    subgroup_check,
)
from .hash import (
    hkdf_expand,
    hkdf_extract,
    i2osp,
    os2ip,
)
from .hash_to_curve import (
    hash_to_G2,
)


class BaseG2Ciphersuite(ABC):
    DST = b""
    xmd_hash_function = sha256

    #
    # Input validation helpers
    #
    @staticmethod
    def _is_valid_privkey(privkey: int) -> bool:
        return isinstance(privkey, int) and privkey > 0 and privkey < curve_order

    @staticmethod
    def _is_valid_pubkey(pubkey: bytes) -> bool:
        # SV: minimal-pubkey-size
        return isinstance(pubkey, bytes) and len(pubkey) == 48

    @staticmethod
    def _is_valid_message(message: bytes) -> bool:
        return isinstance(message, bytes)

    @staticmethod
    def _is_valid_signature(signature: bytes) -> bool:
        # SV: minimal-pubkey-size
        return isinstance(signature, bytes) and len(signature) == 96

    #
    # APIs
    #
    @classmethod
    def SkToPk(cls, privkey: int) -> BLSPubkey:
        """
        The SkToPk algorithm takes a secret key SK and outputs the
        corresponding public key PK.

        Raise `ValidationError` when there is input validation error.
        """
        if not cls._is_valid_privkey(privkey):
            raise ValidationError("Invalid private key")

        # Procedure
        return G1_to_pubkey(multiply(G1, privkey))

    @classmethod
    def KeyGen(cls, IKM: bytes, key_info: bytes = b"") -> int:
        salt = b"BLS-SIG-KEYGEN-SALT-"
        SK = 0
        while SK == 0:
            salt = cls.xmd_hash_function(salt).digest()
            prk = hkdf_extract(salt, IKM + b"\x00")
            l = ceil((1.5 * ceil(log2(curve_order))) / 8)  # noqa: E741
            okm = hkdf_expand(prk, key_info + i2osp(l, 2), l)
            SK = os2ip(okm) % curve_order
        return SK

    @staticmethod
    def KeyValidate(PK: BLSPubkey) -> bool:
        # A public key is exactly 48 bytes; longer strings would otherwise be
        # decoded from their low-order bits only.
        if not BaseG2Ciphersuite._is_valid_pubkey(PK):
            return False

        try:
            pubkey_point = pubkey_to_G1(PK)
        except (ValidationError, ValueError, AssertionError):
            return False

        if is_inf(pubkey_point):
            return False

        if not subgroup_check(pubkey_point):
            return False

        return True

    @classmethod
    def _CoreSign(cls, SK: int, message: bytes, DST: bytes) -> BLSSignature:
        """
        The CoreSign algorithm computes a signature from SK, a secret key,
        and message, an octet string.

        Raise `ValidationError` when there is input validation error.
        """
        # Inputs validation
        if not cls._is_valid_privkey(SK):
            raise ValidationError("Invalid secret key")
        if not cls._is_valid_message(message):
            raise ValidationError("Invalid message")

        # Procedure
        message_point = hash_to_G2(message, DST, cls.xmd_hash_function)
        signature_point = multiply(message_point, SK)
        return G2_to_signature(signature_point)

    @classmethod
    def _CoreVerify(
        cls, PK: BLSPubkey, message: bytes, signature: BLSSignature, DST: bytes
    ) -> bool:
        try:
            # Inputs validation
            if not cls._is_valid_pubkey(PK):
                raise ValidationError("Invalid public key")
            if not cls._is_valid_message(message):
                raise ValidationError("Invalid message")
            if not cls._is_valid_signature(signature):
                raise ValidationError("Invalid signature")

            # Procedure
            if not cls.KeyValidate(PK):
                raise ValidationError("Invalid public key")
            signature_point = signature_to_G2(signature)
            if not subgroup_check(signature_point):
                return False
            final_exponentiation = final_exponentiate(
                pairing(
                    signature_point,
                    G1,
                    final_exponentiate=False,
                )
                * pairing(
                    hash_to_G2(message, DST, cls.xmd_hash_function),
                    neg(pubkey_to_G1(PK)),
                    final_exponentiate=False,
                )
            )
            return final_exponentiation == FQ12.one()
        except (ValidationError, ValueError, AssertionError):
            return False

    @classmethod
    def Aggregate(cls, signatures: Sequence[BLSSignature]) -> BLSSignature:
        """
        The Aggregate algorithm aggregates multiple signatures into one.

        Raise `ValidationError` when there is input validation error.
        """
        # Preconditions
        if len(signatures) < 1:
            raise ValidationError("Insufficient number of signatures. (n < 1)")

        # Inputs validation
        for signature in signatures:
            if not cls._is_valid_signature(signature):
                raise ValidationError("Invalid signature")

        # Procedure
        aggregate = Z2  # Seed with the point at infinity
        for signature in signatures:
            signature_point = signature_to_G2(signature)
            aggregate = add(aggregate, signature_point)
        return G2_to_signature(aggregate)

    @classmethod
    def _CoreAggregateVerify(
        cls,
        PKs: Sequence[BLSPubkey],
        messages: Sequence[bytes],
        signature: BLSSignature,
        DST: bytes,
    ) -> bool:
        try:
            # Inputs validation
            for pk in PKs:
                if not cls._is_valid_pubkey(pk):
                    raise ValidationError("Invalid public key")
            for message in messages:
                if not cls._is_valid_message(message):
                    raise ValidationError("Invalid message")
            if not len(PKs) == len(messages):
                raise ValidationError("Inconsistent number of PKs and messages")
            if not cls._is_valid_signature(signature):
                raise ValidationError("Invalid signature")

            # Preconditions
            if len(PKs) < 1:
                raise ValidationError("Insufficient number of PKs. (n < 1)")

            # Procedure
            signature_point = signature_to_G2(signature)
            if not subgroup_check(signature_point):
                return False
            aggregate = FQ12.one()
            for pk, message in zip(PKs, messages):
                if not cls.KeyValidate(pk):
                    raise ValidationError("Invalid public key")
                pubkey_point = pubkey_to_G1(pk)
                message_point = hash_to_G2(message, DST, cls.xmd_hash_function)
                aggregate *= pairing(
                    message_point, pubkey_point, final_exponentiate=False
                )
            aggregate *= pairing(signature_point, neg(G1), final_exponentiate=False)
            return final_exponentiate(aggregate) == FQ12.one()

        except (ValidationError, ValueError, AssertionError):
            return False

    @classmethod
    def Sign(cls, SK: int, message: bytes) -> BLSSignature:
        return cls._CoreSign(SK, message, cls.DST)

    @classmethod
    def Verify(cls, PK: BLSPubkey, message: bytes, signature: BLSSignature) -> bool:
        return cls._CoreVerify(PK, message, signature, cls.DST)

    @classmethod
    @abstractmethod
    def AggregateVerify(
        cls,
        PKs: Sequence[BLSPubkey],
        messages: Sequence[bytes],
        signature: BLSSignature,
    ) -> bool:
        ...


class G2Basic(BaseG2Ciphersuite):
    DST = b"BLS_SIG_BLS12381G2_XMD:SHA-256_SSWU_RO_NUL_"

    @classmethod
    def AggregateVerify(
        cls,
        PKs: Sequence[BLSPubkey],
        messages: Sequence[bytes],
        signature: BLSSignature,
    ) -> bool:
        if len(messages) != len(set(messages)):  # Messages are not unique
            return False
        return cls._CoreAggregateVerify(PKs, messages, signature, cls.DST)


class G2MessageAugmentation(BaseG2Ciphersuite):
    DST = b"BLS_SIG_BLS12381G2_XMD:SHA-256_SSWU_RO_AUG_"

    @classmethod
    def Sign(cls, SK: int, message: bytes) -> BLSSignature:
        PK = cls.SkToPk(SK)
        return cls._CoreSign(SK, PK + message, cls.DST)

    @classmethod
    def Verify(cls, PK: BLSPubkey, message: bytes, signature: BLSSignature) -> bool:
        return cls._CoreVerify(PK, PK + message, signature, cls.DST)

    @classmethod
    def AggregateVerify(
        cls,
        PKs: Sequence[BLSPubkey],
        messages: Sequence[bytes],
        signature: BLSSignature,
    ) -> bool:
        if len(PKs) != len(messages):
            return False
        messages = [pk + msg for pk, msg in zip(PKs, messages)]
        return cls._CoreAggregateVerify(PKs, messages, signature, cls.DST)


class G2ProofOfPossession(BaseG2Ciphersuite):
    DST = b"BLS_SIG_BLS12381G2_XMD:SHA-256_SSWU_RO_POP_"
    POP_TAG = b"BLS_POP_BLS12381G2_XMD:SHA-256_SSWU_RO_POP_"

    @classmethod
    def _is_valid_pubkey(cls, pubkey: bytes) -> bool:
        """
        Note: PopVerify is a precondition for -Verify APIs
        However, it's difficult to verify it with the API interface in runtime.
        To ensure KeyValidate has been checked, we check it in the input validation.
        See https://github.com/cfrg/draft-irtf-cfrg-bls-signature/issues/27 for
        the discussion.
        """
        if not super()._is_valid_pubkey(pubkey):
            return False
        return cls.KeyValidate(BLSPubkey(pubkey))

    @classmethod
    def AggregateVerify(
        cls,
        PKs: Sequence[BLSPubkey],
        messages: Sequence[bytes],
        signature: BLSSignature,
    ) -> bool:
        return cls._CoreAggregateVerify(PKs, messages, signature, cls.DST)

    @classmethod
    def PopProve(cls, SK: int) -> BLSSignature:
        pubkey = cls.SkToPk(SK)
        return cls._CoreSign(SK, pubkey, cls.POP_TAG)

    @classmethod
    def PopVerify(cls, PK: BLSPubkey, proof: BLSSignature) -> bool:
        return cls._CoreVerify(PK, PK, proof, cls.POP_TAG)

    @staticmethod
    def _AggregatePKs(PKs: Sequence[BLSPubkey]) -> BLSPubkey:
        """
        Aggregate the public keys.

        Raise `ValidationError` when there is input validation error.
        """
        if len(PKs) < 1:
            raise ValidationError("Insufficient number of PKs. (n < 1)")

        aggregate = Z1  # Seed with the point at infinity
        for pk in PKs:
            pubkey_point = pubkey_to_G1(pk)
            aggregate = add(aggregate, pubkey_point)
        return G1_to_pubkey(aggregate)

    @classmethod
    def FastAggregateVerify(
        cls, PKs: Sequence[BLSPubkey], message: bytes, signature: BLSSignature
    ) -> bool:
        try:
            # Inputs validation
            for pk in PKs:
                if not cls._is_valid_pubkey(pk):
                    raise ValidationError("Invalid public key")
            if not cls._is_valid_message(message):
                raise ValidationError("Invalid message")
            if not cls._is_valid_signature(signature):
                raise ValidationError("Invalid signature")

            # Preconditions
            if len(PKs) < 1:
                raise ValidationError("Insufficient number of PKs. (n < 1)")

            # Procedure
            aggregate_pubkey = cls._AggregatePKs(PKs)
        except (ValidationError, AssertionError):
            return False
        else:
            return cls.Verify(aggregate_pubkey, message, signature)
