import os, sys; sys.path.insert(0, os.getcwd())  # noqa: E401,E702

"""
Equivalence demonstration for property C03 (BLS aggregation / aggregate checks).

Loads the pristine copy of py_ecc/bls/ciphersuites.py (saved next to this script
under pristine/) as a sibling module of the working-tree one, so that both share
the very same g2_primitives / curve / pairing code, and compares -- input by
input -- the returned value (and its type) or the raised exception class of

    Aggregate, AggregateVerify (three suites), _CoreAggregateVerify,
    FastAggregateVerify, _AggregatePKs

between the pristine and the refactored classes.  Also checks that neither
version mutates its arguments.  Run with the worktree as current directory.
"""

import copy
import importlib.util
import itertools
import time

HERE = os.path.dirname(os.path.abspath(__file__))

import py_ecc.bls  # noqa: E402  (makes the package importable for relative imports)
import py_ecc.bls.ciphersuites as new_mod  # noqa: E402

assert os.path.abspath(new_mod.__file__).startswith(os.getcwd()), new_mod.__file__

spec = importlib.util.spec_from_file_location(
    "py_ecc.bls._pristine_ciphersuites", os.path.join(HERE, "pristine", "ciphersuites.py")
)
old_mod = importlib.util.module_from_spec(spec)
sys.modules[spec.name] = old_mod
spec.loader.exec_module(old_mod)

from py_ecc.bls.g2_primitives import (  # noqa: E402
    G1_to_pubkey,
    G2_to_signature,
    signature_to_G2,
    subgroup_check,
)
from py_ecc.bls.hash import i2osp  # noqa: E402
from py_ecc.optimized_bls12_381 import (  # noqa: E402
    G1,
    G2,
    Z1,
    Z2,
    curve_order,
    multiply,
    neg,
)

SUITES = ["G2Basic", "G2MessageAugmentation", "G2ProofOfPossession"]

T0 = time.time()
n_cases = 0
n_exc = 0
n_true = 0
failures = []


def outcome(fn, args):
    args_before = copy.deepcopy(args)
    try:
        val = fn(*args)
        res = ("ok", type(val).__name__, val)
    except BaseException as e:  # noqa: B902
        res = ("exc", type(e).__name__)
    # purity: arguments unchanged (generators are skipped by deepcopy failure above)
    assert args == args_before, ("argument mutated", fn, args_before, args)
    return res


def compare(label, suite, meth, args_factory):
    """args_factory() builds fresh arguments (so one-shot iterables are fresh)."""
    global n_cases, n_exc, n_true
    fo = getattr(getattr(old_mod, suite), meth)
    fn = getattr(getattr(new_mod, suite), meth)
    try:
        a_old = args_factory()
        a_new = args_factory()
        try:
            copy.deepcopy(a_old)
            deep = True
        except TypeError:
            deep = False
        if deep:
            r_old = outcome(fo, a_old)
            r_new = outcome(fn, a_new)
        else:
            r_old = raw(fo, a_old)
            r_new = raw(fn, a_new)
    except AssertionError as e:
        failures.append((label, suite, meth, "purity", e))
        return
    n_cases += 1
    if r_old[0] == "exc":
        n_exc += 1
    elif r_old[2] is True:
        n_true += 1
    if r_old != r_new:
        failures.append((label, suite, meth, r_old, r_new))
        print("MISMATCH", label, suite, meth, r_old, r_new)
    return r_old


def raw(fn, args):
    try:
        val = fn(*args)
        return ("ok", type(val).__name__, val)
    except BaseException as e:  # noqa: B902
        return ("exc", type(e).__name__)


def const(*args):
    return lambda: copy.copy(list(args))


# ----------------------------------------------------------------------------
# Material
# ----------------------------------------------------------------------------
SKS = [1, 2, 3, 0x1234567, curve_order - 1, 5]
Basic = old_mod.G2Basic
PKS = [Basic.SkToPk(sk) for sk in SKS]
MSGS = [b"", b"a", b"message two", b"\x00" * 32, b"\xff" * 5, b"abc"]

INF_PK = G1_to_pubkey(Z1)
INF_SIG = G2_to_signature(Z2)
assert INF_PK == b"\xc0" + b"\x00" * 47 and INF_SIG == b"\xc0" + b"\x00" * 95

# a G1 point on the curve outside the prime-order subgroup, and the same for G2
from py_ecc.bls.point_compression import (  # noqa: E402
    decompress_G1,
    decompress_G2,
)


def find_non_subgroup_pk():
    for x in range(1, 200):
        cand = i2osp(x + (1 << 383), 48)
        try:
            pt = decompress_G1(int.from_bytes(cand, "big"))
        except ValueError:
            continue
        if not subgroup_check(pt):
            return cand
    raise RuntimeError


def find_non_subgroup_sig():
    for x in range(1, 200):
        cand = i2osp(1 << 383, 48) + i2osp(x, 48)
        try:
            pt = signature_to_G2(cand)
        except ValueError:
            continue
        if not subgroup_check(pt):
            return cand
    raise RuntimeError


def find_undecodable_sig():
    for x in range(1, 200):
        cand = i2osp(1 << 383, 48) + i2osp(x, 48)
        try:
            signature_to_G2(cand)
        except ValueError:
            return cand
    raise RuntimeError


BAD_SUBGROUP_PK = find_non_subgroup_pk()
BAD_SUBGROUP_SIG = find_non_subgroup_sig()
UNDECODABLE_SIG = find_undecodable_sig()
OFF_CURVE_PK = b"\x11" * 48  # c_flag unset -> decode failure
NEG_PK0 = G1_to_pubkey(neg(multiply(G1, SKS[0])))

BAD_PKS = [
    INF_PK,
    BAD_SUBGROUP_PK,
    OFF_CURVE_PK,
    b"\x00" * 48,
    b"\xff" * 48,
    PKS[0][:47],
    PKS[0] + b"\x00",
    b"\x00" + PKS[0],
    b"",
    bytearray(PKS[0]),
    PKS[0].hex(),
    7,
    None,
]
BAD_SIGS = [
    b"",
    b"\x00" * 95,
    b"\x00" * 97,
    b"\x00" * 96,
    b"\xff" * 96,
    b"\x80" + b"\x00" * 95,
    b"\xe0" + b"\x00" * 95,
    b"\xc0" + b"\x00" * 94 + b"\x01",
    UNDECODABLE_SIG,
    "s" * 96,
    12345,
    None,
    (1, 2),
]

# ----------------------------------------------------------------------------
# 1. Aggregate (cheap: many cases)
# ----------------------------------------------------------------------------
sig_pts = [multiply(G2, k) for k in (1, 2, 3, 42, 69, curve_order - 1)]
raw_sigs = [G2_to_signature(p) for p in sig_pts]

for suite in SUITES:
    # empties / non-sequences
    for label, fac in [
        ("empty list", lambda: [[]]),
        ("empty tuple", lambda: [()]),
        ("None", lambda: [None]),
        ("int", lambda: [5]),
        ("generator", lambda: [(s for s in raw_sigs[:2])]),
        ("empty bytes", lambda: [b""]),
        ("bytes of len 96 (iterates ints)", lambda: [raw_sigs[0]]),
        ("dict keyed by sigs", lambda: [{raw_sigs[0]: 1, raw_sigs[1]: 2}]),
        ("set of one sig", lambda: [{raw_sigs[0]}]),
    ]:
        compare("Aggregate/" + label, suite, "Aggregate", fac)

    # single, pairs, orders and groupings
    full = suite == SUITES[0]
    for n in range(1, 5 if full else 3):
        for perm in itertools.permutations(raw_sigs[:n]):
            compare("Aggregate/perm%d" % n, suite, "Aggregate", const(list(perm)))
            if n < 4:
                compare(
                    "Aggregate/perm-tuple%d" % n, suite, "Aggregate", const(tuple(perm))
                )
    compare("Aggregate/all6", suite, "Aggregate", const(list(raw_sigs)))
    compare("Aggregate/all6rev", suite, "Aggregate", const(list(reversed(raw_sigs))))
    # duplicates, cancellation to the identity, identity entries
    compare("Aggregate/dups", suite, "Aggregate", const([raw_sigs[1]] * 5))
    compare("Aggregate/cancel", suite, "Aggregate", const([raw_sigs[0], raw_sigs[5]]))
    compare("Aggregate/inf only", suite, "Aggregate", const([INF_SIG]))
    compare("Aggregate/inf+sig", suite, "Aggregate", const([INF_SIG, raw_sigs[2], INF_SIG]))
    compare("Aggregate/non-subgroup", suite, "Aggregate", const([BAD_SUBGROUP_SIG]))
    compare(
        "Aggregate/non-subgroup+sig",
        suite,
        "Aggregate",
        const([raw_sigs[3], BAD_SUBGROUP_SIG, BAD_SUBGROUP_SIG]),
    )
    # grouping: Aggregate(Aggregate(a,b), c) etc. on both sides
    for cls_mod in (old_mod, new_mod) if full else ():
        C = getattr(cls_mod, suite)
        whole = C.Aggregate(raw_sigs[:4])
        assert C.Aggregate([C.Aggregate(raw_sigs[:2]), C.Aggregate(raw_sigs[2:4])]) == whole
        assert C.Aggregate([raw_sigs[0], C.Aggregate(raw_sigs[1:4])]) == whole
        assert whole == G2_to_signature(multiply(G2, 1 + 2 + 3 + 42))
    # malformed entries at every position, and in combination with undecodable
    for bad in BAD_SIGS:
        for pos in range(3) if full else (1,):
            lst = list(raw_sigs[:2])
            lst.insert(pos, bad)
            compare("Aggregate/bad@%d %r" % (pos, bad), suite, "Aggregate", const(lst))
        compare("Aggregate/only bad %r" % (bad,), suite, "Aggregate", const([bad]))
        compare(
            "Aggregate/undecodable-then-bad",
            suite,
            "Aggregate",
            const([UNDECODABLE_SIG, raw_sigs[0], bad]),
        )
        compare(
            "Aggregate/bad-then-undecodable",
            suite,
            "Aggregate",
            const([bad, raw_sigs[0], UNDECODABLE_SIG]),
        )

print("Aggregate done: %d cases, %.1fs" % (n_cases, time.time() - T0))

# ----------------------------------------------------------------------------
# 2. _AggregatePKs
# ----------------------------------------------------------------------------
for label, fac in [
    ("empty", lambda: [[]]),
    ("one", lambda: [[PKS[0]]]),
    ("three", lambda: [PKS[:3]]),
    ("three rev", lambda: [PKS[:3][::-1]]),
    ("tuple", lambda: [tuple(PKS[:4])]),
    ("dups", lambda: [[PKS[1]] * 3]),
    ("cancel", lambda: [[PKS[0], NEG_PK0]]),
    ("inf", lambda: [[INF_PK, PKS[0]]]),
    ("off curve", lambda: [[PKS[0], OFF_CURVE_PK]]),
    ("non subgroup", lambda: [[BAD_SUBGROUP_PK, PKS[0]]]),
    ("short", lambda: [[PKS[0][:47]]]),
    ("None", lambda: [None]),
    ("None entry", lambda: [[None]]),
    ("generator", lambda: [(p for p in PKS[:2])]),
]:
    compare("_AggregatePKs/" + label, "G2ProofOfPossession", "_AggregatePKs", fac)

# ----------------------------------------------------------------------------
# 3. AggregateVerify / FastAggregateVerify
# ----------------------------------------------------------------------------
# Pairing-heavy cases are distributed round-robin over the three suites (the
# Miller-loop code is shared by all of them); cheap cases run in every suite.
_heavy_counter = [0]

for suite_idx, suite in enumerate(SUITES):
    t_s = time.time()
    C = getattr(old_mod, suite)
    is_basic = suite == "G2Basic"
    sigs = [C.Sign(sk, m) for sk, m in zip(SKS[:3], MSGS[:3])]
    sig_0_on_1 = C.Sign(SKS[0], MSGS[1])
    aggs = {n: C.Aggregate(sigs[:n]) for n in (1, 2, 3)}

    def av(label, pks, msgs, sig, meth="AggregateVerify", heavy=False):
        if heavy:
            _heavy_counter[0] += 1
            if _heavy_counter[0] % 3 != suite_idx:
                return None
        return compare(
            "%s/%s" % (meth, label),
            suite,
            meth,
            lambda: [copy.copy(pks), copy.copy(msgs), sig],
        )

    # valid, sizes 1..2 in every suite, 3 in one; lists and tuples; permuted
    for n in (1, 2):
        r = av("valid n=%d" % n, PKS[:n], MSGS[:n], aggs[n])
        assert r == ("ok", "bool", True), r
    if suite_idx == 2:
        r = av("valid n=3", PKS[:3], MSGS[:3], aggs[3])
        assert r == ("ok", "bool", True), r
    if suite_idx == 0:
        r = av("valid n=2 permuted tuple", tuple(PKS[:2][::-1]), tuple(MSGS[:2][::-1]), aggs[2])
        assert r == ("ok", "bool", True), r

    n = 2
    pks, msgs, agg = PKS[:n], MSGS[:n], aggs[n]
    # drop / duplicate / substitute
    av("drop key", pks[:1], msgs, agg)
    av("drop message", pks, msgs[:1], agg)
    av("drop signer", pks[:1], msgs[:1], agg, heavy=True)
    av("dup signer", pks + pks[:1], msgs + msgs[:1], agg, heavy=not is_basic)
    av("extra signer", PKS[:3], MSGS[:3], agg, heavy=True)
    av("swap keys", pks[::-1], msgs, agg, heavy=True)
    av("substitute key n=1", [PKS[4]], msgs[:1], aggs[1], heavy=True)
    av("substitute key n=2", [pks[0], PKS[4]], msgs, agg, heavy=True)
    av("substitute message n=1", pks[:1], [MSGS[5]], aggs[1], heavy=True)
    av("substitute message n=2", pks, [msgs[0], MSGS[5]], agg, heavy=True)
    av("aggregate of fewer", pks, msgs, aggs[1], heavy=True)
    av("aggregate other valid sig n=1", pks[:1], msgs[:1], sig_0_on_1, heavy=True)
    av("aggregate inf n=1", pks[:1], msgs[:1], INF_SIG, heavy=True)
    av("aggregate non subgroup", pks, msgs, BAD_SUBGROUP_SIG)
    flipped = bytearray(agg)
    flipped[-1] ^= 1
    av("aggregate flipped bit", pks, msgs, bytes(flipped))
    av("aggregate as bytearray", pks, msgs, bytearray(agg))
    for bad in BAD_SIGS:
        av("bad aggregate %r" % (bad,), pks, msgs, bad)
    # repeated messages / repeated keys (each signer signs the same message):
    # the basic suite refuses repeated messages, the other two accept them
    same_msg_sigs = [C.Sign(sk, MSGS[2]) for sk in SKS[:2]]
    r = av("repeated message", pks, [MSGS[2]] * 2, C.Aggregate(same_msg_sigs))
    assert r == ("ok", "bool", not is_basic), r
    same_key_sigs = [C.Sign(SKS[0], m) for m in MSGS[:2]]
    av("repeated key", [PKS[0]] * 2, MSGS[:2], C.Aggregate(same_key_sigs), heavy=True)
    av(
        "repeated key and message",
        [PKS[0]] * 2,
        [MSGS[2]] * 2,
        C.Aggregate([same_msg_sigs[0]] * 2),
        heavy=not is_basic,
    )
    # keys cancelling each other with the identity aggregate
    av("cancelling keys", [PKS[0], NEG_PK0], [MSGS[2]] * 2, INF_SIG, heavy=not is_basic)
    av("cancelling keys distinct msgs", [PKS[0], NEG_PK0], MSGS[:2], INF_SIG, heavy=True)
    # empties and length mismatches
    av("empty both", [], [], agg)
    av("empty both inf", [], [], INF_SIG)
    av("empty tuple both", (), (), INF_SIG)
    av("empty keys", [], msgs, agg)
    av("empty messages", pks, [], agg)
    av("more keys", PKS[:3], msgs, aggs[3])
    av("more messages", pks, MSGS[:3], aggs[3])
    # malformed keys at each position ("last" reaches the pairing of the first)
    for bad in BAD_PKS:
        av("bad key first %r" % (bad,), [bad, pks[1]], msgs, agg)
        av(
            "bad key last %r" % (bad,),
            [pks[0], bad],
            msgs,
            agg,
            heavy=isinstance(bad, bytes) and len(bad) == 48 and suite_idx != 2,
        )
    av("bad key + bad sig", [INF_PK, pks[1]], msgs, b"\x00" * 96)
    av("bad key + len mismatch", [OFF_CURVE_PK], msgs, agg)
    av("valid-sized invalid key + short sig", [INF_PK, pks[1]], msgs, b"")
    # malformed messages
    for bad in ["text", 5, None, bytearray(b"ba"), [1, 2], (b"x",)]:
        is_ba = isinstance(bad, bytearray)  # pk + bytearray is a valid bytes message
        av("bad message first %r" % (bad,), pks, [bad, msgs[1]], agg, heavy=is_ba)
        av("bad message last %r" % (bad,), pks, [msgs[0], bad], agg, heavy=is_ba)
        av("bad message + dup", pks + pks[:1], [bad, msgs[1], msgs[1]], agg, heavy=is_ba)
        av("bad message + mismatch", pks, [bad], agg)
    # non-sequence containers
    av("None keys", None, msgs, agg)
    av("None messages", pks, None, agg)
    av("None all", None, None, None)
    av("int keys", 3, msgs, agg)
    compare(
        "AggregateVerify/generator keys",
        suite,
        "AggregateVerify",
        lambda: [(p for p in pks[:1]), list(msgs[:1]), aggs[1]],
    )
    compare(
        "AggregateVerify/generator messages",
        suite,
        "AggregateVerify",
        lambda: [list(pks[:1]), (m for m in msgs[:1]), aggs[1]],
    )
    compare(
        "AggregateVerify/dict messages",
        suite,
        "AggregateVerify",
        lambda: [list(pks[:1]), dict.fromkeys(msgs[:1]), aggs[1]],
    )

    # _CoreAggregateVerify directly, with the suite DST / a foreign DST
    dsts = (C.DST, b"", b"OTHER-DST")
    compare(
        "_CoreAggregateVerify/own dst",
        suite,
        "_CoreAggregateVerify",
        lambda: [list(pks[:1]), list(msgs[:1]), aggs[1], C.DST],
    ) if suite_idx == 1 else None
    compare(
        "_CoreAggregateVerify/foreign dst",
        suite,
        "_CoreAggregateVerify",
        lambda: [list(pks[:1]), list(msgs[:1]), aggs[1], dsts[1 + suite_idx // 2]],
    ) if suite_idx != 1 else None
    compare(
        "_CoreAggregateVerify/duplicate messages",
        suite,
        "_CoreAggregateVerify",
        lambda: [list(pks), [MSGS[2]] * 2, INF_SIG, C.DST],
    ) if suite_idx == 0 else None
    compare(
        "_CoreAggregateVerify/mismatch",
        suite,
        "_CoreAggregateVerify",
        lambda: [list(pks), list(MSGS[:3]), agg, C.DST],
    )
    compare(
        "_CoreAggregateVerify/empty",
        suite,
        "_CoreAggregateVerify",
        lambda: [[], [], INF_SIG, C.DST],
    )
    compare(
        "_CoreAggregateVerify/bad dst",
        suite,
        "_CoreAggregateVerify",
        lambda: [list(pks), list(msgs), agg, None],
    )
    print("%s AggregateVerify done: %d cases, %.1fs" % (suite, n_cases, time.time() - t_s))

# FastAggregateVerify (proof-of-possession suite only)
suite = "G2ProofOfPossession"
C = old_mod.G2ProofOfPossession
msg = b"shared message"
fsigs = [C.Sign(sk, msg) for sk in SKS[:3]]
faggs = {n: C.Aggregate(fsigs[:n]) for n in (1, 2, 3)}


def fav(label, pks, m, sig):
    return compare(
        "FastAggregateVerify/" + label,
        suite,
        "FastAggregateVerify",
        lambda: [copy.copy(pks), m, sig],
    )


for n in (1, 3):
    r = fav("valid n=%d" % n, PKS[:n], msg, faggs[n])
    assert r == ("ok", "bool", True), r
r = fav("valid n=2 reversed tuple", tuple(PKS[:2][::-1]), msg, faggs[2])
assert r == ("ok", "bool", True), r
pks, agg = PKS[:2], faggs[2]
fav("drop key", pks[:1], msg, agg)
fav("dup key", pks + pks[:1], msg, agg)
fav("substitute key", [pks[0], PKS[4]], msg, agg)
fav("other message", pks, b"other", agg)
fav("aggregate of fewer", pks, msg, faggs[1])
fav("aggregate inf", pks, msg, INF_SIG)
fav("aggregate non subgroup", pks, msg, BAD_SUBGROUP_SIG)
fav("dup key with doubled sig", [PKS[0]] * 2, msg, C.Aggregate([fsigs[0]] * 2))
fav("cancelling keys", [PKS[0], NEG_PK0], msg, INF_SIG)
fav("empty", [], msg, agg)
fav("empty tuple", (), msg, INF_SIG)
fav("None keys", None, msg, agg)
fav("int keys", 1, msg, agg)
compare(
    "FastAggregateVerify/generator keys",
    suite,
    "FastAggregateVerify",
    lambda: [(p for p in pks), msg, agg],
)
for bad in BAD_SIGS:
    fav("bad sig %r" % (bad,), pks, msg, bad)
    fav("bad sig + bad key", [INF_PK], msg, bad)
    fav("bad sig + empty", [], msg, bad)
for bad in BAD_PKS:
    fav("bad key first %r" % (bad,), [bad, pks[1]], msg, agg)
    fav("bad key last %r" % (bad,), [pks[0], bad], msg, agg)
for bad in ["text", 5, None, bytearray(b"shared message"), [msg]]:
    fav("bad message %r" % (bad,), pks, bad, agg)
    fav("bad message + empty", [], bad, agg)
    fav("bad message + bad sig", pks, bad, b"")

print(
    "total: %d cases (%d raising, %d returning True), %d mismatches, %.1fs"
    % (n_cases, n_exc, n_true, len(failures), time.time() - T0)
)
if failures:
    for f in failures:
        print("FAIL", f)
    sys.exit(1)
assert n_cases > 400 and n_exc > 20 and n_true >= 15
print("EQUIVALENT")
sys.exit(0)
