import os, sys; sys.path.insert(0, os.getcwd())  # noqa: E702

"""
Equivalence demonstration for t2 (C20).

t2 restates three computations in py_ecc/optimized_bls12_381/optimized_pairing.py:
  * exp_by_p: sum(generator, FQ12.zero()) -> explicit left-to-right accumulation loop;
  * final_exponentiate: field_modulus**2 hoisted into a local (cofactor = (q2*q2 - q2
    + 1) // r) and the six nested exp_by_p calls written as a loop;
  * the import-time check of pseudo_binary_encoding: e * 2**i -> e << i.

Part A loads the pristine module next to the edited one (importlib, other module
name inside the same package, so both share the curve module and the field classes)
and compares exp_by_p / final_exponentiate / pairing / miller_loop on many inputs
(boundary, foreign field classes, malformed), compares the precomputed exptable,
checks that neither the arguments nor exptable are modified, and replays interleaved
call sequences with repeated arguments.

Part B runs a call sequence through the real library (both optimized curves,
pairings, hashing, compression, BLS ciphersuites - Verify goes through
final_exponentiate) and compares it with values recorded on the pristine tree
(expected.json; `equiv.py --gen` on a pristine tree re-creates that file), in two
different orders, and checks that the module constants are unchanged.
"""

import importlib
import importlib.util
import json
import random

HERE = os.path.dirname(os.path.abspath(__file__))
PRISTINE = os.path.join(HERE, "pristine", "optimized_pairing.py")
EXPECTED = os.path.join(HERE, "expected.json")


def load(path, name):
    spec = importlib.util.spec_from_file_location(name, path)
    mod = importlib.util.module_from_spec(spec)
    sys.modules[name] = mod
    spec.loader.exec_module(mod)
    return mod


# --------------------------------------------------------------------------- #
# Part B helpers: high level run through the library
# --------------------------------------------------------------------------- #
def constants_snapshot():
    from py_ecc.bls import constants as bc
    from py_ecc.optimized_bls12_381 import constants as oc
    from py_ecc.optimized_bls12_381 import optimized_curve as c1
    from py_ecc.optimized_bls12_381 import optimized_pairing as p1
    from py_ecc.optimized_bn128 import optimized_curve as c2

    snap = {}
    for mod in (c1, c2):
        for nm in ("G1", "G2", "G12", "Z1", "Z2", "b", "b2", "b12", "w"):
            if hasattr(mod, nm):
                snap[mod.__name__ + "." + nm] = repr(getattr(mod, nm))
    snap["exptable"] = repr(p1.exptable)
    snap["pbe"] = repr(p1.pseudo_binary_encoding)
    for nm in dir(oc):
        if nm.isupper():
            snap["oc." + nm] = repr(getattr(oc, nm))
    for nm in dir(bc):
        if nm.isupper():
            snap["bc." + nm] = repr(getattr(bc, nm))
    return snap


def highlevel_steps():
    from py_ecc import optimized_bls12_381 as ob
    from py_ecc import optimized_bn128 as on
    from py_ecc.bls import G2Basic, G2ProofOfPossession
    from py_ecc.bls.g2_primitives import G1_to_pubkey, G2_to_signature
    from py_ecc.bls.hash_to_curve import hash_to_G2
    from py_ecc.bls.point_compression import (
        compress_G1,
        compress_G2,
        decompress_G1,
        decompress_G2,
    )
    from hashlib import sha256

    dst = b"QUUX-V01-CS02-with-BLS12381G2_XMD:SHA-256_SSWU_RO_"
    steps = {}

    def S(name):
        def deco(fn):
            steps[name] = fn
            return fn

        return deco

    @S("bls_g1_mul")
    def _():
        return repr(ob.normalize(ob.multiply(ob.G1, 0xDEADBEEF1234567)))

    @S("bls_g2_mul")
    def _():
        return repr(ob.normalize(ob.multiply(ob.G2, 987654321987654321)))

    @S("bls_add_double")
    def _():
        p = ob.add(ob.double(ob.G1), ob.multiply(ob.G1, 5))
        q = ob.add(ob.G2, ob.Z2)
        r = ob.add(ob.G1, ob.neg(ob.G1))
        return repr((p, q, r, ob.eq(p, ob.multiply(ob.G1, 7)), ob.is_inf(r)))

    @S("bls_mul_zero")
    def _():
        return repr((ob.multiply(ob.G1, 0), ob.multiply(ob.Z2, 12345), ob.double(ob.Z1)))

    @S("bls_pairing")
    def _():
        return repr(ob.pairing(ob.G2, ob.G1))

    @S("bls_final_exp")
    def _():
        f = ob.pairing(ob.multiply(ob.G2, 3), ob.multiply(ob.G1, 5), False)
        return repr(ob.final_exponentiate(f))

    @S("bls_pairing_inf")
    def _():
        return repr((ob.pairing(ob.Z2, ob.G1), ob.pairing(ob.G2, ob.Z1)))

    @S("bls_pairing_bad")
    def _():
        try:
            bad = (ob.G1[0], ob.G1[1] + 1, ob.G1[2])
            return repr(ob.pairing(ob.G2, bad))
        except Exception as e:  # noqa: BLE001
            return "EXC " + type(e).__name__

    @S("bn_mul")
    def _():
        return repr(
            (
                on.normalize(on.multiply(on.G1, 123456789123456789)),
                on.normalize(on.multiply(on.G2, 31337)),
                on.add(on.G1, on.neg(on.G1)),
            )
        )

    @S("bn_pairing")
    def _():
        return repr(on.pairing(on.G2, on.multiply(on.G1, 2)))

    @S("hash_to_g2")
    def _():
        return repr(
            (
                ob.normalize(hash_to_G2(b"", dst, sha256)),
                ob.normalize(hash_to_G2(b"abc", dst, sha256)),
            )
        )

    @S("compress")
    def _():
        p = ob.multiply(ob.G1, 42)
        q = ob.multiply(ob.G2, 43)
        c = compress_G1(p)
        d = compress_G2(q)
        return repr(
            (
                c,
                d,
                ob.normalize(decompress_G1(c)),
                ob.normalize(decompress_G2(d)),
                compress_G1(ob.Z1),
                compress_G2(ob.Z2),
                G1_to_pubkey(p).hex(),
                G2_to_signature(q).hex(),
            )
        )

    @S("pop_sign_verify")
    def _():
        sk = 0x1234567890ABCDEF
        pk = G2ProofOfPossession.SkToPk(sk)
        sig = G2ProofOfPossession.Sign(sk, b"message one")
        return repr(
            (
                pk.hex(),
                sig.hex(),
                G2ProofOfPossession.Verify(pk, b"message one", sig),
                G2ProofOfPossession.Verify(pk, b"message two", sig),
                G2ProofOfPossession.Verify(pk, b"message one", b"\x00" * 96),
                G2ProofOfPossession.Verify(b"\x01" * 48, b"message one", sig),
            )
        )

    @S("pop_aggregate")
    def _():
        sks = [3, 5, 7]
        pks = [G2ProofOfPossession.SkToPk(s) for s in sks]
        sigs = [G2ProofOfPossession.Sign(s, b"same") for s in sks]
        agg = G2ProofOfPossession.Aggregate(sigs)
        proof = G2ProofOfPossession.PopProve(sks[0])
        return repr(
            (
                agg.hex(),
                G2ProofOfPossession.FastAggregateVerify(pks, b"same", agg),
                G2ProofOfPossession.FastAggregateVerify(pks[:2], b"same", agg),
                G2ProofOfPossession.PopVerify(pks[0], proof),
                G2ProofOfPossession.PopVerify(pks[1], proof),
            )
        )

    @S("basic_sign")
    def _():
        sig1 = G2Basic.Sign(11, b"m1")
        sig2 = G2Basic.Sign(12, b"m2")
        pks = [G2Basic.SkToPk(11), G2Basic.SkToPk(12)]
        agg = G2Basic.Aggregate([sig1, sig2])
        return repr(
            (
                sig1.hex(),
                G2Basic.AggregateVerify(pks, [b"m1", b"m2"], agg),
                G2Basic.AggregateVerify(pks, [b"m1", b"m1"], agg),
                G2Basic.KeyValidate(pks[0]),
                G2Basic.KeyValidate(b"\xc0" + b"\x00" * 47),
            )
        )

    return steps


def run_highlevel(order):
    steps = highlevel_steps()
    names = list(steps)
    if order == "reversed":
        names = names[::-1]
    elif order == "shuffled":
        random.Random(20).shuffle(names)
    return {nm: steps[nm]() for nm in names}


def gen():
    before = constants_snapshot()
    out = run_highlevel("forward")
    assert constants_snapshot() == before
    with open(EXPECTED, "w") as f:
        json.dump({"steps": out, "constants": before}, f, indent=1, sort_keys=True)
    print("wrote", EXPECTED)



# --------------------------------------------------------------------------- #
# Part A: side by side comparison of the pairing module
# --------------------------------------------------------------------------- #
def show(v):
    """Canonical description of a value: type name + representation."""
    if isinstance(v, tuple):
        return ("tuple", tuple(show(x) for x in v))
    tn = type(v).__name__
    if hasattr(v, "coeffs") and hasattr(v, "field_modulus"):
        return (
            tn,
            tuple(show(c) for c in v.coeffs),
            repr(getattr(v, "degree", None)),
            v.field_modulus,
        )
    if hasattr(v, "n") and hasattr(v, "field_modulus"):
        return (tn, v.n, v.field_modulus)
    return (tn, repr(v))


def outcome(fn):
    try:
        return ("ok", show(fn()))
    except RecursionError:
        raise
    except BaseException as e:  # noqa: BLE001
        return ("exc", type(e).__name__, str(e))


class Bag:
    """Malformed argument: only has a `coeffs` attribute."""

    def __init__(self, coeffs):
        self.coeffs = coeffs

    def __repr__(self):
        return "Bag(%r)" % (self.coeffs,)


def part_a():
    from py_ecc.fields import (
        optimized_bls12_381_FQ as FQ,
        optimized_bls12_381_FQ2 as FQ2,
        optimized_bls12_381_FQ12 as FQ12,
        optimized_bn128_FQ12 as BN_FQ12,
    )
    from py_ecc.optimized_bls12_381 import optimized_curve as oc

    new = importlib.import_module("py_ecc.optimized_bls12_381.optimized_pairing")
    old = load(PRISTINE, "py_ecc.optimized_bls12_381.pristine_optimized_pairing")
    assert new is not old and os.path.realpath(new.__file__) != PRISTINE
    import inspect

    assert "return sum(" in inspect.getsource(old.exp_by_p)
    assert "return sum(" not in inspect.getsource(new.exp_by_p), (
        "the edit is not applied in the tree under test"
    )
    assert old.FQ12 is new.FQ12 is FQ12  # same field classes: results comparable
    P = new.field_modulus
    checked = 0

    # 0. precomputed table and import-time data identical
    assert show(tuple(old.exptable)) == show(tuple(new.exptable))
    assert len(new.exptable) == 12 and all(type(t) is FQ12 for t in new.exptable)
    assert old.pseudo_binary_encoding == new.pseudo_binary_encoding
    assert (old.ate_loop_count, old.log_ate_loop_count) == (
        new.ate_loop_count,
        new.log_ate_loop_count,
    )
    table_before = [(id(t), t.coeffs, id(t.coeffs)) for t in new.exptable]
    table_before_old = [(id(t), t.coeffs, id(t.coeffs)) for t in old.exptable]

    def tables_untouched():
        assert [(id(t), t.coeffs, id(t.coeffs)) for t in new.exptable] == table_before
        assert [
            (id(t), t.coeffs, id(t.coeffs)) for t in old.exptable
        ] == table_before_old
        assert len(new.exptable) == len(old.exptable) == 12

    # 1. the two integer restatements, on the real data and on many others
    rnd = random.Random(381)
    enc = new.pseudo_binary_encoding
    assert sum([e * 2**i for i, e in enumerate(enc)]) == sum(
        e << i for i, e in enumerate(enc)
    ) == new.ate_loop_count
    for ln in list(range(0, 70)) + [128, 500]:
        bits = [rnd.randrange(2) for _ in range(ln)]
        for bs in (bits, [0] * ln, [1] * ln, [bool(b) for b in bits]):
            a = sum([e * 2**i for i, e in enumerate(bs)])
            b = sum(e << i for i, e in enumerate(bs))
            assert a == b and type(a) is type(b), (ln, bs)
            checked += 1
    for m in [P, oc.curve_order, 0, 1, 2, 3, 7, -1, -P, 2**64, 2**381, 2**1000 + 1] + [
        rnd.randrange(-(2**400), 2**400) for _ in range(2000)
    ]:
        q2 = m * m
        a = m**4 - m**2 + 1
        b = q2 * q2 - q2 + 1
        assert a == b and type(a) is type(b)
        for r in (oc.curve_order, 1, 3, 2**61 - 1):
            assert a // r == b // r
        checked += 1
    assert (P**4 - P**2 + 1) // oc.curve_order == (
        (P * P) * (P * P) - (P * P) + 1
    ) // oc.curve_order

    # 2. exp_by_p on well-formed and malformed inputs
    def rand12():
        return FQ12([rnd.randrange(P) for _ in range(12)])

    wellformed = {
        "one": lambda: FQ12.one(),
        "zero": lambda: FQ12.zero(),
        "w": lambda: FQ12([0, 1] + [0] * 10),
        "minus_one": lambda: FQ12([P - 1] + [0] * 11),
        "all_pm1": lambda: FQ12([P - 1] * 12),
        "all_one": lambda: FQ12([1] * 12),
        "unreduced": lambda: FQ12([P, P + 1, -1, -P, 2 * P + 5, 2**400] + [0] * 6),
        "fq_coeffs": lambda: FQ12([FQ(i * 7 + 3) for i in range(12)]),
        "fq_coeffs_zero": lambda: FQ12([FQ(0)] * 12),
        "b12": lambda: oc.b12,
        "G12x": lambda: oc.G12[0],
        "G12y": lambda: oc.G12[1],
    }
    for i in range(12):
        wellformed["basis%d" % i] = lambda i=i: FQ12([0] * i + [1] + [0] * (11 - i))
        wellformed["table%d" % i] = lambda i=i: new.exptable[i]
    for i in range(25):
        cs = [rnd.randrange(P) for _ in range(12)]
        wellformed["rand%d" % i] = lambda cs=cs: FQ12(cs)
    for i in range(6):
        cs = [rnd.choice([0, 0, 0, 1, P - 1, rnd.randrange(P)]) for _ in range(12)]
        wellformed["sparse%d" % i] = lambda cs=cs: FQ12(cs)

    def gen_coeffs():
        return (c for c in [1, 2, 3])

    malformed = {
        "none": lambda: None,
        "int": lambda: 5,
        "str": lambda: "abc",
        "fq": lambda: FQ(5),
        "fq2": lambda: FQ2([3, 4]),
        "fq2_zero": lambda: FQ2.zero(),
        "bn_fq12": lambda: BN_FQ12([i + 1 for i in range(12)]),
        "bag_empty": lambda: Bag([]),
        "bag_empty_tuple": lambda: Bag(()),
        "bag_one": lambda: Bag([7]),
        "bag_13": lambda: Bag(list(range(13))),
        "bag_20": lambda: Bag(list(range(1, 21))),
        "bag_neg_huge": lambda: Bag([-1, -P, 2**500, True, False, 0]),
        "bag_str_digits": lambda: Bag(["5", "6"]),
        "bag_str_bad": lambda: Bag([1, "x", 3]),
        "bag_float": lambda: Bag([2.7, -2.7, 1e3]),
        "bag_nan": lambda: Bag([1, float("nan")]),
        "bag_none": lambda: Bag([None]),
        "bag_late_none": lambda: Bag([1, 2, None, 4]),
        "bag_fq": lambda: Bag([FQ(3), FQ(P - 1)]),
        "bag_int_not_iterable": lambda: Bag(5),
        "bag_none_coeffs": lambda: Bag(None),
        "bag_string_coeffs": lambda: Bag("123"),
        "bag_bytes_coeffs": lambda: Bag(b"\x01\x02"),
        "bag_generator": lambda: Bag(gen_coeffs()),
        "bag_dict": lambda: Bag({1: 2, 3: 4}),
        "bag_fq12_elems": lambda: Bag([FQ12.one()]),
    }

    def snapshot_arg(x):
        c = getattr(x, "coeffs", None)
        if isinstance(c, (list, tuple, str, bytes, dict)) or c is None:
            return (id(x), repr(c), id(c))
        return (id(x),)

    for name, mk in list(wellformed.items()) + list(malformed.items()):
        xo, xn = mk(), mk()
        so, sn = snapshot_arg(xo), snapshot_arg(xn)
        ro = outcome(lambda: old.exp_by_p(xo))
        rn = outcome(lambda: new.exp_by_p(xn))
        assert ro == rn, (name, ro, rn)
        assert snapshot_arg(xo) == so and snapshot_arg(xn) == sn, name
        if name in wellformed:
            assert rn[0] == "ok" and rn[1][0] == "optimized_bls12_381_FQ12", (name, rn)
            # the answer is a new object, never the argument or a table entry
            res = new.exp_by_p(xn)
            assert res is not xn and all(res is not t for t in new.exptable)
            # same call again, and on the same object in the other build
            assert outcome(lambda: new.exp_by_p(xn)) == rn
            assert outcome(lambda: old.exp_by_p(xn)) == rn
        checked += 1
    tables_untouched()

    # exp_by_p really is the Frobenius map (spot check against a plain power)
    for name in ("rand0", "rand1", "w", "unreduced", "zero", "one"):
        x = wellformed[name]()
        assert new.exp_by_p(x) == x**P == old.exp_by_p(x), name
        checked += 1

    # 3. final_exponentiate
    f1 = new.miller_loop(oc.G2, oc.G1, final_exponentiate=False)
    f2 = new.miller_loop(
        oc.multiply(oc.G2, 5), oc.multiply(oc.G1, 9), final_exponentiate=False
    )
    fe_inputs = {
        "one": lambda: FQ12.one(),
        "zero": lambda: FQ12.zero(),
        "w": lambda: FQ12([0, 1] + [0] * 10),
        "minus_one": lambda: FQ12([P - 1] + [0] * 11),
        "miller1": lambda: f1,
        "miller2": lambda: f2,
        "fq_coeffs": wellformed["fq_coeffs"],
        "unreduced": wellformed["unreduced"],
    }
    for i in range(8):
        fe_inputs["rand%d" % i] = wellformed["rand%d" % i]
    fe_bad = {k: malformed[k] for k in (
        "none", "int", "str", "fq", "fq2", "bn_fq12", "bag_empty", "bag_one",
        "bag_str_bad", "bag_none", "bag_int_not_iterable", "bag_generator",
    )}
    fe_results = {}
    for name, mk in list(fe_inputs.items()) + list(fe_bad.items()):
        xo, xn = mk(), mk()
        so, sn = snapshot_arg(xo), snapshot_arg(xn)
        ro = outcome(lambda: old.final_exponentiate(xo))
        rn = outcome(lambda: new.final_exponentiate(xn))
        assert ro == rn, (name, ro, rn)
        assert snapshot_arg(xo) == so and snapshot_arg(xn) == sn, name
        fe_results[name] = rn
        checked += 1
    tables_untouched()
    # agreement with the one-shot exponentiation used by pairing()/miller_loop()
    assert new.final_exponentiate(f1) == new.pairing(oc.G2, oc.G1)
    assert old.final_exponentiate(f1) == old.pairing(oc.G2, oc.G1)
    assert show(new.pairing(oc.G2, oc.G1)) == show(old.pairing(oc.G2, oc.G1))
    assert fe_results["one"] == ("ok", show(FQ12.one()))
    checked += 3

    # 4. remaining public functions of the module (untouched, but same module object)
    pts = [
        (oc.G2, oc.G1),
        (oc.Z2, oc.G1),
        (oc.G2, oc.Z1),
        (oc.multiply(oc.G2, 3), oc.multiply(oc.G1, 4)),
        (oc.G2, (oc.G1[0], oc.G1[1] + 1, oc.G1[2])),
        ((oc.G2[0], oc.G2[1], oc.G2[2] * 2), oc.G1),
        (None, oc.G1),
        (oc.G2, None),
    ]
    for q, p in pts:
        for fe in (True, False):
            ro = outcome(lambda: old.pairing(q, p, fe))
            rn = outcome(lambda: new.pairing(q, p, fe))
            assert ro == rn, (q, p, fe)
            checked += 1
    for q, p in pts[:4] + pts[6:]:
        ro = outcome(lambda: old.miller_loop(q, p, False))
        rn = outcome(lambda: new.miller_loop(q, p, False))
        assert ro == rn
        checked += 1
    tables_untouched()

    # 5. histories: a random program of calls, repeated and interleaved between the
    #    two builds and between equal and different arguments
    def program(mods, seed, n):
        r = random.Random(seed)
        keys = sorted(wellformed) + sorted(malformed)
        fe_keys = ["one", "zero", "w", "rand0", "rand1", "miller1"]
        memo, trace = {}, []
        for step in range(n):
            mod = mods[step % len(mods)]
            if r.random() < 0.06:
                k = ("fe", r.choice(fe_keys))
                res = outcome(lambda: mod.final_exponentiate(fe_inputs[k[1]]()))
            else:
                k = ("exp", r.choice(keys))
                arg = (wellformed.get(k[1]) or malformed[k[1]])()
                res = outcome(lambda: mod.exp_by_p(arg))
            assert memo.setdefault(k, res) == res, k
            trace.append((k, res))
        return trace

    t_old = program([old], 7, 400)
    t_new = program([new], 7, 400)
    t_mix = program([old, new, new, old], 7, 400)
    t_new2 = program([new], 7, 400)
    assert t_old == t_new == t_mix == t_new2
    checked += len(t_old)
    tables_untouched()
    assert show(tuple(old.exptable)) == show(tuple(new.exptable))

    print("part A: %d comparisons identical" % checked)


def part_b():
    with open(EXPECTED) as f:
        exp = json.load(f)
    before = constants_snapshot()
    assert before == exp["constants"], "module constants differ from the pristine tree"
    for order in ("forward", "shuffled"):
        got = run_highlevel(order)
        assert set(got) == set(exp["steps"])
        for k in got:
            assert got[k] == exp["steps"][k], (order, k)
        assert constants_snapshot() == before, "a module constant was modified"
    print("part B: %d library steps x 2 orders identical, constants unchanged"
          % len(exp["steps"]))


if __name__ == "__main__":
    if "--gen" in sys.argv:
        gen()
    else:
        part_a()
        part_b()
        print("EQUIVALENT")
