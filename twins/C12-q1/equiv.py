import os, sys; sys.path.insert(0, os.getcwd())  # noqa: E401,E702

import importlib.util
import random
import time

HERE = os.path.dirname(os.path.abspath(__file__))
PRISTINE = os.path.join(HERE, "pristine", "optimized_bn128_optimized_pairing.py")

import py_ecc.optimized_bn128 as ob  # noqa: E402
from py_ecc.optimized_bn128 import optimized_pairing as new  # noqa: E402

assert os.path.realpath(new.__file__).startswith(os.path.realpath(os.getcwd())), (
    new.__file__
)

# Load the pristine module as a sibling inside the same package so that its relative
# imports (.optimized_curve) resolve to the very same curve module objects.
spec = importlib.util.spec_from_file_location(
    "py_ecc.optimized_bn128._pristine_optimized_pairing", PRISTINE
)
old = importlib.util.module_from_spec(spec)
sys.modules[spec.name] = old
spec.loader.exec_module(old)
assert old is not new and old.miller_loop is not new.miller_loop
assert not hasattr(old, "_doubling_step") and hasattr(new, "_doubling_step")

from py_ecc.optimized_bn128 import (  # noqa: E402
    FQ,
    FQ2,
    FQ12,
    G1,
    G2,
    Z1,
    Z2,
    add,
    curve_order,
    field_modulus,
    multiply,
    neg,
    normalize,
    twist,
)

rng = random.Random(0xC12)
T0 = time.time()
N_CHECKS = 0


def snap(x):
    """A structural, comparable snapshot of a result (type names + ints)."""
    if isinstance(x, (FQ12, FQ2)):
        return (type(x).__name__, tuple(int(c) for c in x.coeffs))
    if isinstance(x, FQ):
        return ("FQ", x.n)
    if isinstance(x, tuple):
        return ("tuple",) + tuple(snap(e) for e in x)
    if isinstance(x, list):
        return ("list",) + tuple(snap(e) for e in x)
    return (type(x).__name__, repr(x))


def outcome(fn, *args, **kw):
    try:
        return ("ok", snap(fn(*args, **kw)))
    except RecursionError:
        raise
    except Exception as e:  # noqa: BLE001
        return ("exc", type(e).__name__)


def same(name, *args, **kw):
    """Call old.<name> and new.<name>; demand identical outcome; args unmutated."""
    global N_CHECKS
    before = snap(args)
    a = outcome(getattr(old, name), *args, **kw)
    mid = snap(args)
    b = outcome(getattr(new, name), *args, **kw)
    after = snap(args)
    assert before == mid == after, ("argument mutated", name)
    assert a == b, (name, args, kw, a, b)
    N_CHECKS += 1
    return a


def rescale(pt, lam):
    """Another projective representative of the same point."""
    if isinstance(lam, int):
        return tuple(c * lam for c in pt)
    return tuple(c * lam for c in pt)


def rand_fq12(sparse=False):
    if sparse:
        cs = [0] * 12
        for i in rng.sample(range(12), rng.randint(1, 3)):
            cs[i] = rng.randrange(field_modulus)
        return FQ12(cs)
    return FQ12([rng.randrange(field_modulus) for _ in range(12)])


# --------------------------------------------------------------------------
# 0. module-level data identical
# --------------------------------------------------------------------------
assert old.pseudo_binary_encoding == new.pseudo_binary_encoding
assert old.ate_loop_count == new.ate_loop_count
assert old.log_ate_loop_count == new.log_ate_loop_count
assert old.field_modulus == new.field_modulus
pbe_before = list(new.pseudo_binary_encoding)

# --------------------------------------------------------------------------
# 1. pairing on subgroup points, several projective representatives, both flags
# --------------------------------------------------------------------------
scalars = [1, 2, 3, curve_order - 1, rng.randrange(1, curve_order)]
pairs = []
for i, a in enumerate(scalars):
    bsc = scalars[(i + 2) % len(scalars)]
    P = multiply(G1, a)
    Q = multiply(G2, bsc)
    pairs.append((Q, P))

miller_vals_old = []
for idx, (Q, P) in enumerate(pairs):
    lamP = rng.randrange(1, field_modulus)
    lamQ = FQ2([rng.randrange(field_modulus), rng.randrange(1, field_modulus)])
    reps = [(Q, P)]
    if idx % 2 == 0:
        reps.append((rescale(Q, lamQ), rescale(P, lamP)))
    else:
        nx, ny = normalize(P)
        qx, qy = normalize(Q)
        reps.append(((qx, qy, FQ2.one()), (nx, ny, FQ.one())))
    results_true = []
    for Qr, Pr in reps:
        r_true = same("pairing", Qr, Pr)
        r_kw = same("pairing", Qr, Pr, final_exponentiate=True)
        r_false = same("pairing", Qr, Pr, final_exponentiate=False)
        assert r_true == r_kw and r_true[0] == "ok" and r_false[0] == "ok"
        results_true.append(r_true)
    # exponentiated value independent of projective representative
    assert all(r == results_true[0] for r in results_true)

# truthy / falsy non-bool flags behave like bools
Q, P = pairs[0]
assert same("pairing", Q, P, final_exponentiate=0) == same(
    "pairing", Q, P, final_exponentiate=False
)
assert same("pairing", Q, P, final_exponentiate=[]) == same(
    "pairing", Q, P, final_exponentiate=None
)
assert same("pairing", Q, P, final_exponentiate="yes") == same("pairing", Q, P)

# --------------------------------------------------------------------------
# 2. identity / infinity / malformed inputs
# --------------------------------------------------------------------------
inf1_alt = (FQ(5), FQ(7), FQ(0))
inf2_alt = (FQ2([3, 4]), FQ2([5, 6]), FQ2.zero())
zero1 = (FQ(0), FQ(0), FQ(0))
zero2 = (FQ2.zero(), FQ2.zero(), FQ2.zero())
off1 = (FQ(1), FQ(3), FQ(1))
off2 = (G2[0], G2[1] + FQ2.one(), G2[2])
for Qx, Px in [
    (G2, Z1),
    (Z2, G1),
    (Z2, Z1),
    (G2, inf1_alt),
    (inf2_alt, G1),
    (G2, zero1),
    (zero2, G1),
    (zero2, zero1),
    (off2, G1),
    (G2, off1),
    (off2, off1),
    (off2, Z1),
    (Z2, off1),
    (None, G1),
    (G2, None),
    (None, None),
    (G1, G2),
    (G2, G2),
    (G1, G1),
    ((), G1),
    (G2, ()),
    (G2[:2], G1),
    (G2, G1[:2]),
    (5, G1),
    (G2, 5),
    ((1, 2, 1), (1, 2, 1)),
]:
    for flag in (True, False):
        same("pairing", Qx, Px, final_exponentiate=flag)
    same("pairing", Qx, Px)

# --------------------------------------------------------------------------
# 3. miller_loop called directly (it is importable and used by callers)
# --------------------------------------------------------------------------
cP = new.cast_point_to_fq12(G1)
tQ = twist(G2)
same("miller_loop", None, cP)
same("miller_loop", tQ, None)
same("miller_loop", None, None, final_exponentiate=False)
same("miller_loop", tQ, cP, final_exponentiate=False)
same("miller_loop", tQ, cP, False)
same("miller_loop", twist(Z2), cP, final_exponentiate=False)
same("miller_loop", tQ, new.cast_point_to_fq12(Z1), final_exponentiate=False)
same("miller_loop", twist(neg(G2)), cP, final_exponentiate=False)
# malformed arguments reaching the loop body
same("miller_loop", (), cP, final_exponentiate=False)
same("miller_loop", tQ, (), final_exponentiate=False)
same("miller_loop", tQ[:2], cP, final_exponentiate=False)
same("miller_loop", 7, cP, final_exponentiate=False)
same("miller_loop", tQ, 7, final_exponentiate=False)
same("miller_loop", G2, G1, final_exponentiate=False)  # untwisted / uncast: mixed types
same("miller_loop", tQ, G1, final_exponentiate=False)
same("miller_loop", G2, cP, final_exponentiate=False)
# arbitrary FQ12 triples (not on any curve): pure arithmetic must still agree,
# this drives all three linefunc branches and degenerate add/double cases
for k in range(6):
    Qr = (rand_fq12(k % 2 == 0), rand_fq12(), rand_fq12(k % 3 == 0))
    Pr = (rand_fq12(), rand_fq12(k % 2 == 1), rand_fq12())
    same("miller_loop", Qr, Pr, final_exponentiate=False)
zero12, one12 = FQ12.zero(), FQ12.one()
for Qr, Pr in [
    ((zero12, zero12, zero12), cP),
    ((one12, one12, zero12), cP),
    ((one12, zero12, one12), cP),  # y == 0: doubling degenerates
    (tQ, (zero12, zero12, zero12)),
    (tQ, (one12, one12, zero12)),
]:
    same("miller_loop", Qr, Pr, final_exponentiate=False)

# --------------------------------------------------------------------------
# 4. helpers left untouched still agree (linefunc, cast, normalize1, final exp)
# --------------------------------------------------------------------------
pts = [G1, multiply(G1, 2), multiply(G1, 3), multiply(G1, curve_order - 1), Z1]
for A in pts:
    for B in pts[:3]:
        for C in pts[1:4]:
            same("linefunc", A, B, C)
same("cast_point_to_fq12", None)
same("cast_point_to_fq12", G1)
same("normalize1", multiply(G1, 5))
for x in [zero12, one12, rand_fq12(True), rand_fq12(True), rand_fq12(), rand_fq12()]:
    same("final_exponentiate", x)

# --------------------------------------------------------------------------
# 5. two-step verifier form:  FE(prod miller) == prod FE(miller)   (old and new)
# --------------------------------------------------------------------------
for mod in (old, new):
    ms = [mod.pairing(Qx, Px, final_exponentiate=False) for Qx, Px in pairs[:3]]
    es = [mod.pairing(Qx, Px) for Qx, Px in pairs[:3]]
    for n in (1, 2, 3):
        pm, pe = FQ12.one(), FQ12.one()
        for m_, e_ in zip(ms[:n], es[:n]):
            pm, pe = pm * m_, pe * e_
        assert mod.final_exponentiate(pm) == pe
        N_CHECKS += 1
# bilinearity sanity on the edited module: e(2Q, P) == e(Q, P)^2, e(Q,P)*e(Q,-P) == 1
e1 = new.pairing(G2, G1)
assert new.pairing(multiply(G2, 2), G1) == e1 * e1
assert e1 * new.pairing(G2, neg(G1)) == FQ12.one()
assert e1 != FQ12.one()

# --------------------------------------------------------------------------
# 6. optimized (edited) == reference pairing of the same curve
# --------------------------------------------------------------------------
from py_ecc import bn128 as ref  # noqa: E402

for a, bsc in [(1, 1), (rng.randrange(1, curve_order), rng.randrange(1, curve_order))]:
    r = ref.pairing(ref.multiply(ref.G2, bsc), ref.multiply(ref.G1, a))
    o = new.pairing(multiply(G2, bsc), multiply(G1, a))
    assert tuple(int(c) for c in r.coeffs) == tuple(int(c) for c in o.coeffs)
    N_CHECKS += 1

# --------------------------------------------------------------------------
# 7. call histories: repeat and interleave calls with equal and different args
# --------------------------------------------------------------------------
history = []
seq = [0, 1, 0, 2, 2, 1, 0]
for step, i in enumerate(seq):
    Qx, Px = pairs[i]
    flag = step % 2 == 0
    r = same("pairing", Qx, Px, final_exponentiate=flag)
    history.append((i, flag, r))
    # interleave unrelated calls that touch the same helpers
    same("pairing", Z2, Px)
    same("miller_loop", None, None)
    same("pairing", off2, Px)
by_key = {}
for i, flag, r in history:
    assert by_key.setdefault((i, flag), r) == r, "result changed with call history"
# fresh-equal (not identical) argument objects give equal results
Qx, Px = pairs[1]
Qc = tuple(FQ2([int(c) for c in e.coeffs]) for e in Qx)
Pc = tuple(FQ(e.n) for e in Px)
assert same("pairing", Qc, Pc) == same("pairing", Qx, Px)

assert new.pseudo_binary_encoding == pbe_before == old.pseudo_binary_encoding
assert new.one == old.one and new.two == old.two  # module-level sample points intact

print(f"q1 equiv OK: {N_CHECKS} comparisons in {time.time() - T0:.1f}s")
sys.exit(0)
