import os, sys; sys.path.insert(0, os.getcwd())  # noqa: E401,E702

# Equivalence demonstration for C17 / t1 (control-flow restructuring of add /
# multiply / eq in optimized_bls12_381.optimized_curve, explicit int() on the scalar in
# subgroup_check and multiply_clear_cofactor_G1/G2).
#
# Run as:  cd /tmp/wt2/C17 && /venv/bin/python /tmp/twin5/C17/t1/equiv.py
#
# Loads the pristine copies of the touched modules under other module names and
# compares, input by input, results (value, type, projective representative, coefficient
# types) and exception classes with the modules of the working tree.

import faulthandler
import importlib.util
import random
import time

faulthandler.dump_traceback_later(600, exit=True)

HERE = os.path.dirname(os.path.abspath(__file__))
PRISTINE = os.path.join(HERE, "pristine")

import py_ecc  # noqa: E402

assert os.path.abspath(py_ecc.__file__).startswith(os.getcwd() + os.sep), (
    "must be run with the worktree as current directory",
    py_ecc.__file__,
)

from py_ecc.bls import g2_primitives as new_g2p  # noqa: E402
from py_ecc.bls.constants import G2_COFACTOR  # noqa: E402
from py_ecc.bls.point_compression import modular_squareroot_in_FQ2  # noqa: E402
from py_ecc.fields import (  # noqa: E402
    optimized_bls12_381_FQ as FQ,
    optimized_bls12_381_FQ2 as FQ2,
    optimized_bls12_381_FQ12 as FQ12,
)
from py_ecc.fields.optimized_field_elements import FQ as BaseFQ, FQP as BaseFQP  # noqa: E402,E501
from py_ecc.optimized_bls12_381 import (  # noqa: E402
    optimized_clear_cofactor as new_cc,
    optimized_curve as new_curve,
)
from py_ecc.optimized_bls12_381.constants import H_EFF_G1, H_EFF_G2  # noqa: E402


def load(name, filename):
    spec = importlib.util.spec_from_file_location(name, os.path.join(PRISTINE, filename))
    mod = importlib.util.module_from_spec(spec)
    sys.modules[name] = mod
    spec.loader.exec_module(mod)
    return mod


old_curve = load("pristine_optimized_curve", "optimized_curve.py")
# the two modules below use relative imports, so load them inside their packages, then
# point their curve helpers at the pristine curve module (a fully pristine stack)
old_g2p = load("py_ecc.bls._pristine_g2_primitives", "g2_primitives.py")
old_g2p.multiply = old_curve.multiply
old_g2p.is_inf = old_curve.is_inf
old_g2p.curve_order = old_curve.curve_order
old_cc = load(
    "py_ecc.optimized_bls12_381._pristine_clear_cofactor", "optimized_clear_cofactor.py"
)
old_cc.multiply = old_curve.multiply

assert old_curve is not new_curve and old_g2p is not new_g2p and old_cc is not new_cc
assert new_g2p.multiply is new_curve.multiply
assert new_cc.multiply is new_curve.multiply

# module level constants must be identical
for cname in ("field_modulus", "curve_order", "b", "b2", "b12", "G1", "G2", "Z1", "Z2",
              "G12", "w"):
    a, b_ = getattr(old_curve, cname), getattr(new_curve, cname)
    assert type(a) is type(b_) and a == b_, cname

p = new_curve.field_modulus
r = new_curve.curve_order
G1, G2, Z1, Z2, G12 = new_curve.G1, new_curve.G2, new_curve.Z1, new_curve.Z2, new_curve.G12
B1, B2, B12 = new_curve.b, new_curve.b2, new_curve.b12


def canon(o):
    """A structural description: classes, values, coefficient classes."""
    if isinstance(o, BaseFQ):
        return ("FQ", type(o).__name__, type(o.n).__name__, o.n)
    if isinstance(o, BaseFQP):
        return (
            "FQP",
            type(o).__name__,
            tuple((type(c).__name__, int(c)) for c in o.coeffs),
        )
    if isinstance(o, (tuple, list)):
        return (type(o).__name__, tuple(canon(x) for x in o))
    if isinstance(o, float):
        return ("float", repr(o))
    return (type(o).__name__, repr(o))


def run(fn, args):
    try:
        return ("OK", canon(fn(*args)))
    except RecursionError:
        return ("EXC", "RecursionError")
    except Exception as e:  # noqa: BLE001
        return ("EXC", type(e).__name__)


N_CHECKS = 0
N_EXC = 0


def same(name, *args, mods=None):
    """Call old and new ``name`` on the same arguments; compare everything."""
    global N_CHECKS, N_EXC
    mo, mn = mods or (old_curve, new_curve)
    before = canon(args)
    ro = run(getattr(mo, name), args)
    mid = canon(args)
    rn = run(getattr(mn, name), args)
    after = canon(args)
    assert before == mid == after, ("argument mutated", name)
    assert ro == rn, ("MISMATCH", name, before, ro, rn)
    N_CHECKS += 1
    if ro[0] == "EXC":
        N_EXC += 1
    return ro


rng = random.Random(0xC17)
t0 = time.time()

# ---------------------------------------------------------------- test points
mul = new_curve.multiply
add = new_curve.add


def rand_g1_curve_point():
    while True:
        x = FQ(rng.randrange(p))
        y2 = x * x * x + B1
        y = y2 ** ((p + 1) // 4)
        if y * y == y2:
            if rng.random() < 0.5:
                y = -y
            return (x, y, FQ(1))


def rand_g2_curve_point():
    while True:
        x = FQ2([rng.randrange(p), rng.randrange(p)])
        y = modular_squareroot_in_FQ2(x * x * x + B2)
        if y is not None:
            if rng.random() < 0.5:
                y = -y
            return (x, y, FQ2.one())


def scale(pt, lam):
    return tuple(c * lam for c in pt)


H1 = 0x396C8C005555E1568C00AAAB0000AAAB  # cofactor of E(Fp)
assert H1 == (0xD201000000010000 + 1) ** 2 // 3
H2 = G2_COFACTOR

R1 = [rand_g1_curve_point() for _ in range(3)]
R2 = [rand_g2_curve_point() for _ in range(2)]
assert all(new_curve.is_on_curve(x, B1) for x in R1)
assert all(new_curve.is_on_curve(x, B2) for x in R2)

# points of small order / in the cofactor part
T1 = []
for q_ in (3, 11, 10177):
    t = mul(R1[0], r * (H1 // q_))
    if not new_curve.is_inf(t):
        T1.append(t)
T1.append(mul(R1[1], r))  # full cofactor component
T2 = []
for q_ in (13, 23, 2713):
    assert H2 % q_ == 0
    t = mul(R2[0], r * (H2 // q_))
    if not new_curve.is_inf(t):
        T2.append(t)
T2.append(mul(R2[1], r))
assert T1 and T2

ks = [1, 2, 3, 5, rng.randrange(r), r - 1]
g1_sub = [mul(G1, k) for k in ks]
g2_sub = [mul(G2, k) for k in ks[:4] + [rng.randrange(r)]]
g1_mixed = [add(mul(G1, rng.randrange(1, r)), t) for t in T1] + T1
g2_mixed = [add(mul(G2, rng.randrange(1, r)), t) for t in T2] + T2

inf1 = [Z1, (FQ(0), FQ(1), FQ(0)), (FQ(0), FQ(0), FQ(0)), (FQ(7), FQ(9), FQ(0)),
        mul(G1, r)]
inf2 = [Z2, (FQ2.zero(), FQ2.one(), FQ2.zero()),
        (FQ2.zero(), FQ2.zero(), FQ2.zero()), (FQ2([3, 4]), FQ2([5, 6]), FQ2.zero()),
        mul(G2, r)]

pts1 = g1_sub + g1_mixed + R1
pts2 = g2_sub + g2_mixed + R2
# other projective representatives
pts1 += [scale(x, FQ(rng.randrange(1, p))) for x in (g1_sub[1], g1_mixed[0], R1[0])]
pts1 += [scale(g1_sub[2], FQ(p - 1))]
pts2 += [scale(x, FQ2([rng.randrange(p), rng.randrange(p)]))
         for x in (g2_sub[1], g2_mixed[0], R2[0])]
pts2 += [scale(g2_sub[2], FQ2([0, 1]))]

# ---------------------------------------------------------------- curve module
for group, infs, bcoef in ((pts1, inf1, B1), (pts2, inf2, B2)):
    everything = group + infs
    for pt in everything:
        same("is_inf", pt)
        same("is_on_curve", pt, bcoef)
        same("double", pt)
        same("neg", pt)
        same("normalize", pt)  # ZeroDivisionError-free? compare whatever happens
        for n in (0, 1, 2, 3, 4, 7, 8, 255, 256, H_EFF_G1):
            same("multiply", pt, n)
    # big scalars on a subset (subgroup members, mixed points, infinities, rescaled)
    subset = group[:2] + group[6:9] + group[-2:] + infs
    for pt in subset:
        for n in (r, r - 1, r + 1, 2 * r, H_EFF_G1, H_EFF_G2, rng.getrandbits(300)):
            same("multiply", pt, n)
    # add / eq on pairs: generic, equal, negated, rescaled, with infinities
    pairs = []
    for i in range(0, len(group) - 1, 2):
        pairs.append((group[i], group[i + 1]))
    for pt in group[:8]:
        lam = group[3][0]  # some non-zero field element of the right class
        pairs += [(pt, pt), (pt, new_curve.neg(pt)), (pt, scale(pt, lam)),
                  (scale(pt, lam), new_curve.neg(pt))]
        for z in infs:
            pairs += [(pt, z), (z, pt)]
    for z in infs:
        for z_ in infs:
            pairs.append((z, z_))
    for a_, b_ in pairs:
        same("add", a_, b_)
        same("eq", a_, b_)

# FQ12 (the twisted generator): the code is shared with the FQ12 curve
Z12 = (FQ12.one(), FQ12.one(), FQ12.zero())
g12 = [G12, old_curve.double(G12), new_curve.twist(g2_sub[2])]
for pt in g12 + [Z12]:
    same("is_inf", pt)
    same("is_on_curve", pt, B12)
    same("double", pt)
    for n in (0, 1, 2, 3, 5, 6, 11):
        same("multiply", pt, n)
    for q_ in g12 + [Z12, new_curve.neg(pt)]:
        same("add", pt, q_)
        same("eq", pt, q_)
for pt in pts2[:3] + inf2[:2]:
    same("twist", pt)

# ------------------------------------------------ malformed / boundary arguments
P1, P2 = g1_sub[2], g2_sub[2]
# a negative scalar never reaches 0 or 1: both versions recurse until RecursionError.
# py_ecc raises the interpreter's recursion limit to 100000 on import, which makes each
# such call take seconds; do it once at that limit, then lower the limit (for both
# versions alike) for the remaining malformed-argument and call-history checks.
DEFAULT_LIMIT = sys.getrecursionlimit()
assert same("multiply", P1, -1) == ("EXC", "RecursionError")
sys.setrecursionlimit(3000)
odd_scalars = [-1, -2, -7, True, False, 2.0, 3.0, 5.0, 6.5, 0.0, 1.0, "a", None,
               FQ(3), [2], 2**64 + 0.0]
for n in odd_scalars:
    same("multiply", P1, n)
    same("multiply", Z1, n)
    same("multiply", P2, n)
odd_points = [
    None, (), (FQ(1),), (FQ(1), FQ(2)), (FQ(1), FQ(2), FQ(3), FQ(4)),
    (1, 2, 3), (1, 2, 0), (FQ(1), FQ(2), 0), (FQ(1), FQ(2), 3), (1, 2, FQ(3)),
    (FQ(1), FQ2([1, 2]), FQ(1)), (FQ(1), FQ(2), FQ2.zero()), (FQ(1), FQ(2), FQ2.one()),
    (FQ2.one(), FQ2.one(), FQ(0)), (None, None, FQ(0)), (None, None, FQ(1)),
    (FQ(1), None, FQ(0)), ("a", "b", "c"), [FQ(1), FQ(2), FQ(3)], (1.5, 2.5, 3.5),
    (FQ(1), FQ(2), None), 5,
]
for bad in odd_points:
    same("is_inf", bad)
    same("is_on_curve", bad, B1)
    same("double", bad)
    for n in (0, 1, 2, 3, 6, "a"):
        same("multiply", bad, n)
    if not (isinstance(bad, tuple) and bad and all(type(c) is int for c in bad)):
        # (negative scalars recurse until RecursionError; with bare Python ints as
        # coordinates the operands double in size per level, so skip those)
        same("multiply", bad, -1)
    for good in (P1, Z1, P2, Z2):
        same("add", bad, good)
        same("add", good, bad)
        same("eq", bad, good)
        same("eq", good, bad)
    same("add", bad, bad)
    same("eq", bad, bad)
# G1 point against G2 point
for a_, b_ in ((P1, P2), (P2, P1), (Z1, P2), (P2, Z1), (Z1, Z2), (Z2, Z1), (P1, Z2)):
    same("add", a_, b_)
    same("eq", a_, b_)

print(f"curve module done: {N_CHECKS} paired calls, {time.time() - t0:.1f}s", flush=True)
# -------------------------------------- subgroup_check / cofactor clearing stack
g2p = (old_g2p, new_g2p)
cc = (old_cc, new_cc)
for pt in pts1 + inf1 + pts2 + inf2:
    res = same("subgroup_check", pt, mods=g2p)
for pt in g1_sub + inf1 + g2_sub + inf2 + [scale(g1_sub[3], FQ(12345))]:
    assert same("subgroup_check", pt, mods=g2p) == ("OK", ("bool", "True"))
for pt in g1_mixed + g2_mixed:
    assert same("subgroup_check", pt, mods=g2p) == ("OK", ("bool", "False"))
for bad in odd_points:
    if isinstance(bad, tuple) and bad and all(type(c) is int for c in bad):
        continue  # bare ints are not reduced: operands explode under 255 doublings
    same("subgroup_check", bad, mods=g2p)
    same("multiply_clear_cofactor_G1", bad, mods=cc)
    same("multiply_clear_cofactor_G2", bad, mods=cc)
for pt in pts1 + inf1:
    same("multiply_clear_cofactor_G1", pt, mods=cc)
    out = new_cc.multiply_clear_cofactor_G1(pt)
    assert new_g2p.subgroup_check(out) is True
    assert canon(out) == canon(old_curve.multiply(pt, H_EFF_G1))
for pt in pts2 + inf2:
    same("multiply_clear_cofactor_G2", pt, mods=cc)
for pt in pts2[:4] + g2_mixed + R2 + inf2:
    out = new_cc.multiply_clear_cofactor_G2(pt)
    assert new_g2p.subgroup_check(out) is True
    assert canon(out) == canon(old_curve.multiply(pt, H_EFF_G2))
# wrong-group arguments go through as well (G2 point to the G1 routine etc.)
same("multiply_clear_cofactor_G1", P2, mods=cc)
same("multiply_clear_cofactor_G2", P1, mods=cc)

# public round trips through g2_primitives still agree
for k in (1, 2, 12345):
    same("G1_to_pubkey", mul(G1, k), mods=g2p)
    same("G2_to_signature", mul(G2, k), mods=g2p)
    pk = new_g2p.G1_to_pubkey(mul(G1, k))
    sig = new_g2p.G2_to_signature(mul(G2, k))
    same("pubkey_to_G1", pk, mods=g2p)
    same("signature_to_G2", sig, mods=g2p)

# ------------------------------- call histories: repeat and interleave the calls
hist = []
seq = [("multiply", (P1, 5)), ("subgroup", (g1_mixed[0],)), ("multiply", (P1, 5)),
       ("add", (P1, Z1)), ("subgroup", (P1,)), ("multiply", (P2, r)),
       ("subgroup", (g1_mixed[0],)), ("multiply", (P1, -1)), ("multiply", (P1, 5)),
       ("eq", (P1, scale(P1, FQ(9)))), ("subgroup", (P1,)), ("add", (P1, Z1))]
for round_ in range(2):
    for name, args in seq:
        if name == "subgroup":
            hist.append((name, canon(args), same("subgroup_check", *args, mods=g2p)))
        else:
            hist.append((name, canon(args), same(name, *args)))
seen = {}
for name, a_, res in hist:
    assert seen.setdefault((name, a_), res) == res, "result changed with call history"

sys.setrecursionlimit(DEFAULT_LIMIT)

# constants untouched by all of the above
for cname in ("G1", "G2", "Z1", "Z2", "b", "b2", "b12", "G12", "curve_order"):
    assert canon(getattr(old_curve, cname)) == canon(getattr(new_curve, cname))
assert canon(new_curve.G1) == canon(G1) and new_curve.curve_order == r
assert new_cc.H_EFF_G1 == H_EFF_G1 == 0xD201000000010001 and type(new_cc.H_EFF_G1) is int
assert new_cc.H_EFF_G2 == H_EFF_G2 and type(new_cc.H_EFF_G2) is int

print(f"equivalent on {N_CHECKS} paired calls ({N_EXC} raising the same exception class)"
      f" in {time.time() - t0:.1f}s")
sys.exit(0)
