from functools import (
    cached_property,
    total_ordering,
)
from typing import (
    TYPE_CHECKING,
    Any,
    List,
    Sequence,
    Tuple,
    Type,
    TypeVar,
    Union,
    cast,
)

from py_ecc.utils import (
    deg,
    prime_field_inv,
)

if TYPE_CHECKING:
    from py_ecc.typing import (
        FQ2_modulus_coeffs_type,
        FQ12_modulus_coeffs_type,
    )


# These new TypeVars are needed because these classes are kind of base classes and
# we need the output type to correspond to the type of the inherited class
T_FQ = TypeVar("T_FQ", bound="FQ")
T_FQP = TypeVar("T_FQP", bound="FQP")
T_FQ2 = TypeVar("T_FQ2", bound="FQ2")
T_FQ12 = TypeVar("T_FQ12", bound="FQ12")
IntOrFQ = Union[int, "FQ"]


def mod_int(x: IntOrFQ, n: int) -> int:
    if isinstance(x, int):
        return x % n
    elif isinstance(x, FQ):
        return x.n % n
    else:
        raise TypeError(f"Only int and T_FQ types are accepted: got {type(x)}")


@total_ordering
class FQ:
    """
    A class for field elements in FQ. Wrap a number in this class,
    and it becomes a field element.
    """

    n: int
    field_modulus: int

    def __init__(self: T_FQ, val: IntOrFQ) -> None:
        if not hasattr(self, "field_modulus"):
            raise AttributeError("Field Modulus hasn't been specified")

        if isinstance(val, FQ):
            self.n = val.n
        elif isinstance(val, int):
            self.n = val % self.field_modulus
        else:
            raise TypeError(
                f"Expected an int or FQ object, but got object of type {type(val)}"
            )

    def __add__(self: T_FQ, other: IntOrFQ) -> T_FQ:
        if isinstance(other, FQ):
            on = other.n
        elif isinstance(other, int):
            on = other
        else:
            raise TypeError(
                f"Expected an int or FQ object, but got object of type {type(other)}"
            )

        return type(self)((self.n + on) % self.field_modulus)

    def __mul__(self: T_FQ, other: IntOrFQ) -> T_FQ:
        if isinstance(other, FQ):
            on = other.n
        elif isinstance(other, int):
            on = other
        else:
            raise TypeError(
                f"Expected an int or FQ object, but got object of type {type(other)}"
            )

        return type(self)((self.n * on) % self.field_modulus)

    def __rmul__(self: T_FQ, other: IntOrFQ) -> T_FQ:
        return self * other

    def __radd__(self: T_FQ, other: IntOrFQ) -> T_FQ:
        return self + other

    def __rsub__(self: T_FQ, other: IntOrFQ) -> T_FQ:
        if isinstance(other, FQ):
            on = other.n
        elif isinstance(other, int):
            on = other
        else:
            raise TypeError(
                f"Expected an int or FQ object, but got object of type {type(other)}"
            )

        return type(self)((on - self.n) % self.field_modulus)

    def __sub__(self: T_FQ, other: IntOrFQ) -> T_FQ:
        if isinstance(other, FQ):
            on = other.n
        elif isinstance(other, int):
            on = other
        else:
            raise TypeError(
                f"Expected an int or FQ object, but got object of type {type(other)}"
            )

        return type(self)((self.n - on) % self.field_modulus)

    def __mod__(self: T_FQ, other: IntOrFQ) -> T_FQ:
        raise NotImplementedError("Modulo Operation not yet supported by fields")

    def __div__(self: T_FQ, other: IntOrFQ) -> T_FQ:
        if isinstance(other, FQ):
            on = other.n
        elif isinstance(other, int):
            on = other
        else:
            raise TypeError(
                f"Expected an int or FQ object, but got object of type {type(other)}"
            )

        return type(self)(
            self.n * prime_field_inv(on, self.field_modulus) % self.field_modulus
        )

    def __truediv__(self: T_FQ, other: IntOrFQ) -> T_FQ:
        return self.__div__(other)

    def __rdiv__(self: T_FQ, other: IntOrFQ) -> T_FQ:
        if isinstance(other, FQ):
            on = other.n
        elif isinstance(other, int):
            on = other
        else:
            raise TypeError(
                f"Expected an int or FQ object, but got object of type {type(other)}"
            )

        return type(self)(
            prime_field_inv(self.n, self.field_modulus) * on % self.field_modulus
        )

    def __rtruediv__(self: T_FQ, other: IntOrFQ) -> T_FQ:
        return self.__rdiv__(other)

    def __pow__(self: T_FQ, other: int) -> T_FQ:
        # Iterative square-and-multiply: recursing through ``**`` costs one level of
        # the interpreter's C stack per exponent bit and fails for large exponents.
        o = type(self)(1)
        t = self
        while other > 0:
            if other & 1:
                o = o * t
            other >>= 1
            t = t * t
        return o

    def __eq__(self: T_FQ, other: Any) -> bool:
        if isinstance(other, FQ):
            return self.n == other.n
        elif isinstance(other, int):
            return self.n == other
        else:
            raise TypeError(
                f"Expected an int or FQ object, but got object of type {type(other)}"
            )

    def __ne__(self: T_FQ, other: Any) -> bool:
        return not self == other

    def __neg__(self: T_FQ) -> T_FQ:
        return type(self)(-self.n)

    def __repr__(self: T_FQ) -> str:
        return repr(self.n)

    def __int__(self: T_FQ) -> int:
        return self.n

    def __lt__(self: T_FQ, other: IntOrFQ) -> bool:
        if isinstance(other, FQ):
            on = other.n
        elif isinstance(other, int):
            on = other
        else:
            raise TypeError(
                f"Expected an int or FQ object, but got object of type {type(other)}"
            )
        return self.n < on

    @cached_property
    def sgn0(self: T_FQ) -> int:
        """
        Calculates the sign of a value.
        sgn0(x) = 1 when x is 'negative'; otherwise, sg0(x) = 0

        Note this is an optimized variant for m = 1

        Defined here:
        https://tools.ietf.org/html/draft-irtf-cfrg-hash-to-curve-09#section-4.1
        """
        return self.n % 2

    @classmethod
    def one(cls: Type[T_FQ]) -> T_FQ:
        return cls(1)

    @classmethod
    def zero(cls: Type[T_FQ]) -> T_FQ:
        return cls(0)


class FQP:
    """
    A class for elements in polynomial extension fields
    """

    degree: int = 0
    field_modulus: int
    mc_tuples: List[Tuple[int, int]]

    def __init__(
        self, coeffs: Sequence[IntOrFQ], modulus_coeffs: Sequence[IntOrFQ] = ()
    ) -> None:
        if not hasattr(self, "field_modulus"):
            raise AttributeError("Field Modulus hasn't been specified")

        if len(coeffs) != len(modulus_coeffs):
            raise Exception("coeffs and modulus_coeffs aren't of the same length")

        # Not converting coeffs to FQ or explicitly making them integers
        # for performance reasons
        if isinstance(coeffs[0], int):
            self.coeffs: Tuple[IntOrFQ, ...] = tuple(
                coeff % self.field_modulus for coeff in coeffs
            )
        else:
            self.coeffs = tuple(coeffs)
        # The coefficients of the modulus, without the leading [1]
        self.modulus_coeffs: Tuple[IntOrFQ, ...] = tuple(modulus_coeffs)
        # The degree of the extension field
        self.degree = len(self.modulus_coeffs)

    def __add__(self: T_FQP, other: T_FQP) -> T_FQP:
        if not isinstance(other, type(self)):
            raise TypeError(
                f"Expected an FQP object, but got object of type {type(other)}"
            )

        return type(self)(
            [int(x + y) % self.field_modulus for x, y in zip(self.coeffs, other.coeffs)]
        )

    def __sub__(self: T_FQP, other: T_FQP) -> T_FQP:
        if not isinstance(other, type(self)):
            raise TypeError(
                f"Expected an FQP object, but got object of type {type(other)}"
            )

        return type(self)(
            [int(x - y) % self.field_modulus for x, y in zip(self.coeffs, other.coeffs)]
        )

    def __mod__(self: T_FQP, other: Union[int, T_FQP]) -> T_FQP:
        raise NotImplementedError("Modulo Operation not yet supported by fields")

    def __mul__(self: T_FQP, other: Union[int, T_FQP]) -> T_FQP:
        if isinstance(other, int):
            return type(self)(
                [int(c) * other % self.field_modulus for c in self.coeffs]
            )
        elif isinstance(other, FQP):
            b = [0] * (self.degree * 2 - 1)
            inner_enumerate = list(enumerate(other.coeffs))
            for i, eli in enumerate(self.coeffs):
                for j, elj in inner_enumerate:
                    b[i + j] += int(eli * elj)
            # MID = len(self.coeffs) // 2
            for exp in range(self.degree - 2, -1, -1):
                top = b.pop()
                for i, c in self.mc_tuples:
                    b[exp + i] -= top * c
            return type(self)([x % self.field_modulus for x in b])
        else:
            raise TypeError(
                f"Expected an int or FQP object, but got object of type {type(other)}"
            )

    def __rmul__(self: T_FQP, other: Union[int, T_FQP]) -> T_FQP:
        return self * other

    def __div__(self: T_FQP, other: Union[int, T_FQP]) -> T_FQP:
        if isinstance(other, int):
            return type(self)(
                [
                    int(c)
                    * prime_field_inv(other, self.field_modulus)
                    % self.field_modulus
                    for c in self.coeffs
                ]
            )
        elif isinstance(other, type(self)):
            return self * other.inv()
        else:
            raise TypeError(
                f"Expected an int or FQP object, but got object of type {type(other)}"
            )

    def __truediv__(self: T_FQP, other: Union[int, T_FQP]) -> T_FQP:
        return self.__div__(other)

    def __pow__(self: T_FQP, other: int) -> T_FQP:
        o = type(self)([1] + [0] * (self.degree - 1))
        t = self
        while other > 0:
            if other & 1:
                o = o * t
            other >>= 1
            t = t * t
        return o

    def optimized_poly_rounded_div(
        self, a: Sequence[IntOrFQ], b: Sequence[IntOrFQ]
    ) -> Sequence[IntOrFQ]:
        dega = deg(a)
        degb = deg(b)
        temp = [x for x in a]
        o = [0 for x in a]
        for i in range(dega - degb, -1, -1):
            o[i] = int(
                o[i]
                + temp[degb + i] * prime_field_inv(int(b[degb]), self.field_modulus)
            )
            for c in range(degb + 1):
                temp[c + i] = temp[c + i] - o[c]
        return [x % self.field_modulus for x in o[: deg(o) + 1]]

    # Extended euclidean algorithm used to find the modular inverse
    def inv(self: T_FQP) -> T_FQP:
        lm, hm = [1] + [0] * self.degree, [0] * (self.degree + 1)
        low, high = (
            cast(List[IntOrFQ], list(self.coeffs + (0,))),
            cast(List[IntOrFQ], list(self.modulus_coeffs + (1,))),
        )
        while deg(low):
            r = cast(List[IntOrFQ], list(self.optimized_poly_rounded_div(high, low)))
            r += [0] * (self.degree + 1 - len(r))
            nm = [x for x in hm]
            new = [x for x in high]
            # assert len(lm) == len(hm) == len(low) == len(high) == len(nm) == len(new) == self.degree + 1  # noqa: E501
            for i in range(self.degree + 1):
                for j in range(self.degree + 1 - i):
                    nm[i + j] -= lm[i] * int(r[j])
                    new[i + j] -= low[i] * r[j]
            nm = [x % self.field_modulus for x in nm]
            new = [int(x) % self.field_modulus for x in new]
            lm, low, hm, high = nm, new, lm, low
        return type(self)(lm[: self.degree]) / int(low[0])

    def __repr__(self) -> str:
        return repr(self.coeffs)

    def __eq__(self: T_FQP, other: Any) -> bool:
        if not isinstance(other, type(self)):
            raise TypeError(
                f"Expected an FQP object, but got object of type {type(other)}"
            )

        for c1, c2 in zip(self.coeffs, other.coeffs):
            if c1 != c2:
                return False
        return True

    def __ne__(self: T_FQP, other: Any) -> bool:
        return not self == other

    def __neg__(self: T_FQP) -> T_FQP:
        return type(self)([-c for c in self.coeffs])

    @cached_property
    def sgn0(self: T_FQP) -> int:
        """
        Calculates the sign of a value.
        sgn0(x) = 1 when x is 'negative'; otherwise, sg0(x) = 0

        Defined here:
        https://tools.ietf.org/html/draft-irtf-cfrg-hash-to-curve-09#section-4.1
        """
        sign = 0
        zero = 1
        for x_i in self.coeffs:
            sign_i = mod_int(x_i, 2)
            zero_i = x_i == 0
            sign = sign or (zero and sign_i)
            zero = zero and zero_i
        return sign

    @classmethod
    def one(cls: Type[T_FQP]) -> T_FQP:
        return cls([1] + [0] * (cls.degree - 1))

    @classmethod
    def zero(cls: Type[T_FQP]) -> T_FQP:
        return cls([0] * cls.degree)


class FQ2(FQP):
    """
    The quadratic extension field
    """

    degree: int = 2
    FQ2_MODULUS_COEFFS: "FQ2_modulus_coeffs_type"

    def __init__(self, coeffs: Sequence[IntOrFQ]) -> None:
        if not hasattr(self, "FQ2_MODULUS_COEFFS"):
            raise AttributeError("FQ2 Modulus Coeffs haven't been specified")

        self.mc_tuples = [(i, c) for i, c in enumerate(self.FQ2_MODULUS_COEFFS) if c]
        super().__init__(coeffs, self.FQ2_MODULUS_COEFFS)

    @cached_property
    def sgn0(self: T_FQP) -> int:
        """
        Calculates the sign of a value.
        sgn0(x) = 1 when x is 'negative'; otherwise, sg0(x) = 0

        Note this is an optimized variant for m = 2

        Defined here:
        https://tools.ietf.org/html/draft-irtf-cfrg-hash-to-curve-09#section-4.1
        """
        x_0, x_1 = self.coeffs
        sign_0 = mod_int(x_0, 2)
        zero_0 = x_0 == 0
        sign_1 = mod_int(x_1, 2)
        return sign_0 or (zero_0 and sign_1)


class FQ12(FQP):
    """
    The 12th-degree extension field
    """

    degree: int = 12
    FQ12_MODULUS_COEFFS: "FQ12_modulus_coeffs_type"

    def __init__(self, coeffs: Sequence[IntOrFQ]) -> None:
        if not hasattr(self, "FQ12_MODULUS_COEFFS"):
            raise AttributeError("FQ12 Modulus Coeffs haven't been specified")

        self.mc_tuples = [(i, c) for i, c in enumerate(self.FQ12_MODULUS_COEFFS) if c]
        super().__init__(coeffs, self.FQ12_MODULUS_COEFFS)
