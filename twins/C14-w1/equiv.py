import os, sys; sys.path.insert(0, os.getcwd())  # noqa: E401,E702

"""
Equivalence demonstration for w1 (C14): restructured optimized FQP.__mul__,
__pow__ and inv versus the pristine optimized_field_elements module.

Run as:  cd /tmp/wt2/C14 && /venv/bin/python /tmp/twin6/C14/w1/equiv.py
"""
import importlib.util
import itertools
import random
import time

HERE = os.path.dirname(os.path.abspath(__file__))

import py_ecc.fields.optimized_field_elements as NEW  # noqa: E402
import py_ecc.fields.field_elements as REF  # noqa: E402
from py_ecc.fields.field_properties import field_properties  # noqa: E402

assert os.path.abspath(NEW.__file__).startswith(os.getcwd()), NEW.__file__

spec = importlib.util.spec_from_file_location(
    "pristine_optimized_field_elements",
    os.path.join(HERE, "pristine", "optimized_field_elements.py"),
)
OLD = importlib.util.module_from_spec(spec)
sys.modules[spec.name] = OLD
spec.loader.exec_module(OLD)
assert OLD is not NEW and OLD.FQP is not NEW.FQP

T0 = time.time()
rng = random.Random(0xC14)
CHECKS = 0
FAILS = []
KINDS = {}  # outcome kinds seen on the pristine side (harness sanity)


# --------------------------------------------------------------------------
# field families, built identically on each module
# --------------------------------------------------------------------------
FIELD_SPECS = {
    # name: (p, quadratic modulus coeffs, degree-12 modulus coeffs)
    "bn128": (
        field_properties["bn128"]["field_modulus"],
        field_properties["bn128"]["fq2_modulus_coeffs"],
        field_properties["bn128"]["fq12_modulus_coeffs"],
    ),
    "bls12_381": (
        field_properties["bls12_381"]["field_modulus"],
        field_properties["bls12_381"]["fq2_modulus_coeffs"],
        field_properties["bls12_381"]["fq12_modulus_coeffs"],
    ),
    # small instantiations: sparse, dense, negative, reducible moduli
    "p7": (7, (1, 0), (3, 0, 0, 0, 0, 0, -2, 0, 0, 0, 0, 0)),
    "p11dense": (11, (3, 5), (2, 1, 3, 0, 7, 10, -4, 1, 0, 9, 5, 6)),
    "p13neg": (13, (-2, -3), (-1, 0, 5, 0, 0, 12, 0, 0, 0, 0, 0, -7)),
    "p2": (2, (1, 1), (1, 1, 0, 1, 0, 0, 0, 0, 0, 0, 0, 0)),
    "p3": (3, (1, 0), (2, 1, 0, 0, 0, 0, 0, 0, 0, 0, 0, 1)),
    "p5reducible": (5, (-1, 0), (0, 0, 0, 0, 0, 0, 0, 0, 0, 0, 0, 0)),
    "p101big_coeffs": (101, (1000, -777), (82, 0, 0, 0, 0, 0, -18, 0, 0, 0, 0, 0)),
    "p65537": (65537, (3, 0), (82, 0, 0, 0, 0, 0, -18, 0, 0, 0, 0, 0)),
}
# odd extension degrees reached through the FQ2 class (degree = len(modulus))
ODD_SPECS = {
    "p7deg1": (7, (3,)),
    "p7deg3": (7, (2, 0, 1)),
    "p11deg3dense": (11, (4, 7, 9)),
    "p13deg5": (13, (2, 0, 0, 1, 0)),
    "p5deg4": (5, (2, 0, 0, 0)),
    "p5deg3": (5, (2, 0, 1)),
    "p3deg4": (3, (1, 0, 0, 2)),
    "p2deg6": (2, (1, 1, 0, 0, 0, 0)),
}


def build(mod):
    fam = {}
    for name, (p, m2, m12) in FIELD_SPECS.items():
        fq = type(name + "_FQ", (mod.FQ,), {"field_modulus": p})
        fqp = type(name + "_FQP", (mod.FQP,), {"field_modulus": p})
        fq2 = type(
            name + "_FQ2",
            (mod.FQ2, fqp),
            {"field_modulus": p, "FQ2_MODULUS_COEFFS": m2},
        )
        fq12 = type(
            name + "_FQ12",
            (mod.FQ12, fqp),
            {"field_modulus": p, "FQ12_MODULUS_COEFFS": m12},
        )
        fam[name] = {"p": p, "FQ": fq, "FQP": fqp, "FQ2": fq2, "FQ12": fq12}
    for name, (p, m) in ODD_SPECS.items():
        fqp = type(name + "_FQP", (mod.FQP,), {"field_modulus": p})
        fqx = type(
            name + "_FQX",
            (mod.FQ2, fqp),
            {"field_modulus": p, "FQ2_MODULUS_COEFFS": m, "degree": len(m)},
        )
        fq = type(name + "_FQ", (mod.FQ,), {"field_modulus": p})
        fam[name] = {"p": p, "FQ": fq, "FQP": fqp, "FQX": fqx}
    return fam


def build_ref():
    fam = {}
    for name, (p, m2, m12) in FIELD_SPECS.items():
        fq = type(name + "_FQ", (REF.FQ,), {"field_modulus": p})
        fqp = type(name + "_FQP", (REF.FQP,), {"field_modulus": p})
        fq2 = type(
            name + "_FQ2",
            (REF.FQ2, fqp),
            {"field_modulus": p, "FQ2_MODULUS_COEFFS": m2},
        )
        fq12 = type(
            name + "_FQ12",
            (REF.FQ12, fqp),
            {"field_modulus": p, "FQ12_MODULUS_COEFFS": m12},
        )
        fam[name] = {"p": p, "FQ": fq, "FQP": fqp, "FQ2": fq2, "FQ12": fq12}
    return fam


FAM_NEW = build(NEW)
FAM_OLD = build(OLD)
FAM_REF = build_ref()


# --------------------------------------------------------------------------
# observation: a structural, module-independent description of an outcome
# --------------------------------------------------------------------------
def describe(v):
    if isinstance(v, (NEW.FQP, OLD.FQP, REF.FQP)):
        return (
            "FQP",
            type(v).__name__,
            tuple(describe(c) for c in v.coeffs),
            tuple(describe(c) for c in v.modulus_coeffs),
            v.degree,
        )
    if isinstance(v, (NEW.FQ, OLD.FQ, REF.FQ)):
        return ("FQ", type(v).__name__, type(v.n).__name__, v.n)
    if isinstance(v, (list, tuple)):
        return (type(v).__name__, tuple(describe(x) for x in v))
    return (type(v).__name__, repr(v))


def outcome(fn, fam):
    try:
        return ("ok", describe(fn(fam)))
    except RecursionError:
        raise
    except BaseException as e:  # noqa: B902
        if isinstance(e, (KeyboardInterrupt, SystemExit, MemoryError)):
            raise
        return ("raise", type(e).__name__)


def check(label, fn):
    """fn(fam) is evaluated on the pristine and on the edited module."""
    global CHECKS
    CHECKS += 1
    a = outcome(fn, FAM_OLD)
    b = outcome(fn, FAM_NEW)
    KINDS[a[0] if a[0] == "ok" else a[1]] = KINDS.get(a[0] if a[0] == "ok" else a[1], 0) + 1
    if a != b:
        FAILS.append((label, a, b))
        if len(FAILS) <= 10:
            print("MISMATCH", label, "\n  pristine:", a, "\n  edited:  ", b)
    return a


def canon(v):
    """canonical integer coefficients, valid for optimized and reference classes"""
    if isinstance(v, (NEW.FQP, OLD.FQP, REF.FQP)):
        return tuple(int(c) for c in v.coeffs)
    return (int(v),)


# --------------------------------------------------------------------------
# inputs
# --------------------------------------------------------------------------
def boundary_ints(p):
    vals = {0, 1, 2, p - 1, p - 2, p, p + 1, -1, -p, 2 * p - 1, p // 2, p // 2 + 1}
    return sorted(vals)


def coeff_vectors(p, d, n_random):
    vecs = []
    vecs.append([0] * d)
    vecs.append([1] + [0] * (d - 1))
    vecs.append([0] * (d - 1) + [1])
    vecs.append([p - 1] * d)
    vecs.append([p] * d)  # non-canonical zero
    vecs.append([-1] * d)
    vecs.append([p + 1] + [0] * (d - 1))  # non-canonical one
    vecs.append([0] + [p - 1] * (d - 1))
    vecs.append([(i * 7 + 3) for i in range(d)])
    if d > 2:
        vecs.append([0] * (d // 2) + [1] + [0] * (d - d // 2 - 1))
        vecs.append([5, 0] * (d // 2) + [0] * (d % 2))
    for _ in range(n_random):
        vecs.append([rng.randrange(-p, 2 * p) for _ in range(d)])
    for _ in range(max(2, n_random // 3)):
        # sparse elements exercise the zero terms of the Euclid update
        vecs.append([rng.choice([0, 0, 0, rng.randrange(p)]) for _ in range(d)])
    return vecs


EXPONENTS = [
    0, 1, 2, 3, 4, 5, 7, 8, 15, 16, 17, 31, 64, 255, 256, 1000003,
    -1, -5, True, False,
    (1 << 70) + 12345,
]
BAD_EXPONENTS = [2.0, 2.5, -1.5, 0.0, None, "3", (1,), 3 + 0j]


def ext_classes(entry):
    for key in ("FQ2", "FQ12", "FQX"):
        if key in entry:
            yield key


# --------------------------------------------------------------------------
# 1. exhaustive on tiny quadratic / cubic fields: every pair, every element
# --------------------------------------------------------------------------
def exhaustive():
    for name in ("p2", "p3", "p5reducible", "p7", "p7deg1", "p5deg3", "p3deg4", "p2deg6"):
        entry = FAM_OLD[name]
        p = entry["p"]
        for key in ext_classes(entry):
            d = len(ODD_SPECS[name][1]) if key == "FQX" else (2 if key == "FQ2" else 12)
            if p ** d > 130:
                continue
            elems = list(itertools.product(range(p), repeat=d))
            for a in elems:
                check(
                    f"exh inv {name}.{key} {a}",
                    lambda f, a=a: f[name][key](list(a)).inv(),
                )
                for e in (0, 1, 2, 3, p, p ** d - 1, p ** d - 2):
                    check(
                        f"exh pow {name}.{key} {a}**{e}",
                        lambda f, a=a, e=e: f[name][key](list(a)) ** e,
                    )
                for b in elems:
                    check(
                        f"exh mul {name}.{key} {a}*{b}",
                        lambda f, a=a, b=b: f[name][key](list(a)) * f[name][key](list(b)),
                    )
                    check(
                        f"exh div {name}.{key} {a}/{b}",
                        lambda f, a=a, b=b: f[name][key](list(a)) / f[name][key](list(b)),
                    )


# --------------------------------------------------------------------------
# 2. boundary + random elements on every field family
# --------------------------------------------------------------------------
def sampled():
    for name, entry in FAM_OLD.items():
        p = entry["p"]
        big = p.bit_length() > 64
        for key in ext_classes(entry):
            if key == "FQX":
                d = len(ODD_SPECS[name][1])
            else:
                d = 2 if key == "FQ2" else 12
            n_random = (6 if d == 12 else 14) if big else (10 if d == 12 else 25)
            vecs = coeff_vectors(p, d, n_random)
            for a in vecs:
                check(f"inv {name}.{key} {a}", lambda f, a=a: f[name][key](a).inv())
                check(
                    f"inv.inv {name}.{key} {a}",
                    lambda f, a=a: f[name][key](a).inv().inv(),
                )
                check(
                    f"1/x {name}.{key} {a}",
                    lambda f, a=a: f[name][key].one() / f[name][key](a),
                )
                check(
                    f"x*inv {name}.{key} {a}",
                    lambda f, a=a: f[name][key](a) * f[name][key](a).inv(),
                )
                for k in boundary_ints(p)[:6] + [rng.randrange(-p, 2 * p)]:
                    check(
                        f"mul int {name}.{key} {a}*{k}",
                        lambda f, a=a, k=k: (f[name][key](a) * k, k * f[name][key](a)),
                    )
                for e in EXPONENTS if not (big and d == 12) else EXPONENTS[:12] + [-1, True]:
                    check(
                        f"pow {name}.{key} {a}**{e}",
                        lambda f, a=a, e=e: f[name][key](a) ** e,
                    )
            for e in BAD_EXPONENTS:
                for a in vecs[:3]:
                    check(
                        f"pow bad {name}.{key} {a}**{e!r}",
                        lambda f, a=a, e=e: f[name][key](a) ** e,
                    )
            pairs = list(itertools.product(vecs[:9], vecs[:9]))
            pairs += [(rng.choice(vecs), rng.choice(vecs)) for _ in range(40)]
            for a, b in pairs:
                check(
                    f"mul {name}.{key} {a}*{b}",
                    lambda f, a=a, b=b: f[name][key](a) * f[name][key](b),
                )
            for a, b in pairs[:: 3 if d == 12 else 1]:
                check(
                    f"div {name}.{key} {a}/{b}",
                    lambda f, a=a, b=b: f[name][key](a) / f[name][key](b),
                )
            # large exponent: Frobenius-style powers
            for a in vecs[-3:]:
                e = p if big else p ** min(d, 6) - 1
                check(
                    f"pow big {name}.{key} {a}**{e}",
                    lambda f, a=a, e=e: f[name][key](a) ** e,
                )
            # direct use of the polynomial division helper is unchanged
            for a, b in pairs[:12]:
                check(
                    f"polydiv {name}.{key}",
                    lambda f, a=a, b=b: f[name][key](a).optimized_poly_rounded_div(
                        [x % p for x in a] + [1], [x % p for x in b] + [0]
                    ),
                )


# --------------------------------------------------------------------------
# 3. malformed / unusual operands: exception classes must be identical
# --------------------------------------------------------------------------
def malformed():
    for name in ("bn128", "p7", "p11dense"):
        p = FAM_OLD[name]["p"]
        a2 = [3, 5]
        a12 = list(range(1, 13))
        # mixed degrees: FQ12 * FQ2 silently works, FQ2 * FQ12 overruns the buffer
        check("mixed 12*2", lambda f: f[name]["FQ12"](a12) * f[name]["FQ2"](a2))
        check("mixed 2*12", lambda f: f[name]["FQ2"](a2) * f[name]["FQ12"](a12))
        check("mixed 12/2", lambda f: f[name]["FQ12"](a12) / f[name]["FQ2"](a2))
        check("mixed 2/12", lambda f: f[name]["FQ2"](a2) / f[name]["FQ12"](a12))
        # elements of another family
        check(
            "cross family",
            lambda f: f[name]["FQ2"](a2) * f["p13neg"]["FQ2"](a2),
        )
        check(
            "cross family div",
            lambda f: f[name]["FQ2"](a2) / f["p13neg"]["FQ2"](a2),
        )
        # raw FQP (no mc_tuples), degrees 1, 2, 3
        for coeffs, mc in (([3], [5]), ([3, 4], [1, 0]), ([3, 4, 5], [2, 0, 1])):
            check(
                f"raw FQP mul {coeffs}",
                lambda f, c=coeffs, m=mc: f[name]["FQP"](c, m) * f[name]["FQP"](c, m),
            )
            check(
                f"raw FQP inv {coeffs}",
                lambda f, c=coeffs, m=mc: f[name]["FQP"](c, m).inv(),
            )
            for e in (0, 1, 2, -3):
                check(
                    f"raw FQP pow {coeffs} {e}",
                    lambda f, c=coeffs, m=mc, e=e: f[name]["FQP"](c, m) ** e,
                )
            check(
                f"raw FQP * FQ2 {coeffs}",
                lambda f, c=coeffs, m=mc: f[name]["FQP"](c, m) * f[name]["FQ2"](a2),
            )
            check(
                f"FQ2 * raw FQP {coeffs}",
                lambda f, c=coeffs, m=mc: f[name]["FQ2"](a2) * f[name]["FQP"](c, m),
            )
        # wrong operand types
        for bad in (None, 2.5, "7", [1, 2], (1, 2), 1 + 2j, object):
            check(
                f"mul bad {bad!r}",
                lambda f, bad=bad: f[name]["FQ2"](a2) * bad,
            )
            check(
                f"rmul bad {bad!r}",
                lambda f, bad=bad: bad * f[name]["FQ2"](a2),
            )
            check(
                f"div bad {bad!r}",
                lambda f, bad=bad: f[name]["FQ12"](a12) / bad,
            )
        check("mul FQ scalar", lambda f: f[name]["FQ2"](a2) * f[name]["FQ"](3))
        check("bool scalar", lambda f: (f[name]["FQ2"](a2) * True, f[name]["FQ2"](a2) * False))
        # coefficients supplied as FQ objects (kept un-normalised by __init__)
        for key, a in (("FQ2", a2), ("FQ12", a12)):
            def fq_coeffs(f, key=key, a=a, shift=0):
                return f[name][key]([f[name]["FQ"](x + shift) for x in a])

            check(f"FQ coeffs mul {key}", lambda f: fq_coeffs(f) * fq_coeffs(f, shift=2))
            check(
                f"FQ coeffs mul int-elem {key}",
                lambda f, key=key, a=a: (
                    fq_coeffs(f) * f[name][key](a),
                    f[name][key](a) * fq_coeffs(f),
                ),
            )
            check(f"FQ coeffs inv {key}", lambda f: fq_coeffs(f).inv())
            check(f"FQ coeffs div {key}", lambda f: fq_coeffs(f) / fq_coeffs(f, shift=1))
            for e in (0, 1, 2, 5, p - 1):
                check(f"FQ coeffs pow {key} {e}", lambda f, e=e: fq_coeffs(f) ** e)
            # FQ objects of a *different* prime field as coefficients
            check(
                f"foreign FQ coeffs {key}",
                lambda f, key=key, a=a: (
                    f[name][key]([f["p13neg"]["FQ"](x) for x in a])
                    * f[name][key]([f["p13neg"]["FQ"](x + 1) for x in a]),
                ),
            )
            check(
                f"foreign FQ coeffs inv {key}",
                lambda f, key=key, a=a: f[name][key](
                    [f["p13neg"]["FQ"](x) for x in a]
                ).inv(),
            )
        # other unusual coefficient types
        for coeffs in ([1.5, 2.5], [2.0, 0.0], ["5", "7"], [b"5", b"7"], [None, 1],
                       [True, False], [[1], [2]]):
            check(
                f"odd coeffs mul {coeffs}",
                lambda f, c=coeffs: f[name]["FQ2"](c) * f[name]["FQ2"](c),
            )
            check(
                f"odd coeffs * normal {coeffs}",
                lambda f, c=coeffs: (f[name]["FQ2"](c) * f[name]["FQ2"](a2)),
            )
            check(
                f"normal * odd coeffs {coeffs}",
                lambda f, c=coeffs: (f[name]["FQ2"](a2) * f[name]["FQ2"](c)),
            )
            check(f"odd coeffs inv {coeffs}", lambda f, c=coeffs: f[name]["FQ2"](c).inv())
            for e in (0, 1, 2, 3):
                check(
                    f"odd coeffs pow {coeffs} {e}",
                    lambda f, c=coeffs, e=e: f[name]["FQ2"](c) ** e,
                )
        # wrong number of coefficients
        check("short coeffs", lambda f: f[name]["FQ2"]([1]))
        check("long coeffs", lambda f: f[name]["FQ12"](list(range(13))))
        check("empty coeffs", lambda f: f[name]["FQ2"]([]))

    # modulus coefficients given as FQ objects: multiplication is unsupported
    for mod, fam in ((OLD, FAM_OLD), (NEW, FAM_NEW)):
        fq = fam["p7"]["FQ"]
        fam["p7"]["FQ2_fqmod"] = type(
            "p7_FQ2_fqmod",
            (mod.FQ2, fam["p7"]["FQP"]),
            {"field_modulus": 7, "FQ2_MODULUS_COEFFS": (fq(1), fq(0))},
        )
        fam["p7"]["FQ2_mixmod"] = type(
            "p7_FQ2_mixmod",
            (mod.FQ2, fam["p7"]["FQP"]),
            {"field_modulus": 7, "FQ2_MODULUS_COEFFS": (1, fam["p13neg"]["FQ"](3))},
        )
        fam["p7"]["FQ2_floatmod"] = type(
            "p7_FQ2_floatmod",
            (mod.FQ2, fam["p7"]["FQP"]),
            {"field_modulus": 7, "FQ2_MODULUS_COEFFS": (1.0, 0.0)},
        )
    for key in ("FQ2_fqmod", "FQ2_mixmod"):
        for a, b in itertools.product(([0, 0], [1, 0], [3, 0], [0, 1], [3, 4], [6, 6]), repeat=2):
            check(f"{key} mul {a} {b}", lambda f, a=a, b=b: f["p7"][key](a) * f["p7"][key](b))
        for a in ([0, 0], [1, 0], [3, 0], [0, 1], [3, 4]):
            check(f"{key} inv {a}", lambda f, a=a: f["p7"][key](a).inv())
            check(f"{key} pow {a}", lambda f, a=a: f["p7"][key](a) ** 3)
            check(f"{key} pow0 {a}", lambda f, a=a: f["p7"][key](a) ** 0)


# --------------------------------------------------------------------------
# 4. the property itself: random straight-line programs, depth <= 8, evaluated
#    in the pristine optimized, edited optimized and reference classes
# --------------------------------------------------------------------------
def gen_tree(depth, nleaves):
    if depth == 0 or rng.random() < 0.12:
        return ("leaf", rng.randrange(nleaves))
    r = rng.random()
    if r < 0.10:
        return ("neg", gen_tree(depth - 1, nleaves))
    if r < 0.22:
        return ("pow", gen_tree(depth - 1, nleaves), rng.choice([0, 1, 2, 3, 5, 11, 30]))
    if r < 0.34:
        op = rng.choice(["mulint", "rmulint", "divint"])
        return (op, gen_tree(depth - 1, nleaves), rng.randrange(-50, 200))
    if r < 0.40:
        return ("inv", gen_tree(depth - 1, nleaves))
    op = rng.choice(["add", "sub", "mul", "mul", "div"])
    return (op, gen_tree(depth - 1, nleaves), gen_tree(depth - 1, nleaves))


def ev(tree, leaves):
    tag = tree[0]
    if tag == "leaf":
        return leaves[tree[1]]
    if tag == "neg":
        return -ev(tree[1], leaves)
    if tag == "pow":
        return ev(tree[1], leaves) ** tree[2]
    if tag == "inv":
        x = ev(tree[1], leaves)
        return x.inv() if hasattr(x, "inv") else 1 / x
    if tag == "mulint":
        return ev(tree[1], leaves) * tree[2]
    if tag == "rmulint":
        return tree[2] * ev(tree[1], leaves)
    if tag == "divint":
        return ev(tree[1], leaves) / tree[2]
    a, b = ev(tree[1], leaves), ev(tree[2], leaves)
    if tag == "add":
        return a + b
    if tag == "sub":
        return a - b
    if tag == "mul":
        return a * b
    return a / b


def programs():
    global CHECKS
    for name in FIELD_SPECS:
        p = FIELD_SPECS[name][0]
        big = p.bit_length() > 64
        for key, d in (("FQ2", 2), ("FQ12", 12)):
            n_prog = (25 if d == 12 else 60) if big else (40 if d == 12 else 120)
            for n in range(n_prog):
                depth = rng.randrange(1, 9 if d == 2 else 6)
                vecs = [
                    [rng.randrange(p) for _ in range(d)] for _ in range(3)
                ] + [[0] * d, [1] + [0] * (d - 1)]
                tree = gen_tree(depth, len(vecs))

                def run(f, tree=tree, vecs=vecs):
                    leaves = [f[name][key](v) for v in vecs]
                    return ev(tree, leaves)

                got = check(f"prog {name}.{key} #{n}", run)
                # and against the reference classes (canonical ints)
                try:
                    new_val = ("ok", canon(run(FAM_NEW)))
                except Exception as e:
                    new_val = ("raise", type(e).__name__)
                try:
                    ref_val = ("ok", canon(run(FAM_REF)))
                except Exception as e:
                    ref_val = ("raise", type(e).__name__)
                CHECKS += 1
                if new_val != ref_val and FIELD_SPECS[name][1:] and name != "p5reducible":
                    # (a reducible modulus is not a field: both implementations
                    # return garbage for non-units and need not agree)
                    FAILS.append((f"ref prog {name}.{key} #{n}", ref_val, new_val))
                    if len(FAILS) <= 10:
                        print("REF MISMATCH", name, key, tree, ref_val, new_val, got[0])


# --------------------------------------------------------------------------
# 5. call histories: no state is kept, so repeated / interleaved calls agree
# --------------------------------------------------------------------------
def histories():
    for name in ("bn128", "bls12_381", "p11dense"):
        p = FAM_OLD[name]["p"]
        for key, d in (("FQ2", 2), ("FQ12", 12)):
            vecs = coeff_vectors(p, d, 4)[:10]

            def script(f, vecs=vecs):
                cls = f[name][key]
                xs = [cls(v) for v in vecs]
                before = [tuple(x.coeffs) for x in xs]
                mc_before = list(xs[0].mc_tuples)
                log = []
                order = list(range(len(xs))) * 2
                random.Random(7).shuffle(order)
                for n, i in enumerate(order):
                    x, y = xs[i], xs[(i * 3 + n) % len(xs)]
                    log.append(describe(x * y))
                    log.append(describe(x.inv()))
                    log.append(describe(x ** (n + 2)))
                    log.append(describe(x / y))
                    log.append(describe(x * y))  # repeated with equal arguments
                    log.append(describe(cls(vecs[i]).inv()))  # equal, fresh object
                # operands, modulus tables and class constants are untouched
                assert before == [tuple(x.coeffs) for x in xs]
                assert mc_before == list(xs[0].mc_tuples)
                return (log, describe(list(cls(vecs[0]).mc_tuples)), describe(xs[0].modulus_coeffs))

            check(f"history {name}.{key}", script)
    # module-level constants unchanged by all of the above
    for nm in ("bn128", "bls12_381"):
        assert field_properties[nm]["fq2_modulus_coeffs"] == (1, 0)
    assert field_properties["bn128"]["fq12_modulus_coeffs"] == (82, 0, 0, 0, 0, 0, -18, 0, 0, 0, 0, 0)
    assert field_properties["bls12_381"]["fq12_modulus_coeffs"] == (2, 0, 0, 0, 0, 0, -2, 0, 0, 0, 0, 0)


# --------------------------------------------------------------------------
# 6. the library's own field classes (py_ecc.fields) against pristine twins
# --------------------------------------------------------------------------
def library_classes():
    import py_ecc.fields as F

    for curve in ("bn128", "bls12_381"):
        for key, d in (("FQ2", 2), ("FQ12", 12)):
            lib = getattr(F, f"optimized_{curve}_{key}")
            assert issubclass(lib, NEW.FQP)
            old = FAM_OLD[curve][key]
            p = FAM_OLD[curve]["p"]
            global CHECKS
            for a in coeff_vectors(p, d, 5):
                for b in coeff_vectors(p, d, 2)[-4:]:
                    CHECKS += 1
                    got = (
                        canon(lib(a) * lib(b)),
                        canon(lib(a).inv()),
                        canon(lib(a) / lib(b)),
                        canon(lib(a) ** 5),
                        canon(lib(a) ** (p - 1)) if d == 2 else None,
                    )
                    want = (
                        canon(old(a) * old(b)),
                        canon(old(a).inv()),
                        canon(old(a) / old(b)),
                        canon(old(a) ** 5),
                        canon(old(a) ** (p - 1)) if d == 2 else None,
                    )
                    if got != want:
                        FAILS.append((f"library {curve}.{key}", want, got))


def main():
    for step in (exhaustive, malformed, sampled, programs, histories, library_classes):
        t = time.time()
        step()
        print(f"{step.__name__}: done, {CHECKS} checks so far, {time.time() - t:.1f}s")
    print("pristine-side outcome kinds:", dict(sorted(KINDS.items())))
    # harness sanity: no outcome may stem from a bug in this script itself
    assert not {"NameError", "UnboundLocalError", "KeyError", "AssertionError"} & set(KINDS)
    assert KINDS.get("ok", 0) > 0.5 * sum(KINDS.values())
    print(f"total checks: {CHECKS}, mismatches: {len(FAILS)}, {time.time() - T0:.1f}s")
    if FAILS:
        for f in FAILS[:20]:
            print(f)
        sys.exit(1)
    print("w1 equivalent to pristine on all checked inputs")


if __name__ == "__main__":
    main()
