import os, sys; sys.path.insert(0, os.getcwd())  # noqa: E401,E702

"""
Equivalence demonstration for twin q2 of property C09.

Loads the pristine py_ecc/bls/point_compression.py and py_ecc/bls/hash_to_curve.py
(saved under ./pristine/) next to the edited ones of the working tree, and
additionally builds a second, fully pristine copy of g2_primitives + ciphersuites
bound to the pristine modules, then checks that every function of the touched
modules and the BLS API (SkToPk / Sign / PopProve / Aggregate) return equal
values of equal type and raise exceptions of the same class and message on a
broad set of valid, boundary and malformed inputs, also under repeated and
interleaved calls.
"""
import hashlib
import importlib.util
import random
import time

HERE = os.path.dirname(os.path.abspath(__file__))
PRISTINE = os.path.join(HERE, "pristine")
T0 = time.time()

import py_ecc.bls  # noqa: E402,F401  (the edited tree)
from py_ecc.bls import ciphersuites as new_cs  # noqa: E402
from py_ecc.bls import hash_to_curve as new_h2c  # noqa: E402
from py_ecc.bls import point_compression as new_pc  # noqa: E402

BLS_DIR = os.path.dirname(os.path.realpath(new_cs.__file__))
assert BLS_DIR.startswith(os.path.realpath(os.getcwd())), BLS_DIR


def _load(name, path, swaps=()):
    """Load `path` as py_ecc.bls.<name>; `swaps` temporarily rebinds siblings."""
    saved = {}
    for key, mod in swaps:
        saved[key] = sys.modules["py_ecc.bls." + key]
        sys.modules["py_ecc.bls." + key] = mod
    try:
        spec = importlib.util.spec_from_file_location("py_ecc.bls." + name, path)
        mod = importlib.util.module_from_spec(spec)
        sys.modules["py_ecc.bls." + name] = mod
        spec.loader.exec_module(mod)
        return mod
    finally:
        for key, mod_ in saved.items():
            sys.modules["py_ecc.bls." + key] = mod_


old_pc = _load("pristine_point_compression", os.path.join(PRISTINE, "point_compression.py"))
old_h2c = _load("pristine_hash_to_curve", os.path.join(PRISTINE, "hash_to_curve.py"))
# g2_primitives.py / ciphersuites.py are not touched by q2: load the same files a
# second time, bound to the pristine point_compression / hash_to_curve
old_g2p = _load(
    "pristine_g2_primitives",
    os.path.join(BLS_DIR, "g2_primitives.py"),
    swaps=[("point_compression", old_pc)],
)
old_cs = _load(
    "pristine_ciphersuites",
    os.path.join(BLS_DIR, "ciphersuites.py"),
    swaps=[("g2_primitives", old_g2p), ("hash_to_curve", old_h2c)],
)
assert old_g2p.compress_G2 is old_pc.compress_G2
assert old_cs.hash_to_G2 is old_h2c.hash_to_G2
assert old_cs.G2_to_signature is old_g2p.G2_to_signature
assert new_cs.hash_to_G2 is new_h2c.hash_to_G2
assert new_cs.G2_to_signature.__globals__["compress_G2"] is new_pc.compress_G2
assert sys.modules["py_ecc.bls.point_compression"] is new_pc
assert not hasattr(old_pc, "INFINITY_FLAGS") and hasattr(new_pc, "INFINITY_FLAGS")
assert not hasattr(old_h2c, "FQ2_DEGREE") and new_h2c.FQ2_DEGREE == 2

from py_ecc.bls.constants import (  # noqa: E402
    EIGHTH_ROOTS_OF_UNITY,
    POW_2_381,
    POW_2_382,
    POW_2_383,
    POW_2_384,
)
from py_ecc.fields import (  # noqa: E402
    optimized_bls12_381_FQ as FQ,
    optimized_bls12_381_FQ2 as FQ2,
)
from py_ecc.optimized_bls12_381 import (  # noqa: E402
    G1,
    G2,
    Z1,
    Z2,
    curve_order,
    field_modulus as q,
    multiply,
    neg,
)

# ---- the facts the edit relies on -------------------------------------------
assert new_pc.C_FLAG == POW_2_383 == 2**383
assert new_pc.INFINITY_FLAGS == POW_2_383 + POW_2_382
assert new_pc.FQ_SQRT_EXPONENT == (q + 1) // 4 and q % 4 == 3
assert new_pc.EVEN_EIGHTH_ROOTS_OF_UNITY == EIGHTH_ROOTS_OF_UNITY[::2]
assert isinstance(new_pc.EVEN_EIGHTH_ROOTS_OF_UNITY, tuple)
# the eight roots are pairwise different, hence for an even root
# EIGHTH_ROOTS_OF_UNITY.index(r) // 2 == EIGHTH_ROOTS_OF_UNITY[::2].index(r)
assert len({r.coeffs for r in EIGHTH_ROOTS_OF_UNITY}) == 8
for i, r in enumerate(EIGHTH_ROOTS_OF_UNITY):
    assert EIGHTH_ROOTS_OF_UNITY.index(FQ2(r.coeffs)) == i
    if i % 2 == 0:
        assert new_pc.EVEN_EIGHTH_ROOTS_OF_UNITY.index(FQ2(r.coeffs)) == i // 2
ROOTS_SNAPSHOT = tuple(r.coeffs for r in EIGHTH_ROOTS_OF_UNITY)

N_CHECKS = 0


def norm(r):
    """Comparable form: exact type names plus values (FQ/FQ2 by coefficients)."""
    if isinstance(r, (tuple, list)):
        return (type(r).__name__,) + tuple(norm(x) for x in r)
    if hasattr(r, "coeffs"):
        return (type(r).__name__, tuple(norm(c) for c in r.coeffs))
    if hasattr(r, "n") and hasattr(r, "field_modulus"):
        return (type(r).__name__, r.n)
    return (type(r).__name__, r)


def outcome(f, *args):
    try:
        return ("ok", norm(f(*args)))
    except BaseException as e:  # noqa: B902
        return ("exc", type(e).__name__, str(e))


def same(label, f_old, f_new, *args):
    global N_CHECKS
    a = outcome(f_old, *args)
    b = outcome(f_new, *args)
    if a != b:
        print("MISMATCH", label, repr(args)[:300])
        print("  pristine:", repr(a)[:400])
        print("  edited  :", repr(b)[:400])
        sys.exit(1)
    N_CHECKS += 1
    return a


rng = random.Random(0xC0902)

# ---------------------------------------------------------------- flags helpers
words = [0, 1, q - 1, q, POW_2_381 - 1, POW_2_381, POW_2_382, POW_2_383, POW_2_384,
         POW_2_383 + POW_2_382, POW_2_383 + POW_2_382 + POW_2_381, POW_2_384 - 1,
         POW_2_384 + 5, -1, -POW_2_383, 2**500]
words += [rng.getrandbits(384) for _ in range(40)]
for w in words:
    same("get_flags", old_pc.get_flags, new_pc.get_flags, w)
    same("is_point_at_infinity", old_pc.is_point_at_infinity, new_pc.is_point_at_infinity, w)
    same("is_point_at_infinity2", old_pc.is_point_at_infinity, new_pc.is_point_at_infinity, w, 0)
    same("is_point_at_infinity2", old_pc.is_point_at_infinity, new_pc.is_point_at_infinity, w, 7)

# ---------------------------------------------------------------- G1
g1_points = [Z1, G1, neg(G1), (FQ(0), FQ(1), FQ(0)), (FQ(5), FQ(7), FQ(0))]
g1_points += [multiply(G1, k) for k in (2, 3, 5, curve_order - 1, curve_order - 2)]
g1_points += [multiply(G1, rng.randrange(1, curve_order)) for _ in range(12)]
for k in (2, 3, 12345, q - 1):
    x, y, z = multiply(G1, 7)
    g1_points.append((x * k, y * k, z * k))  # other projective representatives
g1_points += [(FQ(1), FQ(1), FQ(1)), (FQ(0), FQ(2), FQ(1)), (FQ(0), FQ(q - 2), FQ(1)),
              (FQ(3), FQ((q - 1) // 2), FQ(1)), (FQ(3), FQ((q + 1) // 2), FQ(1))]
g1_words = []
for pt in g1_points:
    r = same("compress_G1", old_pc.compress_G1, new_pc.compress_G1, pt)
    if r[0] == "ok":
        g1_words.append(r[1][1])
for bad in [None, (), (1, 2, 3), (FQ(1), FQ(2)), "abc", 7, multiply(G2, 3)]:
    same("compress_G1 bad", old_pc.compress_G1, new_pc.compress_G1, bad)

dec_words = list(g1_words) + words
for w in g1_words[:12]:
    dec_words += [w ^ POW_2_381, w ^ POW_2_382, w ^ POW_2_383, w + 1, w - 1, w + POW_2_384]
dec_words += [POW_2_383 + x for x in (0, 1, 2, 3, 4, 5, q - 1, q, q + 1, POW_2_381 - 1)]
dec_words += [POW_2_383 + POW_2_381 + x for x in (0, 1, 2, 3, 4, 5, q - 1, q)]
dec_words += [POW_2_383 + rng.randrange(q) for _ in range(40)]  # about half off-curve
for w in dec_words:
    same("decompress_G1", old_pc.decompress_G1, new_pc.decompress_G1, w)
for bad in [None, "1", 1.5, b"\x01", (1, 2), True, False]:
    same("decompress_G1 bad", old_pc.decompress_G1, new_pc.decompress_G1, bad)

# ---------------------------------------------------------------- FQ2 square roots
sqrt_inputs = [FQ2([0, 0]), FQ2([1, 0]), FQ2([0, 1]), FQ2([q - 1, 0]), FQ2([0, q - 1]),
               FQ2([1, 1]), FQ2([4, 0]), FQ2([2, 0]), FQ2([q - 4, 0])]
sqrt_inputs += list(EIGHTH_ROOTS_OF_UNITY)
seen_k = set()
for _ in range(60):
    v = FQ2([rng.randrange(q), rng.randrange(q)])
    sqrt_inputs.append(v)
    sqrt_inputs.append(v * v)  # certainly a square
    sqrt_inputs.append(FQ2([rng.randrange(q), 0]))
for v in sqrt_inputs:
    r = same("modular_squareroot_in_FQ2", old_pc.modular_squareroot_in_FQ2,
             new_pc.modular_squareroot_in_FQ2, v)
    if r[0] == "ok" and r[1][0] == "optimized_bls12_381_FQ2":
        cand = v ** ((old_pc.FQ2_ORDER + 8) // 16)
        chk = cand**2 / v
        seen_k.add(EIGHTH_ROOTS_OF_UNITY.index(chk) // 2)
        root = FQ2([c[1] for c in r[1][1]])
        assert root * root == v
assert seen_k == {0, 1, 2, 3}, seen_k  # every divisor branch was exercised
for bad in [None, "x", FQ(4), FQ(0), (1, 2)]:  # (a plain int would be int ** huge)
    same("modular_squareroot_in_FQ2 bad", old_pc.modular_squareroot_in_FQ2,
         new_pc.modular_squareroot_in_FQ2, bad)

# ---------------------------------------------------------------- G2
g2_points = [Z2, G2, neg(G2), (FQ2([1, 0]), FQ2([1, 0]), FQ2([0, 0]))]
g2_points += [multiply(G2, k) for k in (2, 3, 5, curve_order - 1, curve_order - 2)]
g2_points += [multiply(G2, rng.randrange(1, curve_order)) for _ in range(10)]
for k in (2, 3, 12345, q - 1):
    x, y, z = multiply(G2, 7)
    g2_points.append((x * k, y * k, z * k))
    kk = FQ2([k, 3])
    g2_points.append((x * kk, y * kk, z * kk))
g2_points += [(FQ2([1, 1]), FQ2([1, 1]), FQ2([1, 0])), (FQ2([0, 0]), FQ2([0, 0]), FQ2([0, 0]))]
# points of the twist with y_im == 0 / outside the r-torsion: lift x values
extra = 0
xv = 0
while extra < 6 and xv < 200:
    xv += 1
    for xx in (FQ2([xv, 0]), FQ2([0, xv]), FQ2([xv, xv])):
        yy = new_pc.modular_squareroot_in_FQ2(xx**3 + new_pc.b2)
        if yy is not None:
            g2_points.append((xx, yy, FQ2([1, 0])))
            g2_points.append((xx, -yy, FQ2([1, 0])))
            extra += 1
g2_words = []
for pt in g2_points:
    r = same("compress_G2", old_pc.compress_G2, new_pc.compress_G2, pt)
    if r[0] == "ok":
        g2_words.append((r[1][1][1], r[1][2][1]))
for bad in [None, (), (1, 2, 3), (FQ2([1, 0]), FQ2([1, 0])), "abc", 7, multiply(G1, 3)]:
    same("compress_G2 bad", old_pc.compress_G2, new_pc.compress_G2, bad)

dec2 = list(g2_words)
for z1, z2 in g2_words[:10]:
    dec2 += [(z1 ^ POW_2_381, z2), (z1 ^ POW_2_382, z2), (z1 ^ POW_2_383, z2), (z1, z2 + 1),
             (z1 + 1, z2), (z1, z2 + q), (z1, z2 + POW_2_383), (z1, -z2), (z1 + POW_2_384, z2)]
dec2 += [(POW_2_383 + POW_2_382, 0), (POW_2_383 + POW_2_382, 1), (POW_2_383 + POW_2_382 + POW_2_381, 0),
         (POW_2_383, 0), (POW_2_383 + POW_2_381, 0), (POW_2_382, 0), (0, 0), (POW_2_383 + q, 0),
         (POW_2_383 + q - 1, q - 1), (POW_2_383 + q - 1, q), (POW_2_383, q), (POW_2_383 + 1, 2**400)]
dec2 += [(POW_2_383 + a, b_) for a in range(0, 6) for b_ in range(0, 6)]
dec2 += [(POW_2_383 + POW_2_381 + a, b_) for a in range(0, 4) for b_ in range(0, 4)]
dec2 += [(POW_2_383 + rng.randrange(q), rng.randrange(q)) for _ in range(25)]
for p in dec2:
    r = same("decompress_G2", old_pc.decompress_G2, new_pc.decompress_G2, p)
    same("decompress_G2 list", old_pc.decompress_G2, new_pc.decompress_G2, list(p))
for bad in [None, 5, (1,), (1, 2, 3), ("a", "b"), (POW_2_383 + 1, None), (None, 0),
            (POW_2_383 + 1, 1.5), (float(POW_2_383), 0)]:
    same("decompress_G2 bad", old_pc.decompress_G2, new_pc.decompress_G2, bad)

# results are fresh objects: the returned unit z-coordinate is not shared state
p1 = new_pc.decompress_G2(g2_words[1])
p2 = new_pc.decompress_G2(g2_words[1])
assert p1 == p2 and p1[2] is not p2[2] and p1[2] == FQ2.one()
# the infinity encoding is a fresh tuple equal to the old one
assert new_pc.compress_G2(Z2) == old_pc.compress_G2(Z2) == (POW_2_383 + POW_2_382, 0)

# ---------------------------------------------------------------- hash to field / curve
msgs = [b"", b"\x00", b"abc", b"a" * 48, bytes(range(256)) * 3, b"\xff" * 1000]
dsts = [b"", b"X", new_cs.G2Basic.DST, new_cs.G2MessageAugmentation.DST,
        new_cs.G2ProofOfPossession.DST, new_cs.G2ProofOfPossession.POP_TAG,
        b"Q" * 255, b"Q" * 256]
for m in msgs:
    for d in dsts:
        for count in (0, 1, 2, 3, 5):
            for h in (hashlib.sha256, hashlib.sha512):
                same("hash_to_field_FQ2", old_h2c.hash_to_field_FQ2, new_h2c.hash_to_field_FQ2,
                     m, count, d, h)
for count in (-1, 31, 32, 64, 255, 256, 1.0, None, "2", True):
    same("hash_to_field_FQ2 count", old_h2c.hash_to_field_FQ2, new_h2c.hash_to_field_FQ2,
         b"abc", count, b"DST", hashlib.sha256)
for bad_m, bad_d in [("abc", b"D"), (None, b"D"), (b"abc", "D"), (b"abc", None),
                     (bytearray(b"abc"), b"D"), (b"abc", bytearray(b"D"))]:
    same("hash_to_field_FQ2 bad", old_h2c.hash_to_field_FQ2, new_h2c.hash_to_field_FQ2,
         bad_m, 2, bad_d, hashlib.sha256)
    same("hash_to_G2 bad", old_h2c.hash_to_G2, new_h2c.hash_to_G2, bad_m, bad_d, hashlib.sha256)
# keyword call with the (unchanged) parameter names
assert norm(new_h2c.hash_to_field_FQ2(message=b"m", count=2, DST=b"D", hash_function=hashlib.sha256)) == \
    norm(old_h2c.hash_to_field_FQ2(message=b"m", count=2, DST=b"D", hash_function=hashlib.sha256))
for m in msgs[:4]:
    for d in dsts[2:6]:
        same("hash_to_G2", old_h2c.hash_to_G2, new_h2c.hash_to_G2, m, d, hashlib.sha256)
same("hash_to_G2 long dst", old_h2c.hash_to_G2, new_h2c.hash_to_G2, b"m", b"Q" * 256, hashlib.sha256)
# the G1 half of the module is untouched text; spot-check it anyway
for m in msgs[:3]:
    same("hash_to_field_FQ", old_h2c.hash_to_field_FQ, new_h2c.hash_to_field_FQ,
         m, 2, b"D", hashlib.sha256)
same("hash_to_G1", old_h2c.hash_to_G1, new_h2c.hash_to_G1, b"abc", b"D", hashlib.sha256)

# ---------------------------------------------------------------- the BLS API
SUITES = ["G2Basic", "G2MessageAugmentation", "G2ProofOfPossession"]
sks = [1, curve_order - 1, rng.randrange(1, curve_order)]
bad_sks = [0, -1, curve_order, 2**256, 1.0, "1", None]
sigs = []
for name in SUITES:
    o, n = getattr(old_cs, name), getattr(new_cs, name)
    for sk in sks + [2, 3, rng.randrange(1, curve_order)]:
        r = same(name + ".SkToPk", o.SkToPk, n.SkToPk, sk)
        assert r[0] == "ok" and r[1][0] == "bytes" and len(r[1][1]) == 48
    for sk in bad_sks:
        same(name + ".SkToPk bad", o.SkToPk, n.SkToPk, sk)
        same(name + ".Sign bad", o.Sign, n.Sign, sk, b"abc")
    for sk in sks:
        for m in (b"", b"abc") if sk != sks[-1] else (b"", b"abc", b"\x00" * 48, msgs[4]):
            r = same(name + ".Sign", o.Sign, n.Sign, sk, m)
            assert r[0] == "ok" and len(r[1][1]) == 96
            sigs.append(r[1][1])
    for m in ("abc", None, 5):
        same(name + ".Sign bad msg", o.Sign, n.Sign, 5, m)
o, n = old_cs.G2ProofOfPossession, new_cs.G2ProofOfPossession
for sk in sks + bad_sks:
    r = same("PopProve", o.PopProve, n.PopProve, sk)
    if r[0] == "ok":
        sigs.append(r[1][1])

s1, s2, s3 = sigs[0], sigs[1], sigs[2]
inf_sig = b"\xc0" + b"\x00" * 95
neg_s1 = new_cs.G2_to_signature(neg(new_cs.signature_to_G2(s1)))
aggregate_inputs = [
    [], [s1], (s1,), [s1, s2], [s2, s1], [s1, s1], [s1, s2, s3], sigs, [s1, neg_s1],
    [neg_s1, s1, s2], [inf_sig], [inf_sig, inf_sig], [inf_sig, s1], [s1, inf_sig],
    [b"\xe0" + b"\x00" * 95], [b"\xc0" + b"\x00" * 94 + b"\x01"], [b"\x00" * 96],
    [s1, b"\x00" * 96], [b"\x9f" + b"\xff" * 95], [b"\x80" + b"\x00" * 47 + b"\xff" * 48],
    [b"\x80" + b"\x00" * 46 + b"\x01" + b"\x00" * 48], [b"\xa0" + b"\x00" * 46 + b"\x02" + b"\x00" * 48],
    [s1[:95]], [s1 + b"\x00"], [s1, None], [bytearray(s1)], [b"\x00" * 96, b""], None, 5,
]
for name in SUITES:
    o, n = getattr(old_cs, name), getattr(new_cs, name)
    for inp in aggregate_inputs:
        if name != "G2Basic" and isinstance(inp, list) and len(inp) > 3:
            continue
        same(name + ".Aggregate", o.Aggregate, n.Aggregate, inp)
# decode side of the API (KeyValidate / Verify use the decompressors)
pk = new_cs.G2Basic.SkToPk(sks[2])
same("KeyValidate", old_cs.G2Basic.KeyValidate, new_cs.G2Basic.KeyValidate, pk)
same("KeyValidate inf", old_cs.G2Basic.KeyValidate, new_cs.G2Basic.KeyValidate, b"\xc0" + b"\x00" * 47)
same("Verify", old_cs.G2Basic.Verify, new_cs.G2Basic.Verify, pk, b"abc", old_cs.G2Basic.Sign(sks[2], b"abc"))
same("Verify wrong", old_cs.G2Basic.Verify, new_cs.G2Basic.Verify, pk, b"abd", old_cs.G2Basic.Sign(sks[2], b"abc"))

# ---------------------------------------------------------------- call histories
calls = [
    ("pc", "compress_G1", (g1_points[6],)), ("pc", "compress_G1", (Z1,)),
    ("pc", "compress_G2", (g2_points[6],)), ("pc", "compress_G2", (Z2,)),
    ("pc", "decompress_G1", (g1_words[3],)), ("pc", "decompress_G1", (POW_2_383 + 1,)),
    ("pc", "decompress_G2", (g2_words[3],)), ("pc", "decompress_G2", ((POW_2_383 + 1, 0),)),
    ("pc", "decompress_G2", ((POW_2_383 + POW_2_382, 0),)),
    ("pc", "modular_squareroot_in_FQ2", (FQ2([4, 0]),)),
    ("pc", "modular_squareroot_in_FQ2", (FQ2([1, 1]),)),
    ("h2c", "hash_to_field_FQ2", (b"abc", 2, b"D", hashlib.sha256)),
    ("h2c", "hash_to_G2", (b"abc", new_cs.G2Basic.DST, hashlib.sha256)),
    ("cs", "Sign", (sks[2], b"abc")), ("cs", "SkToPk", (sks[2],)), ("cs", "Aggregate", ([s1, s2],)),
    ("cs", "Aggregate", ([inf_sig],)),
]
mods = {"pc": (old_pc, new_pc), "h2c": (old_h2c, new_h2c),
        "cs": (old_cs.G2ProofOfPossession, new_cs.G2ProofOfPossession)}
first = {}
for round_ in range(3):
    order = list(range(len(calls)))
    rng.shuffle(order)
    for i in order:
        where, fn, args = calls[i]
        r = same("history " + fn, getattr(mods[where][0], fn), getattr(mods[where][1], fn), *args)
        assert first.setdefault(i, r) == r, (calls[i], first[i], r)

# module-level constants are unchanged after everything above
assert tuple(r.coeffs for r in EIGHTH_ROOTS_OF_UNITY) == ROOTS_SNAPSHOT
assert tuple(r.coeffs for r in new_pc.EVEN_EIGHTH_ROOTS_OF_UNITY) == ROOTS_SNAPSHOT[::2]
assert new_pc.C_FLAG == 2**383 and new_pc.INFINITY_FLAGS == 2**383 + 2**382
assert new_pc.FQ_SQRT_EXPONENT == (q + 1) // 4 and new_h2c.FQ2_DEGREE == 2
assert Z2 == (FQ2.one(), FQ2.one(), FQ2.zero()) and Z1 == (FQ.one(), FQ.one(), FQ.zero())

print("q2 equivalent on %d comparisons in %.1fs" % (N_CHECKS, time.time() - T0))
