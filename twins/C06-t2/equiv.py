import os, sys; sys.path.insert(0, os.getcwd())

# Equivalence demonstration for property C06 (secp256k1 ECDSA sign / recover).
# Loads the pristine secp256k1.py (saved next to this script) under another
# module name and compares it against the edited module of the working tree.

import hashlib
import hmac
import importlib.util
import random
import time
from decimal import Decimal
from fractions import Fraction

HERE = os.path.dirname(os.path.abspath(__file__))

import py_ecc.secp256k1.secp256k1 as new  # noqa: E402

assert os.path.abspath(new.__file__).startswith(os.getcwd()), new.__file__

spec = importlib.util.spec_from_file_location(
    "pristine_secp256k1", os.path.join(HERE, "pristine", "secp256k1.py")
)
old = importlib.util.module_from_spec(spec)
spec.loader.exec_module(old)

T0 = time.time()
N, P = old.N, old.P
rng = random.Random(0xC06)
checks = 0


def deep_type(x):
    if isinstance(x, tuple):
        return (tuple, tuple(deep_type(e) for e in x))
    return type(x)


def run(f, *args):
    try:
        res = f(*args)
    except RecursionError:
        raise
    except BaseException as e:  # noqa: BLE001
        return ("exc", type(e), str(e))
    return ("ok", deep_type(res), res)


def same(name, *args):
    """Call old.<name> and new.<name> with equal args; outcomes must be identical."""
    global checks
    a = run(getattr(old, name), *args)
    b = run(getattr(new, name), *args)
    assert a == b, (name, args, a, b)
    checks += 1
    return a


def b32(i):
    return i.to_bytes(32, "big")


# ------------------------------------------------------------------ constants
for c in ("P", "N", "A", "B", "Gx", "Gy", "G"):
    assert getattr(old, c) == getattr(new, c) and type(getattr(old, c)) is type(
        getattr(new, c)
    ), c
CONSTS = {c: getattr(new, c) for c in ("P", "N", "A", "B", "Gx", "Gy", "G")}
public_old = sorted(n for n in vars(old) if not n.startswith("_"))
public_new = sorted(n for n in vars(new) if not n.startswith("_"))
assert public_old == public_new, (public_old, public_new)

# ------------------------------------------------------------------ inputs
keys_int = [1, 2, 3, 7, 255, 256, 65537, N - 2, N - 1, (N - 1) // 2, (N + 1) // 2]
keys_int += [rng.getrandbits(256) % (N - 1) + 1 for _ in range(14)]
# out of the quantified range, still must behave identically
keys_odd_int = [0, N, N + 1, 2**256 - 1]

hashes = [
    b"\x00" * 32,
    b"\xff" * 32,
    b32(N - 1),
    b32(N),
    b32(N + 1),
    b32(1),
    b32(P),
    b32(N // 2),
    b32(N // 2 + 1),
]
hashes += [bytes(rng.getrandbits(8) for _ in range(32)) for _ in range(8)]
short_long = [bytes(rng.getrandbits(8) for _ in range(n)) for n in range(0, 65)]


def rfc6979_k(msghash, priv):
    v = b"\x01" * 32
    k = b"\x00" * 32
    k = hmac.new(k, v + b"\x00" + priv + msghash, hashlib.sha256).digest()
    v = hmac.new(k, v, hashlib.sha256).digest()
    k = hmac.new(k, v + b"\x01" + priv + msghash, hashlib.sha256).digest()
    v = hmac.new(k, v, hashlib.sha256).digest()
    return int.from_bytes(hmac.new(k, v, hashlib.sha256).digest(), "big")


def check_property(h, d, sig, pub):
    """The C06 statement itself, on the edited module."""
    v, r, s = sig
    assert v in (27, 28) and type(v) is int
    assert 1 <= r < N and 1 <= s <= N // 2
    z = int.from_bytes(h, "big")
    w = pow(s, -1, N)
    R = new.add(new.multiply(new.G, z * w % N), new.multiply(pub, r * w % N))
    assert R[0] % N == r
    assert new.ecdsa_raw_recover(h, sig) == pub
    other = run(new.ecdsa_raw_recover, h, (55 - v, r, s))
    assert other[0] == "exc" or other[2] != pub
    k = rfc6979_k(h, b32(d))
    assert new.multiply(new.G, k)[0] == r


# ------------------------------------------------------------------ sign + recover
sigs = []
for i, d in enumerate(keys_int):
    priv = b32(d)
    pub = same("privtopub", priv)
    assert pub[0] == "ok"
    hs = hashes if i < 11 else hashes[:3] + [hashes[9 + i % 8]]
    for h in hs:
        same("deterministic_generate_k", h, priv)
        out = same("ecdsa_raw_sign", h, priv)
        assert out[0] == "ok", out
        sig = out[2]
        sigs.append((h, d, sig, pub[2]))
        v, r, s = sig
        same("ecdsa_raw_recover", h, sig)
        same("ecdsa_raw_recover", h, (55 - v, r, s))
        if i < 11 and h in hashes[:5]:
            check_property(h, d, sig, pub[2])
    # 0..64 byte strings (a slice per key, all lengths for the first two keys)
    for m in short_long if i < 2 else short_long[i::9]:
        out = same("ecdsa_raw_sign", m, priv)
        assert out[0] == "ok"
        same("ecdsa_raw_recover", m, out[2])
        v, r, s = out[2]
        same("ecdsa_raw_recover", m, (55 - v, r, s))

for d in keys_odd_int:
    priv = b32(d)
    same("privtopub", priv)
    for h in hashes[:5]:
        out = same("ecdsa_raw_sign", h, priv)
        if out[0] == "ok":
            same("ecdsa_raw_recover", h, out[2])

# unusual but accepted containers for key / hash
h0, k0 = hashes[10], b32(keys_int[12])
for mk in (bytes, bytearray, memoryview, list, tuple, lambda b: b.decode("latin-1")):
    for mh in (bytes, bytearray, memoryview, list, tuple, lambda b: b.decode("latin-1")):
        same("deterministic_generate_k", mh(h0), mk(k0))
        same("ecdsa_raw_sign", mh(h0), mk(k0))
for bad in (None, 5, 1.5, "x", b"", [b"a"], [1.5], [256], [-1]):
    same("ecdsa_raw_sign", bad, k0)
    same("ecdsa_raw_sign", h0, bad)
    same("deterministic_generate_k", bad, k0)
    same("deterministic_generate_k", h0, bad)
    same("privtopub", bad)
    same("bytes_to_int", bad)
    same("ecdsa_raw_recover", bad, sigs[0][2])

# ------------------------------------------------------------------ malformed recover
# an x that is not on the curve and one that is
non_res = next(
    x for x in range(1, 100) if pow((x**3 + 7) % P, (P - 1) // 2, P) != 1
)
on_curve = next(x for x in range(1, 100) if pow((x**3 + 7) % P, (P - 1) // 2, P) == 1)


class Weird:
    def __eq__(self, other):
        return other == 27

    def __hash__(self):
        return 1


for h, d, (v, r, s), pub in sigs[:6] + sigs[60:64]:
    vs = [v, 55 - v, 0, 1, 26, 29, -27, 27.0, 28.0, Decimal(27), Fraction(28), "27",
          None, True, b"\x1b", (27,), Weird(), float("nan"), 27 + 0j]
    rs = [r, 0, N, N + 1, r + N, r + P, r - P, -r, P, P - 1, P + 1, 2 * N, non_res,
          on_curve, on_curve + N, 1, 2, 3, old.Gx, float(r), "12", "%d", None,
          True, Fraction(r), Decimal(r), 2**256 + 5, 10**400]
    ss = [s, N - s, 0, N, -N, N + s, s + 2 * N, -s, 1, N - 1, 2**256, float(s), "7",
          None, True, Fraction(s), 1.0]
    for vv in vs:
        same("ecdsa_raw_recover", h, (vv, r, s))
        same("ecdsa_raw_recover", h, (vv, non_res, s))
        same("ecdsa_raw_recover", h, (vv, r, 0))
        same("ecdsa_raw_recover", h, (vv, None, None))
    for rr in rs:
        same("ecdsa_raw_recover", h, (v, rr, s))
        same("ecdsa_raw_recover", h, (55 - v, rr, s))
        same("ecdsa_raw_recover", h, (v, rr, 0))
        same("ecdsa_raw_recover", h, (v, rr, None))
        same("ecdsa_raw_recover", h, (0, rr, s))
    for sv in ss:
        same("ecdsa_raw_recover", h, (v, r, sv))
        same("ecdsa_raw_recover", h, (v, non_res, sv))
        same("ecdsa_raw_recover", h, (v, 0, sv))
        same("ecdsa_raw_recover", h, (30, r, sv))
    for shape in ((), (v,), (v, r), (v, r, s, 1), [v, r, s], None, 5, "abc",
                  iter((v, r, s)), {27: 1, 2: 2, 3: 3}):
        if hasattr(shape, "__next__"):
            a = run(old.ecdsa_raw_recover, h, iter((v, r, s)))
            b = run(new.ecdsa_raw_recover, h, iter((v, r, s)))
            assert a == b
        else:
            same("ecdsa_raw_recover", h, shape)
    # a wrong hash, other hash lengths
    same("ecdsa_raw_recover", b"", (v, r, s))
    same("ecdsa_raw_recover", h + h, (v, r, s))
    same("ecdsa_raw_recover", h[:-1], (v, r, s))

# random (v, r, s) triples, most of them not signatures of anything
for _ in range(150):
    h = bytes(rng.getrandbits(8) for _ in range(32))
    v = rng.choice((27, 28))
    r = rng.choice((rng.getrandbits(256), rng.getrandbits(256) % N, rng.randrange(1, 50)))
    s = rng.choice((rng.getrandbits(256), rng.getrandbits(256) % N, rng.randrange(0, 5)))
    same("ecdsa_raw_recover", h, (v, r, s))

# ------------------------------------------------------------------ helpers sharing the file
pts = [old.G, old.multiply(old.G, 2), old.multiply(old.G, N - 1), (0, 0), (5, 0)]
scalars = [0, 1, 2, 3, N - 1, N, N + 1, -1, -N, 2**256, rng.getrandbits(256), True]
for p in pts:
    for n in scalars:
        same("multiply", p, n)
        same("jacobian_multiply", old.to_jacobian(p), n)
    for q in pts:
        same("add", p, q)
        same("jacobian_add", old.to_jacobian(p), old.to_jacobian(q))
    same("jacobian_double", old.to_jacobian(p))
    same("from_jacobian", old.to_jacobian(p))
for jp in [(0, 0, 0), (0, 0, 1), (1, 0, 5), (old.Gx * 4 % P, old.Gy * 8 % P, 2)]:
    for n in scalars[:8]:
        same("jacobian_multiply", jp, n)
    same("jacobian_double", jp)
    same("from_jacobian", jp)
    same("jacobian_add", jp, old.to_jacobian(old.G))
    same("jacobian_add", old.to_jacobian(old.G), jp)
for a in (0, 1, 2, -1, N - 1, N, N + 1, P, rng.getrandbits(256), 1.5, "a", None):
    for n in (N, P, 1, 2, 7):
        same("inv", a, n)
for x in (b"", b"\x00", b"\x01\x02", "ab", "ሴ", [1, 2], [300, -1], 5, None, [b"a", 7]):
    same("bytes_to_int", x)
for x in (0, 255, True, "a", b"a", b"ab", "", None, 1.5):
    same("safe_ord", x)

# ------------------------------------------------------------------ call histories
# interleave repeated calls with equal and different arguments: results stay equal
first = {}
order = list(range(len(sigs[:40])))
for rnd in range(3):
    rng.shuffle(order)
    for idx in order[:25]:
        h, d, sig, pub = sigs[idx]
        a = same("ecdsa_raw_sign", h, b32(d))
        b = same("ecdsa_raw_recover", h, sig)
        c = same("ecdsa_raw_recover", h, (sig[0], non_res, sig[2]))
        prev = first.setdefault(idx, (a, b, c))
        assert prev == (a, b, c)
        assert a[2] == sig and b[2] == pub

# no module-level constant was disturbed
for c, val in CONSTS.items():
    assert getattr(new, c) == val and getattr(old, c) == val, c

print(f"equiv OK: {checks} paired calls identical, {len(sigs)} signatures, "
      f"{time.time() - T0:.1f}s")
