import os, sys; sys.path.insert(0, os.getcwd())  # noqa: E401,E702

"""
Equivalence demonstration for C07/s1.

The edited tree moves ``w`` and ``twist`` from py_ecc/bn128/bn128_curve.py into
the new module py_ecc/bn128/bn128_twist.py and re-exports them from
bn128_curve.  This script loads the PRISTINE bn128_curve.py (saved next to this
script) under another module name and compares it with the edited package on
the module namespace, the published constants and on add / double / neg /
multiply / twist / is_on_curve / eq over G1, G2 and G12, including infinity,
P = Q, P = -Q, off-curve points, boundary scalars and malformed arguments.
"""

import importlib.util
import random

HERE = os.path.dirname(os.path.abspath(__file__))


def load(name, path):
    spec = importlib.util.spec_from_file_location(name, path)
    mod = importlib.util.module_from_spec(spec)
    sys.modules[name] = mod
    spec.loader.exec_module(mod)
    return mod


old = load("pristine_bn128_curve", os.path.join(HERE, "pristine", "bn128_curve.py"))

import py_ecc.bn128 as pkg  # noqa: E402
import py_ecc.bn128.bn128_curve as new  # noqa: E402
import py_ecc.bn128.bn128_pairing as pairing_mod  # noqa: E402
import py_ecc.bn128.bn128_twist as tw  # noqa: E402
from py_ecc.fields import (  # noqa: E402
    bn128_FQ as FQ,
    bn128_FQ2 as FQ2,
    bn128_FQ12 as FQ12,
)

assert os.path.realpath(new.__file__).startswith(os.path.realpath(os.getcwd())), new.__file__

checks = 0


def same(a, b, what):
    """deep equality including exact types"""
    global checks
    checks += 1
    assert type(a) is type(b), (what, type(a), type(b))
    if isinstance(a, tuple) or isinstance(a, list):
        assert len(a) == len(b), what
        for u, v in zip(a, b):
            same(u, v, what)
    elif hasattr(a, "coeffs"):
        assert len(a.coeffs) == len(b.coeffs), what
        for u, v in zip(a.coeffs, b.coeffs):
            # reference FQP builds a fresh FQ subclass per instance: compare by
            # class name, bases, modulus and exact integer value
            assert type(u).__name__ == type(v).__name__, (what, u, v)
            assert type(u).__bases__ == type(v).__bases__, (what, u, v)
            assert getattr(u, "field_modulus", None) == getattr(v, "field_modulus", None)
            un, vn = getattr(u, "n", u), getattr(v, "n", v)
            assert type(un) is int and type(vn) is int and un == vn, (what, u, v)
        assert a == b, what
    elif hasattr(a, "n"):
        assert type(a.n) is type(b.n) and a.n == b.n, (what, a, b)
        assert a == b, what
    else:
        assert a == b, (what, a, b)


def outcome(f, *args):
    try:
        return ("ok", f(*args))
    except RecursionError:
        return ("exc", RecursionError)
    except Exception as e:  # noqa: BLE001
        return ("exc", type(e))


def both(fname, *args):
    ro = outcome(getattr(old, fname), *args)
    rn = outcome(getattr(new, fname), *args)
    assert ro[0] == rn[0], (fname, args, ro, rn)
    if ro[0] == "exc":
        assert ro[1] is rn[1], (fname, args, ro, rn)
        global checks
        checks += 1
    else:
        same(ro[1], rn[1], (fname, args))
    return rn


# ---------------------------------------------------------------- namespace
pub = lambda m: sorted(k for k in vars(m) if not k.startswith("__"))  # noqa: E731
assert pub(old) == pub(new), (set(pub(old)) ^ set(pub(new)))
# one object behind every import path
assert pkg.twist is new.twist is tw.twist is pairing_mod.twist
assert new.w is tw.w
assert new.FQP is old.FQP and new.FQ12 is old.FQ12 is FQ12
for fn in ("add", "double", "multiply", "neg", "eq", "is_inf", "is_on_curve"):
    assert getattr(pkg, fn) is getattr(new, fn)

# ---------------------------------------------------------------- constants
for name in ("field_modulus", "curve_order", "b", "b2", "b12", "G1", "G2", "G12",
             "Z1", "Z2", "w"):
    same(getattr(old, name), getattr(new, name), name)
assert new.G12 == new.twist(new.G2) == old.twist(old.G2)
assert new.is_on_curve(new.G12, new.b12)

# ------------------------------------------------------------------- inputs
rng = random.Random(0xC07)
p = new.field_modulus
r = new.curve_order
SCALARS = [0, 1, 2, 3, 4, 5, 7, 8, r - 1, r, r + 1, 2 * p - r, 2 * r, r * r,
           2**255, 2**256 - 1] + [rng.getrandbits(k) for k in (17, 64, 254, 400, 640)]
SMALL = [0, 1, 2, 3, 5, r - 1, r, r + 1, 2 * p - r, rng.getrandbits(640)]
TINY = [0, 1, 2, 3, 4, 5, 17, 255]


def rnd_fq2():
    return FQ2([rng.randrange(p), rng.randrange(p)])


g1_pts = [None, new.G1] + [new.multiply(new.G1, k) for k in (2, 3, 5, r - 1, rng.randrange(r))]
g2_pts = [None, new.G2] + [new.multiply(new.G2, k) for k in (2, 3, r - 1, rng.randrange(r))]
# off-curve / out-of-subgroup style inputs: arbitrary coordinate pairs
off1 = [(FQ(0), FQ(0)), (FQ(1), FQ(0)), (FQ(5), FQ(7)), (FQ(0), FQ(p - 1))]
off2 = [(FQ2.zero(), FQ2.zero()), (FQ2.one(), FQ2.zero()), (rnd_fq2(), rnd_fq2()),
        (rnd_fq2(), rnd_fq2()), (FQ2([0, 1]), FQ2([p - 1, p - 1]))]
# a point of the twist that is on the curve but (almost surely) not in the r-subgroup
def fq2_sqrt(a):
    # p = 3 mod 4 (Adj & Rodriguez-Henriquez, alg. 9); returns None for non-squares
    a1 = a ** ((p - 3) // 4)
    alpha = a1 * a1 * a
    a0 = alpha**p * alpha
    if a0 == -FQ2.one():
        return None
    x0 = a1 * a
    if alpha == -FQ2.one():
        return FQ2([0, 1]) * x0
    return (FQ2.one() + alpha) ** ((p - 1) // 2) * x0


pt_off_sub = None
x = FQ2([1, 0])
while pt_off_sub is None:
    x = x + FQ2([1, 1])
    rhs = x**3 + new.b2
    y = fq2_sqrt(rhs)
    if y is not None and y * y == rhs:
        pt_off_sub = (x, y)
assert p % 4 == 3
assert new.is_on_curve(pt_off_sub, new.b2)
g2_all = g2_pts + off2 + [pt_off_sub]

# --------------------------------------------------------------------- twist
twist_inputs = list(g2_all) + [new.neg(q) for q in g2_pts]
for q in twist_inputs:
    both("twist", q)
# twist is a homomorphism / injective on samples (edited code, sanity)
for a in g2_pts[1:4]:
    for c in g2_pts[1:4]:
        assert new.twist(new.add(a, c)) == new.add(new.twist(a), new.twist(c))
assert len({repr(new.twist(q)) for q in g2_pts}) == len(g2_pts)
# FQ12 inputs (coeffs has 12 entries; only the first two are read) and malformed ones
g12_pts = [None, new.G12, new.double(new.G12), new.twist(g2_pts[3])]
for q in g12_pts:
    both("twist", q)
MALFORMED = [(), (1,), (1, 2), (FQ(1), FQ(2)), (FQ2.one(),), (FQ2.one(), FQ2.one(), FQ2.one()),
             (FQ2.one(), 3), (None, None), 0, 1, "ab", b"ab", [new.G2[0], new.G2[1]],
             (FQ2.one(), None), object()]
for q in MALFORMED:
    both("twist", q)

# ------------------------------------------------------ group law, 3 groups
for pts in (g1_pts + off1, g2_all, g12_pts):
    for a in pts:
        both("double", a)
        both("neg", a)
        both("is_inf", a)
        for c in pts:
            both("add", a, c)
            both("eq", a, c)
        if a is not None:
            both("add", a, new.neg(a))
for a in g1_pts + off1:
    both("is_on_curve", a, new.b)
    for n in SCALARS:
        both("multiply", a, n)
for a in g2_all:
    both("is_on_curve", a, new.b2)
for n in SCALARS:
    both("multiply", None, n)
for a in (new.G2, pt_off_sub):
    for n in SMALL:
        both("multiply", a, n)
for n in (r, 2 * p - r, rng.getrandbits(640)):
    both("multiply", off2[2], n)
for a in g2_pts:
    for n in TINY:
        both("multiply", a, n)
for a in g12_pts:
    both("is_on_curve", a, new.b12)
    for n in TINY:
        both("multiply", a, n)
for n in (r, rng.getrandbits(400)):
    both("multiply", new.G12, n)

# malformed / boundary arguments of the group operations
for fn in ("double", "neg", "is_inf"):
    for q in MALFORMED:
        both(fn, q)
for q in MALFORMED:
    both("add", q, new.G1)
    both("add", new.G2, q)
    both("add", q, None)
    both("is_on_curve", q, new.b)
    both("multiply", q, 0)
    both("multiply", q, 1)
    both("multiply", q, 2)
for n in (1.0, 2.0, 2.5, None, "3", True, False):
    both("multiply", new.G1, n)
    both("multiply", None, n)
# negative scalars never terminate (py_ecc raises the recursion limit to 100000, so
# this is 100000 frames deep): RecursionError in both versions; keep it to cheap cases
both("multiply", None, -1)
both("multiply", None, -r)
# mixing groups
both("add", new.G1, new.G2)
both("add", new.G2, new.G12)
both("add", new.G12, new.twist(new.G2))

# ------------------------------------------- repeat / interleave (no state)
snap = [repr(getattr(new, k)) for k in ("G1", "G2", "G12", "w", "b", "b2", "b12")]
first = [new.twist(q) for q in g2_pts]
new.multiply(new.G12, 12345)
old.twist(new.G2)
second = [new.twist(q) for q in reversed(g2_pts)]
assert first == list(reversed(second))
assert snap == [repr(getattr(new, k)) for k in ("G1", "G2", "G12", "w", "b", "b2", "b12")]
assert snap == [repr(getattr(old, k)) for k in ("G1", "G2", "G12", "w", "b", "b2", "b12")]

# the pairing module still binds the very same twist object (asserted above)
assert pairing_mod.twist.__code__.co_code == old.twist.__code__.co_code
assert pairing_mod.twist.__code__.co_consts == old.twist.__code__.co_consts
assert pairing_mod.twist.__code__.co_names == old.twist.__code__.co_names

print("C07 s1 equivalence OK, %d comparisons" % checks)
