import os, sys; sys.path.insert(0, os.getcwd())  # noqa: E401,E702

# Equivalence demonstration for q1 (C07): py_ecc/optimized_bls12_381/optimized_curve.py
# add() split into special cases + _add_chord(), twist() built from the helpers
# _change_basis() / _embed_shifted().  Run with the worktree as current directory.
import importlib.util
import itertools
import random

HERE = os.path.dirname(os.path.abspath(__file__))

import py_ecc.optimized_bls12_381.optimized_curve as new  # noqa: E402
from py_ecc.fields import (  # noqa: E402
    optimized_bls12_381_FQ as FQ,
    optimized_bls12_381_FQ2 as FQ2,
    optimized_bls12_381_FQ12 as FQ12,
    optimized_bn128_FQ2 as BN_FQ2,
)
from py_ecc.fields.optimized_field_elements import (  # noqa: E402
    FQ as BaseFQ,
    FQ2 as BaseFQ2,
)

assert os.path.realpath(new.__file__).startswith(os.path.realpath(os.getcwd())), new.__file__

spec = importlib.util.spec_from_file_location(
    "pristine_optimized_bls12_381_curve",
    os.path.join(HERE, "pristine", "optimized_bls12_381_curve.py"),
)
old = importlib.util.module_from_spec(spec)
spec.loader.exec_module(old)

assert hasattr(new, "_add_chord") and not hasattr(old, "_add_chord")

rng = random.Random(0xC07)
P = new.field_modulus
R = new.curve_order
CHECKS = 0


def rep(v):
    """Exact, structural representation of a value (no field __eq__ involved)."""
    if v is None or isinstance(v, (bool, int, str)):
        return ("lit", type(v).__name__, v)
    if isinstance(v, (tuple, list)):
        return (type(v).__name__,) + tuple(rep(e) for e in v)
    if hasattr(v, "coeffs"):
        return ("FQP", type(v).__name__, tuple(rep(c) for c in v.coeffs))
    if hasattr(v, "n"):
        return ("FQ", type(v).__name__, v.n)
    return ("obj", type(v).__name__, repr(v))


def outcome(f, *args):
    before = rep(args)
    try:
        r = f(*args)
        out = ("ok", rep(r))
    except RecursionError:
        raise
    except Exception as e:  # noqa: BLE001
        r = None
        out = ("exc", type(e).__name__)
    assert rep(args) == before, "arguments were mutated"
    return out, r


def same(name, *args):
    """Same result / exception class; same aliasing of the result with arguments."""
    global CHECKS
    o_new, r_new = outcome(getattr(new, name), *args)
    o_old, r_old = outcome(getattr(old, name), *args)
    assert o_new == o_old, (name, args, o_new, o_old)
    alias_new = [r_new is a for a in args]
    alias_old = [r_old is a for a in args]
    assert alias_new == alias_old, (name, args)
    CHECKS += 1
    return o_new


def scale(pt, lam):
    return tuple(c * lam for c in pt)


# ---------------------------------------------------------------- constants
for cname in ("field_modulus", "curve_order", "b", "b2", "b12", "G1", "G2", "G12",
              "Z1", "Z2", "w"):
    assert rep(getattr(new, cname)) == rep(getattr(old, cname)), cname
const_snapshot = {c: rep(getattr(new, c)) for c in ("G1", "G2", "G12", "Z1", "Z2", "w",
                                                     "b", "b2", "b12")}


# ---------------------------------------------------------------- point sets
def sqrt_fq(a):
    y = a ** ((P + 1) // 4)
    return y if y * y == a else None


def off_subgroup_g1():
    while True:
        x = FQ(rng.randrange(P))
        y = sqrt_fq(x * x * x + new.b)
        if y is not None:
            pt = (x, y, FQ(1))
            if not new.is_inf(old.multiply(pt, R)):
                return pt


def rand_fq2():
    return FQ2((rng.randrange(P), rng.randrange(P)))


def rand_fq12():
    return FQ12([rng.randrange(P) for _ in range(12)])


G1, G2, G12 = old.G1, old.G2, old.G12
g1_pts = [G1, old.double(G1), old.multiply(G1, 3), old.multiply(G1, R - 1),
          old.multiply(G1, rng.randrange(R)), off_subgroup_g1(), off_subgroup_g1()]
g2_pts = [G2, old.double(G2), old.multiply(G2, 3), old.multiply(G2, R - 1),
          old.multiply(G2, rng.randrange(R))]
g12_pts = [G12, old.double(G12), old.multiply(G12, 3), old.multiply(G12, R - 1)]
# points that are not on the curve at all: the formulas must still agree
g1_junk = [(FQ(rng.randrange(P)), FQ(rng.randrange(P)), FQ(rng.randrange(1, P)))
           for _ in range(3)] + [(FQ(0), FQ(0), FQ(1)), (FQ(0), FQ(2), FQ(1)),
                                 (FQ(P - 1), FQ(0), FQ(P - 1))]
g2_junk = [(rand_fq2(), rand_fq2(), rand_fq2()) for _ in range(3)]
g12_junk = [(rand_fq12(), rand_fq12(), rand_fq12())]


def with_reps(pts, lams, infs):
    out = []
    for pt in pts:
        out.append(pt)
        out.append(old.neg(pt))
        for lam in lams:
            out.append(scale(pt, lam))
            out.append(scale(old.neg(pt), lam))
    return out + infs


g1_all = with_reps(g1_pts + g1_junk, [FQ(2), FQ(P - 1), FQ(rng.randrange(2, P))],
                   [old.Z1, (FQ(0), FQ(0), FQ(0)), (FQ(5), FQ(7), FQ(0)),
                    (FQ(0), FQ(1), FQ(0))])
g2_all = with_reps(g2_pts + g2_junk, [FQ2((0, 1)), rand_fq2()],
                   [old.Z2, (FQ2.zero(), FQ2.zero(), FQ2.zero()),
                    (rand_fq2(), rand_fq2(), FQ2.zero())])
g12_all = with_reps(g12_pts + g12_junk, [rand_fq12()],
                    [(FQ12.one(), FQ12.one(), FQ12.zero()),
                     (FQ12.zero(), FQ12.zero(), FQ12.zero())])

# ---------------------------------------------------------------- add / double / neg / eq
for pts, pair_budget in ((g1_all, None), (g2_all, None), (g12_all, 500)):
    pairs = list(itertools.product(pts, repeat=2))
    if pair_budget is not None and len(pairs) > pair_budget:
        diag = [(p, p) for p in pts]
        pairs = diag + rng.sample(pairs, pair_budget - len(diag))
    for p, q in pairs:
        same("add", p, q)
    for p in pts:
        same("double", p)
        same("neg", p)
        same("is_inf", p)
        # P + P, P + (-P), and the same with another representative of P
        same("add", p, tuple(p))
        same("add", p, old.neg(p))
    for p, q in rng.sample(pairs, min(len(pairs), 200)):
        same("eq", p, q)
# associativity-style triples (results feed back into add, any representative)
for pts in (g1_all, g2_all):
    for _ in range(150):
        a, b_, c = rng.choice(pts), rng.choice(pts), rng.choice(pts)
        l_new = new.add(new.add(a, b_), c)
        l_old = old.add(old.add(a, b_), c)
        r_new = new.add(a, new.add(b_, c))
        r_old = old.add(a, old.add(b_, c))
        assert rep(l_new) == rep(l_old) and rep(r_new) == rep(r_old)
        CHECKS += 2

# ---------------------------------------------------------------- multiply
scalars = [0, 1, 2, 3, 4, 5, 7, 8, 255, 256, R - 1, R, R + 1, 2 * P - R, P, 2 * R,
           True, False]
scalars += [rng.getrandbits(k) for k in (8, 64, 255, 256, 381, 512, 640, 640)]
for pt in (G1, g1_pts[-1], scale(G1, FQ(12345)), old.Z1, (FQ(0), FQ(0), FQ(0)),
           g1_junk[0]):
    for n in scalars:
        same("multiply", pt, n)
for pt in (G2, scale(G2, rand_fq2()), old.Z2, g2_junk[0]):
    for n in scalars:
        same("multiply", pt, n)
for n in [0, 1, 2, 3, R - 1, R, R + 1, 2 * P - R, rng.getrandbits(640)]:
    same("multiply", G12, n)
# small scalars exhaustively: multiply is the n-fold sum, with identical representatives
for pt in (G1, G2):
    acc_new, acc_old = new.multiply(pt, 0), old.multiply(pt, 0)
    for n in range(0, 40):
        assert same("multiply", pt, n)[0] == "ok"
        assert new.eq(new.multiply(pt, n), acc_new) and old.eq(old.multiply(pt, n), acc_old)
        acc_new, acc_old = new.add(acc_new, pt), old.add(acc_old, pt)
        assert rep(acc_new) == rep(acc_old)

# ---------------------------------------------------------------- twist
tw_inputs = list(g2_all) + [
    (FQ2((0, 0)), FQ2((0, 0)), FQ2((0, 0))),
    (FQ2((P - 1, P - 1)), FQ2((0, P - 1)), FQ2((P - 1, 0))),
    (FQ2((1, 0)), FQ2((0, 1)), FQ2((1, 1))),
    # another curve's FQ2 class and FQ12 coordinates (only .coeffs[0:2] are read)
    (BN_FQ2((3, 4)), BN_FQ2((5, 6)), BN_FQ2((7, 8))),
    g12_pts[0],
]
for pt in tw_inputs:
    o = same("twist", pt)
    assert o[0] == "ok"
for pt in g2_pts:
    # twist is a homomorphism: representatives agree between the two versions
    q = rng.choice(g2_pts)
    assert rep(new.add(new.twist(pt), new.twist(q))) == rep(old.add(old.twist(pt), old.twist(q)))
    assert rep(new.twist(new.add(pt, q))) == rep(old.twist(old.add(pt, q)))
    assert new.is_on_curve(new.twist(pt), new.b12)
    CHECKS += 2


# ---------------------------------------------------------------- malformed inputs
class NoCoeffs:
    pass


class BadCoeffs:  # coeffs whose difference cannot be formed
    coeffs = ("a", "b")


class ShortCoeffs:
    coeffs = (1,)


class FloatCoeffs:  # basis change works, the FQ12 constructor decides
    coeffs = (1.5, 2)


malformed_points = [
    None, (), (FQ(1),), (FQ(1), FQ(2)), (FQ(1), FQ(2), FQ(3), FQ(4)), (1, 2, 1), (1, 2, 0),
    (FQ(1), FQ(2), 1), (FQ(1), FQ(2), None), (FQ(1), None, FQ(1)), (None, FQ(2), FQ(1)),
    "abc", [FQ(1), FQ(2), FQ(1)], [G1[0], G1[1], G1[2]],
    (FQ2((1, 2)), FQ(2), FQ(1)), (FQ(1), FQ2((1, 2)), FQ(1)), (FQ(1), FQ(2), FQ2((1, 2))),
    (FQ2((1, 2)), FQ2((1, 2)), FQ12.one()), (FQ12.one(), FQ2((1, 2)), FQ2((1, 2))),
    (NoCoeffs(), FQ2((1, 2)), FQ2((1, 2))), (FQ2((1, 2)), NoCoeffs(), BadCoeffs()),
    (BadCoeffs(), NoCoeffs(), FQ2((1, 2))), (FQ2((1, 2)), ShortCoeffs(), NoCoeffs()),
    (FloatCoeffs(), NoCoeffs(), FQ2((1, 2))), (FloatCoeffs(), FloatCoeffs(), BadCoeffs()),
    (FloatCoeffs(), FloatCoeffs(), FloatCoeffs()), (FQ2((1, 2)), FQ2((1, 2)), ShortCoeffs()),
]
good = [G1, G2, G12, old.Z1, old.Z2, scale(G1, FQ(3))]
for m in malformed_points:
    same("twist", m)
    same("double", m)
    same("neg", m)
    for g in good:
        same("add", m, g)
        same("add", g, m)
    same("add", m, m)
    same("multiply", m, 0)
    same("multiply", m, 1)
    same("multiply", m, 5)
for g, h in itertools.permutations(good, 2):
    same("add", g, h)  # mixed groups: G1 + G2 etc.
for bad_n in (None, "3", 2.0, 5.0, 2.5, 7.5, FQ(3), [1]):
    same("multiply", G1, bad_n)
    same("multiply", G2, bad_n)


# ---------------------------------------------------------------- other field classes / tiny curves
def tiny_fields(p, nonresidue_ok=True):
    class TFQ(BaseFQ):
        field_modulus = p

    class TFQ2(BaseFQ2):
        field_modulus = p
        FQ2_MODULUS_COEFFS = (1, 0)  # i**2 = -1, irreducible for p = 3 mod 4

    return TFQ, TFQ2


def affine_points(elems, bb, one):
    return [(x, y, one) for x in elems for y in elems if y * y == x * x * x + bb]


for p, bval in ((11, 1), (19, 2), (23, 5)):
    assert p % 4 == 3
    TFQ, TFQ2 = tiny_fields(p)
    elems = [TFQ(i) for i in range(p)]
    pts = affine_points(elems, TFQ(bval), TFQ(1))
    reps = []
    for pt in pts:
        for lam in (1, 2, p - 1):
            reps.append(scale(pt, TFQ(lam)))
    reps += [(TFQ(1), TFQ(1), TFQ(0)), (TFQ(0), TFQ(0), TFQ(0)), (TFQ(3), TFQ(4), TFQ(0))]
    for a, b_ in itertools.product(reps, repeat=2):
        same("add", a, b_)
    for a in reps:
        same("double", a)
        for n in range(0, 2 * len(pts) + 5):
            same("multiply", a, n)
    # quadratic extension, exhaustive pairs of affine points + infinity
    if p == 11:
        elems2 = [TFQ2((i, j)) for i in range(p) for j in range(p)]
        bb2 = TFQ2((bval, 0))
        sq = {}
        for e in elems2:
            sq.setdefault(rep(e * e), []).append(e)
        pts2 = []
        for x in elems2:
            for y in sq.get(rep(x * x * x + bb2), []):
                pts2.append((x, y, TFQ2.one()))
        pts2 += [(TFQ2.one(), TFQ2.one(), TFQ2.zero()), (TFQ2.zero(), TFQ2.zero(), TFQ2.zero())]
        lam = TFQ2((3, 5))
        pairs2 = list(itertools.product(pts2, repeat=2))
        for a, b_ in pairs2:
            same("add", a, b_)
        for a, b_ in rng.sample(pairs2, 2000):
            same("add", scale(a, lam), b_)
        for a in pts2:
            same("double", a)
            same("twist", a)  # FQ12 of bls12-381 built from the tiny coefficients
            for n in (0, 1, 2, 3, 5, 12, len(pts2) - 1, len(pts2), 1000):
                same("multiply", a, n)

# ---------------------------------------------------------------- call histories
seq = []
for _ in range(300):
    kind = rng.choice(["add", "add", "twist", "multiply", "double"])
    if kind == "add":
        seq.append(("add", rng.choice(g1_all), rng.choice(g1_all)))
        seq.append(("add", rng.choice(g2_all), rng.choice(g2_all)))
    elif kind == "twist":
        seq.append(("twist", rng.choice(g2_all)))
    elif kind == "multiply":
        seq.append(("multiply", rng.choice(g1_pts), rng.choice([0, 1, 2, 3, 77, R, R + 1])))
    else:
        seq.append(("double", rng.choice(g2_all)))
first = [same(name, *args) for name, *args in seq]
rng.shuffle(seq_order := list(range(len(seq))))
again = {i: same(seq[i][0], *seq[i][1:]) for i in seq_order}
assert all(again[i] == first[i] for i in range(len(seq)))
# equal-but-not-identical arguments give equal results
for name, *args in seq[:100]:
    copies = [tuple(type(c)(c.coeffs) if hasattr(c, "coeffs") else type(c)(c.n) for c in a)
              if isinstance(a, tuple) else a for a in args]
    assert outcome(getattr(new, name), *copies)[0] == outcome(getattr(new, name), *args)[0]

for c, snap in const_snapshot.items():
    assert rep(getattr(new, c)) == snap and rep(getattr(old, c)) == snap, c

print(f"q1 equivalence OK: {CHECKS} paired checks")
