import os, sys; sys.path.insert(0, os.getcwd())
import importlib.util
import random
import time

HERE = os.path.dirname(os.path.abspath(__file__))


def load(name, path):
    spec = importlib.util.spec_from_file_location(name, path)
    mod = importlib.util.module_from_spec(spec)
    spec.loader.exec_module(mod)
    return mod


old = load("secp256k1_pristine", os.path.join(HERE, "pristine", "secp256k1.py"))
import py_ecc.secp256k1.secp256k1 as new

assert os.path.abspath(new.__file__).startswith(os.getcwd()), new.__file__
assert hasattr(new, "_G_DOUBLINGS") and not hasattr(old, "_G_DOUBLINGS")

N, P = old.N, old.P
rng = random.Random(0xC06)
T0 = time.time()


def outcome(f, *a):
    try:
        return ("ok", f(*a))
    except Exception as e:  # noqa
        return ("exc", type(e))


def same(fo, fn, *a):
    ro, rn = outcome(fo, *a), outcome(fn, *a)
    assert ro == rn, (fo.__name__, a, ro, rn)
    if ro[0] == "ok":
        assert type(ro[1]) is type(rn[1])
        if isinstance(ro[1], tuple):
            assert [type(c) for c in ro[1]] == [type(c) for c in rn[1]]
    return ro


def b32(i):
    return i.to_bytes(32, "big")


# --- table is exactly the doublings of G, immutable -------------------------
tab = new._G_DOUBLINGS
assert isinstance(tab, tuple) and len(tab) == 256
snapshot = tuple(tab)
for i in (0, 1, 2, 3, 64, 128, 254, 255):
    assert isinstance(tab[i], tuple)
    assert old.from_jacobian(tab[i]) == old.multiply(old.G, 2**i), i

# --- fixed-base multiply == multiply(G, n) for all kinds of n ---------------
scalars = [0, 1, 2, 3, 4, 5, 7, 8, 15, 16, 255, 256, 2**32, 2**128 - 1, 2**128,
           2**255, 2**255 - 1, 2**256 - 1, 2**256, 2**256 + 1, 2**300 + 12345,
           N - 2, N - 1, N, N + 1, N + 2, 2 * N - 1, 2 * N, 2 * N + 1, 3 * N + 5,
           (N - 1) // 2, (N + 1) // 2, N // 2 + 1, P, P - 1, P + 1,
           -1, -2, -N, -N + 1, -N - 1, -(2**256)]
scalars += [2**i for i in range(0, 257, 7)] + [2**i - 1 for i in range(1, 257, 5)]
scalars += [N - 2**i for i in range(0, 256, 9)]
scalars += [rng.getrandbits(256) for _ in range(250)]
scalars += [rng.getrandbits(bits) for bits in range(1, 256, 3)]
scalars += list(range(0, 70))
for n in scalars:
    assert old.multiply(old.G, n) == new._multiply_base(n), n
    assert new.multiply(new.G, n) == new._multiply_base(n), n

# --- privtopub on keys of the property, plus odd / malformed ones ------------
keys = [b32(d) for d in (1, 2, 3, 5, 255, 256, 65537, N - 2, N - 1,
                         (N - 1) // 2, (N + 1) // 2, 2**255, 2**128)]
keys += [b32(rng.randrange(1, N)) for _ in range(40)]
bad_keys = [b"", b"\x00", b"\x00" * 32, b32(N), b32(N + 1), b"\xff" * 32,
            b"\x01" * 33, b"\x00" * 31 + b"\x01" + b"\x00", b"\xff" * 64,
            bytearray(b32(7)), memoryview(b32(7)), list(b32(9)), tuple(b32(9)),
            "abc", "\x01" * 32, 5, None, 1.5, [1.5], ["ab"], [None]]
for k in keys + bad_keys:
    same(old.privtopub, new.privtopub, k)

# --- signing / recovery ------------------------------------------------------
hashes = [b"\x00" * 32, b"\xff" * 32, b32(N - 1), b32(N), b32(N + 1), b32(1),
          b32(N // 2), b32(N // 2 + 1), b32(P)]
hashes += [bytes(rng.getrandbits(8) for _ in range(32)) for _ in range(6)]
short_long = [b"", b"\x00", b"\x01", b"ab", b"\xff" * 31, b"\x80" * 33,
              b"\xff" * 64, bytes(range(64)), bytes(rng.getrandbits(8) for _ in range(47))]
bad_hashes = ["str", None, 5, list(b32(3)), bytearray(b32(3)), memoryview(b32(3))]

sign_keys = [b32(d) for d in (1, 2, N - 2, N - 1, 3, 1000)] + keys[-6:]
count = 0
for k in sign_keys:
    pub = old.privtopub(k)
    for h in hashes + short_long:
        ro = same(old.ecdsa_raw_sign, new.ecdsa_raw_sign, h, k)
        assert ro[0] == "ok"
        v, r, s = ro[1]
        assert v in (27, 28) and 1 <= r < N and 1 <= s <= N // 2
        # determinism and call-history independence
        assert new.ecdsa_raw_sign(h, k) == ro[1]
        count += 1
        if count % 3 == 0:
            rec = same(old.ecdsa_raw_recover, new.ecdsa_raw_recover, h, (v, r, s))
            assert rec == ("ok", pub)
            oth = same(old.ecdsa_raw_recover, new.ecdsa_raw_recover, h, (55 - v, r, s))
            assert oth != ("ok", pub)
for k in bad_keys:
    for h in (hashes[0], hashes[-1], b""):
        same(old.ecdsa_raw_sign, new.ecdsa_raw_sign, h, k)
for h in bad_hashes:
    for k in (keys[0], bad_keys[0], "abc"):
        same(old.ecdsa_raw_sign, new.ecdsa_raw_sign, h, k)

# --- interleaved call history: results do not depend on what ran before -------
seq = []
for _ in range(60):
    kind = rng.choice(["pub", "sign", "mul", "newmul"])
    if kind == "pub":
        seq.append((old.privtopub, new.privtopub, (rng.choice(keys[:8] + bad_keys[:8]),)))
    elif kind == "sign":
        seq.append((old.ecdsa_raw_sign, new.ecdsa_raw_sign,
                    (rng.choice(hashes[:4] + short_long[:3]), rng.choice(sign_keys[:4]))))
    elif kind == "mul":
        seq.append((old.multiply, new.multiply, (old.G, rng.choice(scalars))))
    else:
        n = rng.choice(scalars)
        seq.append((lambda n: old.multiply(old.G, n), new._multiply_base, (n,)))
first = [(outcome(fo, *a), outcome(fn, *a)) for fo, fn, a in seq]
for ro, rn in first:
    assert ro == rn
rng.shuffle(seq)
again = {}
for fo, fn, a in seq + seq[::-1]:
    ro, rn = outcome(fo, *a), outcome(fn, *a)
    assert ro == rn, (a, ro, rn)

# --- nothing was mutated ------------------------------------------------------
assert new._G_DOUBLINGS is tab and tuple(new._G_DOUBLINGS) == snapshot
for name in ("P", "N", "A", "B", "Gx", "Gy", "G"):
    assert getattr(new, name) == getattr(old, name)

print("p1 equivalence OK; %d signatures compared; %.1fs" % (count, time.time() - T0))
