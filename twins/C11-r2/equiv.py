import os, sys; sys.path.insert(0, os.getcwd())  # noqa: E702
"""
Equivalence demonstration for property C11 (ZCash point (de)serialization).

Run as:  cd /tmp/wt2/C11 && /venv/bin/python /tmp/twin/C11/<rN>/equiv.py

Loads the PRISTINE copies of py_ecc/bls/point_compression.py and
py_ecc/bls/g2_primitives.py (saved next to this script under pristine/) under
other module names inside the py_ecc.bls package, and compares them on a broad
set of inputs with the versions currently in the working tree (the refactored
ones).  For each call the outcome is either ("ok", type, canonical value) or
("exc", exception class); outcomes must be identical.  Exception *messages* are
compared too and differences are only reported (they are not part of the
property), unless STRICT_MESSAGES is set.
"""
import importlib
import importlib.util
import random
import time

HERE = os.path.dirname(os.path.abspath(__file__))
PRISTINE = os.path.join(HERE, "pristine")
STRICT_MESSAGES = os.environ.get("STRICT_MESSAGES", "0") == "1"

import py_ecc.bls  # noqa: E402  (the working-tree package)

assert os.path.abspath(py_ecc.bls.__file__).startswith(os.getcwd()), (
    "run with the worktree as cwd",
    py_ecc.bls.__file__,
)


def _load_pristine(filename, modname, rewrite=None):
    path = os.path.join(PRISTINE, filename)
    with open(path) as fh:
        src = fh.read()
    if rewrite:
        for old, new in rewrite:
            assert old in src
            src = src.replace(old, new)
    spec = importlib.util.spec_from_loader(modname, loader=None, origin=path)
    mod = importlib.util.module_from_spec(spec)
    mod.__file__ = path
    mod.__package__ = "py_ecc.bls"
    sys.modules[modname] = mod
    exec(compile(src, path, "exec"), mod.__dict__)
    return mod


old_pc = _load_pristine("point_compression.py", "py_ecc.bls._pristine_point_compression")
old_g2p = _load_pristine(
    "g2_primitives.py",
    "py_ecc.bls._pristine_g2_primitives",
    rewrite=[("from .point_compression import", "from ._pristine_point_compression import")],
)
new_pc = importlib.import_module("py_ecc.bls.point_compression")
new_g2p = importlib.import_module("py_ecc.bls.g2_primitives")
assert old_g2p.decompress_G2 is old_pc.decompress_G2
assert new_g2p.decompress_G2 is new_pc.decompress_G2
assert old_pc is not new_pc and old_g2p is not new_g2p

from py_ecc.fields import (  # noqa: E402
    optimized_bls12_381_FQ as FQ,
    optimized_bls12_381_FQ2 as FQ2,
)
from py_ecc.optimized_bls12_381 import (  # noqa: E402
    G1,
    G2,
    Z1,
    Z2,
    add,
    b,
    b2,
    curve_order,
    field_modulus as q,
    is_on_curve,
    multiply,
    neg,
)

rng = random.Random(0xC11)
P381, P382, P383, P384 = 2**381, 2**382, 2**383, 2**384


# ----------------------------------------------------------------------------
# canonical form of results
# ----------------------------------------------------------------------------
def canon(v):
    if isinstance(v, FQ2):
        return ("FQ2", type(v).__name__, tuple((type(c).__name__, int(c)) for c in v.coeffs))
    if isinstance(v, FQ):
        return ("FQ", type(v).__name__, type(v.n).__name__, int(v.n))
    if isinstance(v, tuple):
        return ("tuple", tuple(canon(e) for e in v))
    if isinstance(v, (bool, int, bytes, type(None))):
        return (type(v).__name__, v)
    raise TypeError(f"unexpected result type {type(v)}")


def outcome(fn, *args):
    try:
        r = fn(*args)
    except Exception as e:  # noqa: BLE001
        return ("exc", type(e)), str(e)
    return ("ok", canon(r)), None


stats = {"calls": 0, "ok": 0, "exc": 0, "msg_diff": 0}
failures = []
msg_pairs = set()


def check(name, *args):
    """Compare pristine and refactored `name` on args."""
    for old_mod, new_mod in ((old_pc, new_pc), (old_g2p, new_g2p)):
        if hasattr(old_mod, name):
            break
    else:
        raise KeyError(name)
    before = [canon(a) if not isinstance(a, (bytes, bytearray)) else bytes(a) for a in args]
    o, om = outcome(getattr(old_mod, name), *args)
    n, nm = outcome(getattr(new_mod, name), *args)
    after = [canon(a) if not isinstance(a, (bytes, bytearray)) else bytes(a) for a in args]
    stats["calls"] += 1
    stats[o[0]] += 1
    if before != after:
        failures.append((name, args, "argument mutated"))
    if o != n:
        failures.append((name, args, o, n))
    elif om != nm:
        stats["msg_diff"] += 1
        msg_pairs.add((name, om[:32], nm[:32]))
        if STRICT_MESSAGES:
            failures.append((name, args, om, nm))
    return o


# ----------------------------------------------------------------------------
# input construction helpers (independent of the code under test)
# ----------------------------------------------------------------------------
def sqrt_fq(a):
    a %= q
    y = pow(a, (q + 1) // 4, q)
    return y if y * y % q == a else None


def cube_roots_setup_fq():
    # q - 1 = 3^s * t
    t, s = q - 1, 0
    while t % 3 == 0:
        t //= 3
        s += 1
    g = 2
    while pow(g, (q - 1) // 3, q) == 1:
        g += 1
    gen = pow(g, t, q)  # generator of the 3-Sylow subgroup
    syl = [pow(gen, k, q) for k in range(3**s)]
    e = pow(3, -1, t)
    return e, syl


_E_FQ, _SYL_FQ = cube_roots_setup_fq()


def cbrt_fq(c):
    c %= q
    if c == 0:
        return 0
    if pow(c, (q - 1) // 3, q) != 1:
        return None
    r0 = pow(c, _E_FQ, q)
    for u in _SYL_FQ:
        r = r0 * u % q
        if pow(r, 3, q) == c:
            return r
    raise AssertionError("cube root search failed")


def cube_roots_setup_fq2():
    n = q * q - 1
    t, s = n, 0
    while t % 3 == 0:
        t //= 3
        s += 1
    k = 1
    while True:
        g = FQ2([k, 1])
        if g ** (n // 3) != FQ2.one():
            break
        k += 1
    gen = g**t
    syl = [FQ2.one()]
    for _ in range(3**s - 1):
        syl.append(syl[-1] * gen)
    e = pow(3, -1, t)
    return e, syl


_E_FQ2, _SYL_FQ2 = cube_roots_setup_fq2()


def cbrt_fq2(c):
    if c == FQ2.zero():
        return c
    if c ** ((q * q - 1) // 3) != FQ2.one():
        return None
    r0 = c**_E_FQ2
    for u in _SYL_FQ2:
        r = r0 * u
        if r * r * r == c:
            return r
    raise AssertionError("cube root search failed")


def rescale(pt, lam):
    """Another projective representative of pt."""
    return tuple(c * lam for c in pt)


def rand_fq():
    return rng.randrange(1, q)


def rand_fq2():
    return FQ2([rng.randrange(q), rng.randrange(q)])


# ----------------------------------------------------------------------------
# G1 points
# ----------------------------------------------------------------------------
g1_points = []
scalars = [1, 2, 3, 5, 7, curve_order - 1, curve_order - 2, 2**64 + 13, 2**200 - 1] + [
    rng.randrange(1, curve_order) for _ in range(12)
]
for k in scalars:
    pt = multiply(G1, k)
    g1_points.append(pt)
    g1_points.append(neg(pt))
    g1_points.append(rescale(pt, FQ(rand_fq())))
    g1_points.append(rescale(pt, FQ(q - 1)))

# non-subgroup curve points (small x with x^3+4 a square), both signs, rescaled
non_subgroup_g1_x = []
xx = 0
while len(non_subgroup_g1_x) < 12:
    y = sqrt_fq(xx**3 + 4)
    if y is not None:
        pt = (FQ(xx), FQ(y), FQ(1))
        assert is_on_curve(pt, b)
        non_subgroup_g1_x.append(xx)
        g1_points += [pt, neg(pt), rescale(pt, FQ(rand_fq()))]
    xx += 1
for xx in (q - 1, q - 2, q - 3, q - 4, q - 5, q - 6):
    y = sqrt_fq(xx**3 + 4)
    if y is not None:
        non_subgroup_g1_x.append(xx)
        g1_points += [(FQ(xx), FQ(y), FQ(1)), (FQ(xx), FQ(q - y), FQ(1))]

# y near (q-1)/2 and near 0 / q-1 : pick y, solve x^3 = y^2 - 4
near_half_g1 = 0
for base in ((q - 1) // 2, 0, q - 1, (q + 1) // 2):
    found = 0
    d = 0
    while found < 40 and d < 400:
        for yy in {(base + d) % q, (base - d) % q}:
            x = cbrt_fq(yy * yy - 4)
            if x is not None:
                pt = (FQ(x), FQ(yy), FQ(1))
                assert is_on_curve(pt, b)
                g1_points += [pt, neg(pt), rescale(pt, FQ(rand_fq()))]
                found += 1
                near_half_g1 += 1
        d += 1
assert near_half_g1 >= 80

# infinity in several representations
g1_infs = [
    Z1,
    (FQ(0), FQ(1), FQ(0)),
    (FQ(1), FQ(1), FQ(0)),
    (FQ(rand_fq()), FQ(rand_fq()), FQ(0)),
    (FQ(0), FQ(0), FQ(0)),
    add(G1, neg(G1)),
    multiply(G1, curve_order),
]
# points not on the curve (compress_G1 does not validate; decompress must refuse or not,
# identically in both versions)
g1_off = [
    (FQ(5566), FQ(5566), FQ(1)),
    (FQ(1), FQ(1), FQ(1)),
    (FQ(0), FQ(0), FQ(1)),
    (FQ(q - 1), FQ((q - 1) // 2), FQ(1)),
    (FQ(3), FQ((q + 1) // 2), FQ(7)),
]

t0 = time.time()
g1_words = []
for pt in g1_points + g1_infs + g1_off:
    o = check("compress_G1", pt)
    oo = check("G1_to_pubkey", pt)
    if o[0] == "ok":
        z = o[1][1]
        g1_words.append(z)
        check("decompress_G1", z)
    if oo[0] == "ok":
        bs = oo[1][1]
        assert len(bs) == 48
        check("pubkey_to_G1", bs)

# round trip sanity on the refactored version itself (property statement)
for pt in g1_points:
    z = new_pc.compress_G1(pt)
    if z % P381 == 0:
        # x == 0 (the curve point (0, +-2)): its encoding collides with the infinity
        # pattern and the pristine decoder refuses it; only old/new agreement is checked.
        continue
    back = new_pc.decompress_G1(z)
    assert is_on_curve(back, b)
    assert new_pc.compress_G1(back) == z
    assert back[0] * pt[2] == pt[0] * back[2] and back[1] * pt[2] == pt[1] * back[2]
for pt in g1_infs:
    assert new_pc.decompress_G1(new_pc.compress_G1(pt)) is Z1
    assert old_pc.decompress_G1(old_pc.compress_G1(pt)) is Z1

# ----------------------------------------------------------------------------
# G1 words: 8 flag combinations x coordinate values
# ----------------------------------------------------------------------------
on_x = [w % P381 for w in g1_words[:10]] + non_subgroup_g1_x[:6]
off_x = []
xx = 0
while len(off_x) < 8:
    if sqrt_fq(xx**3 + 4) is None:
        off_x.append(xx)
    xx += 1
off_x += [x for x in (rng.randrange(q) for _ in range(40)) if sqrt_fq(x**3 + 4) is None][:8]
x0 = cbrt_fq(-4)  # x with x^3 + 4 == 0, i.e. y == 0 (if it exists)
coord_values = [0, 1, 2, q - 1, q - 2, q, q + 1, P381 - 1, P381 - 2, (q - 1) // 2, (q + 1) // 2]
if x0 is not None:
    coord_values.append(x0)
coord_values += on_x + off_x + [rng.randrange(q) for _ in range(20)]
coord_values += [rng.randrange(q, P381) for _ in range(6)]

for flags in range(8):
    for x in coord_values:
        z = (flags << 381) + x
        check("decompress_G1", z)
        check("pubkey_to_G1", z.to_bytes(48, "big"))
for _ in range(300):
    z = rng.getrandbits(384)
    check("decompress_G1", z)
    check("pubkey_to_G1", z.to_bytes(48, "big"))
# every accepted word re-compresses to itself (both versions)
for flags in range(8):
    for x in coord_values:
        z = (flags << 381) + x
        for m in (old_pc, new_pc):
            try:
                pt = m.decompress_G1(z)
            except ValueError:
                continue
            assert is_on_curve(pt, b) and m.compress_G1(pt) == z
# words outside the nominal 384-bit range / other byte lengths (robustness only)
for z in (P384, P384 + P383 + 1, P384 + P383 + P382, 2**400 + P383 + 5, -1, -P383):
    check("decompress_G1", z)
for n in (0, 1, 47, 49, 96):
    check("pubkey_to_G1", bytes([0xC0] + [0] * (n - 1)) if n else b"")
    check("pubkey_to_G1", bytes(rng.getrandbits(8) for _ in range(n)))
t_g1 = time.time() - t0

# ----------------------------------------------------------------------------
# get_flags / is_point_at_infinity
# ----------------------------------------------------------------------------
for flags in range(8):
    for x in (0, 1, q, P381 - 1):
        z = (flags << 381) + x
        check("get_flags", z)
        check("is_point_at_infinity", z)
        for z2 in (None, 0, 1, q, P381, P383, P383 + P382):
            check("is_point_at_infinity", z, z2)
for z in (P384, P384 + P383, 2**500 + 7, -1, -P381, 0):
    check("get_flags", z)
    check("is_point_at_infinity", z)
    check("is_point_at_infinity", z, 0)

# ----------------------------------------------------------------------------
# modular_squareroot_in_FQ2
# ----------------------------------------------------------------------------
t0 = time.time()
sq_inputs = [
    FQ2([0, 0]),
    FQ2([1, 0]),
    FQ2([0, 1]),
    FQ2([q - 1, 0]),
    FQ2([0, q - 1]),
    FQ2([1, 1]),
    FQ2([4, 4]),
    FQ2([2, 0]),
    FQ2([0, 2]),
    FQ2([q - 1, q - 1]),
]
sq_inputs += list(old_pc.EIGHTH_ROOTS_OF_UNITY)
for _ in range(30):
    v = rand_fq2()
    sq_inputs += [v, v * v, (v * v) * FQ2([1, 1])]
for _ in range(10):
    a = rng.randrange(q)
    sq_inputs += [FQ2([a, 0]), FQ2([0, a]), FQ2([a * a, 0]), FQ2([q - a * a % q, 0])]
    # squares of purely real / purely imaginary / "diagonal" elements
    sq_inputs += [FQ2([a, 0]) ** 2, FQ2([0, a]) ** 2, FQ2([a, a]) ** 2, FQ2([a, q - a]) ** 2]
n_some = 0
for v in sq_inputs:
    o = check("modular_squareroot_in_FQ2", v)
    if o[0] == "ok" and o[1][0] != "NoneType":
        n_some += 1
assert n_some > 40
t_sqrt = time.time() - t0

# ----------------------------------------------------------------------------
# G2 points
# ----------------------------------------------------------------------------
t0 = time.time()
g2_points = []
scalars2 = [1, 2, 3, 5, curve_order - 1, 2**100 + 7] + [
    rng.randrange(1, curve_order) for _ in range(8)
]
for k in scalars2:
    pt = multiply(G2, k)
    g2_points += [pt, neg(pt), rescale(pt, rand_fq2()), rescale(pt, FQ2([0, 1]))]


def sqrt_fq2_any(v):
    """A square root of v in FQ2 computed independently (complex method), or None."""
    a, bb = int(v.coeffs[0]), int(v.coeffs[1])
    if bb == 0:
        r = sqrt_fq(a)
        if r is not None:
            return FQ2([r, 0])
        r = sqrt_fq(-a)
        assert r is not None
        return FQ2([0, r])
    n = sqrt_fq(a * a + bb * bb)
    if n is None:
        return None
    for nn in (n, q - n):
        half = (a + nn) * pow(2, -1, q) % q
        c = sqrt_fq(half)
        if c is not None and c != 0:
            d = bb * pow(2 * c, -1, q) % q
            r = FQ2([c, d])
            assert r * r == v
            return r
    return None


# non-subgroup twist points from small x
non_subgroup_g2_x = []
k = 0
while len(non_subgroup_g2_x) < 10:
    x = FQ2([k % 4, k // 4])
    k += 1
    y = sqrt_fq2_any(x**3 + b2)
    if y is not None:
        pt = (x, y, FQ2.one())
        assert is_on_curve(pt, b2)
        non_subgroup_g2_x.append(x)
        g2_points += [pt, neg(pt), rescale(pt, rand_fq2())]

# twist points whose y has zero imaginary part / zero real part, and y_im or y_re near
# (q-1)/2 : choose y, solve x^3 = y^2 - b2
special_g2 = {"im0": 0, "re0": 0, "half": 0}
half = (q - 1) // 2


def try_y(y, tag, limit):
    if special_g2[tag] >= limit:
        return
    x = cbrt_fq2(y * y - b2)
    if x is None:
        return
    pt = (x, y, FQ2.one())
    assert is_on_curve(pt, b2)
    g2_points.extend([pt, neg(pt), rescale(pt, rand_fq2())])
    special_g2[tag] += 1


d = 0
while (special_g2["im0"] < 16 or special_g2["re0"] < 16 or special_g2["half"] < 20) and d < 300:
    for a in {1 + d, q - 1 - d, half - d, half + 1 + d}:
        try_y(FQ2([a, 0]), "im0", 16)
        try_y(FQ2([0, a]), "re0", 16)
    for a in {half - d, half + 1 + d}:
        try_y(FQ2([rng.randrange(q), a]), "half", 20)
        try_y(FQ2([a, half + 1 + d]), "half", 20)
    d += 1
assert special_g2["im0"] >= 4 and special_g2["re0"] >= 4 and special_g2["half"] >= 4, special_g2

g2_infs = [
    Z2,
    (FQ2([0, 0]), FQ2([1, 0]), FQ2([0, 0])),
    (FQ2([1, 1]), FQ2([0, 1]), FQ2([0, 0])),
    (rand_fq2(), rand_fq2(), FQ2.zero()),
    (FQ2.zero(), FQ2.zero(), FQ2.zero()),
    add(G2, neg(G2)),
    multiply(G2, curve_order),
]
g2_off = [
    (FQ2([5566, 5566]), FQ2([5566, 5566]), FQ2.one()),
    (FQ2([1, 0]), FQ2([1, 0]), FQ2([1, 0])),
    (FQ2([0, 0]), FQ2([0, 0]), FQ2([1, 0])),
    (G2[0], G2[1] + FQ2.one(), G2[2]),
    (G2[0], G2[1], G2[2] * 2),
]

g2_words = []
for pt in g2_points + g2_infs + g2_off:
    o = check("compress_G2", pt)
    oo = check("G2_to_signature", pt)
    if o[0] == "ok":
        (_, z1), (_, z2) = o[1][1]
        g2_words.append((z1, z2))
        check("decompress_G2", (z1, z2))
    if oo[0] == "ok":
        bs = oo[1][1]
        assert len(bs) == 96
        check("signature_to_G2", bs)

for pt in g2_points:
    zz = new_pc.compress_G2(pt)
    if zz[0] % P381 == 0 and zz[1] == 0:
        continue  # x == 0, same remark as for G1
    back = new_pc.decompress_G2(zz)
    assert is_on_curve(back, b2)
    assert new_pc.compress_G2(back) == zz
    assert back[0] * pt[2] == pt[0] * back[2] and back[1] * pt[2] == pt[1] * back[2]
for pt in g2_infs:
    assert new_pc.decompress_G2(new_pc.compress_G2(pt)) is Z2
    assert old_pc.decompress_G2(old_pc.compress_G2(pt)) is Z2
t_g2 = time.time() - t0

# ----------------------------------------------------------------------------
# G2 word pairs: 8 flags x first word values x second word variants
# ----------------------------------------------------------------------------
t0 = time.time()
on_pairs = [(z1 % P381, z2) for z1, z2 in g2_words if z1 % P381 or z2][:14]
off_pairs = []
k = 0
while len(off_pairs) < 6:
    x = FQ2([k % 5, k // 5])
    k += 1
    if sqrt_fq2_any(x**3 + b2) is None:
        off_pairs.append((int(x.coeffs[1]), int(x.coeffs[0])))
while len(off_pairs) < 12:
    x = rand_fq2()
    if sqrt_fq2_any(x**3 + b2) is None:
        off_pairs.append((int(x.coeffs[1]), int(x.coeffs[0])))
x0 = cbrt_fq2(FQ2.zero() - b2)  # y == 0 case if it exists
if x0 is not None:
    on_pairs.append((int(x0.coeffs[1]), int(x0.coeffs[0])))

first_vals = [0, 1, q - 1, q, q + 1, P381 - 1]
second_vals = [0, 1, q - 1, q, q + 1, P381 - 1, P381, P382, P383, P383 + P382 + P381 + 5, P384 - 1]

pairs = []
for flags in range(8):
    for x1 in first_vals:
        for z2 in second_vals:
            pairs.append(((flags << 381) + x1, z2))
    for x1, x2 in on_pairs + off_pairs:
        pairs.append(((flags << 381) + x1, x2))
    for x1, x2 in on_pairs[:4] + off_pairs[:2]:
        for z2 in (0, q, q + 1, P381 + x2, P382 + x2, P383 + x2, P383 + P382, (x2 + 1) % q):
            pairs.append(((flags << 381) + x1, z2))
        for x1b in (q, q + 1, P381 - 1):
            pairs.append(((flags << 381) + x1b, x2))
for _ in range(150):
    pairs.append((rng.getrandbits(384), rng.getrandbits(384)))
    pairs.append((P383 + rng.getrandbits(381), rng.randrange(q)))
    pairs.append((P383 + rng.randrange(q), rng.randrange(q)))

accepted = 0
for z1, z2 in pairs:
    o = check("decompress_G2", (z1, z2))
    if z1 < P384 and z2 < P384:
        check("signature_to_G2", z1.to_bytes(48, "big") + z2.to_bytes(48, "big"))
    if o[0] == "ok":
        accepted += 1
        for m in (old_pc, new_pc):
            pt = m.decompress_G2((z1, z2))
            assert is_on_curve(pt, b2) and m.compress_G2(pt) == (z1, z2)
assert accepted > 50, accepted
for p in ((P384 + P383, 0), (P384 + P383 + P382, 0), (P383 + P382, P384), (-1, 0), (P383 + 1, -1)):
    check("decompress_G2", p)
for n in (0, 1, 48, 95, 97, 144):
    check("signature_to_G2", bytes([0xC0] + [0] * (n - 1)) if n else b"")
    check("signature_to_G2", bytes(rng.getrandbits(8) for _ in range(n)))
t_w2 = time.time() - t0

# module-level constants untouched
assert canon(Z1) == canon((FQ(1), FQ(1), FQ(0))) and canon(Z2) == canon(
    (FQ2.one(), FQ2.one(), FQ2.zero())
)

print(
    f"calls compared: {stats['calls']}  (ok={stats['ok']}, exceptions={stats['exc']}, "
    f"message-only differences={stats['msg_diff']})"
)
print(f"special G2 points: {special_g2}; G1 near-half/edge y points: {near_half_g1}")
print(f"timings: g1={t_g1:.1f}s sqrt={t_sqrt:.1f}s g2pts={t_g2:.1f}s g2words={t_w2:.1f}s")
for mp in sorted(msg_pairs):
    print("  message-only difference (same exception class):", mp)
if failures:
    print(f"FAILURES: {len(failures)}")
    for f in failures[:20]:
        print("  ", f)
    sys.exit(1)
print("EQUIVALENT on all inputs")
sys.exit(0)
