import os, sys; sys.path.insert(0, os.getcwd())  # noqa: E401,E702

"""
Equivalence demonstration for refactoring r3 (property C01).

r3 touches py_ecc/bls/g2_primitives.py and py_ecc/bls/point_compression.py.
The pristine copies of both files (saved next to this script) are loaded under
other module names inside the py_ecc.bls package and wired together, so that an
all-pristine stack is compared with the refactored stack of the working tree:
point (de)compression, the byte <-> point helpers, subgroup_check, and the
end-to-end Sign / Verify / PopProve / PopVerify of the three ciphersuites
(a second copy of the unchanged ciphersuites.py is bound to the pristine stack).
"""
import importlib.util
import random
import time

HERE = os.path.dirname(os.path.abspath(__file__))

import py_ecc.bls.ciphersuites as new_cs  # noqa: E402
import py_ecc.bls.g2_primitives as new_g2  # noqa: E402
import py_ecc.bls.point_compression as new_pc  # noqa: E402

for m in (new_cs, new_g2, new_pc):
    assert os.path.abspath(m.__file__).startswith(os.getcwd()), m.__file__


def load(path, modname):
    spec = importlib.util.spec_from_file_location("py_ecc.bls." + modname, path)
    mod = importlib.util.module_from_spec(spec)
    sys.modules[spec.name] = mod
    spec.loader.exec_module(mod)
    return mod


old_pc = load(os.path.join(HERE, "pristine", "point_compression.py"), "_pristine_pc")
old_g2 = load(os.path.join(HERE, "pristine", "g2_primitives.py"), "_pristine_g2")
# pristine g2_primitives must use the pristine point_compression
for nm in ("compress_G1", "compress_G2", "decompress_G1", "decompress_G2"):
    assert getattr(old_g2, nm) is getattr(new_pc, nm)
    setattr(old_g2, nm, getattr(old_pc, nm))
# the (unchanged) ciphersuites module, bound to the pristine stack
old_cs = load(new_cs.__file__, "_ciphersuites_on_pristine")
for nm in ("G1_to_pubkey", "G2_to_signature", "is_inf", "pubkey_to_G1",
           "signature_to_G2", "subgroup_check"):
    assert getattr(old_cs, nm) is getattr(new_g2, nm)
    setattr(old_cs, nm, getattr(old_g2, nm))

from py_ecc.fields import (  # noqa: E402
    optimized_bls12_381_FQ as FQ,
    optimized_bls12_381_FQ2 as FQ2,
)
from py_ecc.optimized_bls12_381 import (  # noqa: E402
    G1, G2, Z1, Z2, add, b2, curve_order as r, field_modulus as q, is_on_curve,
    multiply, neg, normalize,
)

rng = random.Random(0xC0103)
checks = 0
t0 = time.time()


def outcome(f, *a, **k):
    try:
        v = f(*a, **k)
        inner = tuple(type(c).__name__ for c in v) if isinstance(v, tuple) else None
        return ("ok", type(v).__name__, inner, v)
    except BaseException as e:  # noqa: B902
        return ("exc", type(e).__name__)


def same(label, f_old, f_new, *a, **k):
    global checks
    o, n = outcome(f_old, *a, **k), outcome(f_new, *a, **k)
    assert o == n, (label, a, k, o, n)
    checks += 1
    return n


def value(res):
    assert res[0] == "ok", res
    return res[-1]


# ------------------------------------------------------------- the sign helper
half = (q - 1) // 2
for n in [0, 1, 2, half - 1, half, half + 1, half + 2, q - 2, q - 1] + [
    rng.randrange(q) for _ in range(2000)
]:
    assert new_pc._sign_flag(n) == (n * 2) // q == (1 if n > half else 0)
    checks += 1

# --------------------------------------------------------------------- G1 side
scalars = [1, 2, 3, r - 2, r - 1, 2**254, 2**128 - 1] + [
    rng.randrange(1, r) for _ in range(25)
]
g1_points = [Z1, G1, neg(G1), (FQ(0), FQ(1), FQ(0)), (FQ(5), FQ(7), FQ(0))]
for s in scalars:
    p = multiply(G1, s)
    g1_points += [p, neg(p)]
    x, y = normalize(p)
    g1_points.append((x, y, FQ(1)))
    lam = FQ(rng.randrange(1, q))
    g1_points.append((p[0] * lam, p[1] * lam, p[2] * lam))  # other representative
# compress_G1 does not require the point to be on the curve: boundary y values
for yn in [0, 1, half - 1, half, half + 1, half + 2, q - 2, q - 1]:
    for xn in [0, 1, q - 1, rng.randrange(q)]:
        g1_points.append((FQ(xn), FQ(yn), FQ(1)))
        g1_points.append((FQ(xn) * 3, FQ(yn) * 3, FQ(3)))

g1_compressed = []
for p in g1_points:
    z = value(same("compress_G1", old_pc.compress_G1, new_pc.compress_G1, p))
    g1_compressed.append(z)
    res = same("G1_to_pubkey", old_g2.G1_to_pubkey, new_g2.G1_to_pubkey, p)
    assert value(res) == z.to_bytes(48, "big") and res[1] == "bytes"
for bad in [None, 5, (), (FQ(1),), (FQ(1), FQ(2)), (1, 2, 3), (FQ(1), FQ(2), FQ(3), FQ(4)),
            G2, Z2, "pt", b"pt"]:
    same("compress_G1-bad", old_pc.compress_G1, new_pc.compress_G1, bad)
    same("G1_to_pubkey-bad", old_g2.G1_to_pubkey, new_g2.G1_to_pubkey, bad)

g1_ints = list(g1_compressed)
for z in g1_compressed[:80]:
    g1_ints += [z ^ (1 << 381), z ^ (1 << 382), z ^ (1 << 383), z | (7 << 381),
                z % (1 << 381), z + 1, z - 1, z + (1 << 384)]
g1_ints += [0, 1, -1, 1 << 383, (1 << 383) + (1 << 382), 7 << 381, 6 << 381, 5 << 381,
            (1 << 383) + q, (1 << 383) + q - 1, (1 << 383) + q + 1, (1 << 384) - 1,
            (5 << 381) + q - 1, 1 << 384, 1 << 400]
g1_ints += [(4 << 381) + n for n in range(40)] + [(5 << 381) + n for n in range(40)]
g1_ints += [rng.getrandbits(384) for _ in range(300)]
g1_ints += [(rng.choice([4, 5]) << 381) + rng.randrange(q) for _ in range(700)]
n_ok = 0
for z in g1_ints:
    res = same("decompress_G1", old_pc.decompress_G1, new_pc.decompress_G1, z)
    n_ok += res[0] == "ok"
    if 0 <= z < (1 << 384):
        raw = z.to_bytes(48, "big")
        res2 = same("pubkey_to_G1", old_g2.pubkey_to_G1, new_g2.pubkey_to_G1, raw)
        assert res2 == res
        if res[0] == "ok":  # round trip
            assert new_pc.compress_G1(res[-1]) == old_pc.compress_G1(res[-1]) == z
assert 300 < n_ok < len(g1_ints) - 300, n_ok
for bad in [None, "1", 1.5, b"\x01", (1,), [1]]:
    same("decompress_G1-bad", old_pc.decompress_G1, new_pc.decompress_G1, bad)
pk = new_g2.G1_to_pubkey(multiply(G1, 77))
for bad in [b"", pk[:47], pk + b"\x00", b"\x00" + pk, pk * 2, bytearray(pk),
            memoryview(pk), list(pk), pk.hex(), None, 5]:
    same("pubkey_to_G1-bad", old_g2.pubkey_to_G1, new_g2.pubkey_to_G1, bad)


# --------------------------------------------------------------------- G2 side
def real_y_points():
    """Points of the twist whose y has zero imaginary part (a_flag from y_re)."""
    out = []
    t = 0
    while len(out) < 6:
        t += 1
        xr2 = (t**3 - 4) * pow(3 * t, -1, q) % q
        xr = pow(xr2, (q + 1) // 4, q)
        if xr * xr % q != xr2:
            continue
        for x_re in (xr, q - xr):
            y2 = (x_re**3 - 3 * x_re * t * t + 4) % q
            yr = pow(y2, (q + 1) // 4, q)
            if yr * yr % q != y2:
                continue
            for y_re in (yr, q - yr):
                p = (FQ2([x_re, t]), FQ2([y_re, 0]), FQ2([1, 0]))
                assert is_on_curve(p, b2)
                out.append(p)
    return out


g2_points = [Z2, G2, neg(G2), (FQ2([0, 0]), FQ2([1, 0]), FQ2([0, 0]))]
for s in scalars[:16]:
    p = multiply(G2, s)
    g2_points += [p, neg(p)]
    x, y = normalize(p)
    g2_points.append((x, y, FQ2([1, 0])))
    lam = FQ2([rng.randrange(1, q), rng.randrange(q)])
    g2_points.append((p[0] * lam, p[1] * lam, p[2] * lam))
special = real_y_points()
g2_points += special
g2_points += [add(special[0], G2), multiply(special[1], 3)]
# points that are not on the curve are refused by compress_G2
g2_points += [(G2[0], G2[1] + FQ2([1, 0]), G2[2]), (FQ2([1, 2]), FQ2([3, 4]), FQ2([1, 0])),
              (FQ2([1, 2]), FQ2([3, 4]), FQ2([0, 0]))]

g2_compressed = []
for p in g2_points:
    res = same("compress_G2", old_pc.compress_G2, new_pc.compress_G2, p)
    res2 = same("G2_to_signature", old_g2.G2_to_signature, new_g2.G2_to_signature, p)
    assert res[0] == res2[0]
    if res[0] == "ok":
        z1, z2 = res[-1]
        assert res2[-1] == z1.to_bytes(48, "big") + z2.to_bytes(48, "big")
        assert res2[1] == "bytes"
        g2_compressed.append(res[-1])
assert len(g2_compressed) == len(g2_points) - 2
for bad in [None, 5, (), (FQ2([1, 0]),), (1, 2, 3), G1, Z1, "pt", b"pt"]:
    same("compress_G2-bad", old_pc.compress_G2, new_pc.compress_G2, bad)
    same("G2_to_signature-bad", old_g2.G2_to_signature, new_g2.G2_to_signature, bad)

g2_pairs = list(g2_compressed)
for z1, z2 in g2_compressed[:24]:
    g2_pairs += [(z1 ^ (1 << 381), z2), (z1 ^ (1 << 382), z2), (z1 ^ (1 << 383), z2),
                 (z1, z2 | (1 << 383)), (z1, z2 + q), (z1, (z2 + 1) % q), (z2, z1),
                 (z1 + 1, z2)]
g2_pairs += [(0, 0), (1 << 383, 0), (3 << 382, 0), (7 << 381, 0), (3 << 382, 1),
             ((1 << 383) + q, 0), ((1 << 383) + q - 1, q - 1), (1 << 383, q),
             ((1 << 384) - 1, (1 << 384) - 1)]
g2_pairs += [((rng.choice([4, 5]) << 381) + rng.randrange(q), rng.randrange(q))
             for _ in range(60)]
g2_pairs += [(rng.getrandbits(384), rng.getrandbits(384)) for _ in range(40)]
n_ok = 0
for pair in g2_pairs:
    res = same("decompress_G2", old_pc.decompress_G2, new_pc.decompress_G2, pair)
    n_ok += res[0] == "ok"
    raw = pair[0].to_bytes(48, "big") + pair[1].to_bytes(48, "big")
    res2 = same("signature_to_G2", old_g2.signature_to_G2, new_g2.signature_to_G2, raw)
    assert res2 == res, (pair, res, res2)
    if res[0] == "ok":  # round trip
        back = same("recompress", old_pc.compress_G2, new_pc.compress_G2, res[-1])
        assert value(back) == pair
assert 60 < n_ok < len(g2_pairs) - 60, n_ok
sig = new_g2.G2_to_signature(multiply(G2, 99))
for bad in [b"", sig[:95], sig[:48], sig[:47], sig + b"\x00", b"\x00" + sig, sig * 2,
            bytearray(sig), memoryview(sig), list(sig), sig.hex(), None, 5,
            (sig[:48], sig[48:])]:
    same("signature_to_G2-bad", old_g2.signature_to_G2, new_g2.signature_to_G2, bad)
for bad in [None, 5, (1,), (1, 2, 3), ("a", "b"), (1.5, 2), [1 << 383, 0], (None, None)]:
    same("decompress_G2-bad", old_pc.decompress_G2, new_pc.decompress_G2, bad)

# -------------------------------------------------------------- subgroup_check
sub_points = [Z1, G1, Z2, G2, g1_points[6], g2_points[5], special[0], special[3],
              (FQ(0), FQ(1), FQ(0)), (FQ2([0, 0]), FQ2([1, 0]), FQ2([0, 0]))]
sub_points += [value(outcome(new_pc.decompress_G1, z)) for z in g1_ints[-3:]
               if outcome(new_pc.decompress_G1, z)[0] == "ok"]
seen = set()
for p in sub_points:
    res = same("subgroup_check", old_g2.subgroup_check, new_g2.subgroup_check, p)
    assert res[1] == "bool"
    seen.add(res[-1])
assert seen == {True, False}
for bad in [None, 5, (), (FQ(1), FQ(2)), b"x"]:
    same("subgroup_check-bad", old_g2.subgroup_check, new_g2.subgroup_check, bad)

# ------------------------------------------------- end to end, three ciphersuites
messages = [b"", b"\x00", b"a" * 55, b"b" * 56, b"c" * 63, b"d" * 64, b"e" * 65,
            bytes(range(256)), rng.randbytes(3000)]
sks = [1, r - 1, 2, r - 2, rng.randrange(1, r), rng.getrandbits(255) % (r - 1) + 1]
for i, name in enumerate(["G2Basic", "G2MessageAugmentation", "G2ProofOfPossession"]):
    co, cn = getattr(old_cs, name), getattr(new_cs, name)
    for j in range(2):
        sk = sks[2 * i + j]
        pk = value(same("SkToPk", co.SkToPk, cn.SkToPk, sk))
        for msg in [messages[(3 * i + j) % 9], messages[(3 * i + j + 5) % 9]]:
            s = value(same("Sign", co.Sign, cn.Sign, sk, msg))
            if j == 0:
                v = same("Verify", co.Verify, cn.Verify, pk, msg, s)
                assert v[-1] is True
        if j == 0:
            v = same("Verify-wrong", co.Verify, cn.Verify, pk, b"other", s)
            assert v[-1] is False
    for bad_sk in [0, r, r + 1, -1, 2**255, None, 1.0, "1"]:
        assert same("SkToPk-bad", co.SkToPk, cn.SkToPk, bad_sk) == (
            "exc", "ValidationError")
        assert same("Sign-bad", co.Sign, cn.Sign, bad_sk, b"m") == (
            "exc", "ValidationError")
    for bad_pk in [b"", pk[:47], pk + b"\x00", b"\xc0" + b"\x00" * 47, None]:
        same("Verify-badpk", co.Verify, cn.Verify, bad_pk, msg, s)
    for bad_sig in [b"", s[:95], s + b"\x00", b"\xc0" + b"\x00" * 95, None]:
        same("Verify-badsig", co.Verify, cn.Verify, pk, msg, bad_sig)
po, pn = old_cs.G2ProofOfPossession, new_cs.G2ProofOfPossession
for sk in [sks[0], sks[5]]:
    pk = pn.SkToPk(sk)
    proof = value(same("PopProve", po.PopProve, pn.PopProve, sk))
    assert same("PopVerify", po.PopVerify, pn.PopVerify, pk, proof)[-1] is True
assert same("PopVerify-wrong", po.PopVerify, pn.PopVerify, pn.SkToPk(3), proof)[-1] is False
for ikm in [b"", b"\x01" * 32, rng.randbytes(48)]:
    sk = value(same("KeyGen", po.KeyGen, pn.KeyGen, ikm))
    assert 0 < sk < r

print(f"r3 equivalence OK: {checks} comparisons in {time.time() - t0:.1f}s")
