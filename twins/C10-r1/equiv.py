import os, sys; sys.path.insert(0, os.getcwd())
"""
r1 equivalence demonstration: optimized_swu_G2 restructured (non-square branch nested
under `if not success`, for/else/break instead of flag variables).

Loads the pristine optimized_swu.py (saved next to this file) under another module name
inside the same package, and compares it with the working-tree version.
"""
import hashlib
import importlib.util
import random

HERE = os.path.dirname(os.path.abspath(__file__))


def load_pristine(filename, modname):
    spec = importlib.util.spec_from_file_location(
        modname, os.path.join(HERE, "pristine", filename)
    )
    mod = importlib.util.module_from_spec(spec)
    sys.modules[modname] = mod
    spec.loader.exec_module(mod)
    return mod


import py_ecc.optimized_bls12_381 as opt  # noqa: E402
import py_ecc.optimized_bls12_381.optimized_swu as new  # noqa: E402
from py_ecc.fields import (  # noqa: E402
    optimized_bls12_381_FQ as FQ,
    optimized_bls12_381_FQ2 as FQ2,
    optimized_bn128_FQ2 as BN_FQ2,
)
from py_ecc.optimized_bls12_381.constants import ISO_3_Z  # noqa: E402
import py_ecc.bls.hash_to_curve as h2c  # noqa: E402
from py_ecc.bls.point_compression import modular_squareroot_in_FQ2  # noqa: E402

old = load_pristine(
    "optimized_swu.py", "py_ecc.optimized_bls12_381._pristine_optimized_swu"
)
assert os.path.realpath(new.__file__).startswith(os.path.realpath(os.getcwd())), new.__file__
assert old.__file__ != new.__file__

p = opt.field_modulus
rng = random.Random(0xC10_1)


def canon(v):
    """Exact, type-aware canonical form of a result."""
    if isinstance(v, (tuple, list)):
        return (type(v).__name__, tuple(canon(e) for e in v))
    if hasattr(v, "coeffs"):
        return (type(v).__module__, type(v).__name__, tuple(int(c) for c in v.coeffs))
    if hasattr(v, "n"):
        return (type(v).__module__, type(v).__name__, int(v.n))
    return (type(v).__name__, repr(v))


def outcome(f, *args):
    try:
        return ("ok", canon(f(*args)))
    except BaseException as e:  # noqa: B902
        return ("exc", type(e).__name__)


checked = 0


def same(fo, fn, *args):
    global checked
    a, b = outcome(fo, *args), outcome(fn, *args)
    assert a == b, (fo.__name__, args, a, b)
    checked += 1
    return a


# ---- inputs -------------------------------------------------------------------
special_ints = [0, 1, 2, 3, p - 1, p - 2, (p - 1) // 2, (p + 1) // 2, (p - 3) // 4, 4, 9]
us = []
for a in special_ints:
    for b in special_ints:
        us.append(FQ2([a, b]))
us += [FQ2([0, 1]), FQ2([0, p - 1]), FQ2([1, 0]), FQ2([p - 1, 0])]
# zero real or zero imaginary part
for _ in range(40):
    us.append(FQ2([0, rng.randrange(p)]))
    us.append(FQ2([rng.randrange(p), 0]))
# exceptional inputs: Z^2 u^4 + Z u^2 = 0  <=>  u = 0 or u^2 = -1/Z
exc_sq = -(FQ2.one() / ISO_3_Z)
r = modular_squareroot_in_FQ2(exc_sq)
n_exceptional = 0
if r is not None:
    for cand in (r, -r):
        assert cand * cand == exc_sq
        us.append(cand)
        n_exceptional += 1
us.append(FQ2.zero())
# random
for _ in range(260):
    us.append(FQ2([rng.randrange(p), rng.randrange(p)]))
# small / structured
for a in range(-6, 7):
    for b in range(-2, 3):
        us.append(FQ2([a % p, b % p]))

# ---- optimized_swu_G2 on well-formed inputs -----------------------------------
branch = {"square": 0, "nonsquare": 0}
for u in us:
    res = same(old.optimized_swu_G2, new.optimized_swu_G2, u)
    assert res[0] == "ok"
# coverage statistics using pristine sqrt_division on the same (u, v)
for u in us[:200] + us[-70:]:
    t2 = u**2
    zt2 = ISO_3_Z * t2
    temp = zt2 + zt2**2
    from py_ecc.optimized_bls12_381.constants import ISO_3_A, ISO_3_B

    den = -(ISO_3_A * temp)
    num = ISO_3_B * (temp + FQ2.one())
    if den == FQ2.zero():
        den = ISO_3_Z * ISO_3_A
    v = den**3
    uu = num**3 + ISO_3_A * num * den**2 + ISO_3_B * v
    ok, _ = old.sqrt_division_FQ2(uu, v)
    branch["square" if ok else "nonsquare"] += 1
assert branch["square"] > 20 and branch["nonsquare"] > 20, branch

# ---- the untouched helpers are still identical --------------------------------
for _ in range(40):
    a = FQ2([rng.randrange(p), rng.randrange(p)])
    b = FQ2([rng.randrange(p), rng.randrange(p)])
    same(old.sqrt_division_FQ2, new.sqrt_division_FQ2, a, b)
    same(old.sqrt_division_FQ2, new.sqrt_division_FQ2, a * a * b, b)  # square ratio
same(old.sqrt_division_FQ2, new.sqrt_division_FQ2, FQ2.zero(), FQ2.one())
same(old.sqrt_division_FQ2, new.sqrt_division_FQ2, FQ2.one(), FQ2.zero())
same(old.sqrt_division_FQ2, new.sqrt_division_FQ2, FQ2.zero(), FQ2.zero())

# ---- map_to_curve (SWU followed by the isogeny), affine coordinates -----------
def map_old(u):
    return opt.normalize(old.iso_map_G2(*old.optimized_swu_G2(u)))


def map_new(u):
    return opt.normalize(h2c.map_to_curve_G2(u))


assert h2c.optimized_swu_G2 is new.optimized_swu_G2
for u in us[:160]:
    same(map_old, map_new, u)

# ---- malformed inputs: same exception classes ---------------------------------
class Weird:
    pass


malformed = [
    None, 0, 1, 5, -1, p, 2.5, "abc", b"abc", [1, 2], (1, 2), {}, Weird(),
    FQ(0), FQ(1), FQ(7), FQ(p - 1),
    BN_FQ2([1, 2]), BN_FQ2([0, 0]),
    True, 1 + 2j,
]
kinds = set()
for m in malformed:
    kinds.add(same(old.optimized_swu_G2, new.optimized_swu_G2, m)[0])
same(old.optimized_swu_G2, new.optimized_swu_G2)  # missing argument -> TypeError
assert "exc" in kinds

# ---- whole pipeline: hash_to_G2 with pristine SWU vs current tree -------------
def hash_old(msg, dst, hf):
    saved = h2c.optimized_swu_G2
    h2c.optimized_swu_G2 = old.optimized_swu_G2
    try:
        return opt.normalize(h2c.hash_to_G2(msg, dst, hf))
    finally:
        h2c.optimized_swu_G2 = saved


def hash_new(msg, dst, hf):
    return opt.normalize(h2c.hash_to_G2(msg, dst, hf))


cases = [
    (b"", b"QUUX-V01-CS02-with-BLS12381G2_XMD:SHA-256_SSWU_RO_", hashlib.sha256),
    (b"abc", b"QUUX-V01-CS02-with-BLS12381G2_XMD:SHA-256_SSWU_RO_", hashlib.sha256),
    (b"abcdef0123456789", b"", hashlib.sha256),
    (b"\x00" * 64, b"D" * 255, hashlib.sha256),
    (b"x", b"D" * 256, hashlib.sha256),  # tag too long -> ValueError in both
    (b"msg", b"tag", hashlib.sha512),
    (b"msg", b"tag", hashlib.sha384),
    (b"msg", b"tag", hashlib.sha3_256),
    (b"msg", b"tag", hashlib.blake2b),
    ("not-bytes", b"tag", hashlib.sha256),
    (b"msg", "not-bytes", hashlib.sha256),
    (b"msg", b"tag", None),
]
for i in range(6):
    cases.append((rng.randbytes(rng.randrange(0, 90)), rng.randbytes(rng.randrange(0, 60)), hashlib.sha256))
for c in cases:
    res = same(hash_old, hash_new, *c)
    if res[0] == "ok":
        pt = h2c.hash_to_G2(*c)
        assert opt.is_on_curve(pt, opt.b2)
        assert opt.is_inf(opt.multiply(pt, opt.curve_order))

print(
    f"r1 equiv OK: {checked} comparisons, {len(us)} field elements "
    f"({n_exceptional} exceptional roots + u=0), branch coverage {branch}"
)
