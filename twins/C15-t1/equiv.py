import os, sys; sys.path.insert(0, os.getcwd())  # noqa: E702

"""
Equivalence demonstration for property C15 (expand_message_xmd / hash_to_field).

Loads the PRISTINE copies of py_ecc/bls/hash.py and py_ecc/bls/hash_to_curve.py
(saved next to this script under pristine/) under different module names and
compares them with the versions in the working tree (cwd) on a broad input set:
return values, return types and exception classes (and messages) must agree.
Also checks both against an independent RFC 9380 section 5.3.1 / 5.2 reference
written here from the specification.
"""

import hashlib
import importlib
import importlib.util
import itertools
import random
import time

HERE = os.path.dirname(os.path.abspath(__file__))
T0 = time.time()

# ---------------------------------------------------------------- load modules
import py_ecc.bls  # noqa: E402  (package of the working tree)

assert os.path.abspath(py_ecc.bls.__file__).startswith(os.getcwd()), py_ecc.bls.__file__

new_hash = importlib.import_module("py_ecc.bls.hash")
new_h2c = importlib.import_module("py_ecc.bls.hash_to_curve")
constants = importlib.import_module("py_ecc.bls.constants")


def load_pristine(name, filename):
    # name lives inside the py_ecc.bls package so that relative imports work
    spec = importlib.util.spec_from_file_location(
        "py_ecc.bls." + name, os.path.join(HERE, "pristine", filename)
    )
    mod = importlib.util.module_from_spec(spec)
    sys.modules["py_ecc.bls." + name] = mod
    spec.loader.exec_module(mod)
    return mod


old_hash = load_pristine("_pristine_hash", "hash.py")
old_h2c = load_pristine("_pristine_hash_to_curve", "hash_to_curve.py")
# the pristine hash_to_curve did `from .hash import ...` which resolved to the
# working-tree hash module; rebind to the pristine functions so that the "old"
# side is pristine end to end.
old_h2c.expand_message_xmd = old_hash.expand_message_xmd
old_h2c.os2ip = old_hash.os2ip
assert old_hash.__file__ != new_hash.__file__
assert old_h2c.__file__ != new_h2c.__file__

P = 0x1A0111EA397FE69A4B1BA7B6434BACD764774B84F38512BF6730D2A0F6B0F6241EABFFFEB153FFFFB9FEFFFFFFFFAAAB  # noqa: E501
from py_ecc.optimized_bls12_381 import field_modulus  # noqa: E402

assert field_modulus == P

N_CHECKS = 0


# ---------------------------------------------------------------- comparison
def outcome(fn, *args):
    try:
        r = fn(*args)
    except BaseException as e:  # noqa: B902
        if isinstance(e, (KeyboardInterrupt, SystemExit)):
            raise
        return ("raise", type(e), str(e))
    return ("ok", describe(r))


def describe(r):
    """value + exact type/representation, recursively"""
    if isinstance(r, (tuple, list)):
        return (type(r).__name__, tuple(describe(x) for x in r))
    if hasattr(r, "coeffs"):  # FQP
        return (
            type(r).__module__,
            type(r).__name__,
            type(r.coeffs).__name__,
            tuple(describe(c) for c in r.coeffs),
        )
    if hasattr(r, "n") and hasattr(r, "field_modulus"):  # FQ
        return (type(r).__module__, type(r).__name__, describe(r.n))
    return (type(r).__name__, r)


def same(label, f_old, f_new, *args):
    global N_CHECKS
    a = outcome(f_old, *args)
    b = outcome(f_new, *args)
    N_CHECKS += 1
    if a != b:
        print("MISMATCH", label, [repr(x)[:80] for x in args])
        print("  pristine:", repr(a)[:300])
        print("  edited  :", repr(b)[:300])
        sys.exit(1)
    return a


# ---------------------------------------------------------------- reference
def ref_expand_message_xmd(msg, dst, n, H):
    """RFC 9380 5.3.1, written independently (integer XOR, ceil by integers)."""
    b_len = H().digest_size
    s_len = H().block_size
    ell = (n + b_len - 1) // b_len
    if ell > 255 or n > 65535 or len(dst) > 255:
        raise ValueError("abort")
    dst_prime = dst + len(dst).to_bytes(1, "big")
    msg_prime = bytes(s_len) + msg + n.to_bytes(2, "big") + b"\x00" + dst_prime
    b0 = H(msg_prime).digest()
    bi = H(b0 + b"\x01" + dst_prime).digest()
    out = bi
    for i in range(2, ell + 1):
        x = (int.from_bytes(b0, "big") ^ int.from_bytes(bi, "big")).to_bytes(
            b_len, "big"
        )
        bi = H(x + i.to_bytes(1, "big") + dst_prime).digest()
        out += bi
    return out[:n]


def ref_hash_to_field(msg, count, dst, H, m):
    L = 64
    u = ref_expand_message_xmd(msg, dst, count * m * L, H)
    res = []
    for i in range(count):
        e = []
        for j in range(m):
            off = L * (j + i * m)
            e.append(int.from_bytes(u[off : off + L], "big") % P)
        res.append(tuple(e))
    return res


# RFC 9380 appendix K.1 vector (SHA-256, len_in_bytes = 0x20, msg = "")
K1_DST = b"QUUX-V01-CS02-with-expander-SHA256-128"
K1_OUT = bytes.fromhex(
    "68a985b87eb6b46952128911f2a4412bbc302a9d759667f87f7a21d803f07235"
)
assert ref_expand_message_xmd(b"", K1_DST, 32, hashlib.sha256) == K1_OUT
assert new_hash.expand_message_xmd(b"", K1_DST, 32, hashlib.sha256) == K1_OUT
assert old_hash.expand_message_xmd(b"", K1_DST, 32, hashlib.sha256) == K1_OUT

# ---------------------------------------------------------------- inputs
rnd = random.Random(0xC15)


def rb(n):
    return bytes(rnd.getrandbits(8) for _ in range(n))


HASHES = {
    "sha256": hashlib.sha256,
    "sha512": hashlib.sha512,
    "sha384": hashlib.sha384,
    "sha3_256": hashlib.sha3_256,
    "blake2b": hashlib.blake2b,
    "sha1": hashlib.sha1,
    "sha224": hashlib.sha224,
    "sha3_512": hashlib.sha3_512,
    "blake2s": hashlib.blake2s,
    "md5": hashlib.md5,
}
MSG_LENS = [0, 1, 3, 54, 55, 56, 63, 64, 65, 71, 72, 111, 112, 127, 128, 129, 135, 136,
            137, 1023, 1024, 4097]
MSGS = [rb(n) for n in MSG_LENS] + [b"abc", b"\x00" * 64, b"\xff" * 200]
DST_LENS = [0, 1, 16, 43, 254, 255, 256, 257, 1000]
DSTS = [rb(n) for n in DST_LENS] + [K1_DST, b"BLS_SIG_BLS12381G2_XMD:SHA-256_SSWU_RO_POP_"]


def out_lens(b):
    return [0, 1, 2, 31, 32, 33, 47, 48, 49, 63, 64, 65, 96, 128, 129, 256, 1000,
            b - 1, b, b + 1, 2 * b - 1, 2 * b, 2 * b + 1, 3 * b, 254 * b, 254 * b + 1,
            255 * b - 1, 255 * b, 255 * b + 1, 256 * b, 65535, 65536, 65537, 1 << 20]


# ---------------------------------------------------------------- 1. expand_message_xmd
# (a) full grid on a reduced message set, (b) all messages on a reduced grid
for hname, H in HASHES.items():
    b = H().digest_size
    for n in out_lens(b):
        for dst in DSTS:
            for msg in (MSGS[0], MSGS[7], MSGS[-3]):
                o = same("xmd/" + hname, old_hash.expand_message_xmd,
                         new_hash.expand_message_xmd, msg, dst, n, H)
                r = outcome(ref_expand_message_xmd, msg, dst, n, H)
                # agreement with the spec: same bytes, or both refuse
                if r[0] == "ok":
                    assert o == r, (hname, n, len(dst), o, r)
                else:
                    assert o[0] == "raise" and o[1] is ValueError, (hname, n, len(dst), o)
    for msg in MSGS:
        for n in (0, 1, b, b + 1, 128, 256, 255 * b):
            for dst in (DSTS[0], DSTS[3], DSTS[5], DSTS[6]):
                o = same("xmd-msg/" + hname, old_hash.expand_message_xmd,
                         new_hash.expand_message_xmd, msg, dst, n, H)
                r = outcome(ref_expand_message_xmd, msg, dst, n, H)
                if r[0] == "ok":
                    assert o == r
                else:
                    assert o[0] == "raise" and o[1] is ValueError
print("expand_message_xmd grid done", N_CHECKS, "checks", round(time.time() - T0, 1), "s")


# ---------------------------------------------------------------- 2. malformed / odd arguments
class NotAHash:
    pass


def const_hash_factory(data=b""):
    # a duck-typed "hash" with digest_size / block_size / digest()
    class _H:
        digest_size = 16
        block_size = 32

        def __init__(self, d=b""):
            self._d = bytes(d)

        def digest(self):
            return hashlib.md5(self._d).digest()

    return _H


ODD_MSGS = [b"m", bytearray(b"m"), memoryview(b"m"), "m", None, 5, [1, 2], b""]
ODD_DSTS = [b"d", bytearray(b"d" * 3), bytearray(b"d" * 256), "d", "d" * 256, None, 7,
            [1, 2, 3], list(range(256)), (1, 2), b"x" * 255, b"x" * 256, memoryview(b"dd")]
ODD_LENS = [-1, -32, -33, -65536, 0, True, False, 1.0, 32.0, 33.5, -0.5, 8160.0, 8161.0,
            float("nan"), float("inf"), -float("inf"), None, "32", b"32", 10 ** 400,
            -(10 ** 400), 1 << 64, 65535, 65536, 8160, 8161, 2 ** 53 + 1, 1j]
ODD_HASHES = [hashlib.sha256, hashlib.shake_128, hashlib.shake_256, None, NotAHash,
              const_hash_factory(), lambda *a: None, 5, hashlib.sha3_256, hashlib.blake2b,
              "sha256", hashlib.new]
for msg, dst, n, H in itertools.product(ODD_MSGS, ODD_DSTS, ODD_LENS, ODD_HASHES):
    same("xmd-odd", old_hash.expand_message_xmd, new_hash.expand_message_xmd, msg, dst, n, H)
print("odd-argument grid done", N_CHECKS, "checks", round(time.time() - T0, 1), "s")

# bad arity
for args in [(), (b"m",), (b"m", b"d"), (b"m", b"d", 32), (b"m", b"d", 32, hashlib.sha256, 1)]:
    same("xmd-arity", old_hash.expand_message_xmd, new_hash.expand_message_xmd, *args)

# arguments are not mutated
ba_m, ba_d = bytearray(b"message"), bytearray(b"dst-tag")
for mod in (old_hash, new_hash):
    mod.expand_message_xmd(ba_m, ba_d, 100, hashlib.sha256)
assert ba_m == bytearray(b"message") and ba_d == bytearray(b"dst-tag")

# ---------------------------------------------------------------- 3. helper functions
for a, b_ in [(b"", b""), (b"\x01", b""), (b"", b"\x01"), (b"abc", b"abcdef"),
              (rb(32), rb(32)), (rb(64), rb(32)), (rb(32), rb(64)), ([1, 2, 3], [4, 5, 6]),
              ([300], [1]), ([1, 2], b"ab"), (bytearray(b"ab"), b"cd"), ("ab", "cd"),
              (b"ab", "cd"), (None, b"a"), (b"a", None), (5, 6), ([1.5], [2]),
              ([-1], [0]), ([255], [256]), (memoryview(b"abc"), b"xyz"), ((1, 2), (3, 4, 5)),
              (iter(b"abc"), iter(b"xyz")), (range(4), range(4, 8))]:
    # iterators are single-use: rebuild per side
    if hasattr(a, "__next__"):
        ra = outcome(old_hash.xor, iter(b"abc"), iter(b"xyz"))
        rb_ = outcome(new_hash.xor, iter(b"abc"), iter(b"xyz"))
        assert ra == rb_, (ra, rb_)
        N_CHECKS += 1
    else:
        same("xor", old_hash.xor, new_hash.xor, a, b_)
for x, n in [(0, 0), (0, 1), (1, 0), (255, 1), (256, 1), (-1, 1), (65535, 2), (65536, 2),
             (1, -1), (1.0, 1), (True, 1), (None, 1), (5, None), (P, 48), (P, 47), (2 ** 512 - 1, 64)]:
    same("i2osp", old_hash.i2osp, new_hash.i2osp, x, n)
for x in [b"", b"\x00", b"\x01\x00", rb(64), bytearray(b"\x01\x02"), "ab", None, 5, [1, 2], [256],
          memoryview(b"\x05")]:
    same("os2ip", old_hash.os2ip, new_hash.os2ip, x)
for x in [b"", b"abc", bytearray(b"abc"), "abc", None]:
    same("sha256", old_hash.sha256, new_hash.sha256, x)
same("hkdf_extract", old_hash.hkdf_extract, new_hash.hkdf_extract, b"salt", b"ikm")
for ln in (0, 1, 32, 33, 255 * 32, 255 * 32 + 1):
    same("hkdf_expand", old_hash.hkdf_expand, new_hash.hkdf_expand, b"p" * 32, b"info", ln)
assert sorted(n for n in dir(old_hash) if not n.startswith("_")) == sorted(
    n for n in dir(new_hash) if not n.startswith("_")
), "public names of hash.py changed"
assert sorted(n for n in dir(old_h2c) if not n.startswith("_")) == sorted(
    n for n in dir(new_h2c) if not n.startswith("_")
), "public names of hash_to_curve.py changed"
print("helpers done", N_CHECKS, "checks", round(time.time() - T0, 1), "s")

# ---------------------------------------------------------------- 4. hash_to_field
H2F_HASHES = ["sha256", "sha512", "sha384", "sha3_256", "blake2b", "sha1"]
COUNTS = list(range(0, 9)) + [15, 16, 31, 32, 63, 64, 65, 127, 128, 255, 511, 512, 600]
H2F_MSGS = [MSGS[0], MSGS[1], MSGS[7], MSGS[8], MSGS[9], MSGS[-5], b"abc"]
H2F_DSTS = [DSTS[0], DSTS[1], DSTS[3], DSTS[4], DSTS[5], DSTS[6], DSTS[-1]]
for hname in H2F_HASHES:
    H = HASHES[hname]
    for count in COUNTS:
        for msg in H2F_MSGS:
            for dst in H2F_DSTS:
                if count > 8 and (msg is not H2F_MSGS[2] or dst not in (H2F_DSTS[2], H2F_DSTS[5])):
                    continue
                for m, fo, fn in ((2, old_h2c.hash_to_field_FQ2, new_h2c.hash_to_field_FQ2),
                                  (1, old_h2c.hash_to_field_FQ, new_h2c.hash_to_field_FQ)):
                    o = same("h2f%d/%s" % (m, hname), fo, fn, msg, count, dst, H)
                    r = outcome(ref_hash_to_field, msg, count, dst, H, m)
                    if r[0] == "ok":
                        assert o[0] == "ok", (hname, count, o)
                        typ, elems = o[1]
                        assert typ == "tuple" and len(elems) == count
                        ref = r[1][1]
                        for el, (_t, re) in zip(elems, ref):
                            if m == 2:
                                assert el[1] == "optimized_bls12_381_FQ2"
                                got = tuple(c[-1] for c in el[3])
                                # coefficients are FQ objects in optimized FQP? record ints
                                got = tuple(g if isinstance(g, int) else g for g in got)
                            else:
                                assert el[1] == "optimized_bls12_381_FQ"
                                got = (el[2][1],)
                            want = tuple(x[1] for x in re)
                            assert got == want, (hname, count, got, want)
                    else:
                        assert o[0] == "raise" and o[1] is ValueError, (hname, count, o)
print("hash_to_field grid done", N_CHECKS, "checks", round(time.time() - T0, 1), "s")

# odd arguments for hash_to_field
for count in [-1, -2, True, False, 1.0, 2.0, 0.5, None, "a", "2", [1], 1 << 70, 10 ** 400, 2 ** 53,
              float("nan"), float("inf"), 1j]:
    for msg in (b"m", "m", None, bytearray(b"mm")):
        for dst in (b"d", "d", None, b"x" * 256, bytearray(b"dd")):
            for H in (hashlib.sha256, hashlib.shake_128, None, const_hash_factory(), hashlib.sha512):
                same("h2f2-odd", old_h2c.hash_to_field_FQ2, new_h2c.hash_to_field_FQ2, msg, count, dst, H)
                same("h2f1-odd", old_h2c.hash_to_field_FQ, new_h2c.hash_to_field_FQ, msg, count, dst, H)
for args in [(), (b"m",), (b"m", 2), (b"m", 2, b"d"), (b"m", 2, b"d", hashlib.sha256, 1)]:
    same("h2f2-arity", old_h2c.hash_to_field_FQ2, new_h2c.hash_to_field_FQ2, *args)
    same("h2f1-arity", old_h2c.hash_to_field_FQ, new_h2c.hash_to_field_FQ, *args)
print("hash_to_field odd done", N_CHECKS, "checks", round(time.time() - T0, 1), "s")

# ---------------------------------------------------------------- 5. call histories
# Repeat / interleave calls with equal and different arguments, in a random
# order, on the edited module only, and compare with a table computed ONCE from
# the pristine module: no call may influence a later one.
cases = []
for _ in range(60):
    H = HASHES[rnd.choice(["sha256", "sha512", "sha384", "sha3_256", "blake2b"])]
    cases.append((rb(rnd.choice([0, 1, 64, 65, 200])), rb(rnd.choice([0, 1, 254, 255, 256])),
                  rnd.choice([0, 1, 31, 32, 33, 64, 255 * H().digest_size,
                              255 * H().digest_size + 1, 65535, 65536]), H))
table = [outcome(old_hash.expand_message_xmd, *c) for c in cases]
f_cases = []
for _ in range(40):
    H = HASHES[rnd.choice(["sha256", "sha512", "sha3_256", "blake2b"])]
    f_cases.append((rb(rnd.choice([0, 1, 64, 65])), rnd.choice([0, 1, 2, 3, 8, 64]),
                    rb(rnd.choice([0, 1, 255, 256])), H))
f_table2 = [outcome(old_h2c.hash_to_field_FQ2, *c) for c in f_cases]
f_table1 = [outcome(old_h2c.hash_to_field_FQ, *c) for c in f_cases]
const_before = (constants.HASH_TO_FIELD_L, field_modulus)
schedule = ([("x", i) for i in range(len(cases))] * 3
            + [("f2", i) for i in range(len(f_cases))] * 2
            + [("f1", i) for i in range(len(f_cases))] * 2)
rnd.shuffle(schedule)
for kind, i in schedule:
    if kind == "x":
        got, want = outcome(new_hash.expand_message_xmd, *cases[i]), table[i]
    elif kind == "f2":
        got, want = outcome(new_h2c.hash_to_field_FQ2, *f_cases[i]), f_table2[i]
    else:
        got, want = outcome(new_h2c.hash_to_field_FQ, *f_cases[i]), f_table1[i]
    N_CHECKS += 1
    if got != want:
        print("HISTORY MISMATCH", kind, i, repr(got)[:200], repr(want)[:200])
        sys.exit(1)
assert const_before == (constants.HASH_TO_FIELD_L, field_modulus)
assert constants.HASH_TO_FIELD_L == 64 and type(constants.HASH_TO_FIELD_L) is int
# returned objects are fresh: mutating one result does not change the next
r1 = new_h2c.hash_to_field_FQ2(b"abc", 2, b"dst", hashlib.sha256)
r2 = new_h2c.hash_to_field_FQ2(b"abc", 2, b"dst", hashlib.sha256)
assert r1 == r2 and r1 is not r2 and r1[0] is not r2[0]
print("call-history done", N_CHECKS, "checks", round(time.time() - T0, 1), "s")

# ---------------------------------------------------------------- 6. end to end (a few)
from py_ecc.optimized_bls12_381 import normalize  # noqa: E402

DST_G2 = b"QUUX-V01-CS02-with-BLS12381G2_XMD:SHA-256_SSWU_RO_"
DST_G1 = b"QUUX-V01-CS02-with-BLS12381G1_XMD:SHA-256_SSWU_RO_"
for msg in (b"", b"abc", b"abcdef0123456789"):
    a = old_h2c.hash_to_G2(msg, DST_G2, hashlib.sha256)
    b_ = new_h2c.hash_to_G2(msg, DST_G2, hashlib.sha256)
    assert describe(a) == describe(b_)
    a = old_h2c.hash_to_G1(msg, DST_G1, hashlib.sha256)
    b_ = new_h2c.hash_to_G1(msg, DST_G1, hashlib.sha256)
    assert describe(a) == describe(b_)
    N_CHECKS += 2
# RFC 9380 J.10.1, msg = "" : P.x (c0) of the G2 point
x, _y = normalize(new_h2c.hash_to_G2(b"", DST_G2, hashlib.sha256))
assert x.coeffs[0] == 0x0141EBFBDCA40EB85B87142E130AB689C673CF60F1A3E98D69335266F30D9B8D4AC44C1038E9DCDD5393FAF5C41FB78A  # noqa: E501
# RFC 9380 J.9.1, msg = "" : P.x of the G1 point
x, _y = normalize(new_h2c.hash_to_G1(b"", DST_G1, hashlib.sha256))
assert x == 0x052926ADD2207B76CA4FA57A8734416C8DC95E24501772C814278700EED6D1E4E8CF62D9C09DB0FAC349612B759E79A1  # noqa: E501

print("OK: %d comparisons identical, %.1f s" % (N_CHECKS, time.time() - T0))
sys.exit(0)
