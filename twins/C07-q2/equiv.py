import os, sys; sys.path.insert(0, os.getcwd())  # noqa: E401,E702

# Equivalence demonstration for q2 (C07): py_ecc/bn128/bn128_curve.py
# data-flow edit: w**2 / w**3 precomputed once at module level, -m * newx shared
# between the two evaluations of the chord in add(), `not a == b` -> `a != b`,
# `pt is None` tests routed through the module's own is_inf(), twist reads each
# FQ2 coefficient once.  Run with the worktree as current directory.
import importlib.util
import itertools
import random

HERE = os.path.dirname(os.path.abspath(__file__))

import py_ecc.bn128.bn128_curve as new  # noqa: E402
from py_ecc.fields import (  # noqa: E402
    bn128_FQ as FQ,
    bn128_FQ2 as FQ2,
    bn128_FQ12 as FQ12,
    bls12_381_FQ2 as BLS_FQ2,
)
from py_ecc.fields.field_elements import (  # noqa: E402
    FQ as BaseFQ,
    FQ2 as BaseFQ2,
)

assert os.path.realpath(new.__file__).startswith(os.path.realpath(os.getcwd())), new.__file__

spec = importlib.util.spec_from_file_location(
    "pristine_bn128_curve", os.path.join(HERE, "pristine", "bn128_curve.py")
)
old = importlib.util.module_from_spec(spec)
spec.loader.exec_module(old)

assert hasattr(new, "w_squared") and not hasattr(old, "w_squared")

rng = random.Random(0xC07 + 2)
P = new.field_modulus
R = new.curve_order
CHECKS = 0


def rep(v):
    """Exact, structural representation of a value (no field __eq__ involved)."""
    if v is None or isinstance(v, (bool, int, str, float)):
        return ("lit", type(v).__name__, repr(v))
    if isinstance(v, (tuple, list)):
        return (type(v).__name__,) + tuple(rep(e) for e in v)
    if hasattr(v, "coeffs"):
        return ("FQP", type(v).__name__, tuple(rep(c) for c in v.coeffs))
    if hasattr(v, "n"):
        # the per-instance coefficient classes of FQP all have the same name
        return ("FQ", type(v).__name__, v.n)
    return ("obj", type(v).__name__, repr(v))


def outcome(f, *args):
    before = rep(args)
    try:
        r = f(*args)
        out = ("ok", rep(r))
    except RecursionError:
        raise
    except Exception as e:  # noqa: BLE001
        r = None
        out = ("exc", type(e).__name__)
    assert rep(args) == before, "arguments were mutated"
    return out, r


W_SNAPSHOT = (rep(new.w), rep(new.w_squared), rep(new.w_cubed))


def same(name, *args):
    """Same result / exception class; same aliasing of the result with arguments."""
    global CHECKS
    o_new, r_new = outcome(getattr(new, name), *args)
    o_old, r_old = outcome(getattr(old, name), *args)
    assert o_new == o_old, (name, args, o_new, o_old)
    if r_new is not None or r_old is not None:
        assert [r_new is a for a in args] == [r_old is a for a in args], (name, args)
    CHECKS += 1
    return o_new


# ---------------------------------------------------------------- constants
for cname in ("field_modulus", "curve_order", "b", "b2", "b12", "G1", "G2", "G12",
              "Z1", "Z2", "w"):
    assert rep(getattr(new, cname)) == rep(getattr(old, cname)), cname
assert rep(new.w_squared) == rep(old.w ** 2) == rep(new.w ** 2)
assert rep(new.w_cubed) == rep(old.w ** 3) == rep(new.w ** 3)
const_snapshot = {c: rep(getattr(new, c)) for c in ("G1", "G2", "G12", "w", "w_squared",
                                                     "w_cubed", "b", "b2", "b12")}


# ---------------------------------------------------------------- point sets
def sqrt_fq(a):
    y = a ** ((P + 1) // 4)
    return y if y * y == a else None


def rand_fq2():
    return FQ2([rng.randrange(P), rng.randrange(P)])


def rand_fq12():
    return FQ12([rng.randrange(P) for _ in range(12)])


def copy_pt(pt):
    if pt is None:
        return None
    return tuple(type(c)(c.coeffs) if hasattr(c, "coeffs") else type(c)(c.n) for c in pt)


G1, G2, G12 = old.G1, old.G2, old.G12
g1_pts = [G1, old.double(G1), old.multiply(G1, 3), old.multiply(G1, R - 1),
          old.multiply(G1, R - 2), old.multiply(G1, rng.randrange(R))]
g2_pts = [G2, old.double(G2), old.multiply(G2, 3), old.multiply(G2, R - 1),
          old.multiply(G2, rng.randrange(R))]
g12_pts = [G12, old.double(G12), old.multiply(G12, 3), old.twist(g2_pts[3])]
# bn128 G1 has cofactor 1; points "outside" are taken off the curve / of order 2 shape
# (y == 0): the formulas and the ValueError self-check must agree on those as well
g1_junk = [(FQ(rng.randrange(P)), FQ(rng.randrange(P))) for _ in range(4)] + [
    (FQ(0), FQ(0)), (FQ(5), FQ(0)), (FQ(0), FQ(2)), (FQ(P - 1), FQ(P - 1)), (FQ(1), FQ(3))]
g2_junk = [(rand_fq2(), rand_fq2()) for _ in range(3)] + [
    (rand_fq2(), FQ2.zero()), (FQ2.zero(), FQ2.zero())]
g12_junk = [(rand_fq12(), rand_fq12()), (rand_fq12(), FQ12.zero())]
# points of the twist curve outside the order-r subgroup (cofactor > 1): x in FQ, y^2 in FQ
# is a square in FQ2, so take y = sqrt in FQ or i * sqrt(-a)
g2_off = []
while len(g2_off) < 2:
    x = rand_fq2()
    # y**2 = x**3 + b2 solved with the standard p = 3 mod 4 FQ2 square root
    a = x * x * x + new.b2
    a1 = a ** ((P - 3) // 4)
    alpha = a1 * a1 * a
    x0 = a1 * a
    if alpha == FQ2([P - 1, 0]):
        y = FQ2([0, 1]) * x0
    else:
        y = (alpha + FQ2.one()) ** ((P - 1) // 2) * x0
    if y * y == a:
        g2_off.append((x, y))


def closure(pts):
    out = []
    for pt in pts:
        out += [pt, old.neg(pt)]
    return out + [None]


g1_all = closure(g1_pts + g1_junk)
g2_all = closure(g2_pts + g2_junk + g2_off)
g12_all = closure(g12_pts + g12_junk)
assert all(new.is_on_curve(pt, new.b2) for pt in g2_off)
assert not new.is_inf(new.multiply(g2_off[0], R))

# ---------------------------------------------------------------- add / double / neg / eq / is_on_curve
for pts, bb in ((g1_all, new.b), (g2_all, new.b2), (g12_all, new.b12)):
    for p, q in itertools.product(pts, repeat=2):
        same("add", p, q)
        same("eq", p, q)
    for p in pts:
        same("double", p)
        same("neg", p)
        same("is_inf", p)
        same("is_on_curve", p, bb)
        same("add", p, copy_pt(p))
        same("add", p, old.neg(p))
for pts in (g1_all, g2_all):
    for _ in range(150):
        a, b_, c = rng.choice(pts), rng.choice(pts), rng.choice(pts)
        for f in (lambda m: outcome(lambda: m.add(m.add(a, b_), c))[0],
                  lambda m: outcome(lambda: m.add(a, m.add(b_, c)))[0]):
            assert f(new) == f(old)
            CHECKS += 1

# ---------------------------------------------------------------- multiply
scalars = [0, 1, 2, 3, 4, 5, 7, 8, 255, 256, R - 1, R, R + 1, 2 * P - R, P, 2 * R,
           True, False]
scalars += [rng.getrandbits(k) for k in (8, 64, 254, 256, 381, 512, 640, 640)]
for pt in (G1, g1_pts[-1], None, g1_junk[0], (FQ(5), FQ(0))):
    for n in scalars:
        same("multiply", pt, n)
for n in scalars:
    same("multiply", G2, n)
    same("multiply", None, n)
for n in [0, 1, 2, 3, 6, R, R + 1, 2 * P - R, rng.getrandbits(640)]:
    same("multiply", g2_off[0], n)
# the reference FQ12 arithmetic is slow: ~4.5 s per 254-bit scalar and version
for n in [0, 1, 2, 3, 5, 6, R - 1, R, R + 1, 2 * P - R, rng.getrandbits(80)]:
    same("multiply", G12, n)
for pt in (G1, G2):
    acc_new, acc_old = None, None
    for n in range(0, 40):
        assert same("multiply", pt, n)[0] == "ok"
        assert new.eq(new.multiply(pt, n), acc_new) and old.eq(old.multiply(pt, n), acc_old)
        acc_new, acc_old = new.add(acc_new, pt), old.add(acc_old, pt)
        assert rep(acc_new) == rep(acc_old)

# ---------------------------------------------------------------- twist
tw_inputs = list(g2_all) + [
    (FQ2([0, 0]), FQ2([0, 0])),
    (FQ2([P - 1, P - 1]), FQ2([0, P - 1])),
    (FQ2([1, 0]), FQ2([0, 1])),
    (BLS_FQ2([3, 4]), BLS_FQ2([5, 6])),  # another curve's FQ2 class
    g12_pts[0],  # FQ12 coordinates: only coeffs[0:2] are read
]
for pt in tw_inputs:
    assert same("twist", pt)[0] == "ok"
for pt in g2_pts + g2_off:
    q = rng.choice(g2_pts)
    assert rep(new.add(new.twist(pt), new.twist(q))) == rep(old.add(old.twist(pt), old.twist(q)))
    assert rep(new.twist(new.add(pt, q))) == rep(old.twist(old.add(pt, q)))
    assert new.eq(new.twist(new.add(pt, q)), new.add(new.twist(pt), new.twist(q)))
    assert new.is_on_curve(new.twist(pt), new.b12)
    CHECKS += 2
assert (rep(new.w), rep(new.w_squared), rep(new.w_cubed)) == W_SNAPSHOT


# ---------------------------------------------------------------- malformed inputs
class NoCoeffs:
    pass


class BadCoeffs:  # coefficients that cannot be scaled / subtracted
    coeffs = ("a", None)


class ShortCoeffs:
    coeffs = (FQ(1),)


class IntCoeffs:
    coeffs = (7, 3)


class FloatCoeffs:
    coeffs = (1.5, 2.25)


malformed_points = [
    (), (FQ(1),), (FQ(1), FQ(2), FQ(1)), (1, 2), (1.0, 2.0), (3, 0), (FQ(1), 2), (1, FQ(2)),
    (FQ(1), None), (None, FQ(2)), "ab", "abc", [FQ(1), FQ(2)], [G2[0], G2[1]], 0, False,
    (FQ2([1, 2]), FQ(2)), (FQ(1), FQ2([1, 2])), (FQ2([1, 2]), FQ12.one()),
    (FQ12.one(), FQ2([1, 2])), (NoCoeffs(), FQ2([1, 2])), (FQ2([1, 2]), NoCoeffs()),
    (BadCoeffs(), NoCoeffs()), (NoCoeffs(), BadCoeffs()), (ShortCoeffs(), NoCoeffs()),
    (FQ2([1, 2]), ShortCoeffs()), (IntCoeffs(), IntCoeffs()), (IntCoeffs(), BadCoeffs()),
    (FloatCoeffs(), IntCoeffs()), (IntCoeffs(), FloatCoeffs()), (FloatCoeffs(), NoCoeffs()),
]
good = [G1, G2, G12, None, (FQ(5), FQ(0))]
for m in malformed_points:
    same("twist", m)
    same("double", m)
    same("neg", m)
    same("is_inf", m)
    same("is_on_curve", m, new.b)
    same("is_on_curve", m, new.b2)
    for g in good:
        same("add", m, g)
        same("add", g, m)
    same("add", m, m)
    for n in (0, 1, 2, 5):
        same("multiply", m, n)
for g, h in itertools.permutations(good, 2):
    same("add", g, h)  # mixed groups: G1 + G2 etc.
    same("eq", g, h)
for pt, bb in itertools.product([G1, G2, G12, None], [new.b, new.b2, new.b12, 3, None]):
    same("is_on_curve", pt, bb)
# integer / float "points": the shared -m * newx term and != behave as before
for a, b_ in itertools.product([(1, 2), (2, 5), (1.5, -2.0), (0, 0), (3, 0), (1, -2),
                                (float("nan"), 1.0), (1e308, 1e308), (2, float("inf"))],
                               repeat=2):
    same("add", a, b_)
for bad_n in (None, "3", 2.0, 5.0, 2.5, 7.5, FQ(3), [1]):
    same("multiply", G1, bad_n)
    same("multiply", G2, bad_n)


# ---------------------------------------------------------------- other field classes / tiny curves
def tiny_fields(p):
    class TFQ(BaseFQ):
        field_modulus = p

    class TFQ2(BaseFQ2):
        field_modulus = p
        FQ2_MODULUS_COEFFS = (1, 0)  # i**2 = -1, irreducible for p = 3 mod 4

    return TFQ, TFQ2


for p, bval in ((11, 1), (19, 2), (23, 5), (7, 3)):
    assert p % 4 == 3
    TFQ, TFQ2 = tiny_fields(p)
    elems = [TFQ(i) for i in range(p)]
    pts = [(x, y) for x in elems for y in elems if y * y == x * x * x + TFQ(bval)] + [None]
    for a, b_ in itertools.product(pts, repeat=2):
        same("add", a, b_)
    for a, b_, c in itertools.product(pts, repeat=3):
        assert rep(new.add(new.add(a, b_), c)) == rep(old.add(old.add(a, b_), c))
    for a in pts:
        same("double", a)
        same("neg", a)
        same("is_on_curve", a, TFQ(bval))
        for n in range(0, 2 * len(pts) + 5):
            same("multiply", a, n)
    # every pair of field elements, on the curve or not (the ValueError check included)
    allpairs = [(x, y) for x in elems for y in elems]
    for a, b_ in rng.sample(list(itertools.product(allpairs, repeat=2)), 1500):
        same("add", a, b_)
    if p in (11, 7):
        elems2 = [TFQ2([i, j]) for i in range(p) for j in range(p)]
        bb2 = TFQ2([bval, 0])
        sq = {}
        for e in elems2:
            sq.setdefault(rep(e * e), []).append(e)
        pts2 = [None]
        for x in elems2:
            for y in sq.get(rep(x * x * x + bb2), []):
                pts2.append((x, y))
        pairs2 = list(itertools.product(pts2, repeat=2))
        for a, b_ in (pairs2 if len(pairs2) <= 4000 else rng.sample(pairs2, 4000)):
            same("add", a, b_)
        for a in pts2:
            same("double", a)
            same("twist", a)  # bn128 FQ12 built from the tiny coefficients
            for n in (0, 1, 2, 3, 5, 12, len(pts2) - 1, len(pts2), 1000):
                same("multiply", a, n)

# ---------------------------------------------------------------- call histories
seq = []
for _ in range(300):
    kind = rng.choice(["add", "twist", "twist", "multiply", "double", "neg"])
    if kind == "add":
        seq.append(("add", rng.choice(g1_all), rng.choice(g1_all)))
        seq.append(("add", rng.choice(g2_all), rng.choice(g2_all)))
    elif kind == "twist":
        seq.append(("twist", rng.choice(g2_all + malformed_points[:6])))
    elif kind == "multiply":
        seq.append(("multiply", rng.choice(g1_pts), rng.choice([0, 1, 2, 3, 77, R, R + 1])))
    elif kind == "neg":
        seq.append(("neg", rng.choice(g12_all)))
    else:
        seq.append(("double", rng.choice(g2_all)))
first = [same(name, *args) for name, *args in seq]
order = list(range(len(seq)))
rng.shuffle(order)
again = {i: same(seq[i][0], *seq[i][1:]) for i in order}
assert all(again[i] == first[i] for i in range(len(seq)))
# equal-but-not-identical arguments give equal results; twist keeps giving the same value
for name, *args in seq[:150]:
    copies = [copy_pt(a) if isinstance(a, tuple) and all(hasattr(c, "n") or hasattr(c, "coeffs")
                                                       for c in a) else a for a in args]
    assert outcome(getattr(new, name), *copies)[0] == outcome(getattr(new, name), *args)[0]
t_first = rep(new.twist(G2))
for _ in range(20):
    new.twist(rng.choice(g2_pts))
    assert rep(new.twist(G2)) == t_first == rep(old.twist(G2)) == rep(new.G12)

for c, snap in const_snapshot.items():
    assert rep(getattr(new, c)) == snap, c
assert (rep(new.w), rep(new.w_squared), rep(new.w_cubed)) == W_SNAPSHOT

print(f"q2 equivalence OK: {CHECKS} paired checks")
