import os, sys; sys.path.insert(0, os.getcwd())  # noqa: E401,E702

"""
Equivalence demonstration for a behaviour-preserving edit of the BLS
verification path (property C04).

Loads the PRISTINE copies of constants / point_compression / g2_primitives /
ciphersuites (saved next to this script) as a second, fully separate chain of
modules inside the py_ecc.bls package, and compares them with the modules of
the edited tree found in the current directory.

Run as:  cd /tmp/wt2/C04 && /venv/bin/python /tmp/twin4/C04/<sN>/equiv.py
"""
import importlib
import random
import time
import types

HERE = os.path.dirname(os.path.abspath(__file__))
PRISTINE = os.path.join(HERE, "pristine")
T0 = time.time()

import py_ecc.bls  # noqa: E402  (edited tree, because cwd is sys.path[0])

assert os.path.abspath(py_ecc.bls.__file__).startswith(os.getcwd()), py_ecc.bls.__file__

from py_ecc.optimized_bls12_381 import (  # noqa: E402
    G1,
    G2,
    Z1,
    Z2,
    b,
    b2,
    curve_order,
    field_modulus as q,
    is_inf,
    is_on_curve,
    multiply,
    normalize,
)

CHAIN = ("constants", "point_compression", "g2_primitives", "ciphersuites")


def load_pristine_chain():
    """exec the pristine sources as py_ecc.bls._pr_<name>, wiring their relative
    imports of each other to the pristine siblings (everything else - fields,
    curve arithmetic, hash_to_curve - is shared with the edited tree)."""
    mods = {}
    for name in CHAIN:
        src = open(os.path.join(PRISTINE, name + ".py")).read()
        for other in CHAIN:
            src = src.replace("from .%s import" % other, "from ._pr_%s import" % other)
        full = "py_ecc.bls._pr_" + name
        m = types.ModuleType(full)
        m.__package__ = "py_ecc.bls"
        m.__file__ = os.path.join(PRISTINE, name + ".py")
        sys.modules[full] = m
        exec(compile(src, m.__file__, "exec"), m.__dict__)
        mods[name] = m
    return mods


OLD = load_pristine_chain()
NEW = {name: importlib.import_module("py_ecc.bls." + name) for name in CHAIN}
for name in CHAIN:
    assert OLD[name] is not NEW[name]
    assert os.path.abspath(NEW[name].__file__).startswith(os.getcwd())

n_checks = 0
failures = []


def outcome(f, *a, **k):
    try:
        r = f(*a, **k)
        return ("ok", type(r), r)
    except BaseException as e:  # noqa: B902
        return ("exc", type(e), str(e))


def same(tag, o1, o2):
    global n_checks
    n_checks += 1
    ok = o1[0] == o2[0] and o1[1] is o2[1] and o1[2] == o2[2]
    if ok and o1[0] == "ok" and isinstance(o1[2], tuple):
        # same element types too (bool vs int, FQ vs FQ2 ...)
        ok = [type(x) for x in o1[2]] == [type(x) for x in o2[2]]
    if not ok:
        failures.append((tag, o1, o2))
        print("MISMATCH", tag, o1, o2)
    return ok


def both(tag, modname, fname, *a):
    o1 = outcome(getattr(OLD[modname], fname), *a)
    o2 = outcome(getattr(NEW[modname], fname), *a)
    same("%s.%s%s" % (modname, fname, tag), o1, o2)
    return o2


# --------------------------------------------------------------------------
# 0. namespaces: every public name of the pristine modules still exists, and
#    plain-data constants are equal in value and type
# --------------------------------------------------------------------------
for name in CHAIN:
    for attr, val in vars(OLD[name]).items():
        if attr.startswith("__"):
            continue
        if getattr(val, "__module__", None) == "typing":
            continue  # typing helpers (Tuple, Optional ...) are not part of the API
        assert hasattr(NEW[name], attr), (name, attr)
        new = getattr(NEW[name], attr)
        if isinstance(val, (int, bytes, str, tuple, list)) and not isinstance(val, bool):
            n_checks += 1
            assert type(new) is type(val), (name, attr, type(new), type(val))
            assert new == val, (name, attr)
            if isinstance(val, (tuple, list)):
                assert [type(x) for x in new] == [type(x) for x in val], (name, attr)
                for x, y in zip(new, val):
                    if hasattr(x, "coeffs"):
                        assert tuple(x.coeffs) == tuple(y.coeffs)
                        assert [type(c) for c in x.coeffs] == [type(c) for c in y.coeffs]

# constants written differently must be the same ints (exact type int, same value)
c_old, c_new = OLD["constants"], NEW["constants"]
q_ = c_new.q
for attr, val in (
    ("POW_2_381", 2**381), ("POW_2_382", 2**382), ("POW_2_383", 2**383), ("POW_2_384", 2**384),
    ("FQ2_ORDER", q_**2 - 1), ("HASH_TO_FIELD_L", 64),
):
    assert type(getattr(c_new, attr)) is int and getattr(c_new, attr) == val == getattr(c_old, attr), attr
if hasattr(c_new, "COMPRESSED_G1_LENGTH"):
    assert type(c_new.COMPRESSED_G1_LENGTH) is int and c_new.COMPRESSED_G1_LENGTH == 48
    assert type(c_new.COMPRESSED_G2_LENGTH) is int and c_new.COMPRESSED_G2_LENGTH == 96
assert c_new.G2_COFACTOR == c_old.G2_COFACTOR and type(c_new.G2_COFACTOR) is int
assert len(c_new.EIGHTH_ROOTS_OF_UNITY) == 8 and type(c_new.EIGHTH_ROOTS_OF_UNITY) is tuple
assert all(type(x) is type(y) and x == y for x, y in zip(c_new.EIGHTH_ROOTS_OF_UNITY, c_old.EIGHTH_ROOTS_OF_UNITY))

pc_new = NEW["point_compression"]
g2p_new = NEW["g2_primitives"]
# the names the rest of the package binds are the very objects point_compression has
for attr in ("compress_G1", "compress_G2", "decompress_G1", "decompress_G2"):
    assert getattr(g2p_new, attr) is getattr(pc_new, attr)
try:
    cf = importlib.import_module("py_ecc.bls.compression_flags")
except ImportError:
    cf = None
if cf is not None:
    assert pc_new.get_flags is cf.get_flags
    assert pc_new.is_point_at_infinity is cf.is_point_at_infinity
    from py_ecc.bls.point_compression import get_flags as _gf  # old import path works
    assert _gf is cf.get_flags

# --------------------------------------------------------------------------
# 1. integer-level decoders
# --------------------------------------------------------------------------
rnd = random.Random(0xC04)
P381, P382, P383, P384 = 2**381, 2**382, 2**383, 2**384
XS = [0, 1, 2, 3, 4, q - 1, q, q + 1, P381 - 1, q // 2, (q + 1) // 2, q - 2]
XS += [rnd.randrange(q) for _ in range(12)]
FLAGS = [(c * P383 + bb * P382 + a * P381) for c in (0, 1) for bb in (0, 1) for a in (0, 1)]

ints = set()
for x in XS:
    for fl in FLAGS:
        ints.add(fl + x)
ints.update([P384, P384 + P383 + 5, P384 * 7 + P383 + P382, 2**1600 - 1, 2**1600 + P383 + 3])
ints.update(rnd.getrandbits(384) for _ in range(40))
ints = sorted(ints)

for z in ints + [-1, -P383, -(P383 + P382)]:
    both("(%x)" % z, "point_compression", "get_flags", z)
    both("(%x)" % z, "point_compression", "is_point_at_infinity", z)
    both("(%x,0)" % z, "point_compression", "is_point_at_infinity", z, 0)
    both("(%x,1)" % z, "point_compression", "is_point_at_infinity", z, 1)
    both("(%x,None)" % z, "point_compression", "is_point_at_infinity", z, None)
    both("(%x)" % z, "point_compression", "decompress_G1", z)
for bad in (None, "a", 1.5, b"\x00"):
    both("(%r)" % (bad,), "point_compression", "get_flags", bad)
    both("(%r)" % (bad,), "point_compression", "is_point_at_infinity", bad)
    both("(%r)" % (bad,), "point_compression", "decompress_G1", bad)

Z2S = [0, 1, 2, q - 1, q, q + 1, P381 - 1, P381, P383, P383 + P382, rnd.randrange(q)]
g2_ints = []
for z1 in [fl + x for fl in FLAGS for x in (0, 1, q - 1, q, P381 - 1)]:
    for z2 in Z2S:
        g2_ints.append((z1, z2))
for _ in range(40):
    g2_ints.append((P383 + rnd.getrandbits(1) * P381 + rnd.randrange(q), rnd.randrange(q)))
g2_ints += [(P384 + P383 + 1, 2), (P383 + 1, -1), (P383, None), (P383 + 2,), (1, 2, 3)]
for p in g2_ints:
    both("%r" % (p,), "point_compression", "decompress_G2", p)

# compression of good points, and round trips
pts1 = [Z1, G1, multiply(G1, 2), multiply(G1, curve_order - 1), (G1[0] * 5, G1[1] * 5, G1[2] * 5)]
pts2 = [Z2, G2, multiply(G2, 2), multiply(G2, curve_order - 1), (G2[0] * 5, G2[1] * 5, G2[2] * 5)]
FQ = type(G1[0])
FQ2 = type(G2[0])
pts1 += [(FQ(0), FQ(0), FQ(0)), (FQ(3), FQ(5), FQ(0)), (FQ(0), FQ(2), FQ(1))]
pts2 += [(FQ2([0, 0]),) * 3, (FQ2([1, 1]), FQ2([2, 3]), FQ2([1, 0]))]
for i, pt in enumerate(pts1):
    o = both("#%d" % i, "point_compression", "compress_G1", pt)
    both("#%d" % i, "g2_primitives", "G1_to_pubkey", pt)
    both("#%d" % i, "g2_primitives", "subgroup_check", pt)
    if o[0] == "ok":
        both("#rt%d" % i, "point_compression", "decompress_G1", o[2])
for i, pt in enumerate(pts2):
    o = both("#%d" % i, "point_compression", "compress_G2", pt)
    both("#%d" % i, "g2_primitives", "G2_to_signature", pt)
    both("#%d" % i, "g2_primitives", "subgroup_check", pt)
    if o[0] == "ok":
        both("#rt%d" % i, "point_compression", "decompress_G2", o[2])
for v in [FQ2([0, 0]), FQ2([1, 0]), FQ2([0, 1]), FQ2([4, 4]), FQ2([5, 7]), FQ2([q - 1, 3])]:
    both("%r" % (v,), "point_compression", "modular_squareroot_in_FQ2", v)
print("unit level done  %.1fs  checks=%d" % (time.time() - T0, n_checks))

# --------------------------------------------------------------------------
# 2. byte strings: keys and signatures
# --------------------------------------------------------------------------
def i48(z):
    return z.to_bytes(48, "big")


POP_new = NEW["ciphersuites"].G2ProofOfPossession
SKS = [1, 0x1234567890ABCDEF, curve_order - 1]
PKS = [POP_new.SkToPk(sk) for sk in SKS]
pk = PKS[1]
x_pk = int.from_bytes(pk, "big") % P381

# an x that is not on the curve / points of E(Fq) outside the r-torsion
off_curve_x = on_curve_not_sub = None
cof_pts1 = []
x = 5
while off_curve_x is None or len(cof_pts1) < 2:
    y2 = (x**3 + 4) % q
    y = pow(y2, (q + 1) // 4, q)
    if y * y % q == y2:
        pt = (FQ(x), FQ(y), FQ(1))
        assert is_on_curve(pt, b)
        if not is_inf(multiply(pt, curve_order)) and len(cof_pts1) < 2:
            cof_pts1.append(pt)
    elif off_curve_x is None:
        off_curve_x = x
    x += 1
cof_pts2 = []
off_curve_z = None
k = 1
while len(cof_pts2) < 2 or off_curve_z is None:
    try:
        pt = pc_new.decompress_G2((P383 + k, k + 1))
        if not is_inf(multiply(pt, curve_order)) and len(cof_pts2) < 2:
            cof_pts2.append(pt)
    except ValueError:
        off_curve_z = (P383 + k, k + 1)
    k += 1
# a pure cofactor-component G1 point (order divides h1) and mixed point
h1_pt = multiply(cof_pts1[0], curve_order)
mixed1 = NEW["ciphersuites"].add(h1_pt, multiply(G1, 77))
assert is_on_curve(mixed1, b) and not is_inf(multiply(mixed1, curve_order))

keys = []  # (label, bytes)
for i, k_ in enumerate(PKS):
    keys.append(("valid%d" % i, k_))
for n in range(0, 201):
    keys.append(("rand%d" % n, bytes(rnd.getrandbits(8) for _ in range(n))))
for n in (47, 48, 49, 95, 96, 97, 144, 200):
    body = bytes(rnd.getrandbits(8) for _ in range(n))
    if n:
        keys.append(("randc%d" % n, bytes([0x80 | (body[0] & 0x3F)]) + body[1:]))
keys += [
    ("lead0", b"\x00" + pk),
    ("trail0", pk + b"\x00"),
    ("leadff", b"\xff" + pk),
    ("trunc47", pk[:47]),
    ("trunc1", pk[1:]),
    ("pad96front", b"\x00" * 48 + pk),
    ("pad96back", pk + b"\x00" * 48),
    ("pad200", b"\x00" * 152 + pk),
    ("double", pk + pk),
    ("empty", b""),
]
for fl in FLAGS:
    keys.append(("flags%x" % (fl >> 381), i48(fl + x_pk)))
    for xx in (0, q - 1, q, q + 1, P381 - 1, off_curve_x):
        keys.append(("x%x/f%x" % (xx, fl >> 381), i48(fl + xx)))
for i, pt in enumerate(cof_pts1 + [h1_pt, mixed1]):
    z = pc_new.compress_G1(pt)
    keys.append(("cofactor%d" % i, i48(z)))
    keys.append(("cofactor%d~" % i, i48(z ^ P381)))
keys += [
    ("inf", i48(P383 + P382)),
    ("inf_a", i48(P383 + P382 + P381)),
    ("inf_noc", i48(P382)),
    ("zeros", b"\x00" * 48),
    ("ones", b"\xff" * 48),
]
nonbytes = [("bytearray", bytearray(pk)), ("memoryview", memoryview(pk)), ("str", "a" * 48),
            ("none", None), ("int", 5), ("list", list(pk)), ("tuple", (pk,))]

GOOD_KEYS = set(PKS)
# flag patterns 100 / 101 on a valid x are the canonical encodings of +-P: both valid
NEG_PK = i48((int.from_bytes(pk, "big")) ^ P381)
assert NEG_PK == POP_new.SkToPk(curve_order - SKS[1])
GOOD_KEYS.add(NEG_PK)
for label, k_ in keys + nonbytes:
    o = both("[%s]" % label, "g2_primitives", "pubkey_to_G1", k_)
    for suite in ("G2Basic", "G2MessageAugmentation", "G2ProofOfPossession"):
        o1 = outcome(getattr(OLD["ciphersuites"], suite).KeyValidate, k_)
        o2 = outcome(getattr(NEW["ciphersuites"], suite).KeyValidate, k_)
        same("%s.KeyValidate[%s]" % (suite, label), o1, o2)
        if isinstance(k_, bytes):
            assert o2[0] == "ok" and o2[1] is bool, (label, o2)
            assert o2[2] == (k_ in GOOD_KEYS), (label, o2)
        o1 = outcome(getattr(OLD["ciphersuites"], suite)._is_valid_pubkey, k_)
        o2 = outcome(getattr(NEW["ciphersuites"], suite)._is_valid_pubkey, k_)
        same("%s._is_valid_pubkey[%s]" % (suite, label), o1, o2)
print("keys done  %.1fs  checks=%d" % (time.time() - T0, n_checks))

MSG = b"message \x00 one"
SUITES = ("G2Basic", "G2MessageAugmentation", "G2ProofOfPossession")
sig_of = {s: getattr(NEW["ciphersuites"], s).Sign(SKS[1], MSG) for s in SUITES}
for s in SUITES:
    same("Sign", outcome(getattr(OLD["ciphersuites"], s).Sign, SKS[1], MSG), ("ok", bytes, sig_of[s]))
sig = sig_of["G2Basic"]
z1_sig = int.from_bytes(sig[:48], "big")
z2_sig = int.from_bytes(sig[48:], "big")

sigs = []
for n in range(0, 201):
    sigs.append(("rand%d" % n, bytes(rnd.getrandbits(8) for _ in range(n))))
for _ in range(6):
    body = bytes(rnd.getrandbits(8) for _ in range(96))
    sigs.append(("randc96", bytes([0x80 | (body[0] & 0x3F)]) + body[1:48] + bytes([body[48] & 0x0F]) + body[49:]))
sigs += [
    ("lead0", b"\x00" + sig),
    ("trail0", sig + b"\x00"),
    ("trunc95", sig[:95]),
    ("trunc1", sig[1:]),
    ("half", sig[:48]),
    ("pad192front", b"\x00" * 96 + sig),
    ("pad192back", sig + b"\x00" * 96),
    ("swapped", sig[48:] + sig[:48]),
    ("empty", b""),
]
for fl in FLAGS:
    sigs.append(("z1flags%x" % (fl >> 381), i48(fl + z1_sig % P381) + sig[48:]))
    sigs.append(("z2flags%x" % (fl >> 381), sig[:48] + i48(fl + z2_sig)))
for x1 in (0, q - 1, q, q + 1, P381 - 1):
    for x2 in (0, 1, q - 1, q, q + 1, P381 - 1):
        for a in (0, 1):
            sigs.append(("x1=%x,x2=%x,a%d" % (x1, x2, a), i48(P383 + a * P381 + x1) + i48(x2)))
sigs.append(("offcurve", i48(off_curve_z[0]) + i48(off_curve_z[1])))
for i, pt in enumerate(cof_pts2):
    z1, z2 = pc_new.compress_G2(pt)
    sigs.append(("cofactor%d" % i, i48(z1) + i48(z2)))
    sigs.append(("cofactor%d~" % i, i48(z1 ^ P381) + i48(z2)))
sigs += [
    ("inf", i48(P383 + P382) + i48(0)),
    ("inf_a", i48(P383 + P382 + P381) + i48(0)),
    ("inf_z2", i48(P383 + P382) + i48(1)),
    ("inf_noc", i48(P382) + i48(0)),
    ("zeros", b"\x00" * 96),
    ("ones", b"\xff" * 96),
]
sig_nonbytes = [("bytearray", bytearray(sig)), ("str", "a" * 96), ("none", None), ("int", 7)]

for label, s_ in sigs + sig_nonbytes:
    both("[%s]" % label, "g2_primitives", "signature_to_G2", s_)
    for suite in SUITES:
        o1 = outcome(getattr(OLD["ciphersuites"], suite)._is_valid_signature, s_)
        o2 = outcome(getattr(NEW["ciphersuites"], suite)._is_valid_signature, s_)
        same("%s._is_valid_signature[%s]" % (suite, label), o1, o2)
print("signature decoders done  %.1fs  checks=%d" % (time.time() - T0, n_checks))

# --------------------------------------------------------------------------
# 3. the five entry points, with a recorder around `pairing`
# --------------------------------------------------------------------------
calls = {"old": [], "new": []}


def install_recorder(mod, which):
    real = mod.pairing

    def recording_pairing(Q, P, final_exponentiate=True):
        # nothing off-curve / outside the subgroup may ever get here
        assert is_on_curve(Q, b2) and is_on_curve(P, b)
        assert is_inf(multiply(Q, curve_order)) and is_inf(multiply(P, curve_order))
        calls[which].append((Q, P, final_exponentiate))
        return real(Q, P, final_exponentiate=final_exponentiate)

    mod.pairing = recording_pairing


install_recorder(OLD["ciphersuites"], "old")
install_recorder(NEW["ciphersuites"], "new")


def entry(tag, suite, fname, *a, expect=None):
    snapshot = [list(x) if isinstance(x, list) else x for x in a]
    calls["old"].clear()
    calls["new"].clear()
    o1 = outcome(getattr(getattr(OLD["ciphersuites"], suite), fname), *a)
    o2 = outcome(getattr(getattr(NEW["ciphersuites"], suite), fname), *a)
    same("%s.%s[%s]" % (suite, fname, tag), o1, o2)
    global n_checks
    n_checks += 1
    if calls["old"] != calls["new"]:
        failures.append((tag, "pairing arguments differ"))
        print("MISMATCH pairing args", suite, fname, tag)
    assert [list(x) if isinstance(x, list) else x for x in a] == snapshot, "argument mutated"
    if expect is not None:
        assert o2 == ("ok", bool, expect), (suite, fname, tag, o2)
    return o2


# 3a. every malformed / unsafe key as PK of Verify (valid signature): never a pairing
for i, (label, k_) in enumerate(keys):
    if k_ in GOOD_KEYS:
        if k_ == NEG_PK:  # a valid key, just not the signer's: pairings do happen
            entry(label, "G2Basic", "Verify", k_, MSG, sig, expect=False)
            assert len(calls["new"]) == 2
        continue
    suite = SUITES[i % 3]
    entry(label, suite, "Verify", k_, MSG, sig_of[suite], expect=False)
    assert not calls["new"], label
    if label.startswith(("cofactor", "inf", "x0", "flags", "lead", "trail", "pad", "trunc")):
        for suite in SUITES:
            entry(label, suite, "Verify", k_, MSG, sig_of[suite], expect=False)
        entry(label, "G2ProofOfPossession", "PopVerify", k_, sig, expect=False)
        entry(label, "G2ProofOfPossession", "FastAggregateVerify", [k_], MSG, sig, expect=False)
        assert not calls["new"], label
for label, k_ in nonbytes:
    for suite in SUITES:
        entry(label, suite, "Verify", k_, MSG, sig)
    entry(label, "G2ProofOfPossession", "PopVerify", k_, sig)
    entry(label, "G2ProofOfPossession", "FastAggregateVerify", [k_], MSG, sig)
print("bad keys in Verify done  %.1fs  checks=%d" % (time.time() - T0, n_checks))

# 3b. every malformed / unsafe signature with a valid key: never a pairing
NEG_SIG = {s: i48(int.from_bytes(sig_of[s][:48], "big") ^ P381) + sig_of[s][48:] for s in SUITES}
for i, (label, s_) in enumerate(sigs):
    suite = SUITES[i % 3]
    if label in ("z1flags4", "z1flags5", "z2flags0"):
        # canonical encodings of +-S for the G2Basic signature S: valid subgroup points
        assert s_ in (sig, NEG_SIG["G2Basic"])
        entry(label, "G2Basic", "Verify", pk, MSG, s_, expect=(s_ == sig))
        assert len(calls["new"]) == 2
        continue
    entry(label, suite, "Verify", pk, MSG, s_, expect=False)
    # (the canonical identity encoding IS a subgroup point, so it may reach the pairing)
    assert not calls["new"] or label == "inf", label
    if len(s_) == 96 and i % 10 == 0 or label.startswith(("cofactor", "inf", "lead", "trail")):
        entry(label, "G2ProofOfPossession", "PopVerify", pk, s_, expect=False)
        entry(label, "G2ProofOfPossession", "FastAggregateVerify", [pk, PKS[0]], MSG, s_, expect=False)
        entry(label, SUITES[(i + 1) % 3], "AggregateVerify", [pk, PKS[0]], [MSG, b"2"], s_, expect=False)
        assert not calls["new"] or label == "inf", label
for label, s_ in sig_nonbytes:
    for suite in SUITES:
        entry(label, suite, "Verify", pk, MSG, s_)
        entry(label, suite, "AggregateVerify", [pk], [MSG], s_)
    entry(label, "G2ProofOfPossession", "PopVerify", pk, s_)
    entry(label, "G2ProofOfPossession", "FastAggregateVerify", [pk], MSG, s_)
print("bad signatures done  %.1fs  checks=%d" % (time.time() - T0, n_checks))

# 3c. genuine verifications (pairings happen, on identical arguments)
msgs = [b"m0", b"", b"m2" * 40]
for suite in SUITES:
    cls = getattr(NEW["ciphersuites"], suite)
    entry("good", suite, "Verify", pk, MSG, sig_of[suite], expect=True)
    assert len(calls["new"]) == 2
entry("wrongmsg", "G2MessageAugmentation", "Verify", pk, MSG + b"!", sig_of["G2MessageAugmentation"], expect=False)
entry("wrongkey", "G2ProofOfPossession", "Verify", PKS[0], MSG, sig_of["G2ProofOfPossession"], expect=False)
agg = {}
for suite in SUITES:
    cls = getattr(NEW["ciphersuites"], suite)
    agg[suite] = cls.Aggregate([cls.Sign(sk, m) for sk, m in zip(SKS, msgs)])
    same("Aggregate", outcome(getattr(OLD["ciphersuites"], suite).Aggregate,
                              [cls.Sign(sk, m) for sk, m in zip(SKS, msgs)]), ("ok", bytes, agg[suite]))
    entry("good", suite, "AggregateVerify", list(PKS), list(msgs), agg[suite], expect=True)
    assert len(calls["new"]) == 4
entry("dupmsg", "G2Basic", "AggregateVerify", PKS[:2], [b"a", b"a"], agg["G2Basic"], expect=False)
entry("lenmismatch", "G2MessageAugmentation", "AggregateVerify", PKS[:2], msgs, agg["G2Basic"], expect=False)
for suite in SUITES:
    entry("nokeys", suite, "AggregateVerify", [], [], agg[suite], expect=False)
POP = "G2ProofOfPossession"
fsig = POP_new.Aggregate([POP_new.Sign(sk, MSG) for sk in SKS])
entry("good", POP, "FastAggregateVerify", list(PKS), MSG, fsig, expect=True)
entry("nokeys", POP, "FastAggregateVerify", [], MSG, fsig, expect=False)
entry("missing", POP, "FastAggregateVerify", PKS[:2], MSG, fsig, expect=False)
# keys that cancel: the aggregate public key is the identity
entry("cancel", POP, "FastAggregateVerify", [PKS[0], PKS[2]], MSG, i48(P383 + P382) + i48(0), expect=False)
proof = POP_new.PopProve(SKS[1])
same("PopProve", outcome(OLD["ciphersuites"].G2ProofOfPossession.PopProve, SKS[1]), ("ok", bytes, proof))
entry("good", POP, "PopVerify", pk, proof, expect=True)
entry("otherkey", POP, "PopVerify", PKS[0], proof, expect=False)
entry("sig-as-proof", POP, "PopVerify", pk, sig_of[POP], expect=False)
print("genuine verifications done  %.1fs  checks=%d" % (time.time() - T0, n_checks))

# 3d. a bad key in every position of a key list
bad_for_lists = [lab for lab in ("cofactor0", "inf", "lead0", "x%x/f4" % off_curve_x, "flags6", "trunc47")]
kd = dict(keys)
for j, lab in enumerate(bad_for_lists):
    bad = kd[lab]
    for pos in range(3):
        lst = list(PKS)
        lst[pos] = bad
        entry("%s@%d" % (lab, pos), POP, "FastAggregateVerify", lst, MSG, fsig, expect=False)
        assert not calls["new"]
        entry("%s@%d" % (lab, pos), POP, "AggregateVerify", lst, list(msgs), agg[POP], expect=False)
        assert not calls["new"]
        if j < 1 or pos == 0:
            suite = SUITES[(j + pos) % 2]
            entry("%s@%d" % (lab, pos), suite, "AggregateVerify", lst, list(msgs), agg[suite], expect=False)
            assert len(calls["new"]) == pos
print("key lists done  %.1fs  checks=%d" % (time.time() - T0, n_checks))

# 3e. call history: repeat earlier calls after all of the above, interleaved
for rep in range(2):
    if rep == 0:
        entry("again-good", "G2Basic", "Verify", pk, MSG, sig_of["G2Basic"], expect=True)
    entry("again-bad", "G2Basic", "Verify", kd["cofactor0"], MSG, sig_of["G2Basic"], expect=False)
    entry("again-inf", POP, "PopVerify", kd["inf"], proof, expect=False)
    if rep == 1:
        entry("again-pop", POP, "PopVerify", pk, proof, expect=True)
    for lab in ("valid0", "valid1", "cofactor1", "inf", "lead0", "zeros"):
        for suite in SUITES:
            o1 = outcome(getattr(OLD["ciphersuites"], suite).KeyValidate, kd[lab])
            o2 = outcome(getattr(NEW["ciphersuites"], suite).KeyValidate, kd[lab])
            same("again KeyValidate " + lab, o1, o2)
            assert o2 == ("ok", bool, lab.startswith("valid"))
# module-level constants untouched by all these calls
for name in CHAIN:
    for attr, val in vars(OLD[name]).items():
        if isinstance(val, (int, bytes, tuple)) and not attr.startswith("__"):
            assert getattr(NEW[name], attr) == val, (name, attr)

print("total checks: %d   failures: %d   %.1fs" % (n_checks, len(failures), time.time() - T0))
if failures:
    sys.exit(1)
print("EQUIVALENT")
