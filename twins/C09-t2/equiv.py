import os, sys; sys.path.insert(0, os.getcwd())  # noqa: E702
"""
Equivalence demonstration for C09 / t2.

Loads the pristine py_ecc/bls/{point_compression,hash_to_curve,g2_primitives,
ciphersuites}.py (saved next to this script) as a second, fully pristine module
stack inside the py_ecc.bls package and compares it against the edited modules of
the worktree in the current directory: same results (value and type) and same
exception classes.
"""
import importlib
import importlib.util
import random
import time

HERE = os.path.dirname(os.path.abspath(__file__))
PRISTINE = os.path.join(HERE, "pristine", "py_ecc", "bls")

import py_ecc  # noqa: E402

assert os.path.abspath(py_ecc.__file__).startswith(os.getcwd()), py_ecc.__file__

import py_ecc.bls  # noqa: E402,F401
from py_ecc.fields import (  # noqa: E402
    optimized_bls12_381_FQ as FQ,
    optimized_bls12_381_FQ2 as FQ2,
)
from py_ecc.fields.optimized_field_elements import FQ as BaseFQ, FQP  # noqa: E402
from py_ecc.optimized_bls12_381 import (  # noqa: E402
    G1,
    G2,
    Z1,
    Z2,
    add,
    curve_order,
    field_modulus as q,
    multiply,
    neg,
)


def load_pristine(short, fname, overrides):
    """Load PRISTINE/fname as py_ecc.bls.<short>, with sibling modules overridden."""
    saved = {}
    for k, v in overrides.items():
        saved[k] = sys.modules.get(k)
        sys.modules[k] = v
    try:
        name = "py_ecc.bls." + short
        spec = importlib.util.spec_from_file_location(
            name, os.path.join(PRISTINE, fname)
        )
        mod = importlib.util.module_from_spec(spec)
        sys.modules[name] = mod
        spec.loader.exec_module(mod)
    finally:
        for k, v in saved.items():
            if v is None:
                sys.modules.pop(k, None)
            else:
                sys.modules[k] = v
    return mod


new_pc = importlib.import_module("py_ecc.bls.point_compression")
new_g2p = importlib.import_module("py_ecc.bls.g2_primitives")
new_cs = importlib.import_module("py_ecc.bls.ciphersuites")

new_h2c = importlib.import_module("py_ecc.bls.hash_to_curve")
old_pc = load_pristine("point_compression_pristine", "point_compression.py", {})
old_h2c = load_pristine("hash_to_curve_pristine", "hash_to_curve.py", {})
old_g2p = load_pristine(
    "g2_primitives_pristine",
    "g2_primitives.py",
    {"py_ecc.bls.point_compression": old_pc},
)
old_cs = load_pristine(
    "ciphersuites_pristine",
    "ciphersuites.py",
    {"py_ecc.bls.g2_primitives": old_g2p, "py_ecc.bls.hash_to_curve": old_h2c},
)
assert old_cs.hash_to_G2 is old_h2c.hash_to_G2
assert new_cs.hash_to_G2 is new_h2c.hash_to_G2 and new_h2c is not old_h2c
import inspect  # noqa: E402

assert "elem_offset" in inspect.getsource(old_h2c.hash_to_field_FQ2)
assert "elem_offset" not in inspect.getsource(new_h2c.hash_to_field_FQ2)
assert ".index(" in inspect.getsource(old_pc.modular_squareroot_in_FQ2)
assert ".index(" not in inspect.getsource(new_pc.modular_squareroot_in_FQ2)
# the pristine stack really is wired to the pristine leaves
assert old_g2p.compress_G2 is old_pc.compress_G2
assert old_cs.G1_to_pubkey is old_g2p.G1_to_pubkey
assert new_g2p.compress_G2 is new_pc.compress_G2
assert new_cs.G1_to_pubkey is new_g2p.G1_to_pubkey
assert sys.modules["py_ecc.bls.point_compression"] is new_pc

N_CHECKS = 0


def canon(v):
    if isinstance(v, (tuple, list)):
        return (type(v).__name__, [canon(x) for x in v])
    if isinstance(v, BaseFQ):
        return (type(v).__name__, type(v.n).__name__, v.n)
    if isinstance(v, FQP):
        return (type(v).__name__, canon(v.coeffs))
    return (type(v).__name__, v if not isinstance(v, memoryview) else bytes(v))


def run(f, *args):
    try:
        return ("ok", canon(f(*args)))
    except RecursionError:
        raise
    except BaseException as e:  # noqa: B902
        return ("exc", type(e).__name__)


def same(label, f_old, f_new, *args):
    global N_CHECKS
    a = run(f_old, *args)
    b = run(f_new, *args)
    if a != b:
        print("MISMATCH", label, [repr(x)[:120] for x in args])
        print("  pristine:", repr(a)[:400])
        print("  edited  :", repr(b)[:400])
        sys.exit(1)
    N_CHECKS += 1
    return a


rng = random.Random(0xC09)
t0 = time.time()

# ---------------------------------------------------------------- flags / infinity
P381, P382, P383 = 2**381, 2**382, 2**383
xs = [0, 1, 2, 3, 4, q - 1, q, q + 1, P381 - 1, G1[0].n, multiply(G1, 5)[0].n]
xs += [rng.randrange(q) for _ in range(25)]
ints = []
for x in xs:
    for flags in range(8):
        ints.append(x + flags * P381)
ints += [-1, -P383, P383 * 2, 2**384 + P383 + 5, 2**400 + 1, True, False]
for z in ints:
    same("get_flags", old_pc.get_flags, new_pc.get_flags, z)
    same("is_inf1", old_pc.is_point_at_infinity, new_pc.is_point_at_infinity, z)
    same("is_inf2", old_pc.is_point_at_infinity, new_pc.is_point_at_infinity, z, 0)
    same("is_inf3", old_pc.is_point_at_infinity, new_pc.is_point_at_infinity, z, 7)
    same("decompress_G1", old_pc.decompress_G1, new_pc.decompress_G1, z)
for bad in [None, 1.5, "12", b"\x01", (1, 2), FQ(3), FQ2([1, 2])]:
    same("decompress_G1 bad", old_pc.decompress_G1, new_pc.decompress_G1, bad)
    same("decompress_G2 bad", old_pc.decompress_G2, new_pc.decompress_G2, bad)
    same("decompress_G2 bad1", old_pc.decompress_G2, new_pc.decompress_G2, (bad, 0))
    for z1 in (0, P383, P383 + P382, P383 + 5, P383 + P382 + P381):
        same(
            "decompress_G2 bad2", old_pc.decompress_G2, new_pc.decompress_G2, (z1, bad)
        )

# G2 encodings, valid and malformed
g2_pts = [multiply(G2, k) for k in (1, 2, 3, 5, 7, curve_order - 1)]
g2_pts += [multiply(G2, rng.randrange(1, curve_order)) for _ in range(4)]
encs = [old_pc.compress_G2(p) for p in g2_pts]
z2s = [0, 1, q - 1, q, q + 1, P381, P383, -1]
for z1, z2 in encs:
    x1 = z1 % P381
    for flags in range(8):
        same(
            "decompress_G2 flags",
            old_pc.decompress_G2,
            new_pc.decompress_G2,
            (x1 + flags * P381, z2),
        )
for flags in range(8):
    for x1 in (0, 1, q - 1, q, q + 1, P381 - 1):
        for z2 in z2s:
            same(
                "decompress_G2 grid",
                old_pc.decompress_G2,
                new_pc.decompress_G2,
                (x1 + flags * P381, z2),
            )
for _ in range(12):
    z1 = P383 + rng.randrange(2) * P381 + rng.randrange(q)
    same(
        "decompress_G2 rand",
        old_pc.decompress_G2,
        new_pc.decompress_G2,
        (z1, rng.randrange(q)),
    )
for p in [(), (1,), (1, 2, 3), [P383 + P382, 0]]:
    same("decompress_G2 shape", old_pc.decompress_G2, new_pc.decompress_G2, p)
print("flags/decompress done", N_CHECKS, round(time.time() - t0, 1))


# ---------------------------------------------------------------- compression
def rescale(pt, k):
    return tuple(c * k for c in pt)


g1_pts = [multiply(G1, k) for k in (1, 2, 3, 5, curve_order - 1)]
g1_pts += [multiply(G1, rng.randrange(1, curve_order)) for _ in range(5)]
g1_all = list(g1_pts)
g1_all += [rescale(p, FQ(rng.randrange(1, q))) for p in g1_pts]
g1_all += [neg(p) for p in g1_pts[:3]]
g1_all += [
    Z1,
    (FQ(0), FQ(0), FQ(0)),
    (FQ(5), FQ(0), FQ(0)),
    (FQ(0), FQ(1), FQ(0)),
    (FQ(1), FQ(2), FQ(1)),  # not on the curve
    (FQ(0), FQ(2), FQ(1)),  # on the curve, x = 0
    (FQ(0), FQ(q - 2), FQ(1)),
]
for p in g1_all:
    same("compress_G1", old_pc.compress_G1, new_pc.compress_G1, p)
    same("G1_to_pubkey", old_g2p.G1_to_pubkey, new_g2p.G1_to_pubkey, p)

g2_all = list(g2_pts)
g2_all += [rescale(p, FQ2([rng.randrange(q), rng.randrange(q)])) for p in g2_pts]
g2_all += [rescale(p, rng.randrange(1, q)) for p in g2_pts[:3]]
g2_all += [neg(p) for p in g2_pts[:3]]
g2_all += [
    Z2,
    (FQ2([0, 0]), FQ2([0, 0]), FQ2([0, 0])),
    (FQ2([5, 7]), FQ2([0, 0]), FQ2([0, 0])),
    (FQ2([0, 0]), FQ2([1, 0]), FQ2([0, 0])),
    (FQ2([1, 0]), FQ2([2, 0]), FQ2([1, 0])),  # not on the twist
    (FQ2([1, 1]), FQ2([2, 3]), FQ2([4, 5])),  # not on the twist
    (G2[0], G2[1], FQ2([2, 0])),  # not on the twist
    (FQ2([FQ(1), FQ(0)]), FQ2([FQ(1), FQ(0)]), FQ2([FQ(0), FQ(0)])),  # FQ coeffs
]
g2_all += [
    # malformed: wrong field, wrong arity, wrong element types
    G1,
    Z1,
    (FQ(0), FQ(0), FQ(0)),
    (FQ2([1, 0]), FQ2([0, 0])),
    (FQ2([1, 0]), FQ2([1, 0])),
    (FQ2([0, 0]),),
    (),
    (1, 2, 3),
    (1, 2, 0),
    None,
    G2 + (FQ2([1, 0]),),
    G2 + (FQ2([0, 0]),),
]
for p in g2_all:
    same("compress_G2", old_pc.compress_G2, new_pc.compress_G2, p)
    same("G2_to_signature", old_g2p.G2_to_signature, new_g2p.G2_to_signature, p)
for p in [G2, Z2, None, (), (FQ(1), FQ(1), FQ(0))]:
    same("compress_G1 malformed", old_pc.compress_G1, new_pc.compress_G1, p)

# round trips through bytes
for p in g1_all[:22]:
    r = run(old_g2p.G1_to_pubkey, p)
    if r[0] == "ok":
        same("pubkey_to_G1", old_g2p.pubkey_to_G1, new_g2p.pubkey_to_G1, r[1][1])
for p in g2_all[:28]:
    r = run(old_g2p.G2_to_signature, p)
    if r[0] == "ok":
        same("signature_to_G2", old_g2p.signature_to_G2, new_g2p.signature_to_G2, r[1][1])
print("compression done", N_CHECKS, round(time.time() - t0, 1))

# ---------------------------------------------------------------- square roots in FQ2
from hashlib import sha256, sha512  # noqa: E402

from py_ecc.bls.constants import EIGHTH_ROOTS_OF_UNITY  # noqa: E402
from py_ecc.fields import optimized_bls12_381_FQ12 as FQ12  # noqa: E402

assert len({r.coeffs for r in EIGHTH_ROOTS_OF_UNITY}) == 8
roots_before = canon(EIGHTH_ROOTS_OF_UNITY)
sq_inputs = [FQ2([0, 0]), FQ2([1, 0]), FQ2([0, 1]), FQ2([q - 1, 0]), FQ2([4, 4]), FQ2([2, 0])]
sq_inputs += list(EIGHTH_ROOTS_OF_UNITY)
for _ in range(40):
    v = FQ2([rng.randrange(q), rng.randrange(q)])
    sq_inputs += [v, v * v]
for _ in range(6):
    v = FQ2([rng.randrange(q), 0])
    sq_inputs += [v, v * v, FQ2([0, rng.randrange(q)])]
sq_inputs += [FQ2([FQ(9), FQ(0)]), FQ2([FQ(3), FQ(5)]) * FQ2([FQ(3), FQ(5)])]
n_some = 0
for v in sq_inputs:
    r = same(
        "modular_squareroot_in_FQ2",
        old_pc.modular_squareroot_in_FQ2,
        new_pc.modular_squareroot_in_FQ2,
        v,
    )
    n_some += r[0] == "ok" and r[1][0] != "NoneType"
assert 40 < n_some < len(sq_inputs)
for bad in [FQ(4), None, FQ12.one(), "x", (1, 2)]:  # (not a bare int: 4**huge)
    same(
        "modular_squareroot_in_FQ2 bad",
        old_pc.modular_squareroot_in_FQ2,
        new_pc.modular_squareroot_in_FQ2,
        bad,
    )
assert canon(EIGHTH_ROOTS_OF_UNITY) == roots_before

# decompression of many honest encodings, with either value of the sign bit
for k in [1, 2, 3, 4, 5, 6, 7, 8, 9, 10, curve_order - 1, curve_order - 2] + [
    rng.randrange(1, curve_order) for _ in range(14)
]:
    p1 = multiply(G1, k)
    z = old_pc.compress_G1(p1)
    for zz in (z, z ^ P381):
        r = same("decompress_G1 honest", old_pc.decompress_G1, new_pc.decompress_G1, zz)
        assert r[0] == "ok"
    p2 = multiply(G2, k)
    z1, z2 = old_pc.compress_G2(p2)
    for zz in ((z1, z2), (z1 ^ P381, z2)):
        r = same("decompress_G2 honest", old_pc.decompress_G2, new_pc.decompress_G2, zz)
        assert r[0] == "ok"
        same("compress_G2 back", old_pc.compress_G2, new_pc.compress_G2, new_pc.decompress_G2(zz))
# G1 x-coordinates that are / are not on the curve, all flag patterns
for x in list(range(0, 40)) + [q - 1, q - 2, q - 3]:
    for flags in (4, 5):
        same("decompress_G1 small x", old_pc.decompress_G1, new_pc.decompress_G1, x + flags * P381)
# G2 x-coordinates with zero real or imaginary part
for x1, x2 in [(0, 1), (1, 0), (0, 2), (2, 0), (0, 3), (3, 0), (1, 1), (2, 2), (0, q - 1), (q - 1, 0), (5, 0), (0, 5), (7, 0), (0, 7)]:
    for flags in (4, 5):
        same("decompress_G2 small x", old_pc.decompress_G2, new_pc.decompress_G2, (x1 + flags * P381, x2))
print("square roots / honest decompression done", N_CHECKS, round(time.time() - t0, 1))

# ---------------------------------------------------------------- hash to field / curve
DSTS = [
    b"BLS_SIG_BLS12381G2_XMD:SHA-256_SSWU_RO_NUL_",
    b"BLS_SIG_BLS12381G2_XMD:SHA-256_SSWU_RO_AUG_",
    b"BLS_SIG_BLS12381G2_XMD:SHA-256_SSWU_RO_POP_",
    b"BLS_POP_BLS12381G2_XMD:SHA-256_SSWU_RO_POP_",
    b"",
    b"x" * 255,
    b"x" * 256,
]
h_msgs = [b"", b"\x00", b"abc", bytes(range(64)), bytes(rng.randrange(256) for _ in range(500))]
for dst in DSTS:
    for m in h_msgs:
        for count in (0, 1, 2, 3, 4, 5):
            for hf in (sha256,) if count > 2 else (sha256, sha512):
                same("hash_to_field_FQ2", old_h2c.hash_to_field_FQ2, new_h2c.hash_to_field_FQ2, m, count, dst, hf)
                same("hash_to_field_FQ", old_h2c.hash_to_field_FQ, new_h2c.hash_to_field_FQ, m, count, dst, hf)
for count in (-1, -3, 32, 33, 64, 127, 128, 1.0, 2.5, None, "2", True):
    same("hash_to_field_FQ2 count", old_h2c.hash_to_field_FQ2, new_h2c.hash_to_field_FQ2, b"abc", count, DSTS[0], sha256)
    same("hash_to_field_FQ count", old_h2c.hash_to_field_FQ, new_h2c.hash_to_field_FQ, b"abc", count, DSTS[0], sha256)
for m in ["abc", None, 5, bytearray(b"abc"), memoryview(b"abc")]:
    same("hash_to_field_FQ2 bad msg", old_h2c.hash_to_field_FQ2, new_h2c.hash_to_field_FQ2, m, 2, DSTS[0], sha256)
    same("hash_to_field_FQ bad msg", old_h2c.hash_to_field_FQ, new_h2c.hash_to_field_FQ, m, 2, DSTS[0], sha256)
    same("hash_to_G2 bad msg", old_h2c.hash_to_G2, new_h2c.hash_to_G2, m, DSTS[0], sha256)
for dst in DSTS[:5]:
    for m in h_msgs[:3]:
        same("hash_to_G2", old_h2c.hash_to_G2, new_h2c.hash_to_G2, m, dst, sha256)
    same("hash_to_G1", old_h2c.hash_to_G1, new_h2c.hash_to_G1, b"abc", dst, sha256)
same("hash_to_G2 again", old_h2c.hash_to_G2, new_h2c.hash_to_G2, b"abc", DSTS[0], sha256)
# RFC 9380 J.10.1 (BLS12381G2_XMD:SHA-256_SSWU_RO_), msg = "": u[0] real part
u = new_h2c.hash_to_field_FQ2(b"", 2, b"QUUX-V01-CS02-with-BLS12381G2_XMD:SHA-256_SSWU_RO_", sha256)
assert u[0].coeffs[0] == int(
    "03dbc2cce174e91ba93cbb08f26b917f98194a2ea08d1cce75b2b9cc9f21689d80bd79b594a613d0a68eb807dfdc1cf8",
    16,
)
print("hashing done", N_CHECKS, round(time.time() - t0, 1))

# ---------------------------------------------------------------- ciphersuites
SUITES = ["G2Basic", "G2MessageAugmentation", "G2ProofOfPossession"]
for s in SUITES:
    assert getattr(old_cs, s).DST == getattr(new_cs, s).DST
assert old_cs.G2ProofOfPossession.POP_TAG == new_cs.G2ProofOfPossession.POP_TAG


class MyInt(int):
    pass


good_sks = [1, 2, 3, curve_order - 1, curve_order - 2, True, MyInt(11)]
good_sks += [rng.randrange(1, curve_order) for _ in range(2)]
bad_sks = [
    0,
    -1,
    -curve_order,
    curve_order,
    curve_order + 1,
    2**255,
    2**256,
    False,
    1.0,
    2.5,
    "1",
    None,
    b"\x01",
    (1,),
    MyInt(0),
    MyInt(curve_order),
    FQ(5),
]
for sk in good_sks + bad_sks:
    same(
        "_is_valid_privkey",
        old_cs.BaseG2Ciphersuite._is_valid_privkey,
        new_cs.BaseG2Ciphersuite._is_valid_privkey,
        sk,
    )
    for s in SUITES:
        same(s + ".SkToPk", getattr(old_cs, s).SkToPk, getattr(new_cs, s).SkToPk, sk)
for sk in bad_sks:
    for s in SUITES:
        same(s + ".Sign bad sk", getattr(old_cs, s).Sign, getattr(new_cs, s).Sign, sk, b"m")
    same(
        "PopProve bad sk",
        old_cs.G2ProofOfPossession.PopProve,
        new_cs.G2ProofOfPossession.PopProve,
        sk,
    )

msgs = [b"", b"\x00", b"abc", bytes(range(32)), bytes(rng.randrange(256) for _ in range(300))]
bad_msgs = ["abc", None, 5, bytearray(b"abc"), memoryview(b"abc"), [1, 2]]
sigs = {}
for s in SUITES:
    for sk in [1, curve_order - 1, good_sks[-1]]:
        for m in msgs[:3] if sk != good_sks[-1] else msgs:
            r = same(s + ".Sign", getattr(old_cs, s).Sign, getattr(new_cs, s).Sign, sk, m)
            sigs.setdefault(s, []).append((sk, m, r[1][1]))
    for m in bad_msgs:
        same(s + ".Sign bad msg", getattr(old_cs, s).Sign, getattr(new_cs, s).Sign, 5, m)
    # repeat an earlier call: the answer does not depend on the call history
    sk, m, sig = sigs[s][0]
    assert same(s + ".Sign again", getattr(old_cs, s).Sign, getattr(new_cs, s).Sign, sk, m)[1][1] == sig
for sk in [1, 2, curve_order - 1, good_sks[-2]]:
    same(
        "PopProve",
        old_cs.G2ProofOfPossession.PopProve,
        new_cs.G2ProofOfPossession.PopProve,
        sk,
    )
print("sign done", N_CHECKS, round(time.time() - t0, 1))

# Aggregate: valid lists, empty list, malformed members in every position
inf_sig = bytes([0xC0]) + bytes(95)
all_sigs = [x[2] for s in SUITES for x in sigs[s]]
agg_inputs = [
    [],
    (),
    [all_sigs[0]],
    [inf_sig],
    [inf_sig, inf_sig],
    all_sigs[:2],
    tuple(all_sigs[:3]),
    all_sigs[:6],
    [all_sigs[0], all_sigs[0]],
    [all_sigs[1], inf_sig, all_sigs[2]],
    [all_sigs[0], b"\x00" * 96],  # decodes with c_flag == 0 -> ValueError
    [b"\x00" * 96, b"short"],  # malformed length wins over the decoding error
    [b"short", b"\x00" * 96],
    [all_sigs[0], all_sigs[1][:95]],
    [all_sigs[0], all_sigs[1] + b"\x00"],
    [all_sigs[0], bytearray(all_sigs[1])],
    [all_sigs[0], None],
    [None],
    [all_sigs[0], "x" * 96],
    [bytes([0xE0]) + bytes(95)],  # infinity with a_flag set
    [bytes([0x80]) + bytes(95)],  # b_flag missing
    [bytes([0xA0]) + all_sigs[0][1:]],
    [all_sigs[0][:48] + bytes([0x80]) + all_sigs[0][49:]],  # flags in z2
    [bytes([all_sigs[0][0] ^ 0x20]) + all_sigs[0][1:]],  # other sign of y
    [b"\xff" * 96],
    None,
    5,
    b"",
    all_sigs[0],  # bytes: iterates ints
    iter([all_sigs[0]]),
    {all_sigs[0]: 1},
]
for s in SUITES:
    for a in agg_inputs:
        if hasattr(a, "__next__"):
            a_old, a_new = iter([all_sigs[0]]), iter([all_sigs[0]])
            r1 = run(getattr(old_cs, s).Aggregate, a_old)
            r2 = run(getattr(new_cs, s).Aggregate, a_new)
            assert r1 == r2, (s, r1, r2)
            N_CHECKS += 1
            continue
        same(s + ".Aggregate", getattr(old_cs, s).Aggregate, getattr(new_cs, s).Aggregate, a)
print("aggregate done", N_CHECKS, round(time.time() - t0, 1))

# KeyValidate / _is_valid_pubkey / _AggregatePKs
pk1 = old_cs.G2Basic.SkToPk(1)
pk2 = old_cs.G2Basic.SkToPk(curve_order - 1)
pk3 = old_cs.G2Basic.SkToPk(good_sks[-1])
inf_pk = bytes([0xC0]) + bytes(47)
# a point of the curve outside the r-torsion subgroup
x = 0
while True:
    x += 1
    y = pow((x**3 + 4) % q, (q + 1) // 4, q)
    if y * y % q == (x**3 + 4) % q:
        cand = (FQ(x), FQ(y), FQ(1))
        if not old_g2p.subgroup_check(cand):
            break
off_subgroup_pk = old_g2p.G1_to_pubkey(cand)
pks = [
    pk1,
    pk2,
    pk3,
    inf_pk,
    off_subgroup_pk,
    bytes(48),
    b"\xff" * 48,
    bytes([0xE0]) + bytes(47),
    bytes([0x80]) + bytes(47),
    bytes([pk1[0] ^ 0x20]) + pk1[1:],
    bytes([0x80]) + bytes(46) + b"\x01",  # x = 1: not on the curve
    (q + 2**383).to_bytes(48, "big"),
    pk1 + b"\x00",
    pk1[:47],
    b"",
    bytearray(pk1),
    None,
    5,
    "x" * 48,
]
for s in SUITES:
    for pk in pks:
        same(s + ".KeyValidate", getattr(old_cs, s).KeyValidate, getattr(new_cs, s).KeyValidate, pk)
        same(
            s + "._is_valid_pubkey",
            getattr(old_cs, s)._is_valid_pubkey,
            getattr(new_cs, s)._is_valid_pubkey,
            pk,
        )
for lst in [[], [pk1], [pk1, pk2], [pk1, pk2, pk3], [inf_pk], [pk1, bytes(48)], [off_subgroup_pk, pk1], None]:
    same(
        "_AggregatePKs",
        old_cs.G2ProofOfPossession._AggregatePKs,
        new_cs.G2ProofOfPossession._AggregatePKs,
        lst,
    )
print("keys done", N_CHECKS, round(time.time() - t0, 1))

# a few verifications (slow: pairings), including cross-version ones
for s in SUITES[:2]:
    sk, m, sig = sigs[s][0]
    pk = getattr(old_cs, s).SkToPk(sk)
    r = same(s + ".Verify", getattr(old_cs, s).Verify, getattr(new_cs, s).Verify, pk, m, sig)
    assert r == ("ok", ("bool", True))
pop = old_cs.G2ProofOfPossession
sk, m, sig = sigs["G2ProofOfPossession"][3]
pk = pop.SkToPk(sk)
same("POP.Verify wrong msg", pop.Verify, new_cs.G2ProofOfPossession.Verify, pk, m + b"!", sig)
same("POP.Verify inf pk", pop.Verify, new_cs.G2ProofOfPossession.Verify, inf_pk, m, sig)
same("POP.Verify off-subgroup pk", pop.Verify, new_cs.G2ProofOfPossession.Verify, off_subgroup_pk, m, sig)
same("POP.Verify bad sig", pop.Verify, new_cs.G2ProofOfPossession.Verify, pk, m, b"\x00" * 96)
proof = pop.PopProve(sk)
r = same("PopVerify", pop.PopVerify, new_cs.G2ProofOfPossession.PopVerify, pk, proof)
assert r == ("ok", ("bool", True))
agg = pop.Aggregate([pop.Sign(1, b"m"), pop.Sign(2, b"m")])
r = same(
    "FastAggregateVerify",
    pop.FastAggregateVerify,
    new_cs.G2ProofOfPossession.FastAggregateVerify,
    [pop.SkToPk(1), pop.SkToPk(2)],
    b"m",
    agg,
)
assert r == ("ok", ("bool", True))
same(
    "FastAggregateVerify inf",
    pop.FastAggregateVerify,
    new_cs.G2ProofOfPossession.FastAggregateVerify,
    [pop.SkToPk(1), inf_pk],
    b"m",
    agg,
)
same(
    "AggregateVerify",
    old_cs.G2Basic.AggregateVerify,
    new_cs.G2Basic.AggregateVerify,
    [pk1, pk2],
    [b"a", b"b"],
    old_cs.G2Basic.Aggregate([old_cs.G2Basic.Sign(1, b"a"), old_cs.G2Basic.Sign(curve_order - 1, b"b")]),
)

# published anchor (Ethereum consensus tests / IETF generator): sk = 1
assert new_cs.G2Basic.SkToPk(1).hex() == (
    "97f1d3a73197d7942695638c4fa9ac0fc3688c4f9774b905a14e3a3f171bac58"
    "6c55e83ff97a1aeffb3af00adb22c6bb"
)
# module constants untouched
assert canon(Z1) == canon((FQ(1), FQ(1), FQ(0))) and canon(Z2) == canon(
    (FQ2([1, 0]), FQ2([1, 0]), FQ2([0, 0]))
)
assert add(Z1, G1) == G1

print("OK: %d comparisons identical in %.1fs" % (N_CHECKS, time.time() - t0))
