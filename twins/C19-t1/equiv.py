import os, sys; sys.path.insert(0, os.getcwd())

"""
Equivalence demonstration for property C19 (ECDSA recovery).

Loads the pristine copy of py_ecc/secp256k1/secp256k1.py (saved next to this
script) under another module name and compares it with the edited module of
the current working tree: same return values (value and type) and same
exception classes (and messages) for a broad grid of inputs.
"""

import importlib.util
import random
import time
from fractions import Fraction

HERE = os.path.dirname(os.path.abspath(__file__))

spec = importlib.util.spec_from_file_location(
    "pristine_secp256k1", os.path.join(HERE, "pristine", "secp256k1.py")
)
old = importlib.util.module_from_spec(spec)
spec.loader.exec_module(old)

import py_ecc.secp256k1.secp256k1 as new  # noqa: E402

assert os.path.abspath(new.__file__).startswith(os.getcwd()), new.__file__
assert os.path.abspath(old.__file__) != os.path.abspath(new.__file__)

P, N = old.P, old.N
assert (new.P, new.N, new.A, new.B, new.G, new.Gx, new.Gy) == (
    old.P,
    old.N,
    old.A,
    old.B,
    old.G,
    old.Gx,
    old.Gy,
)

rng = random.Random(0xC19)
t0 = time.time()
n_checked = 0
n_returned = 0
n_raised = 0


def outcome(fn, *args):
    try:
        res = fn(*args)
    except RecursionError:
        raise
    except Exception as e:  # noqa: BLE001
        return ("raise", type(e), str(e))
    return ("ok", res, deep_types(res))


def deep_types(x):
    if isinstance(x, (tuple, list)):
        return (type(x), tuple(deep_types(i) for i in x))
    return type(x)


def same(name, *args):
    global n_checked, n_returned, n_raised
    a = outcome(getattr(old, name), *args)
    b = outcome(getattr(new, name), *args)
    if a != b:
        print("MISMATCH in", name, "args=", args)
        print("  pristine:", a)
        print("  edited  :", b)
        sys.exit(1)
    n_checked += 1
    if a[0] == "ok":
        n_returned += 1
    else:
        n_raised += 1
    return a


def is_x_coord(x):
    c = (x * x * x + 7) % P
    return pow(c, (P - 1) // 2, P) in (0, 1)


# ---------------------------------------------------------------- inputs
valid_x, invalid_x = [], []
x = 1
while len(valid_x) < 3 or len(invalid_x) < 3:
    (valid_x if is_x_coord(x) else invalid_x).append(x)
    x += 1
while len(valid_x) < 6 or len(invalid_x) < 6:
    x = rng.randrange(P)
    (valid_x if is_x_coord(x) else invalid_x).append(x)
valid_x, invalid_x = valid_x[:6], invalid_x[:6]

hashes = [
    b"",
    b"\x00" * 32,
    b"\xff" * 32,
    b"\x01",
    N.to_bytes(32, "big"),  # z == 0 mod N
    (N - 1).to_bytes(32, "big"),
    (N + 1).to_bytes(32, "big"),
    bytes(rng.randrange(256) for _ in range(32)),
    bytes(rng.randrange(256) for _ in range(32)),
    bytes(rng.randrange(256) for _ in range(64)),  # z >= N, longer than 32 bytes
    bytes(rng.randrange(256) for _ in range(7)),
]
vs = [0, 1, 26, 27, 28, 29, 35, 36]
rs = (
    [0, 1, 2, 3, N - 1, N, N + 1, P - 1, P - 2, old.Gx]
    + valid_x
    + invalid_x
    + [rng.randrange(P) for _ in range(6)]
)
ss = [
    0,
    1,
    2,
    (N - 1) // 2,
    (N + 1) // 2,
    N - 1,
    N,
    N + 1,
    2 * N,
    2 * N + 5,
    rng.randrange(N),
    rng.randrange(N, 2**256),
]

# ---------------------------------------------------------------- main grid
# full grid on a subset of the hashes, thinner grid on the others
for hi, h in enumerate(hashes):
    for v in vs:
        for ri, r in enumerate(rs):
            for si, s in enumerate(ss):
                if hi >= 3 and v in (27, 28) and (ri + si + hi) % 4 != 0:
                    continue
                same("ecdsa_raw_recover", h, (v, r, s))
print("grid done: %d checks (%d returned, %d raised) %.1fs"
      % (n_checked, n_returned, n_raised, time.time() - t0))
assert n_returned > 300 and n_raised > 300

# ---------------------------------------------------------------- real signatures, low and high s, both parities, wrong parity
seen_v = set()
for i in range(40):
    h = bytes(rng.randrange(256) for _ in range(32))
    priv = rng.randrange(1, N).to_bytes(32, "big")
    sig = same("ecdsa_raw_sign", h, priv)[1]
    v, r, s = sig
    seen_v.add(v)
    pub = same("privtopub", priv)[1]
    got = same("ecdsa_raw_recover", h, (v, r, s))
    assert got[0] == "ok" and got[1] == pub
    # high-s twin: (v flipped, r, N - s) recovers the same key
    got_hi = same("ecdsa_raw_recover", h, (55 - v, r, N - s))
    assert got_hi[0] == "ok" and got_hi[1] == pub
    # other parity with the same s: a different key, never the signer's
    got_other = same("ecdsa_raw_recover", h, (55 - v, r, s))
    assert got_other[0] == "ok" and got_other[1] != pub
    # unreduced s, lists instead of tuples, different hash
    same("ecdsa_raw_recover", h, (v, r, s + N))
    same("ecdsa_raw_recover", h, [v, r, s])
    same("ecdsa_raw_recover", h[::-1], (v, r, s))
    for bad_v in (0, 1, 26, 29, 35, 36):
        o = same("ecdsa_raw_recover", h, (bad_v, r, s))
        assert o[0] == "raise" and o[1] is ValueError
assert seen_v == {27, 28}, seen_v

# ---------------------------------------------------------------- algebraic sanity of what both return
for i in range(12):
    h = hashes[i % len(hashes)]
    v = 27 + (i % 2)
    r = valid_x[i % len(valid_x)]
    s = rng.randrange(1, 2 * N)
    o = same("ecdsa_raw_recover", h, (v, r, s))
    if r % N == 0 or s % N == 0:
        assert o[0] == "raise" and o[1] is ValueError
        continue
    assert o[0] == "ok"
    Q = o[1]
    z = old.bytes_to_int(h)
    c = (r**3 + 7) % P
    y = pow(c, (P + 1) // 4, P)
    if y % 2 != (v - 27):
        y = P - y
    assert (y * y - c) % P == 0 and y % 2 == v - 27
    lhs = old.multiply(Q, r % N)
    sR = old.multiply((r, y), s)
    zG = old.multiply(old.G, (-z) % N)
    rhs = old.add(sR, zG) if z % N else sR
    assert lhs == rhs, (lhs, rhs)

# ---------------------------------------------------------------- malformed / off-domain inputs: same exception class either way
weird_v = [27.0, 28.0, 27.5, None, "27", True, False, -27, 2**300, Fraction(27), Fraction(28)]
weird_r = [-1, -N, -P, P, P + 1, 2**256, 2**300, 1.0, 0.0, 2.5, float("nan"),
           float("inf"), None, "1", "%d", b"\x01", True, False, Fraction(1), Fraction(1, 2), [1]]
weird_s = [-1, -N, -N - 1, 2**300, 1.0, 0.0, 2.5, float("nan"), None, "1", "%d",
           True, False, Fraction(3), [1]]
base_h = hashes[7]
good_r = valid_x[0]
for v in weird_v:
    for r in (good_r, invalid_x[0], 0, N):
        for s in (1, 0, N):
            same("ecdsa_raw_recover", base_h, (v, r, s))
for r in weird_r:
    for v in (27, 28, 26, 27.0):
        for s in (1, 0, N, None, 1.0):
            same("ecdsa_raw_recover", base_h, (v, r, s))
for s in weird_s:
    for v in (27, 28, 29):
        for r in (good_r, valid_x[1], invalid_x[0], 0, N, N + 1):
            same("ecdsa_raw_recover", base_h, (v, r, s))
weird_h = ["abc", "", [1, 2, 3], (255, 255), None, 5, bytearray(b"\x01\x02"), [b"a", "b", 3],
           memoryview(b"\x07" * 32), [256, -1], [1.5]]
for h in weird_h:
    for vrs in ((27, good_r, 5), (28, good_r, 5), (27, invalid_x[0], 5), (26, good_r, 5),
                (27, good_r, 0), (27, N, 5)):
        same("ecdsa_raw_recover", h, vrs)
weird_vrs = [(), (27,), (27, 1), (27, 1, 1, 1), None, 5, "abc", [27, good_r, 7],
             {27: 1, good_r: 2, 9: 3}, iter((27, good_r, 7))]
for vrs in weird_vrs[:-1]:
    same("ecdsa_raw_recover", base_h, vrs)
# iterators are consumed: give each version its own
a = outcome(old.ecdsa_raw_recover, base_h, iter((27, good_r, 7)))
b = outcome(new.ecdsa_raw_recover, base_h, iter((27, good_r, 7)))
assert a == b, (a, b)

# ---------------------------------------------------------------- call histories: repeat and interleave, arguments not mutated
history = []
for i in range(30):
    h = hashes[rng.randrange(len(hashes))]
    vrs = [rng.choice(vs), rng.choice(rs), rng.choice(ss)]
    history.append((h, vrs))
first = [same("ecdsa_raw_recover", h, vrs) for h, vrs in history]
order = list(range(len(history))) * 2
rng.shuffle(order)
for idx in order:
    h, vrs = history[idx]
    before = list(vrs)
    again = same("ecdsa_raw_recover", h, vrs)
    assert vrs == before
    assert again == first[idx], (idx, again, first[idx])
    # interleave other public functions
    same("multiply", old.G, rng.randrange(-5, 5))
    same("inv", rng.randrange(-N, 2 * N), N)

# ---------------------------------------------------------------- the other public functions of the module, edge inputs
INF_LIKE = [(0, 0, 1), (0, 0, 0), (5, 0, 1), (0, 0, 7)]
pts3 = [(old.Gx, old.Gy, 1), old.to_jacobian(old.multiply(old.G, 2)),
        old.jacobian_multiply((old.Gx, old.Gy, 1), 12345), (old.Gx, P - old.Gy, 1),
        (old.Gx + P, old.Gy - P, 1)] + INF_LIKE
scalars = [0, 1, 2, 3, 4, 5, 7, 8, N - 1, N, N + 1, 2 * N, 2 * N + 1, -1, -2, -N, -N - 3,
           2**256, 2**300 + 1, rng.randrange(N), rng.randrange(2**256), 2.0, 3.0, 2.5, 5.5,
           float("nan"), float("inf"), True, False, None, "3", Fraction(4), Fraction(5, 2)]
for p in pts3:
    for n in scalars:
        same("jacobian_multiply", p, n)
    same("jacobian_double", p)
    same("from_jacobian", p)
    for q in pts3:
        same("jacobian_add", p, q)
pts2 = [old.G, old.multiply(old.G, 2), old.multiply(old.G, N - 1), (0, 0), (old.Gx, P - old.Gy)]
for p in pts2:
    for n in scalars:
        same("multiply", p, n)
    for q in pts2:
        same("add", p, q)
    same("to_jacobian", p)
for a_ in [0, 1, 2, -1, N - 1, N, N + 1, 2 * N, -N, P, rng.randrange(N), rng.randrange(2**300)]:
    for m in (N, P, 7, 1):
        same("inv", a_, m)
for b_ in [b"", b"\x00", b"\x01\x00", b"\xff" * 33, "ab", [1, 2], bytearray(b"\x09")]:
    same("bytes_to_int", b_)
for val in [0, 5, "a", b"a", True]:
    same("safe_ord", val)
for h, priv in [(b"\x00" * 32, b"\x01" * 32), (b"", b"\x01"), (b"\xff" * 32, (N - 1).to_bytes(32, "big")),
                (b"abc", b"\x00" * 31 + b"\x02")]:
    same("deterministic_generate_k", h, priv)
    same("ecdsa_raw_sign", h, priv)
    same("privtopub", priv)

# public names: nothing public added or removed
pub_old = sorted(n for n in vars(old) if not n.startswith("_"))
pub_new = sorted(n for n in vars(new) if not n.startswith("_"))
assert pub_old == pub_new, (set(pub_old) ^ set(pub_new))
# module constants untouched after everything above
assert (new.P, new.N, new.A, new.B, new.G, new.Gx, new.Gy) == (P, N, 0, 7, old.G, old.Gx, old.Gy)

print("OK: %d comparisons identical (%d returned, %d raised) in %.1fs"
      % (n_checked, n_returned, n_raised, time.time() - t0))
