import os, sys; sys.path.insert(0, os.getcwd())  # noqa: E702

"""
Equivalence demonstration for property C16 (HKDF / KeyGen).

Loads the PRISTINE py_ecc/bls/hash.py and py_ecc/bls/ciphersuites.py (saved next
to this script under pristine/) under other module names, side by side with the
edited modules of the working tree, and checks that results (value AND type)
and exception classes are identical; additionally cross-checks both against an
independent RFC 5869 / BLS-draft-v4 reference written here.
"""

import hashlib
import hmac
import importlib
import importlib.util
import random
import time
import types

HERE = os.path.dirname(os.path.abspath(__file__))
PRISTINE = os.path.join(HERE, "pristine")

import py_ecc.bls  # noqa: E402  (the edited tree, from cwd)

assert os.path.abspath(py_ecc.bls.__file__).startswith(os.getcwd()), py_ecc.bls.__file__

new_hash = importlib.import_module("py_ecc.bls.hash")
new_cs = importlib.import_module("py_ecc.bls.ciphersuites")

# --- pristine hash.py as py_ecc.bls._pristine_hash -------------------------
spec = importlib.util.spec_from_file_location(
    "py_ecc.bls._pristine_hash", os.path.join(PRISTINE, "hash.py")
)
old_hash = importlib.util.module_from_spec(spec)
sys.modules["py_ecc.bls._pristine_hash"] = old_hash
spec.loader.exec_module(old_hash)

# --- pristine ciphersuites.py, wired to the pristine hash module -----------
with open(os.path.join(PRISTINE, "ciphersuites.py")) as f:
    src = f.read()
assert src.count("from .hash import") == 1
src = src.replace("from .hash import", "from ._pristine_hash import")
old_cs = types.ModuleType("py_ecc.bls._pristine_ciphersuites")
old_cs.__package__ = "py_ecc.bls"
old_cs.__file__ = os.path.join(PRISTINE, "ciphersuites.py")
sys.modules["py_ecc.bls._pristine_ciphersuites"] = old_cs
exec(compile(src, old_cs.__file__, "exec"), old_cs.__dict__)

assert old_cs.hkdf_expand is old_hash.hkdf_expand
assert new_cs.hkdf_expand is new_hash.hkdf_expand
assert old_hash.hkdf_expand is not new_hash.hkdf_expand

R = 52435875175126190479447740508185965837690552500527637822603658699938581184513
assert new_cs.curve_order == R == old_cs.curve_order

SUITES = ["G2Basic", "G2MessageAugmentation", "G2ProofOfPossession", "BaseG2Ciphersuite"]

checks = 0


def outcome(fn, *args, **kw):
    try:
        v = fn(*args, **kw)
    except BaseException as e:  # noqa: B902
        if isinstance(e, (KeyboardInterrupt, SystemExit)):
            raise
        return ("exc", type(e).__name__)
    return ("ok", type(v).__name__, bytes(v) if isinstance(v, (bytes, bytearray)) else v)


def same(label, old_fn, new_fn, *args, **kw):
    global checks
    a = outcome(old_fn, *args, **kw)
    b = outcome(new_fn, *args, **kw)
    checks += 1
    if a != b:
        print("MISMATCH", label, [repr(x)[:80] for x in args], kw)
        print("  pristine:", repr(a)[:200])
        print("  edited  :", repr(b)[:200])
        sys.exit(1)
    return a


# ---------------------------------------------------------------------------
# independent references
# ---------------------------------------------------------------------------
def ref_extract(salt, ikm):
    return hmac.new(bytes(salt), bytes(ikm), "sha256").digest()


def ref_expand(prk, info, length):
    assert 0 <= length <= 255 * 32
    t = b""
    okm = b""
    i = 0
    while len(okm) < length:
        i += 1
        t = hmac.new(bytes(prk), t + bytes(info) + bytes([i]), "sha256").digest()
        okm += t
    return okm[:length]


def ref_keygen(ikm, key_info=b""):
    salt = b"BLS-SIG-KEYGEN-SALT-"
    sk = 0
    while sk == 0:
        salt = hashlib.sha256(salt).digest()
        prk = ref_extract(salt, bytes(ikm) + b"\x00")
        okm = ref_expand(prk, bytes(key_info) + (48).to_bytes(2, "big"), 48)
        sk = int.from_bytes(okm, "big") % R
    return sk


rng = random.Random(0xC16)
t0 = time.time()


def rb(n):
    return bytes(rng.getrandbits(8) for _ in range(n))


# ---------------------------------------------------------------------------
# 0. RFC 5869 appendix A test vectors (SHA-256 cases 1-3)
# ---------------------------------------------------------------------------
VECTORS = [
    (
        "0b" * 22,
        "000102030405060708090a0b0c",
        "f0f1f2f3f4f5f6f7f8f9",
        42,
        "077709362c2e32df0ddc3f0dc47bba6390b6c73bb50f9c3122ec844ad7c2b3e5",
        "3cb25f25faacd57a90434f64d0362f2a2d2d0a90cf1a5a4c5db02d56ecc4c5bf"
        "34007208d5b887185865",
    ),
    (
        "".join("%02x" % i for i in range(0x00, 0x50)),
        "".join("%02x" % i for i in range(0x60, 0xB0)),
        "".join("%02x" % i for i in range(0xB0, 0x100)),
        82,
        "06a6b88c5853361a06104c9ceb35b45cef760014904671014a193f40c15fc244",
        "b11e398dc80327a1c8e7f78c596a49344f012eda2d4efad8a050cc4c19afa97c"
        "59045a99cac7827271cb41c65e590e09da3275600c2f09b8367793a9aca3db71"
        "cc30c58179ec3e87c14c01d5c1f3434f1d87",
    ),
    (
        "0b" * 22,
        "",
        "",
        42,
        "19ef24a32c717b167f33a91d6f648bdf96596776afdb6377ac434c1c293ccb04",
        "8da4e775a563c18f715f802a063c5a31b8a11f5c5ee1879ec3454e5f3c738d2d"
        "9d201395faa4b61a96c8",
    ),
]
for ikm, salt, info, L, prk, okm in VECTORS:
    ikm, salt, info, prk, okm = map(bytes.fromhex, (ikm, salt, info, prk, okm))
    for mod in (old_hash, new_hash):
        assert mod.hkdf_extract(salt, ikm) == prk
        assert mod.hkdf_expand(prk, info, L) == okm
        checks += 2

# ---------------------------------------------------------------------------
# 1. hkdf_extract: all lengths 0..300 on salt and ikm, plus malformed
# ---------------------------------------------------------------------------
for n in range(0, 301):
    salt, ikm = rb(n), rb(rng.randrange(0, 301))
    r = same("extract", old_hash.hkdf_extract, new_hash.hkdf_extract, salt, ikm)
    assert r == ("ok", "bytes", ref_extract(salt, ikm))
    salt, ikm = rb(rng.randrange(0, 301)), rb(n)
    r = same("extract", old_hash.hkdf_extract, new_hash.hkdf_extract, salt, ikm)
    assert r == ("ok", "bytes", ref_extract(salt, ikm))
for salt in (b"", b"\x00" * 32, b"\x00" * 64, b"\x00" * 65, rb(63), rb(64), rb(65), rb(300)):
    for ikm in (b"", b"\x00", rb(64), bytearray(rb(10)), memoryview(b"abc")):
        same("extract-b", old_hash.hkdf_extract, new_hash.hkdf_extract, salt, ikm)
        same("extract-b", old_hash.hkdf_extract, new_hash.hkdf_extract, bytearray(salt), ikm)
BAD = [None, "str", 5, 1.5, [1, 2], (1,), memoryview(b"xy"), object(), True]
for a in BAD + [b"ok", bytearray(b"ok")]:
    for b in BAD + [b"ok", bytearray(b"ok")]:
        same("extract-bad", old_hash.hkdf_extract, new_hash.hkdf_extract, a, b)

# ---------------------------------------------------------------------------
# 2. hkdf_expand: EVERY length 0..8160 for a fixed (prk, info); random others
# ---------------------------------------------------------------------------
prk0, info0 = rb(32), rb(17)
full = ref_expand(prk0, info0, 8160)
for L in range(0, 8161):
    r = same("expand-all-L", old_hash.hkdf_expand, new_hash.hkdf_expand, prk0, info0, L)
    assert r == ("ok", "bytearray", full[:L]), L

for n in range(0, 301):
    prk, info, L = rb(n), rb(rng.randrange(0, 301)), rng.randrange(0, 8161)
    r = same("expand-rand", old_hash.hkdf_expand, new_hash.hkdf_expand, prk, info, L)
    assert r == ("ok", "bytearray", ref_expand(prk, info, L))
    prk, info, L = rb(rng.randrange(0, 301)), rb(n), rng.choice(
        [0, 1, 31, 32, 33, 48, 63, 64, 65, 8128, 8129, 8159, 8160]
    )
    r = same("expand-rand", old_hash.hkdf_expand, new_hash.hkdf_expand, prk, info, L)
    assert r == ("ok", "bytearray", ref_expand(prk, info, L))

# argument kinds: bytearray / memoryview / mixed; arguments must not be mutated
for prk in (b"", rb(32), bytearray(rb(32)), rb(64), rb(65), rb(300)):
    for info in (b"", rb(5), bytearray(rb(5)), memoryview(b"info"), bytearray(b"")):
        for L in (0, 1, 32, 33, 48, 96, 255 * 32):
            pc = bytes(prk)
            ic = bytes(info)
            same("expand-kinds", old_hash.hkdf_expand, new_hash.hkdf_expand, prk, info, L)
            assert bytes(prk) == pc and bytes(info) == ic

# malformed / out-of-range lengths and operand types, in every combination
LENGTHS = [
    -1, -32, -33, -10**6, 8161, 8191, 8192, 8193, 10000, 2**20, True, False,
    0.0, 1.0, 32.0, 32.5, 33.0, 8160.0, 8161.0, -1.5,
    float("nan"), float("inf"), float("-inf"), None, "32", b"32", [32], 2**70,
]
PRKS = [b"", rb(32), bytearray(rb(32))] + BAD
INFOS = [b"", rb(3), bytearray(rb(3))] + BAD
for L in LENGTHS + [0, 1, 32, 33]:
    for prk in PRKS:
        for info in INFOS:
            # (huge ints are cheap: pristine fails with ValueError at block 256)
            same("expand-bad", old_hash.hkdf_expand, new_hash.hkdf_expand, prk, info, L)

# ---------------------------------------------------------------------------
# 3. KeyGen: every IKM length 0..128 x sampled key_info, every key_info length
#    0..64, all ciphersuite classes, malformed inputs, default argument
# ---------------------------------------------------------------------------
for name in SUITES:
    O = getattr(old_cs, name)
    N = getattr(new_cs, name)
    for n in range(0, 129):
        ikm = rb(n)
        for ki in (b"", rb(rng.randrange(0, 65))):
            r = same("keygen", O.KeyGen, N.KeyGen, ikm, ki)
            assert r == ("ok", "int", ref_keygen(ikm, ki))
            assert 1 <= r[2] < R
        r = same("keygen-default", O.KeyGen, N.KeyGen, ikm)
        assert r == ("ok", "int", ref_keygen(ikm))
    for n in range(0, 65):
        ikm, ki = rb(rng.choice([0, 31, 32, 33, 128])), rb(n)
        r = same("keygen-info", O.KeyGen, N.KeyGen, ikm, ki)
        assert r == ("ok", "int", ref_keygen(ikm, ki))
        r = same("keygen-kw", O.KeyGen, N.KeyGen, IKM=ikm, key_info=ki)
        assert r == ("ok", "int", ref_keygen(ikm, ki))
    # instances too (the public py_ecc.bls objects are classes, but be thorough)
    if name != "BaseG2Ciphersuite":
        same("keygen-inst", O().KeyGen, N().KeyGen, b"\x01" * 32, b"x")
    # bytearray inputs, not mutated
    ba, bi = bytearray(rb(32)), bytearray(rb(7))
    ca, ci = bytes(ba), bytes(bi)
    r = same("keygen-ba", O.KeyGen, N.KeyGen, ba, bi)
    assert r == ("ok", "int", ref_keygen(ca, ci)) and bytes(ba) == ca and bytes(bi) == ci
    KBAD = BAD + [b"ok", bytearray(b"ok"), b""]
    for a in KBAD:
        for b in KBAD:
            same("keygen-bad", O.KeyGen, N.KeyGen, a, b)
    # oversized key_info / IKM are accepted by both
    same("keygen-big", O.KeyGen, N.KeyGen, rb(1000), rb(1000))

# known value: the draft / eth2 interop style sanity check through the package API
from py_ecc.bls import G2ProofOfPossession as PublicPoP  # noqa: E402

assert PublicPoP.KeyGen(b"\x00" * 32) == ref_keygen(b"\x00" * 32)

# ---------------------------------------------------------------------------
# 4. the SK == 0 retry path: force the first attempt(s) to give okm = 0 and
#    compare the exact sequence of (salt-derived) hkdf calls made by both
# ---------------------------------------------------------------------------
def traced(mod_cs, mod_hash, zero_first, ikm, ki):
    log = []
    state = {"n": 0}
    real_extract, real_expand = mod_hash.hkdf_extract, mod_hash.hkdf_expand

    def ex(salt, ikm_):
        out = real_extract(salt, ikm_)
        log.append(("extract", bytes(salt), bytes(ikm_), out))
        return out

    def xp(prk, info, length):
        out = real_expand(prk, info, length)
        log.append(("expand", bytes(prk), bytes(info), length, bytes(out)))
        state["n"] += 1
        if state["n"] <= zero_first:
            return bytearray(len(out))  # all-zero okm -> SK == 0 -> retry
        return out

    mod_cs.hkdf_extract, mod_cs.hkdf_expand = ex, xp
    try:
        res = outcome(mod_cs.G2ProofOfPossession.KeyGen, ikm, ki)
    finally:
        mod_cs.hkdf_extract, mod_cs.hkdf_expand = real_extract, real_expand
    return res, log


def ref_keygen_retry(ikm, ki, zero_first):
    salt = b"BLS-SIG-KEYGEN-SALT-"
    for _ in range(zero_first + 1):
        salt = hashlib.sha256(salt).digest()
        prk = ref_extract(salt, ikm + b"\x00")
        okm = ref_expand(prk, ki + b"\x00\x30", 48)
    return int.from_bytes(okm, "big") % R


for zero_first in (0, 1, 2, 5):
    for _ in range(10):
        ikm, ki = rb(rng.randrange(0, 129)), rb(rng.randrange(0, 65))
        a = traced(old_cs, old_hash, zero_first, ikm, ki)
        b = traced(new_cs, new_hash, zero_first, ikm, ki)
        checks += 1
        if a != b:
            print("MISMATCH in retry path", zero_first)
            sys.exit(1)
        assert len(a[1]) == 2 * (zero_first + 1)
        assert a[0] == ("ok", "int", ref_keygen_retry(ikm, ki, zero_first))
    # a malformed key_info is only noticed after the first extract
    a = traced(old_cs, old_hash, zero_first, b"ikm", "bad")
    b = traced(new_cs, new_hash, zero_first, b"ikm", "bad")
    assert a == b and a[0] == ("exc", "TypeError"), a[0]
    a = traced(old_cs, old_hash, zero_first, "bad", b"info")
    b = traced(new_cs, new_hash, zero_first, "bad", b"info")
    assert a == b and a[0] == ("exc", "TypeError") and a[1] == []
    checks += 2

# ---------------------------------------------------------------------------
# 5. call histories: interleaved, repeated calls with equal/different arguments
#    (including failing calls in between) give the same transcript, and a
#    repeated call returns an equal result
# ---------------------------------------------------------------------------
pool_b = [b"", b"\x00", rb(1), rb(32), rb(32), rb(48), rb(64), rb(65), rb(300), bytearray(rb(32))]
pool_L = [0, 1, 31, 32, 33, 48, 64, 96, 255 * 32, 255 * 32 + 1, -1, 32.0, None]
pool_bad = [None, "s", 3]


def transcript(mod_hash, mod_cs, ops):
    out = []
    for op in ops:
        kind = op[0]
        if kind == "x":
            out.append(outcome(mod_hash.hkdf_extract, op[1], op[2]))
        elif kind == "e":
            out.append(outcome(mod_hash.hkdf_expand, op[1], op[2], op[3]))
        else:
            out.append(outcome(getattr(mod_cs, op[3]).KeyGen, op[1], op[2]))
    return out


for rnd in range(6):
    ops = []
    for _ in range(250):
        k = rng.random()
        pick = lambda: rng.choice(pool_b if rng.random() < 0.93 else pool_bad)  # noqa: E731
        if k < 0.3:
            ops.append(("x", pick(), pick()))
        elif k < 0.75:
            ops.append(("e", pick(), pick(), rng.choice(pool_L)))
        else:
            ops.append(("k", pick(), pick(), rng.choice(SUITES)))
    # repeat a random third of the operations later in the sequence
    ops = ops + rng.sample(ops, len(ops) // 3)
    rng.shuffle(ops)
    ops = ops + ops[:50]
    ta = transcript(old_hash, old_cs, ops)
    tb = transcript(new_hash, new_cs, ops)
    checks += len(ops)
    if ta != tb:
        bad = [i for i, (x, y) in enumerate(zip(ta, tb)) if x != y][0]
        print("MISMATCH in history round", rnd, "op", bad, repr(ops[bad])[:200])
        sys.exit(1)
    # determinism within the edited tree: equal arguments -> equal result,
    # whatever happened in between
    seen = {}
    for op, res in zip(ops, tb):
        key = repr(op)
        if key in seen:
            assert seen[key] == res, op
        seen[key] = res

# module-level state: nothing but the expected names, no hidden caches that grow
for mod_old, mod_new in ((old_hash, new_hash), (old_cs, new_cs)):
    on = {k for k in vars(mod_old) if not k.startswith("__")}
    nn = {k for k in vars(mod_new) if not k.startswith("__")}
    extra = nn - on
    for k in extra:
        v = getattr(mod_new, k)
        assert callable(v) or isinstance(v, (int, bytes, str)), (k, type(v))
    assert on - nn == set(), on - nn

print("OK: %d comparisons identical (%.1fs)" % (checks, time.time() - t0))
sys.exit(0)
