import os, sys; sys.path.insert(0, os.getcwd())  # noqa: E401,E702

# Equivalence demonstration for p1 (optimized_bn128/optimized_pairing.py):
#   * final exponent hoisted to a module constant
#   * Frobenius powers x**field_modulus replaced by a table of basis images (exp_by_p)
#   * neg(Q) computed at most once per Miller loop
# The pristine file is loaded next to the edited one (same package, other name) and both
# are driven with the same inputs; values (type, coefficient tuples, coefficient types)
# and exception classes must agree.
import importlib.util
import random
import time

import py_ecc.optimized_bn128.optimized_pairing as new
from py_ecc.fields import (
    optimized_bn128_FQ as FQ,
    optimized_bn128_FQ2 as FQ2,
    optimized_bn128_FQ12 as FQ12,
)
from py_ecc.optimized_bn128 import optimized_curve as oc

HERE = os.path.dirname(os.path.abspath(__file__))
spec = importlib.util.spec_from_file_location(
    "py_ecc.optimized_bn128._pristine_optimized_pairing",
    os.path.join(HERE, "pristine", "optimized_bn128_optimized_pairing.py"),
)
old = importlib.util.module_from_spec(spec)
sys.modules[spec.name] = old
spec.loader.exec_module(old)

assert old is not new and old.__file__ != new.__file__
assert hasattr(new, "exp_by_p") and not hasattr(old, "exp_by_p"), "edit not applied?"
assert os.path.realpath(new.__file__).startswith(os.path.realpath(os.getcwd()))

T0 = time.time()
rng = random.Random(0xC05)
p = oc.field_modulus
r = oc.curve_order
G1, G2, Z1, Z2 = oc.G1, oc.G2, oc.Z1, oc.Z2
n_checks = 0


def describe(v):
    if isinstance(v, tuple):
        return ("tuple",) + tuple(describe(e) for e in v)
    if hasattr(v, "coeffs"):
        return (
            type(v).__name__,
            tuple(int(c) for c in v.coeffs),
            tuple(type(c).__name__ for c in v.coeffs),
        )
    if hasattr(v, "n"):
        return (type(v).__name__, v.n)
    return (type(v).__name__, repr(v))


def outcome(f, *a, **k):
    try:
        return ("ok", describe(f(*a, **k)))
    except Exception as e:  # noqa: BLE001
        return ("exc", type(e).__name__)


def same(fo, fn, *a, **k):
    global n_checks
    o, n = outcome(fo, *a, **k), outcome(fn, *a, **k)
    assert o == n, (fo.__name__, a, k, o, n)
    n_checks += 1
    return n


def snapshot(args):
    return describe(tuple(args))


# ----------------------------------------------------------------------------------
# 1. module constants
assert new.final_exponent == (p**12 - 1) // r
assert new.field_modulus == old.field_modulus and new.curve_order == old.curve_order
assert new.pseudo_binary_encoding == old.pseudo_binary_encoding
table_before = describe(tuple(new.frobenius_table))
assert isinstance(new.frobenius_table, tuple) and len(new.frobenius_table) == 12


# 2. exp_by_p(x) == x ** field_modulus, everywhere
def rand_fq12():
    return FQ12([rng.randrange(p) for _ in range(12)])


elems = [FQ12.zero(), FQ12.one(), FQ12([p - 1] * 12), FQ12([0] * 11 + [1])]
elems += [FQ12([0] * i + [1] + [0] * (11 - i)) for i in range(12)]
elems += [FQ12([0] * i + [p - 1] + [0] * (11 - i)) for i in range(12)]
elems += [rand_fq12() for _ in range(25)]
elems += list(oc.twist(G2)) + list(oc.twist(oc.multiply(G2, 5)))
for x in elems:
    want = describe(x**p)
    got = describe(new.exp_by_p(x))
    assert want == got, x
    # iterated (as used for nQ2)
    assert describe((x**p) ** p) == describe(new.exp_by_p(new.exp_by_p(x)))
    n_checks += 2
# inputs that take the fall-back branch: FQ coefficients, FQ2, FQ, subclass, bools
class SubFQ12(FQ12):  # noqa: E302
    pass


odd = [
    FQ12([FQ(rng.randrange(p)) for _ in range(12)]),
    FQ12([FQ(3)] + [0] * 11),
    FQ12([True] + [0] * 11),
    FQ2([rng.randrange(p), rng.randrange(p)]),
    FQ2([FQ(5), FQ(7)]),
    FQ(rng.randrange(p)),
    FQ(0),
    SubFQ12([rng.randrange(p) for _ in range(12)]),
]
for x in odd:
    assert describe(x**p) == describe(new.exp_by_p(x)), x
    n_checks += 1
for bad in ["a", None, (1, 2), 1.5, [1]]:
    o = outcome(lambda v: v**p, bad)
    n = outcome(new.exp_by_p, bad)
    assert o == n and o[0] == "exc", (bad, o, n)
    n_checks += 1

# 3. final_exponentiate
for x in [FQ12.one(), FQ12.zero(), rand_fq12(), rand_fq12()]:
    same(old.final_exponentiate, new.final_exponentiate, x)


# 4. pairing / miller_loop on the inputs the property quantifies over
def scale(pt, k):
    return tuple(c * k for c in pt)


def fq2_sqrt(a):
    # square root in FQ2 = FQ[i]/(i^2+1) (p = 3 mod 4) or None
    a0, a1 = (int(c) for c in a.coeffs)
    if a1 == 0:
        s = pow(a0, (p + 1) // 4, p)
        if s * s % p == a0:
            return FQ2([s, 0])
        s = pow(-a0 % p, (p + 1) // 4, p)
        return FQ2([0, s]) if s * s % p == -a0 % p else None
    nrm = (a0 * a0 + a1 * a1) % p
    alpha = pow(nrm, (p + 1) // 4, p)
    if alpha * alpha % p != nrm:
        return None
    inv2 = pow(2, -1, p)
    for al in (alpha, -alpha % p):
        delta = (a0 + al) * inv2 % p
        x0 = pow(delta, (p + 1) // 4, p)
        if x0 * x0 % p == delta and x0:
            x1 = a1 * pow(2 * x0, -1, p) % p
            cand = FQ2([x0, x1])
            if cand * cand == a:
                return cand
    return None


def twist_curve_point_outside_subgroup():
    while True:
        x = FQ2([rng.randrange(p), rng.randrange(p)])
        y = fq2_sqrt(x * x * x + oc.b2)
        if y is not None:
            pt = (x, y, FQ2.one())
            assert oc.is_on_curve(pt, oc.b2)
            if not oc.is_inf(oc.multiply(pt, r)):
                return pt


full = [rng.randrange(1, r) for _ in range(3)]
scalars = [1, 2, r - 1] + full
pairs = []  # (Q, P, label)
for a in scalars[:4]:
    for b in (1, 2, r - 1, full[1]):
        pairs.append((oc.multiply(G2, b), oc.multiply(G1, a)))
pairs = pairs[:10]
# other projective representatives of the same points
k1, k2 = FQ(rng.randrange(1, p)), FQ2([rng.randrange(p), rng.randrange(1, p)])
pairs.append((scale(G2, k2), scale(G1, k1)))
pairs.append((scale(oc.multiply(G2, full[0]), k2), oc.multiply(G1, full[2])))
pairs.append((oc.normalize(oc.multiply(G2, 7)) + (FQ2.one(),), oc.multiply(G1, 7)))
# sums
pairs.append((oc.add(oc.multiply(G2, 3), oc.multiply(G2, full[0])), G1))
pairs.append((G2, oc.add(oc.multiply(G1, 9), oc.multiply(G1, full[1]))))
# on the twist curve but outside the order-r subgroup (accepted by pairing())
Qout = twist_curve_point_outside_subgroup()
pairs.append((Qout, G1))
pairs.append((Qout, oc.multiply(G1, full[0])))
# coordinates given with FQ-object coefficients
G2fq = tuple(FQ2([FQ(int(c)) for c in e.coeffs]) for e in G2)
pairs.append((G2fq, G1))

for i, (Q, P) in enumerate(pairs):
    before = snapshot((Q, P))
    # full pairing for a subset (slow), un-exponentiated Miller value for all
    if i % 2 == 0 or i >= 10:
        same(old.pairing, new.pairing, Q, P)
    same(old.pairing, new.pairing, Q, P, final_exponentiate=False)
    assert snapshot((Q, P)) == before, "argument mutated"
# direct miller_loop calls (twisted / cast arguments), both flag values
for Q, P in pairs[:3] + pairs[10:13]:
    tq, cp = oc.twist(Q), new.cast_point_to_fq12(P)
    same(old.miller_loop, new.miller_loop, tq, cp, final_exponentiate=False)
    same(old.miller_loop, new.miller_loop, tq, cp, False)
same(old.miller_loop, new.miller_loop, oc.twist(G2), new.cast_point_to_fq12(G1))
same(old.miller_loop, new.miller_loop, oc.twist(G2), new.cast_point_to_fq12(G1), True)
same(old.miller_loop, new.miller_loop, None, new.cast_point_to_fq12(G1))
same(old.miller_loop, new.miller_loop, oc.twist(G2), None)
same(old.miller_loop, new.miller_loop, None, None, final_exponentiate=False)
# miller_loop fed with an untwisted FQ2 point / garbage: same outcome class
same(old.miller_loop, new.miller_loop, G2, G1, final_exponentiate=False)
same(old.miller_loop, new.miller_loop, ("a", "b", "c"), new.cast_point_to_fq12(G1))
same(old.miller_loop, new.miller_loop, (1, 2, 3), new.cast_point_to_fq12(G1))
same(old.miller_loop, new.miller_loop, oc.twist(G2)[:2], new.cast_point_to_fq12(G1))
same(old.miller_loop, new.miller_loop, oc.twist(G2), (1, 2))

# 5. infinity in either argument (every representative) -> unit
infs1 = [Z1, (FQ(0), FQ(0), FQ(0)), (FQ(5), FQ(9), FQ(0)), oc.multiply(G1, 0),
         oc.multiply(G1, r)]
infs2 = [Z2, (FQ2.zero(), FQ2.zero(), FQ2.zero()), oc.multiply(G2, 0),
         oc.multiply(G2, r), (G2[0], G2[1], FQ2.zero())]
one = ("ok", describe(FQ12.one()))
for z in infs1:
    for fe in (True, False):
        assert same(old.pairing, new.pairing, G2, z, final_exponentiate=fe) == one
        assert same(old.pairing, new.pairing, Z2, z, final_exponentiate=fe) == one
for z in infs2:
    for fe in (True, False):
        assert same(old.pairing, new.pairing, z, G1, final_exponentiate=fe) == one

# 6. off-curve / malformed arguments -> same exception class
offP = [(FQ(1), FQ(3), FQ(1)), (FQ(0), FQ(1), FQ(1)), (G1[0], G1[1], FQ(2)),
        (FQ(2), FQ(2), FQ(7))]
offQ = [(G2[0], G2[1] + FQ2.one(), FQ2.one()), (G2[1], G2[0], FQ2.one()),
        (G2[0], G2[1], FQ2([2, 0])), (FQ2([1, 1]), FQ2([2, 3]), FQ2([1, 0]))]
for P in offP:
    for Q in (G2, Z2, offQ[0]):
        assert same(old.pairing, new.pairing, Q, P) == ("exc", "ValueError")
        same(old.pairing, new.pairing, Q, P, final_exponentiate=False)
for Q in offQ:
    for P in (G1, Z1):
        assert same(old.pairing, new.pairing, Q, P) == ("exc", "ValueError")
for Q, P in [(G1, G2), (G2, G2), (G1, G1), (None, G1), (G2, None), (G2[:2], G1),
             (G2, G1[:2]), ((), G1), (G2, "abc"), (5, 6)]:
    assert same(old.pairing, new.pairing, Q, P)[0] == "exc"

# 7. the property itself on the edited module (cheap instances)
e = new.pairing(G2, G1)
assert e != FQ12.one() and e**r == FQ12.one()
a, b = 3, full[0]
assert new.pairing(oc.multiply(G2, b), oc.multiply(G1, a)) == e ** (a * b)
assert new.pairing(G2, oc.neg(G1)) * e == FQ12.one()
assert new.pairing(oc.neg(G2), G1) * e == FQ12.one()
assert new.pairing(G2, oc.add(G1, oc.multiply(G1, 4))) == e * new.pairing(
    G2, oc.multiply(G1, 4)
)

# 8. call histories: repeat and interleave equal / different arguments; results of the
# edited module must not depend on what was called before
hist = [pairs[0], pairs[11], pairs[0], (Z2, G1), pairs[15], pairs[0], (offQ[0], G1),
        pairs[11], pairs[0]]
first = {}
for Q, P in hist:
    key = snapshot((Q, P))
    got = same(old.pairing, new.pairing, Q, P, final_exponentiate=False)
    assert first.setdefault(key, got) == got
assert describe(tuple(new.frobenius_table)) == table_before, "table mutated"
assert new.final_exponent == (p**12 - 1) // r
for x in elems[:8]:
    assert describe(x**p) == describe(new.exp_by_p(x))

print(f"p1 equivalent: {n_checks} comparisons, {time.time() - T0:.1f}s")
