import os, sys; sys.path.insert(0, os.getcwd())
"""
Equivalence demonstration for a behaviour-preserving refactoring of
py_ecc/secp256k1/secp256k1.py (property C06).

Loads the pristine module (saved next to this script) under another name and the
working-tree module through the normal package import, then checks that every
public function relevant to the property returns identical values / raises
identical exception classes on a broad set of well-formed, boundary and
malformed inputs.
"""
import importlib.util
import random
import time

HERE = os.path.dirname(os.path.abspath(__file__))

spec = importlib.util.spec_from_file_location(
    "pristine_secp256k1", os.path.join(HERE, "pristine", "secp256k1.py")
)
OLD = importlib.util.module_from_spec(spec)
spec.loader.exec_module(OLD)

import py_ecc.secp256k1.secp256k1 as NEW  # noqa: E402

assert os.path.abspath(NEW.__file__).startswith(os.getcwd()), NEW.__file__
assert os.path.abspath(OLD.__file__) != os.path.abspath(NEW.__file__)

N, P = OLD.N, OLD.P
assert (NEW.N, NEW.P, NEW.A, NEW.B, NEW.G, NEW.Gx, NEW.Gy) == (
    OLD.N, OLD.P, OLD.A, OLD.B, OLD.G, OLD.Gx, OLD.Gy
)

rng = random.Random(0xC06)
checks = 0
START = time.time()


def outcome(f, *args):
    try:
        return ("ok", f(*args))
    except RecursionError:
        return ("exc", RecursionError)
    except Exception as e:  # noqa: BLE001
        return ("exc", type(e))


def same(name, *args):
    global checks
    a = outcome(getattr(OLD, name), *args)
    b = outcome(getattr(NEW, name), *args)
    if a != b or (a[0] == "ok" and type(a[1]) is not type(b[1])):
        print("MISMATCH in", name, "args=", args, "\n old:", a, "\n new:", b)
        sys.exit(1)
    checks += 1
    return a


def b32(i):
    return i.to_bytes(32, "big")


# ---------------------------------------------------------------- inputs
keys_int = [1, 2, 3, 7, 255, 256, 2**128, N // 2, N // 2 + 1, N - 2, N - 1]
keys_int += [rng.randrange(1, N) for _ in range(14)]
keys = [b32(k) for k in keys_int]

hashes = [
    b"\x00" * 32,
    b"\xff" * 32,
    b32(N - 1),
    b32(N),
    b32(N + 1),
    b32(1),
    b32(P),
    b32(N // 2),
]
hashes += [rng.randbytes(32) for _ in range(8)]
# 0..64-byte strings
short_hashes = [b"", b"\x00", b"\x01", b"\xff" * 31, b"\xff" * 33, b"\x80" + b"\x00" * 63]
short_hashes += [rng.randbytes(n) for n in (1, 5, 16, 31, 33, 48, 64)]

# ---------------------------------------------------------------- helpers
for x in [b"", b"\x00", b"\x01\x02", b"\xff" * 32, bytearray(b"\x01\x02"), "ab", "", [1, 2, 3],
          (255, 1), None, 5, [b"a", "b"], memoryview(b"abc")]:
    same("bytes_to_int", x)
for k in keys[:8]:
    same("privtopub", k)
for bad in [b"", b"\x00" * 32, b32(N), b32(N + 1), b"\xff" * 32, "abc", None, 17, bytearray(b32(5))]:
    same("privtopub", bad)

# ---------------------------------------------------------------- deterministic_generate_k
for k in keys:
    for h in hashes[:6] + short_hashes[:6]:
        same("deterministic_generate_k", h, k)
for h, k in [
    (None, keys[0]), (hashes[0], None), ("abc", keys[0]), (hashes[0], "abc"),
    (5, keys[0]), (hashes[0], 5), (bytearray(hashes[1]), bytearray(keys[1])),
    (memoryview(hashes[1]), keys[1]), (hashes[1], memoryview(keys[1])),
    (b"", b""), (b"", keys[0]), (hashes[0], b""), ([1, 2], keys[0]), (hashes[0], [1, 2]),
]:
    same("deterministic_generate_k", h, k)

# ---------------------------------------------------------------- sign, then recover
signed = []
for k in keys:
    for h in hashes + short_hashes:
        res = same("ecdsa_raw_sign", h, k)
        assert res[0] == "ok"
        v, r, s = res[1]
        assert v in (27, 28) and 1 <= r < N and 1 <= s <= N // 2
        signed.append((h, k, (v, r, s)))

# malformed arguments to ecdsa_raw_sign
for h, k in [
    (None, keys[0]), (hashes[0], None), ("abc", keys[0]), (hashes[0], "abc"),
    (5, keys[0]), (hashes[0], 5), (hashes[0], b""), (b"", b""),
    (hashes[0], b"\x00" * 32), (hashes[0], b32(N)), (hashes[0], b32(N + 1)),
    (hashes[0], b"\xff" * 32), (hashes[0], b"\x01"), (hashes[0], b"\x01" * 40),
    (bytearray(hashes[2]), bytearray(keys[2])), (memoryview(hashes[2]), keys[2]),
    (hashes[2], memoryview(keys[2])), ([1, 2], keys[0]), (hashes[0], [1, 2]),
]:
    same("ecdsa_raw_sign", h, k)

rng.shuffle(signed)
for h, k, (v, r, s) in signed[:150]:
    pub = OLD.privtopub(k)
    res = same("ecdsa_raw_recover", h, (v, r, s))
    assert res == ("ok", pub)
    other = same("ecdsa_raw_recover", h, (55 - v, r, s))
    assert other != ("ok", pub)
for h, k, (v, r, s) in signed[150:190]:
    # high-s twin, shifted r / s, wrong hash
    same("ecdsa_raw_recover", h, (v, r, N - s))
    same("ecdsa_raw_recover", h, (55 - v, r, N - s))
    same("ecdsa_raw_recover", h[::-1], (v, r, s))
    if r + N < P:
        same("ecdsa_raw_recover", h, (v, r + N, s))
    same("ecdsa_raw_recover", h, (v, r, s + N))

# boundary / malformed signatures
h0 = hashes[8]
rs_vals = [0, 1, 2, 3, 5, 6, 7, N - 1, N, N + 1, 2 * N, P - 1, P, P + 1, -1, -N, 2**256 - 1, 2**256]
for v in (27, 28):
    for r in rs_vals:
        for s in (0, 1, 2, N - 1, N, N + 1, -1):
            same("ecdsa_raw_recover", h0, (v, r, s))
    for s in rs_vals:
        same("ecdsa_raw_recover", h0, (v, OLD.Gx, s))
for v in (0, 1, 26, 29, 30, -27, 27.0, 28.0, 27.5, "27", b"\x1b", None, True, False, 2**64 + 27, (27,), [28]):
    for r, s in ((OLD.Gx, 1), (5, 1), (0, 0), (1, 0)):
        same("ecdsa_raw_recover", h0, (v, r, s))
for vrs in [
    (), (27,), (27, 1), (27, 1, 1, 1), None, 27, "abc", b"abc", [27, OLD.Gx, 1], [27, 1],
    (27, None, 1), (27, 1, None), (27, "1", 1), (27, 1, "1"), (27, 1.0, 1), (27, 1, 1.0),
    (27, OLD.Gx, 1.0), (27, float(OLD.Gx), 1), (27, OLD.Gx, None), (27, OLD.Gx, "1"),
    (28, OLD.Gx, b"\x01"), (27, b"\x01", 1), (27, True, True), (28, OLD.Gx, True),
    (27, OLD.Gx, False), (27, 1 + 0j, 1),
]:
    same("ecdsa_raw_recover", h0, vrs)
for h in [None, "abc", 5, b"", bytearray(h0), memoryview(h0), [1, 2, 3], b"\xff" * 64, b32(N), b32(0)]:
    same("ecdsa_raw_recover", h, (27, OLD.Gx, 1))
    same("ecdsa_raw_recover", h, (28, OLD.Gx, N - 1))
    same("ecdsa_raw_recover", h, (26, OLD.Gx, 1))
    same("ecdsa_raw_recover", h, (27, 5, 1))

# random (mostly unrelated) signatures: on-curve and off-curve r both occur
for _ in range(60):
    same("ecdsa_raw_recover", rng.randbytes(32), (rng.choice((27, 28)), rng.randrange(1, N), rng.randrange(1, N)))

# purity: arguments are not mutated
ba_h, ba_k = bytearray(hashes[3]), bytearray(keys[3])
vrs_list = [27, OLD.Gx, 12345]
NEW.ecdsa_raw_sign(ba_h, ba_k)
NEW.ecdsa_raw_recover(ba_h, vrs_list)
assert ba_h == hashes[3] and ba_k == keys[3] and vrs_list == [27, OLD.Gx, 12345]

# public names of the module are preserved
old_names = {n for n in dir(OLD) if not n.startswith("_")}
new_names = {n for n in dir(NEW) if not n.startswith("_")}
assert old_names <= new_names, old_names - new_names

print("equivalent: %d checks, %.1fs" % (checks, time.time() - START))
sys.exit(0)
