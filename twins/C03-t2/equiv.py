import os, sys; sys.path.insert(0, os.getcwd())  # noqa: E702

"""
Equivalence demonstration for twin t2 of property C03.

Two independent comparisons of the pristine and the edited code:

A. in this process the pristine optimized_curve.py and ciphersuites.py (saved next to
   this script) are loaded with importlib under other module names and compared call
   by call with the edited modules: double / add / multiply on FQ, FQ2 and FQ12
   points (all projective representatives of infinity, scaled representatives,
   P + P, P + (-P), points off the curve, y == 0, plain ints, mixed / malformed
   arguments), and Aggregate / _AggregatePKs with the pristine ciphersuite wired to
   the pristine curve functions.  Coordinates are compared exactly (type and value).

B. the whole stack: a copy of the working tree's py_ecc with the two touched files
   replaced by their pristine versions is created under this script's directory, the
   same scenario table (signing, Aggregate, KeyValidate, AggregateVerify and
   FastAggregateVerify for the three suites, pairing values, curve operations) is
   evaluated by one worker process per tree, and the two JSON results must be equal.

Run as   cd /tmp/wt2/C03 && /venv/bin/python /tmp/twin5/C03/t2/equiv.py
"""

import importlib.util
import itertools
import json
import multiprocessing
import random
import shutil
import subprocess
import time

HERE = os.path.dirname(os.path.abspath(__file__))
T0 = time.time()
WORKER = "--worker" in sys.argv

import py_ecc.bls  # noqa: E402
import py_ecc.bls.ciphersuites as cs  # noqa: E402
import py_ecc.optimized_bls12_381.optimized_curve as new_curve  # noqa: E402
from py_ecc.bls.g2_primitives import (  # noqa: E402
    G1_to_pubkey,
    G2_to_signature,
    pubkey_to_G1,
    signature_to_G2,
)
from py_ecc.fields import (  # noqa: E402
    optimized_bls12_381_FQ as FQ,
    optimized_bls12_381_FQ2 as FQ2,
    optimized_bls12_381_FQ12 as FQ12,
    optimized_bn128_FQ as BN_FQ,
)
from py_ecc.optimized_bls12_381 import (  # noqa: E402
    G1,
    G2,
    G12,
    Z1,
    Z2,
    curve_order,
    field_modulus,
    multiply,
    neg,
    twist,
)

assert os.path.realpath(cs.__file__).startswith(os.path.realpath(os.getcwd())), (
    "py_ecc must come from the current directory",
    cs.__file__,
)

SUITES = ("G2Basic", "G2MessageAugmentation", "G2ProofOfPossession")

# ---------------------------------------------------------------------------
# fixed material (plain bytes; produced once with the edited module, the signing
# path is not touched by the edit and is compared separately below)
# ---------------------------------------------------------------------------
SKS = [1, 2, 3, 12345, curve_order - 1, 2**200 + 7]
MSGS = [b"", b"m1", b"\x00" * 32, b"message three", b"m1x", bytes(range(64))]
PKS = [cs.G2Basic.SkToPk(sk) for sk in SKS]
# sk and curve_order - sk give opposite keys: PKS[0] + PKS[4] is the identity
INF_PK = G1_to_pubkey(Z1)
INF_SIG = G2_to_signature(Z2)


def find_non_subgroup_pubkey():
    # a decodable G1 encoding whose point is outside the prime-order subgroup
    from py_ecc.bls.g2_primitives import subgroup_check

    x = 1
    while True:
        cand = (x + 2**383).to_bytes(48, "big")
        try:
            pt = pubkey_to_G1(cand)
        except ValueError:
            x += 1
            continue
        if not subgroup_check(pt):
            return cand
        x += 1


def find_non_subgroup_signature():
    from py_ecc.bls.g2_primitives import subgroup_check

    x = 1
    while True:
        cand = (2**383).to_bytes(48, "big") + x.to_bytes(48, "big")
        try:
            pt = signature_to_G2(cand)
        except ValueError:
            x += 1
            continue
        if not subgroup_check(pt):
            return cand
        x += 1


BAD_SUBGROUP_PK = find_non_subgroup_pubkey()
BAD_SUBGROUP_SIG = find_non_subgroup_signature()
UNDECODABLE_PK = b"\x00" * 48  # c_flag == 0
UNDECODABLE_SIG = b"\x00" * 96
NOT_ON_CURVE_PK = None
_x = 1
while NOT_ON_CURVE_PK is None:
    cand = (_x + 2**383).to_bytes(48, "big")
    try:
        pubkey_to_G1(cand)
    except ValueError:
        NOT_ON_CURVE_PK = cand
    _x += 1


_SIGN_MEMO = {}


def sign(sname, sk, msg):
    # signing is not touched by the edit; memoised so that scenario tables can be
    # rebuilt cheaply (fresh generator arguments for every version)
    key = (sname, sk, msg)
    if key not in _SIGN_MEMO:
        _SIGN_MEMO[key] = getattr(cs, sname).Sign(sk, msg)
    return _SIGN_MEMO[key]


def outcome(thunk):
    try:
        v = thunk()
    except BaseException as e:  # noqa: B902
        return ("exc", type(e).__name__)
    return ("ok", type(v).__name__, repr(v))


class WeirdSeq:
    """Sized + iterable but neither list nor tuple."""

    def __init__(self, items):
        self.items = list(items)

    def __len__(self):
        return len(self.items)

    def __iter__(self):
        return iter(self.items)


def gen(items):
    for i in items:
        yield i


class Gen:
    """Marker: replaced by a fresh generator over ``items`` at every call."""

    def __init__(self, items):
        self.items = list(items)


def mk(x):
    return gen(x.items) if isinstance(x, Gen) else x


# ---------------------------------------------------------------------------
# scenario table: label -> callable(module) -> value
# ---------------------------------------------------------------------------
def build_scenarios():
    cheap = {}
    costly = {}

    for sname in SUITES:
        S = getattr(cs, sname)
        sigs = [sign(sname, sk, m) for sk, m in zip(SKS, MSGS)]
        # same message signed by everybody (FastAggregateVerify, repeated messages)
        common = b"shared message"
        csigs = [sign(sname, sk, common) for sk in SKS[:4]]

        def A(label, fn, table, sname=sname):
            table[sname + ":" + label] = (sname, fn)

        # ---------------- Aggregate ------------------------------------
        A("agg/empty-list", lambda S: S.Aggregate([]), cheap)
        A("agg/empty-tuple", lambda S: S.Aggregate(()), cheap)
        A("agg/none", lambda S: S.Aggregate(None), cheap)
        A("agg/generator", lambda S, sigs=sigs: S.Aggregate(gen(sigs[:2])), cheap)
        A("agg/weirdseq", lambda S, sigs=sigs: S.Aggregate(WeirdSeq(sigs[:3])), cheap)
        A("agg/set", lambda S, sigs=sigs: S.Aggregate(set(sigs[:3])), cheap)
        A("agg/bytes-arg", lambda S, sigs=sigs: S.Aggregate(sigs[0]), cheap)
        for n in range(1, 7):
            A("agg/first-%d" % n, lambda S, x=sigs[:n]: S.Aggregate(x), cheap)
        for perm in itertools.permutations(range(4)):
            A(
                "agg/perm-%s" % "".join(map(str, perm)),
                lambda S, x=[sigs[i] for i in perm]: S.Aggregate(x),
                cheap,
            )
        A(
            "agg/grouping-(01)(23)",
            lambda S, sigs=sigs: S.Aggregate(
                [S.Aggregate(sigs[0:2]), S.Aggregate(sigs[2:4])]
            ),
            cheap,
        )
        A(
            "agg/grouping-0(123)",
            lambda S, sigs=sigs: S.Aggregate([sigs[0], S.Aggregate(sigs[1:4])]),
            cheap,
        )
        A("agg/duplicate", lambda S, sigs=sigs: S.Aggregate([sigs[1], sigs[1]]), cheap)
        A(
            "agg/triplicate",
            lambda S, sigs=sigs: S.Aggregate([sigs[1], sigs[1], sigs[1]]),
            cheap,
        )
        negsig = G2_to_signature(neg(signature_to_G2(sigs[2])))
        A(
            "agg/sig-plus-negation",
            lambda S, x=[sigs[2], negsig]: S.Aggregate(x),
            cheap,
        )
        A("agg/infinity-only", lambda S: S.Aggregate([INF_SIG]), cheap)
        A(
            "agg/infinity-mixed",
            lambda S, sigs=sigs: S.Aggregate([INF_SIG, sigs[0], INF_SIG, sigs[1]]),
            cheap,
        )
        A(
            "agg/non-subgroup",
            lambda S, sigs=sigs: S.Aggregate([sigs[0], BAD_SUBGROUP_SIG]),
            cheap,
        )
        bads = {
            "short": sigs[0][:95],
            "long": sigs[0] + b"\x00",
            "empty": b"",
            "str": "a" * 96,
            "none": None,
            "int": 5,
            "bytearray": bytearray(sigs[0]),
            "memoryview": memoryview(sigs[0]),
            "undecodable": UNDECODABLE_SIG,
            "ff": b"\xff" * 96,
            "c-flag-only": b"\x80" + b"\x00" * 95,
            "inf-with-a-flag": b"\xe0" + b"\x00" * 95,
            "x-too-big": b"\x9f" + b"\xff" * 95,
        }
        for bname, bad in bads.items():
            for pos in ("first", "last", "only"):
                lst = {
                    "first": [bad, sigs[0]],
                    "last": [sigs[0], bad],
                    "only": [bad],
                }[pos]
                A("agg/bad-%s-%s" % (bname, pos), lambda S, x=lst: S.Aggregate(x), cheap)
        # validation runs over the whole list before anything is decoded
        A(
            "agg/undecodable-then-short",
            lambda S, sigs=sigs: S.Aggregate([UNDECODABLE_SIG, sigs[0][:95]]),
            cheap,
        )

        # ---------------- KeyValidate (precondition "every key valid") ---
        kv_inputs = PKS + [
            INF_PK,
            BAD_SUBGROUP_PK,
            UNDECODABLE_PK,
            NOT_ON_CURVE_PK,
            PKS[0][:47],
            PKS[0] + b"\x00",
            b"",
            b"\xff" * 48,
            b"\xe0" + b"\x00" * 47,
            b"\x9f" + b"\xff" * 47,
            bytearray(PKS[0]),
            "a" * 48,
            None,
            7,
        ]
        for i, k in enumerate(kv_inputs):
            A("keyvalidate/%d" % i, lambda S, k=k: S.KeyValidate(k), cheap)

        # ---------------- AggregateVerify ------------------------------
        def AV(label, pks, msgs, sig, table):
            A(
                "aggverify/" + label,
                lambda S, pks=pks, msgs=msgs, sig=sig: S.AggregateVerify(
                    mk(pks), mk(msgs), sig
                ),
                table,
            )

        agg = {n: S.Aggregate(sigs[:n]) for n in range(1, 7)}
        pop = sname == "G2ProofOfPossession"
        AV("valid-1", PKS[:1], MSGS[:1], agg[1], costly)
        AV("valid-2-tuples", tuple(PKS[:2]), tuple(MSGS[:2]), agg[2], costly)
        AV("valid-3", PKS[:3], MSGS[:3], agg[3], costly)
        if pop:
            AV("valid-6", PKS[:6], MSGS[:6], agg[6], costly)
        AV(
            "valid-3-permuted",
            [PKS[2], PKS[0], PKS[1]],
            [MSGS[2], MSGS[0], MSGS[1]],
            agg[3],
            costly,
        )
        AV("drop-signer", PKS[:2], MSGS[:2], agg[3], costly)
        if pop:
            AV("extra-signer", PKS[:3], MSGS[:3], agg[2], costly)
            AV("swap-msgs", PKS[:2], [MSGS[1], MSGS[0]], agg[2], costly)
        AV("substitute-key", [PKS[0], PKS[3], PKS[2]], MSGS[:3], agg[3], costly)
        AV("substitute-msg", PKS[:3], [MSGS[0], MSGS[4], MSGS[2]], agg[3], costly)
        AV("alter-aggregate", PKS[:3], MSGS[:3], agg[4], costly)
        AV("aggregate-infinity", PKS[:2], MSGS[:2], INF_SIG, costly)
        AV(
            "duplicate-signer",
            [PKS[0], PKS[1], PKS[1]],
            [MSGS[0], MSGS[1], MSGS[1]],
            S.Aggregate([sigs[0], sigs[1], sigs[1]]),
            costly,
        )
        AV(
            "repeated-key-distinct-msgs",
            [PKS[1], PKS[1]],
            [MSGS[1], MSGS[3]],
            S.Aggregate([sigs[1], sign(sname, SKS[1], MSGS[3])]),
            costly,
        )
        AV(
            "repeated-message",
            PKS[:3],
            [common] * 3,
            S.Aggregate(csigs[:3]),
            costly,
        )
        AV("non-subgroup-sig", PKS[:2], MSGS[:2], BAD_SUBGROUP_SIG, cheap)
        AV("undecodable-sig", PKS[:2], MSGS[:2], UNDECODABLE_SIG, cheap)
        AV("short-sig", PKS[:2], MSGS[:2], agg[2][:95], cheap)
        AV("long-sig", PKS[:2], MSGS[:2], agg[2] + b"\x00", cheap)
        AV("str-sig", PKS[:2], MSGS[:2], "s" * 96, cheap)
        AV("none-sig", PKS[:2], MSGS[:2], None, cheap)
        AV("bytearray-sig", PKS[:2], MSGS[:2], bytearray(agg[2]), cheap)
        AV("empty", [], [], agg[1], cheap)
        AV("empty-tuples", (), (), agg[1], cheap)
        AV("empty-inf-sig", [], [], INF_SIG, cheap)
        AV("more-keys", PKS[:3], MSGS[:2], agg[2], cheap)
        AV("more-msgs", PKS[:2], MSGS[:3], agg[2], cheap)
        AV("no-keys", [], MSGS[:2], agg[2], cheap)
        AV("no-msgs", PKS[:2], [], agg[2], cheap)
        AV("none-keys", None, MSGS[:2], agg[2], cheap)
        AV("none-msgs", PKS[:2], None, agg[2], cheap)
        AV("none-both", None, None, agg[2], cheap)
        AV("gen-keys", Gen(PKS[:2]), MSGS[:2], agg[2], cheap)
        AV("gen-keys-bad", Gen([PKS[0], b"x"]), MSGS[:2], agg[2], cheap)
        AV("gen-msgs", PKS[:2], Gen(MSGS[:2]), agg[2], cheap)
        AV("weirdseq", WeirdSeq(PKS[:2]), WeirdSeq(MSGS[:2]), UNDECODABLE_SIG, cheap)
        AV("int-keys", 5, MSGS[:2], agg[2], cheap)
        AV("bytes-as-keys", PKS[0], MSGS[:2], agg[2], cheap)
        AV("str-msg", PKS[:2], [MSGS[0], "m1"], agg[2], cheap)
        AV("none-msg", PKS[:2], [MSGS[0], None], agg[2], cheap)
        AV("bytearray-msg", PKS[:2], [MSGS[0], bytearray(b"m1")], agg[2], cheap)
        AV("unhashable-msg", PKS[:2], [MSGS[0], [1]], agg[2], cheap)
        for bname, bad in {
            "inf": INF_PK,
            "non-subgroup": BAD_SUBGROUP_PK,
            "undecodable": UNDECODABLE_PK,
            "not-on-curve": NOT_ON_CURVE_PK,
            "short": PKS[1][:47],
            "long": PKS[1] + b"\x00",
            "str": "k" * 48,
            "none": None,
            "bytearray": bytearray(PKS[1]),
        }.items():
            AV("bad-key-%s-first" % bname, [bad, PKS[0]], MSGS[:2], agg[2], cheap)
            AV("bad-key-%s-last" % bname, [PKS[0], bad], MSGS[:2], agg[2], cheap)
            # bad key together with a bad message / length mismatch / bad signature
            AV("bad-key-%s+str-msg" % bname, [PKS[0], bad], [b"a", "b"], agg[2], cheap)
            AV("bad-key-%s+mismatch" % bname, [PKS[0], bad], MSGS[:3], agg[2], cheap)
            AV("bad-key-%s+none-msgs" % bname, [bad, PKS[0]], None, agg[2], cheap)
            AV("bad-key-%s+short-sig" % bname, [bad], MSGS[:1], agg[2][:5], cheap)

        # ---------------- FastAggregateVerify (PoP only) ----------------
        if sname == "G2ProofOfPossession":

            def FV(label, pks, msg, sig, table):
                A(
                    "fastaggverify/" + label,
                    lambda S, pks=pks, msg=msg, sig=sig: S.FastAggregateVerify(
                        mk(pks), msg, sig
                    ),
                    table,
                )

            cagg = {n: S.Aggregate(csigs[:n]) for n in range(1, 5)}
            for n in (1, 2, 4):
                FV("valid-%d" % n, PKS[:n], common, cagg[n], costly)
            FV("valid-permuted", [PKS[2], PKS[0], PKS[1]], common, cagg[3], costly)
            FV("drop-signer", PKS[:2], common, cagg[3], costly)
            FV("substitute-key", [PKS[0], PKS[3]], common, cagg[2], costly)
            FV("substitute-msg", PKS[:2], common + b"!", cagg[2], costly)
            FV("alter-aggregate", PKS[:2], common, cagg[3], costly)
            FV(
                "duplicate-key",
                [PKS[0], PKS[1], PKS[1]],
                common,
                S.Aggregate([csigs[0], csigs[1], csigs[1]]),
                costly,
            )
            FV("keys-sum-to-identity", [PKS[0], PKS[4]], common, INF_SIG, cheap)
            FV("empty", [], common, cagg[1], cheap)
            FV("empty-tuple", (), common, INF_SIG, cheap)
            FV("none-keys", None, common, cagg[1], cheap)
            FV("gen-keys", Gen(PKS[:2]), common, cagg[2], cheap)
            FV("gen-keys-bad", Gen([b"x"]), common, cagg[2], cheap)
            FV("str-msg", PKS[:2], "shared", cagg[2], cheap)
            FV("none-msg", PKS[:2], None, cagg[2], cheap)
            FV("short-sig", PKS[:2], common, cagg[2][:95], cheap)
            FV("none-sig", PKS[:2], common, None, cheap)
            FV("undecodable-sig", PKS[:2], common, UNDECODABLE_SIG, cheap)
            FV("non-subgroup-sig", PKS[:2], common, BAD_SUBGROUP_SIG, cheap)
            for bname, bad in {
                "inf": INF_PK,
                "non-subgroup": BAD_SUBGROUP_PK,
                "undecodable": UNDECODABLE_PK,
                "not-on-curve": NOT_ON_CURVE_PK,
                "short": PKS[1][:47],
                "long": PKS[1] + b"\x00",
                "str": "k" * 48,
                "none": None,
            }.items():
                FV("bad-key-%s-first" % bname, [bad, PKS[0]], common, cagg[2], cheap)
                FV("bad-key-%s-last" % bname, [PKS[0], bad], common, cagg[2], cheap)
                FV("bad-key-%s+str-msg" % bname, [PKS[0], bad], "x", cagg[2], cheap)
            # the shared validator must dispatch on the calling class: the base-class
            # FastAggregateVerify logic reached through the other suites is not public,
            # but _AggregatePKs is reachable and unchanged
            A(
                "aggregatepks/2",
                lambda S: S._AggregatePKs(PKS[:2]),
                cheap,
            )
            A("aggregatepks/empty", lambda S: S._AggregatePKs([]), cheap)

        # the suites must still expose the same public surface
        A(
            "surface",
            lambda S: sorted(
                n for n in dir(S) if not n.startswith("_") or n.startswith("_Core")
            ),
            cheap,
        )
    return cheap, costly




# ---------------------------------------------------------------------------
# curve-level inputs (deterministic)
# ---------------------------------------------------------------------------
def show(v):
    """Exact, JSON-friendly rendering of a result: container type, and for every
    coordinate its type and value."""
    if isinstance(v, tuple):
        return ["tuple"] + [show(c) for c in v]
    if isinstance(v, list):
        return ["list"] + [show(c) for c in v]
    if isinstance(v, int):
        return [type(v).__name__, hex(v)]
    return [type(v).__name__, repr(v)]


def outcome_show(thunk):
    try:
        v = thunk()
    except BaseException as e:  # noqa: B902
        return ["exc", type(e).__name__]
    return ["ok", show(v)]


def scale(pt, lam):
    return tuple(c * lam for c in pt)


def curve_points(curve):
    """name -> point; `curve` supplies multiply/neg so that each tree / version
    builds its inputs with unchanged-by-construction integer data only."""
    rnd = random.Random(20240611)
    p = field_modulus

    def rfq():
        return FQ(rnd.randrange(p))

    def rfq2():
        return FQ2([rnd.randrange(p), rnd.randrange(p)])

    def rfq12():
        return FQ12([rnd.randrange(p) for _ in range(12)])

    pts = {}
    # affine multiples computed once with the current tree, then frozen as integers
    for k in (1, 2, 3, 7, curve_order - 1, curve_order - 2):
        pts["g1*%d" % k] = curve.multiply(G1, k)
        pts["g2*%d" % k] = curve.multiply(G2, k)
    pts["g12*1"] = G12
    pts["g12*2"] = twist(curve.multiply(G2, 2))
    pts["g12*3"] = twist(curve.multiply(G2, 3))
    base = dict(pts)
    for name, pt in base.items():
        lam = {"FQ": rfq, "FQ2": rfq2, "FQ12": rfq12}[
            type(pt[0]).__name__.replace("optimized_bls12_381_", "")
        ]()
        pts[name + "~scaled"] = scale(pt, lam)
        pts[name + "~neg"] = curve.neg(pt)
        pts[name + "~neg~scaled"] = scale(curve.neg(pt), lam)
    # representatives of infinity
    pts["inf1"] = Z1
    pts["inf1-000"] = (FQ(0), FQ(0), FQ(0))
    pts["inf1-xy0"] = (FQ(5), FQ(7), FQ(0))
    pts["inf2"] = Z2
    pts["inf2-000"] = (FQ2.zero(), FQ2.zero(), FQ2.zero())
    pts["inf2-xy0"] = (rfq2(), rfq2(), FQ2.zero())
    pts["inf12"] = (FQ12.one(), FQ12.one(), FQ12.zero())
    # off-curve and degenerate triples
    for i in range(4):
        pts["rand1-%d" % i] = (rfq(), rfq(), rfq())
        pts["rand2-%d" % i] = (rfq2(), rfq2(), rfq2())
    pts["rand12-0"] = (rfq12(), rfq12(), rfq12())
    pts["y0-1"] = (rfq(), FQ(0), FQ(1))
    pts["y0-2"] = (rfq2(), FQ2.zero(), FQ2.one())
    pts["x0-1"] = (FQ(0), FQ(2), FQ(1))  # on y^2 = x^3 + 4
    pts["x0-1~scaled"] = scale(pts["x0-1"], rfq())
    # a foreign prime field sharing the generic code
    pts["bn-fq"] = (BN_FQ(1), BN_FQ(2), BN_FQ(1))
    pts["bn-fq-2"] = (BN_FQ(3), BN_FQ(5), BN_FQ(7))
    # plain ints
    pts["ints"] = (3, 5, 7)
    pts["ints-neg"] = (-3, 5, -7)
    pts["ints-0"] = (0, 0, 0)
    return pts


MALFORMED = {
    "none": None,
    "pair": (FQ(1), FQ(2)),
    "quad": (FQ(1), FQ(2), FQ(3), FQ(4)),
    "mixed-12": (FQ(1), FQ2([1, 2]), FQ(1)),
    "mixed-21": (FQ2([1, 2]), FQ(3), FQ2([1, 0])),
    "strs": ("a", "b", "c"),
    "list-pt": [FQ(1), FQ(2), FQ(1)],
    "empty": (),
}

SCALARS = [
    0,
    1,
    2,
    3,
    4,
    5,
    255,
    256,
    2**64 - 1,
    curve_order - 1,
    curve_order,
    curve_order + 1,
    2 * curve_order,
    2**255 + 19,
    True,
    2.0,
    3.0,
    -1,
    "3",
    None,
]


def family(name):
    if name.startswith(("g12", "inf12", "rand12")):
        return "12"
    if name.startswith(("g2", "inf2", "rand2", "y0-2")):
        return "2"
    if name.startswith(("bn", "ints")):
        return name[:3]
    return "1"


def curve_cases(curve):
    """label -> thunk, all evaluated with the functions of module `curve`."""
    pts = curve_points(curve)
    cases = {}
    for name, pt in list(pts.items()) + list(MALFORMED.items()):
        cases["double/" + name] = lambda pt=pt: curve.double(pt)
        cases["neg/" + name] = lambda pt=pt: curve.neg(pt)
    names = list(pts)
    for a in names:
        for b in names:
            fa, fb = family(a), family(b)
            # all same-family pairs (12: only a few, they are slow) + a cross sample
            if fa == fb or (a, b) in (
                ("g1*1", "g2*1"),
                ("g2*1", "g1*1"),
                ("g1*1", "ints"),
                ("ints", "g1*1"),
                ("g1*2", "bn-fq"),
                ("bn-fq", "g1*2"),
                ("inf1", "g2*2"),
                ("g2*2", "inf1"),
            ):
                cases["add/%s+%s" % (a, b)] = lambda a=a, b=b: curve.add(
                    pts[a], pts[b]
                )
                cases["eq/%s+%s" % (a, b)] = lambda a=a, b=b: curve.eq(pts[a], pts[b])
    for mname, m in MALFORMED.items():
        cases["add/g1*1+" + mname] = lambda m=m: curve.add(pts["g1*1"], m)
        cases["add/%s+g1*1" % mname] = lambda m=m: curve.add(m, pts["g1*1"])
        cases["add/inf1+" + mname] = lambda m=m: curve.add(pts["inf1"], m)
    for name in (
        "g1*1",
        "g1*3~scaled",
        "g2*1",
        "g2*7~neg~scaled",
        "inf1",
        "inf1-000",
        "inf2-xy0",
        "rand1-0",
        "rand2-0",
        "y0-1",
        "x0-1~scaled",
        "bn-fq",
        "ints",
    ):
        for n in SCALARS:
            if name == "ints" and isinstance(n, int) and not 0 <= n <= 5:
                continue  # integer coordinates are not reduced: sizes explode
            if n == -1 and name != "inf1-000":
                continue  # recurses up to the (raised) recursion limit: slow
            cases["multiply/%s*%r" % (name, n)] = lambda name=name, n=n: curve.multiply(
                pts[name], n
            )
    cases["multiply/g12*1*5"] = lambda: curve.multiply(pts["g12*1"], 5)
    cases["multiply/none*3"] = lambda: curve.multiply(None, 3)
    cases["multiply/pair*3"] = lambda: curve.multiply(MALFORMED["pair"], 3)
    return cases


# ---------------------------------------------------------------------------
# worker: evaluate the whole scenario table with the py_ecc of the current directory
# ---------------------------------------------------------------------------
if WORKER:
    CHEAP, COSTLY = build_scenarios()
    ALL = dict(CHEAP)
    ALL.update(COSTLY)


def run_one(label):
    sname, fn = ALL[label]
    S = getattr(cs, sname)
    return label, list(outcome(lambda: fn(S)))


def run_pairing(task):
    from py_ecc.optimized_bls12_381 import final_exponentiate, pairing

    a, b, fe = task
    label = "pairing/g2*%d,g1*%d,fe=%s" % (a, b, fe)
    return label, outcome_show(
        lambda: pairing(multiply(G2, a), multiply(G1, b), final_exponentiate=fe)
    )


def worker(outpath):
    res = {}
    for key, val in _SIGN_MEMO.items():
        res["sign/%s/%d/%s" % (key[0], key[1], key[2].hex())] = ["ok", val.hex()]
    ctx = multiprocessing.get_context("fork")
    with ctx.Pool(min(6, os.cpu_count() or 1)) as pool:
        # costly ones first so that the pool drains evenly
        it1 = pool.imap_unordered(run_one, list(COSTLY) + list(CHEAP), chunksize=2)
        it2 = pool.imap_unordered(
            run_pairing, [(1, 1, True), (3, 5, False), (curve_order - 1, 2, False)]
        )
        for label, out in it2:
            res[label] = out
        for label, out in it1:
            res[label] = out
    for label, thunk in curve_cases(new_curve).items():
        res["curve/" + label] = outcome_show(thunk)
    # module-level constants still what they were
    res["const/Z1"] = show(Z1)
    res["const/Z2"] = show(Z2)
    res["const/G1"] = show(G1)
    res["const/G2"] = show(G2)
    with open(outpath, "w") as f:
        json.dump(res, f, sort_keys=True)
    return 0


# ---------------------------------------------------------------------------
# main
# ---------------------------------------------------------------------------
def load_as(name, path):
    spec = importlib.util.spec_from_file_location(name, path)
    mod = importlib.util.module_from_spec(spec)
    sys.modules[name] = mod
    spec.loader.exec_module(mod)
    return mod


def make_overlay():
    """py_ecc of the working tree with the two touched files put back to pristine."""
    root = os.path.join(HERE, "_pristine_tree")
    shutil.rmtree(root, ignore_errors=True)
    shutil.copytree(
        os.path.join(os.getcwd(), "py_ecc"),
        os.path.join(root, "py_ecc"),
        ignore=shutil.ignore_patterns("__pycache__"),
    )
    shutil.copyfile(
        os.path.join(HERE, "pristine", "ciphersuites.py"),
        os.path.join(root, "py_ecc", "bls", "ciphersuites.py"),
    )
    shutil.copyfile(
        os.path.join(HERE, "pristine", "optimized_curve.py"),
        os.path.join(root, "py_ecc", "optimized_bls12_381", "optimized_curve.py"),
    )
    return root


def part_a():
    """In-process comparison of the two versions of the touched modules."""
    failures = []
    old_curve = load_as(
        "py_ecc.optimized_bls12_381.optimized_curve_pristine",
        os.path.join(HERE, "pristine", "optimized_curve.py"),
    )
    old_cs = load_as(
        "py_ecc.bls.ciphersuites_pristine",
        os.path.join(HERE, "pristine", "ciphersuites.py"),
    )
    for mod_old, mod_new in ((old_curve, new_curve), (old_cs, cs)):
        assert mod_old.__file__ != mod_new.__file__
        assert open(mod_old.__file__).read() != open(mod_new.__file__).read(), (
            "tree not edited",
            mod_new.__file__,
        )
    # wire the pristine ciphersuite to the pristine curve functions it imported
    for name in ("add", "multiply", "neg"):
        assert getattr(old_cs, name) is getattr(new_curve, name)
        setattr(old_cs, name, getattr(old_curve, name))

    # 1. curve functions, exact coordinates.  Inputs are built by each version with
    #    its own multiply/neg, so equal outputs also show equal inputs.
    old_cases = curve_cases(old_curve)
    new_cases = curve_cases(new_curve)
    assert list(old_cases) == list(new_cases)
    first = {}
    n_exc = 0
    for label in new_cases:
        o = outcome_show(old_cases[label])
        n = outcome_show(new_cases[label])
        first[label] = (o, n)
        n_exc += n[0] == "exc"
        if o != n:
            failures.append(("curve", label, o, n))
    # cross-feed: pristine function on inputs built by the edited module and back
    cross = 0
    new_pts = curve_points(new_curve)
    old_pts = curve_points(old_curve)
    for name in new_pts:
        if show(new_pts[name]) != show(old_pts[name]):
            failures.append(("input", name))
        for f in ("double",):
            a = outcome_show(lambda: getattr(old_curve, f)(new_pts[name]))
            b = outcome_show(lambda: getattr(new_curve, f)(old_pts[name]))
            cross += 1
            if a != b:
                failures.append(("cross", f, name, a, b))
    # repeated / interleaved calls in reverse order: nothing drifts, inputs unmutated
    labels = [
        lab for lab in new_cases if "12" not in lab and not lab.endswith("*-1")
    ]
    for label in reversed(labels[::3]):
        n = outcome_show(new_cases[label])
        o = outcome_show(old_cases[label])
        if (o, n) != first[label]:
            failures.append(("history", label))
    for name in new_pts:
        if show(new_pts[name]) != show(old_pts[name]):
            failures.append(("mutated-input", name))
    assert show(new_curve.Z1) == show(old_curve.Z1) == show(Z1)
    assert show(new_curve.Z2) == show(old_curve.Z2) == show(Z2)
    assert show(new_curve.G1) == show(old_curve.G1)
    assert show(new_curve.G2) == show(old_curve.G2)
    assert show(Z1) == show((FQ(1), FQ(1), FQ(0)))

    # sanity: the cases do exercise every branch of add
    g = new_pts
    assert new_curve.is_inf(new_curve.add(g["g1*3"], g["g1*3~neg~scaled"]))
    assert new_curve.eq(new_curve.add(g["g1*1"], g["g1*1~scaled"]), g["g1*2"])
    assert new_curve.eq(new_curve.add(g["g2*1"], g["g2*2~scaled"]), g["g2*3"])
    assert new_curve.add(g["inf1"], g["g1*2"]) is g["g1*2"]

    # 2. Aggregate / _AggregatePKs: pristine ciphersuite on pristine curve functions
    #    against the edited ciphersuite on the edited curve functions
    sks = [1, 2, 3, 12345, curve_order - 1, 2**200 + 7]
    sig_pts = [new_curve.multiply(G2, 7 * sk % curve_order) for sk in sks]
    sigs = [G2_to_signature(pt) for pt in sig_pts]
    pks = [G1_to_pubkey(new_curve.multiply(G1, sk)) for sk in sks]
    inf_sig = G2_to_signature(Z2)
    inf_pk = G1_to_pubkey(Z1)
    neg2 = G2_to_signature(neg(sig_pts[2]))
    lists = [[], (), None, 5, sigs[0], set(sigs[:3]), WeirdSeq(sigs[:4])]
    lists += [sigs[:n] for n in range(1, 7)]
    lists += [tuple(sigs[:3])]
    lists += [[sigs[i] for i in perm] for perm in itertools.permutations(range(4))]
    lists += [
        [sigs[1], sigs[1]],
        [sigs[1]] * 5,
        [sigs[2], neg2],
        [sigs[2], neg2, sigs[0]],
        [sigs[0], sigs[4]],  # 7*G2 and -7*G2
        [inf_sig],
        [inf_sig, inf_sig],
        [inf_sig, sigs[0], inf_sig, sigs[1]],
        [sigs[0], BAD_SUBGROUP_SIG],
        [BAD_SUBGROUP_SIG, BAD_SUBGROUP_SIG],
        [sigs[0], UNDECODABLE_SIG],
        [UNDECODABLE_SIG, sigs[0][:95]],
        [sigs[0], sigs[0][:95]],
        [sigs[0], sigs[0] + b"\x00"],
        [sigs[0], None],
        [sigs[0], "s" * 96],
        [bytearray(sigs[0])],
        [b"\xe0" + b"\x00" * 95],
        [sigs[0], b"\x9f" + b"\xff" * 95],
    ]
    n_agg = 0
    for sname in SUITES:
        So, Sn = getattr(old_cs, sname), getattr(cs, sname)
        memo = []
        for rnd in range(2):  # second round: same calls again, reversed
            seq = lists if rnd == 0 else list(reversed(lists))
            outs = []
            for lst in seq:
                o = outcome(lambda: So.Aggregate(lst))
                n = outcome(lambda: Sn.Aggregate(lst))
                n_agg += 1
                outs.append(n)
                if o != n:
                    failures.append(("Aggregate", sname, repr(lst)[:80], o, n))
            memo.append(outs)
        if memo[0] != list(reversed(memo[1])):
            failures.append(("Aggregate-history", sname))
        # grouping: aggregate of aggregates equals the flat aggregate, both versions
        for S in (So, Sn):
            flat = S.Aggregate(sigs[:5])
            assert S.Aggregate([S.Aggregate(sigs[:2]), S.Aggregate(sigs[2:5])]) == flat
            assert S.Aggregate([sigs[0], S.Aggregate(sigs[1:5])]) == flat
            assert flat == G2_to_signature(
                new_curve.multiply(G2, 7 * sum(sks[:5]) % curve_order)
            )
    Po, Pn = old_cs.G2ProofOfPossession, cs.G2ProofOfPossession
    pk_lists = [[], (), None, pks[0], WeirdSeq(pks[:3])]
    pk_lists += [pks[:n] for n in range(1, 7)]
    pk_lists += [
        [pks[0], pks[4]],
        [pks[1], pks[1]],
        [inf_pk],
        [inf_pk, pks[0]],
        [pks[0], BAD_SUBGROUP_PK],
        [pks[0], UNDECODABLE_PK],
        [pks[0], NOT_ON_CURVE_PK],
        [pks[0], pks[1][:47]],
        [pks[0], pks[1] + b"\x00"],
        [pks[0], None],
        [pks[0], "k" * 48],
    ]
    for lst in pk_lists + list(reversed(pk_lists)):
        o = outcome(lambda: Po._AggregatePKs(lst))
        n = outcome(lambda: Pn._AggregatePKs(lst))
        n_agg += 1
        if o != n:
            failures.append(("_AggregatePKs", repr(lst)[:80], o, n))
    print(
        "part A: %d curve cases (%d raising), %d cross-fed, %d aggregate calls, "
        "%d mismatches [%.1fs]"
        % (len(new_cases), n_exc, cross, n_agg, len(failures), time.time() - T0)
    )
    return failures


def main():
    overlay = make_overlay()
    out_new = os.path.join(HERE, "_result_edited.json")
    out_old = os.path.join(HERE, "_result_pristine.json")
    for pth in (out_new, out_old):
        if os.path.exists(pth):
            os.remove(pth)
    me = os.path.abspath(__file__)
    procs = [
        subprocess.Popen([sys.executable, me, "--worker", out_new], cwd=os.getcwd()),
        subprocess.Popen([sys.executable, me, "--worker", out_old], cwd=overlay),
    ]
    failures = part_a()
    codes = [p.wait() for p in procs]
    assert codes == [0, 0], codes
    new = json.load(open(out_new))
    old = json.load(open(out_old))
    shutil.rmtree(overlay, ignore_errors=True)
    if sorted(new) != sorted(old):
        failures.append(("label sets differ", sorted(set(new) ^ set(old))[:10]))
    for label in new:
        if new[label] != old.get(label):
            failures.append(("stack", label, old.get(label), new[label]))

    # the comparison is not vacuous
    def val(label):
        return tuple(new[label])

    for sname in SUITES:
        assert val(sname + ":aggverify/valid-1") == ("ok", "bool", "True"), sname
        assert val(sname + ":aggverify/valid-2-tuples") == ("ok", "bool", "True")
        assert val(sname + ":aggverify/valid-3") == ("ok", "bool", "True"), sname
        assert val(sname + ":aggverify/valid-3-permuted") == ("ok", "bool", "True")
        for lab in (
            "drop-signer",
            "substitute-key",
            "substitute-msg",
            "alter-aggregate",
            "empty",
            "more-keys",
            "bad-key-inf-last",
            "bad-key-non-subgroup-first",
        ):
            assert val(sname + ":aggverify/" + lab) == ("ok", "bool", "False"), (
                sname,
                lab,
            )
        assert val(sname + ":agg/empty-list") == ("exc", "ValidationError")
        assert val(sname + ":agg/bad-short-last") == ("exc", "ValidationError")
        assert val(sname + ":agg/undecodable-then-short") == ("exc", "ValidationError")
        assert val(sname + ":agg/none") == ("exc", "TypeError")
    assert val("G2Basic:aggverify/repeated-message") == ("ok", "bool", "False")
    assert val("G2ProofOfPossession:aggverify/repeated-message") == (
        "ok",
        "bool",
        "True",
    )
    assert val("G2ProofOfPossession:aggverify/valid-6") == ("ok", "bool", "True")
    assert val("G2ProofOfPossession:fastaggverify/valid-4") == ("ok", "bool", "True")
    assert val("G2ProofOfPossession:fastaggverify/drop-signer") == (
        "ok",
        "bool",
        "False",
    )
    assert val("G2ProofOfPossession:fastaggverify/keys-sum-to-identity") == (
        "ok",
        "bool",
        "False",
    )
    n_sign = sum(1 for k in new if k.startswith("sign/"))
    n_curve = sum(1 for k in new if k.startswith("curve/"))
    print(
        "part B: %d labels compared between the pristine-overlay tree and the edited "
        "tree (%d signatures, %d curve cases, %d pairing values) [%.1fs]"
        % (
            len(new),
            n_sign,
            n_curve,
            sum(1 for k in new if k.startswith("pairing/")),
            time.time() - T0,
        )
    )
    if failures:
        for f in failures[:40]:
            print("MISMATCH", f)
        return 1
    print("OK: pristine and edited code agree on every scenario")
    return 0


if __name__ == "__main__":
    if WORKER:
        sys.exit(worker(sys.argv[sys.argv.index("--worker") + 1]))
    sys.exit(main())
