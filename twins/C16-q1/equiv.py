import os, sys; sys.path.insert(0, os.getcwd())  # noqa: E401,E702

"""
Equivalence demonstration for property C16 (HKDF / KeyGen).

Loads the pristine py_ecc/bls/hash.py and py_ecc/bls/ciphersuites.py (saved next
to this script under pristine/) under private module names and compares them
with the edited versions imported from the current working directory, on a
broad set of well-formed, boundary and malformed inputs, and on repeated /
interleaved call sequences. Also cross-checks against an independent RFC 5869
/ BLS draft v4 reference written here. Exits 0 iff everything is identical.
"""

import copy
import hashlib
import hmac
import importlib
import importlib.util
import random
import types

HERE = os.path.dirname(os.path.abspath(__file__))
PRISTINE = os.path.join(HERE, "pristine")

# ---------------------------------------------------------------- load modules
import py_ecc.bls  # noqa: E402  (edited package, from cwd)

assert os.path.abspath(py_ecc.bls.__file__).startswith(os.getcwd()), py_ecc.bls.__file__

new_hash = importlib.import_module("py_ecc.bls.hash")
new_cs = importlib.import_module("py_ecc.bls.ciphersuites")

spec = importlib.util.spec_from_file_location(
    "py_ecc.bls._pristine_hash", os.path.join(PRISTINE, "hash.py")
)
old_hash = importlib.util.module_from_spec(spec)
sys.modules["py_ecc.bls._pristine_hash"] = old_hash
spec.loader.exec_module(old_hash)

src = open(os.path.join(PRISTINE, "ciphersuites.py")).read()
assert src.count("from .hash import") == 1
src = src.replace("from .hash import", "from ._pristine_hash import")
old_cs = types.ModuleType("py_ecc.bls._pristine_ciphersuites")
old_cs.__package__ = "py_ecc.bls"
old_cs.__file__ = os.path.join(PRISTINE, "ciphersuites.py")
sys.modules["py_ecc.bls._pristine_ciphersuites"] = old_cs
exec(compile(src, old_cs.__file__, "exec"), old_cs.__dict__)

assert old_cs.hkdf_expand is old_hash.hkdf_expand
assert new_cs.hkdf_expand is new_hash.hkdf_expand
assert old_hash is not new_hash and old_cs is not new_cs

R = 52435875175126190479447740508185965837690552500527637822603658699938581184513
assert old_cs.curve_order == R == new_cs.curve_order

checks = 0


def outcome(f, *args):
    """(kind, type, value) for a result, (\"exc\", class) for an exception."""
    try:
        r = f(*args)
    except BaseException as e:  # noqa: B902
        return ("exc", type(e))
    return ("ok", type(r), r)


def same(fo, fn, *args, expect=None):
    global checks
    a_old = copy.deepcopy(args)
    a_new = copy.deepcopy(args)
    o = outcome(fo, *a_old)
    n = outcome(fn, *a_new)
    assert o == n, (fo, args, o, n)
    # arguments are never mutated
    assert a_old == args and a_new == args, (fo, args)
    for x, y in zip(a_new, args):
        assert type(x) is type(y)
    if expect is not None:
        assert n[0] == "ok" and n[2] == expect, (fn, args, n, expect)
    checks += 1
    return n


# ------------------------------------------------------ independent reference
def ref_extract(salt, ikm):
    return hmac.new(bytes(salt), bytes(ikm), hashlib.sha256).digest()


def ref_expand(prk, info, length):
    assert 0 <= length <= 255 * 32
    out = b""
    t = b""
    i = 0
    while len(out) < length:
        i += 1
        t = hmac.new(bytes(prk), t + bytes(info) + bytes([i]), hashlib.sha256).digest()
        out += t
    return out[:length]


def ref_keygen(ikm, key_info=b"", h=hashlib.sha256, zero_first=0):
    salt = b"BLS-SIG-KEYGEN-SALT-"
    attempt = 0
    while True:
        salt = h(salt).digest()
        prk = ref_extract(salt, bytes(ikm) + b"\x00")
        okm = ref_expand(prk, bytes(key_info) + (48).to_bytes(2, "big"), 48)
        sk = int.from_bytes(okm, "big") % R
        attempt += 1
        if attempt <= zero_first:
            continue
        if sk != 0:
            return sk


rng = random.Random(0xC16)


def rb(n):
    return bytes(rng.getrandbits(8) for _ in range(n))


# ------------------------------------------------------------ RFC 5869 vectors
RFC = [
    (
        "0b" * 22,
        "000102030405060708090a0b0c",
        "f0f1f2f3f4f5f6f7f8f9",
        42,
        "077709362c2e32df0ddc3f0dc47bba6390b6c73bb50f9c3122ec844ad7c2b3e5",
        "3cb25f25faacd57a90434f64d0362f2a2d2d0a90cf1a5a4c5db02d56ecc4c5bf"
        "34007208d5b887185865",
    ),
    (
        "0b" * 22,
        "",
        "",
        42,
        "19ef24a32c717b167f33a91d6f648bdf96596776afdb6377ac434c1c293ccb04",
        "8da4e775a563c18f715f802a063c5a31b8a11f5c5ee1879ec3454e5f3c738d2d"
        "9d201395faa4b61a96c8",
    ),
]
for ikm, salt, info, L, prk, okm in RFC:
    ikm, salt, info, prk, okm = map(bytes.fromhex, (ikm, salt, info, prk, okm))
    same(old_hash.hkdf_extract, new_hash.hkdf_extract, salt, ikm, expect=prk)
    same(old_hash.hkdf_expand, new_hash.hkdf_expand, prk, info, L, expect=okm)

# ---------------------------------------------------------------- hkdf_extract
lens = list(range(0, 70)) + [127, 128, 129, 255, 256, 257, 299, 300]
for ls in lens:
    for li in (0, 1, 31, 32, 33, 63, 64, 65, 300, rng.randrange(301)):
        s, k = rb(ls), rb(li)
        same(old_hash.hkdf_extract, new_hash.hkdf_extract, s, k, expect=ref_extract(s, k))
for li in range(0, 301):
    s, k = rb(rng.randrange(301)), rb(li)
    same(old_hash.hkdf_extract, new_hash.hkdf_extract, s, k, expect=ref_extract(s, k))
# bytearray / memoryview / malformed arguments
for s, k in [
    (bytearray(b"salt"), b"ikm"),
    (b"salt", bytearray(b"ikm")),
    (bytearray(), bytearray()),
    (memoryview(b"salt"), memoryview(b"ikm")),
    ("salt", b"ikm"),
    (b"salt", "ikm"),
    (None, b"ikm"),
    (b"salt", None),
    (5, b"ikm"),
    (b"salt", 5),
    ([1, 2], b"x"),
    (b"x", [1, 2]),
]:
    # memoryview objects are not deep-copyable -> compare directly
    if isinstance(s, memoryview):
        o = outcome(old_hash.hkdf_extract, s, k)
        n = outcome(new_hash.hkdf_extract, s, k)
        assert o == n, (s, k, o, n)
        checks += 1
    else:
        same(old_hash.hkdf_extract, new_hash.hkdf_extract, s, k)

# ----------------------------------------------------------------- hkdf_expand
# every output length 0..8160 (and just beyond), for several prk / info shapes
combos = [
    (rb(32), b""),
    (rb(32), rb(10)),
    (rb(0), rb(300)),
    (rb(300), rb(1)),
]
for prk, info in combos:
    full = ref_expand(prk, info, 8160)
    for L in range(0, 8161):
        r = same(old_hash.hkdf_expand, new_hash.hkdf_expand, prk, info, L)
        assert r[1] is bytearray and r[2] == full[:L], (L,)
for L in (8161, 8191, 8192, 8193, 10000, 20000):
    r = same(old_hash.hkdf_expand, new_hash.hkdf_expand, rb(32), b"info", L)
    assert r == ("exc", ValueError), r
for _ in range(300):
    prk, info, L = rb(rng.randrange(301)), rb(rng.randrange(301)), rng.randrange(8161)
    same(old_hash.hkdf_expand, new_hash.hkdf_expand, prk, info, L, expect=ref_expand(prk, info, L))

# odd / malformed lengths and operand types
odd_lengths = [
    -1, -31, -32, -33, -8160, -10**6, True, False, 0.0, 0.5, 1.0, 31.5, 32.0, 33.7,
    -0.5, -40.0, float("inf"), float("-inf"), float("nan"), None, "32", b"32",
    [32], (32,), 10**30, -(10**30), 1 + 0j,
]
import decimal  # noqa: E402
import fractions  # noqa: E402

odd_lengths += [fractions.Fraction(65, 2), fractions.Fraction(64, 1), decimal.Decimal(40)]
for L in odd_lengths:
    for prk, info in [(rb(32), b"i"), (b"", b""), (bytearray(b"k"), bytearray(b"i"))]:
        same(old_hash.hkdf_expand, new_hash.hkdf_expand, prk, info, L)
odd_ops = [
    ("prk", b"info"),
    (b"prk", "info"),
    ("prk", "info"),
    (None, b"info"),
    (b"prk", None),
    (None, None),
    (5, b"i"),
    (b"k", 5),
    ([1], b"i"),
    (b"k", [1]),
    (bytearray(b"k"), b"i"),
    (b"k", bytearray(b"i")),
    (bytearray(b"k"), bytearray(b"i")),
]
for prk, info in odd_ops:
    for L in (0, 1, 32, 33, 48, 8160, 8161, -5, 1.5, None):
        same(old_hash.hkdf_expand, new_hash.hkdf_expand, prk, info, L)

# remaining functions of the module are untouched but share it: spot check
for f in ("i2osp",):
    for a in [(0, 0), (0, 1), (48, 2), (255, 1), (256, 1), (-1, 2), (65536, 2), ("1", 2), (1, -1)]:
        same(getattr(old_hash, f), getattr(new_hash, f), *a)
for a in [b"", b"\x00", b"\x01\x00", rb(48), bytearray(b"\x01\x02"), "ab", None, 5]:
    same(old_hash.os2ip, new_hash.os2ip, a)
    same(old_hash.sha256, new_hash.sha256, a)
for a in [(b"ab", b"cd"), (b"", b""), (b"abc", b"d"), ("ab", b"cd"), (None, b"")]:
    same(old_hash.xor, new_hash.xor, *a)
for msg, dst, n in [
    (b"", b"DST", 0), (b"abc", b"DST", 32), (b"abc", b"DST", 33), (b"m", b"D" * 255, 256),
    (b"m", b"D" * 256, 32), (b"m", b"D", 255 * 32), (b"m", b"D", 255 * 32 + 1),
    ("m", b"D", 32), (b"m", "D", 32), (b"m", b"D", -1), (b"m", b"D", 65536),
]:
    for h in (hashlib.sha256, hashlib.sha512):
        same(old_hash.expand_message_xmd, new_hash.expand_message_xmd, msg, dst, n, h)

# ---------------------------------------------------------------------- KeyGen
SUITES = ["BaseG2Ciphersuite", "G2Basic", "G2MessageAugmentation", "G2ProofOfPossession"]
for name in SUITES:
    assert hasattr(old_cs, name) and hasattr(new_cs, name), name


def kg(mod, name):
    return getattr(mod, name).KeyGen


# known vector of the repository's tests (tests/bls/test_g2_core.py style) is
# covered by the suite; here compare old / new / independent reference.
for name in SUITES:
    ko, kn = kg(old_cs, name), kg(new_cs, name)
    for li in list(range(0, 129, 8)) + [1, 31, 33, 127]:
        for lk in (0, 1, 32, 64):
            ikm, info = rb(li), rb(lk)
            r = same(ko, kn, ikm, info, expect=ref_keygen(ikm, info))
            assert r[1] is int and 1 <= r[2] <= R - 1
ko, kn = kg(old_cs, "G2ProofOfPossession"), kg(new_cs, "G2ProofOfPossession")
for li in range(0, 129):
    ikm = rb(li)
    r = same(ko, kn, ikm, expect=ref_keygen(ikm))  # default key_info
    assert r[1] is int and 1 <= r[2] <= R - 1
for lk in range(0, 65):
    ikm, info = rb(rng.randrange(129)), rb(lk)
    same(ko, kn, ikm, info, expect=ref_keygen(ikm, info))
for _ in range(400):
    ikm, info = rb(rng.randrange(400)), rb(rng.randrange(300))
    same(ko, kn, ikm, info, expect=ref_keygen(ikm, info))
# structured IKMs
for ikm in [b"", b"\x00", b"\x00" * 32, b"\xff" * 32, b"\x00" * 128, b"\xff" * 128]:
    for info in [b"", b"\x00", b"\x000", b"\x00\x30", b"\xff" * 64]:
        same(ko, kn, ikm, info, expect=ref_keygen(ikm, info))
# the zero byte / length suffix really are part of the input
assert kn(b"a") != kn(b"a\x00") and kn(b"a", b"") != kn(b"a", b"\x000")

# malformed arguments: same exception classes
bad = ["ikm", None, 5, [1, 2], (1,), 1.5, bytearray(b"ikm"), memoryview(b"ikm")]
for name in SUITES:
    ko2, kn2 = kg(old_cs, name), kg(new_cs, name)
    for a in bad:
        for b in bad + [b"", b"info"]:
            o, n = outcome(ko2, a, b), outcome(kn2, a, b)
            assert o == n, (name, a, b, o, n)
            checks += 1
        for args in [(a,), (b"ikm", a)]:
            o, n = outcome(ko2, *args), outcome(kn2, *args)
            assert o == n, (name, args, o, n)
            checks += 1
    o, n = outcome(ko2), outcome(kn2)
    assert o == n and o[0] == "exc"
# bytearray arguments are accepted, give the bytes result and are not mutated
ba, bi = bytearray(b"some ikm"), bytearray(b"info")
assert ko(ba, bi) == kn(ba, bi) == ref_keygen(b"some ikm", b"info")
assert ba == bytearray(b"some ikm") and bi == bytearray(b"info")


# a subclass with another hash (other users of the shared code path)
def make_sub(mod, h):
    return type("Sub", (mod.G2Basic,), {"xmd_hash_function": h})


for h in (hashlib.sha512, hashlib.sha384, hashlib.sha1, hashlib.sha256):
    so, sn = make_sub(old_cs, h), make_sub(new_cs, h)
    for _ in range(20):
        ikm, info = rb(rng.randrange(129)), rb(rng.randrange(65))
        same(so.KeyGen, sn.KeyGen, ikm, info, expect=ref_keygen(ikm, info, h))

# the retry branch (SK == 0): force the first k candidates of each call to zero by
# wrapping os2ip identically in both module pairs
for k in (1, 2, 5):

    def make_stub(real):
        state = {"n": 0}

        def stub(x):
            state["n"] += 1
            if state["n"] <= k:
                return 0
            return real(x)

        return stub, state

    for name in SUITES:
        for _ in range(5):
            ikm, info = rb(rng.randrange(129)), rb(rng.randrange(65))
            saved = (old_cs.os2ip, new_cs.os2ip)
            so, st_o = make_stub(old_hash.os2ip)
            sn, st_n = make_stub(new_hash.os2ip)
            old_cs.os2ip, new_cs.os2ip = so, sn
            try:
                r = same(kg(old_cs, name), kg(new_cs, name), ikm, info,
                         expect=ref_keygen(ikm, info, zero_first=k))
            finally:
                old_cs.os2ip, new_cs.os2ip = saved
            assert st_o["n"] == st_n["n"] == k + 1
            assert 1 <= r[2] <= R - 1
# a multiple of r coming out of os2ip is also retried identically
saved = (old_cs.os2ip, new_cs.os2ip)
for mult in (R, 2 * R):
    calls = {"o": 0, "n": 0}

    def mk(tag, real):
        def stub(x):
            calls[tag] += 1
            return mult if calls[tag] == 1 else real(x)

        return stub

    old_cs.os2ip, new_cs.os2ip = mk("o", old_hash.os2ip), mk("n", new_hash.os2ip)
    try:
        same(ko, kn, b"ikm", b"", expect=ref_keygen(b"ikm", b"", zero_first=1))
    finally:
        old_cs.os2ip, new_cs.os2ip = saved
    assert calls == {"o": 2, "n": 2}

# ------------------------------------------------ call histories / determinism
history = []
ops = []
for _ in range(12):
    ops.append(("extract", rb(rng.randrange(40)), rb(rng.randrange(40))))
    ops.append(("expand", rb(32), rb(rng.randrange(40)), rng.choice([0, 1, 32, 48, 100, 8160])))
    ops.append(("keygen", rb(rng.randrange(64)), rb(rng.randrange(16))))
    ops.append(("expand_bad", rb(32), b"x", 9000))
    ops.append(("keygen_bad", "str", b""))
seq = [rng.choice(ops) for _ in range(400)] + ops + ops[::-1]
first_seen = {}
for op in seq:
    kind, args = op[0], op[1:]
    if kind == "extract":
        o, n = outcome(old_hash.hkdf_extract, *args), outcome(new_hash.hkdf_extract, *args)
    elif kind.startswith("expand"):
        o, n = outcome(old_hash.hkdf_expand, *args), outcome(new_hash.hkdf_expand, *args)
    else:
        name = SUITES[len(history) % len(SUITES)]
        o, n = outcome(kg(old_cs, name), *args), outcome(kg(new_cs, name), *args)
    assert o == n, (op, o, n)
    key = repr(op)
    if key in first_seen:
        assert first_seen[key] == n, ("not deterministic", op)
    else:
        first_seen[key] = n
    history.append(n)
    checks += 1
# returned bytearrays are fresh objects: mutating one does not affect later calls
prk, info = rb(32), rb(5)
r1 = new_hash.hkdf_expand(prk, info, 64)
keep = bytes(r1)
r1[:] = b"\x00" * 64
assert new_hash.hkdf_expand(prk, info, 64) == keep == old_hash.hkdf_expand(prk, info, 64)

# module-level values shared with the rest of the package are unchanged
assert new_cs.curve_order == R and old_cs.curve_order == R
for name in SUITES:
    assert getattr(new_cs, name).DST == getattr(old_cs, name).DST
    assert getattr(new_cs, name).xmd_hash_function is getattr(old_cs, name).xmd_hash_function
# public names of the modules: nothing public added or removed
pub = lambda m: sorted(x for x in vars(m) if not x.startswith("_"))  # noqa: E731
assert pub(old_hash) == pub(new_hash), (pub(old_hash), pub(new_hash))
assert pub(old_cs) == pub(new_cs), (pub(old_cs), pub(new_cs))
pubc = lambda c: sorted(x for x in vars(c) if not x.startswith("__"))  # noqa: E731
for name in SUITES:
    assert pubc(getattr(old_cs, name)) == pubc(getattr(new_cs, name)), name

print("equiv OK: %d comparisons identical" % checks)
