import os, sys; sys.path.insert(0, os.getcwd())  # noqa: E401,E702

# Equivalence demonstration for edit p2 (C07):
#   - reference bn128 / bls12_381: every infinity test in is_on_curve, double, add,
#     neg and twist goes through is_inf(); add() handles the identity with two
#     separate early returns
#   - optimized bls12_381: is_inf() spelled like its optimized bn128 sibling
# Compares the edited modules of the working tree with the pristine copies saved
# next to this script, on the same inputs and the same call sequences.

import importlib
import importlib.util
import random

HERE = os.path.dirname(os.path.abspath(__file__))
random.seed(0xC07)

MODULES = {
    "bn128": ("py_ecc.bn128.bn128_curve", "bn128_bn128_curve.py", False),
    "bls12_381": ("py_ecc.bls12_381.bls12_381_curve", "bls12_381_bls12_381_curve.py", False),
    "optimized_bls12_381": (
        "py_ecc.optimized_bls12_381.optimized_curve",
        "optimized_bls12_381_optimized_curve.py",
        True,
    ),
}


def load_pristine(tag, filename):
    spec = importlib.util.spec_from_file_location(
        "pristine_" + tag, os.path.join(HERE, "pristine", filename)
    )
    mod = importlib.util.module_from_spec(spec)
    spec.loader.exec_module(mod)
    return mod


def canon(v):
    """Structural, type-aware canonical form of a result."""
    if v is None or isinstance(v, (bool, int, str)):
        return (type(v).__name__, v)
    if isinstance(v, (tuple, list)):
        return (type(v).__name__, tuple(canon(e) for e in v))
    if hasattr(v, "coeffs"):
        return (type(v).__name__, tuple(int(c) for c in v.coeffs))
    if hasattr(v, "n"):
        return (type(v).__name__, int(v.n))
    return (type(v).__name__, repr(v))


def run(fn, *args):
    try:
        return ("ok", canon(fn(*args)))
    except RecursionError:
        return ("exc", "RecursionError")
    except Exception as e:  # noqa: BLE001
        return ("exc", type(e).__name__)


n_checks = 0


def same(tag, name, new_mod, old_mod, *args):
    global n_checks
    before = canon(args)
    a = run(getattr(new_mod, name), *args)
    mid = canon(args)
    b = run(getattr(old_mod, name), *args)
    assert before == mid == canon(args), (tag, name, "argument mutated")
    assert a == b, (tag, name, args, a, b)
    n_checks += 1
    return a


def rand_fq2_pair(m):
    p = m.field_modulus
    return (
        m.FQ2([random.randrange(p), random.randrange(p)]),
        m.FQ2([random.randrange(p), random.randrange(p)]),
    )


def rescale(m, pt, optimized):
    """Another projective representative of the same point (optimized only)."""
    if not optimized:
        return pt
    lam = m.FQ2([random.randrange(1, m.field_modulus), random.randrange(m.field_modulus)])
    return tuple(c * lam for c in pt)


for tag, (modname, filename, optimized) in MODULES.items():
    new = importlib.import_module(modname)
    old = load_pristine(tag, filename)
    assert new is not old and new.__file__ != old.__file__
    r, p = new.curve_order, new.field_modulus

    names = ("field_modulus", "curve_order", "b", "b2", "b12", "G1", "G2", "G12", "w", "Z1", "Z2")
    for const in names:
        assert canon(getattr(new, const)) == canon(getattr(old, const)), (tag, const)
    consts_before = {k: canon(getattr(new, k)) for k in names}

    G1, G2, G12 = new.G1, new.G2, new.G12
    FQ, FQ2, FQ12 = new.FQ, new.FQ2, new.FQ12
    if optimized:
        inf1, inf2 = new.Z1, new.Z2
        inf12 = (FQ12.one(), FQ12.one(), FQ12.zero())
        odd_infs = {
            "G1": [(FQ.zero(), FQ.zero(), FQ.zero()), (FQ(5), FQ(0), FQ(0)), (FQ(0), FQ(9), FQ(0))],
            "G2": [(FQ2.zero(), FQ2.zero(), FQ2.zero()), (FQ2([5, 7]), FQ2([0, 3]), FQ2.zero())],
            "G12": [(FQ12.zero(), FQ12.zero(), FQ12.zero())],
        }
    else:
        inf1 = inf2 = inf12 = None
        odd_infs = {"G1": [], "G2": [], "G12": []}

    scalars = [0, 1, 2, 3, r - 1, r, r + 1, 2 * p - r, random.getrandbits(640), random.getrandbits(255)]

    malformed = [
        (1, 2), (1, 2, 3), (0, 0, 0), (), (G1[0],), G1 + (G1[0],), G1[:2], G1[:2] + (FQ.one(),), 5, 0, "ab", "",
        [G1[0], G1[1]], list(G1), (G1[0], 7), (None, None), (None, None, None), None, FQ(3), FQ2([1, 2]),
        (None,), (FQ(1), FQ(2), None), (FQ(1), FQ(2), 0), (FQ(1), FQ(2), 1), (FQ(1), FQ2([1, 0]), FQ2.zero()),
        False, True, (FQ(1), FQ(2), FQ2.zero()),
    ]

    groups = [
        ("G1", G1, inf1, new.b),
        ("G2", G2, inf2, new.b2),
        ("G12", G12, inf12, new.b12),
    ]
    for gname, G, inf, coeff_b in groups:
        big = gname != "G12"
        pts = [inf, G, new.double(G), new.neg(G), new.multiply(G, 3)] + odd_infs[gname]
        if big:
            pts.append(new.multiply(G, r - 1))
            pts += [new.multiply(G, random.getrandbits(120)) for _ in range(3)]
        one = G[0].one()
        off = (G[0] + one, G[1]) + tuple(G[2:])
        pts.append(off)
        # y == 0 point (order 2 on its own curve)
        pts.append((G[0], G[1].zero()) + tuple(G[2:]))
        if optimized and big:
            lam = random.randrange(2, p)
            pts.append(tuple(c * lam for c in G))
            pts.append(tuple(c * lam for c in inf))

        # call sequences: every unary function on every point, twice, shuffled, with
        # malformed arguments in between; equal arguments must give equal results
        unary = ["is_inf", "double", "neg"]
        if gname == "G2":
            unary.append("twist")
        seq = [(f, a) for f in unary for a in pts + (malformed if gname == "G1" else [])] * 2
        random.shuffle(seq)
        seen = {}
        for f, a in seq:
            res = same(tag, f, new, old, a)
            assert seen.setdefault((f, repr(canon(a))), res) == res, (tag, f, "history")
        for a in pts + (malformed if gname == "G1" else []):
            for cb in (coeff_b, new.b, 3, None):
                same(tag, "is_on_curve", new, old, a, cb)

        pairs = [(a, c) for a in pts for c in pts]
        random.shuffle(pairs)
        for a, c in pairs:
            same(tag, "add", new, old, a, c)
            same(tag, "eq", new, old, a, c)
        # infinity on either side returns the very operand (identity preserved)
        for a in pts[1:4]:
            assert new.add(a, inf) is a and new.add(inf, a) is a
            assert old.add(a, inf) is a and old.add(inf, a) is a
        assert new.add(inf, inf) is inf and old.add(inf, inf) is inf
        assert new.double(inf) is inf or optimized

        trip = pts[0:5] if big else pts[0:3]
        for a in trip:
            for c in trip:
                for d in trip[:3]:
                    x = run(new.add, new.add(a, c), d)
                    y = run(old.add, old.add(a, c), d)
                    x2 = run(new.add, a, new.add(c, d))
                    assert x == y
                    if not optimized:
                        assert x == x2  # associativity, incl. infinity operands
                    n_checks += 1
        ns = scalars if big else [0, 1, 2, 3, 11, random.getrandbits(24)]
        for n in ns:
            same(tag, "multiply", new, old, G, n)
            same(tag, "multiply", new, old, inf, n)
            for oi in odd_infs[gname][:1]:
                same(tag, "multiply", new, old, oi, n % 1000)
        same(tag, "multiply", new, old, off, 7)
        if big:
            assert new.is_inf(new.multiply(G, r)) and old.is_inf(old.multiply(G, r))
            # P + (-P) and P + (r-1)P are infinity in both
            same(tag, "add", new, old, G, new.neg(G))
            assert new.is_inf(new.add(G, new.multiply(G, r - 1)))

    # malformed operands of the binary functions (incl. infinity on one side)
    bad = malformed + [G2, G12]
    for a in bad:
        for c in (G1, inf1, 5, (1, 2), None, G2):
            same(tag, "add", new, old, a, c)
            same(tag, "add", new, old, c, a)
            same(tag, "eq", new, old, a, c)
            same(tag, "eq", new, old, c, a)
    for a in malformed + [G1, G12, inf2]:
        same(tag, "twist", new, old, a)
    for n in (1.0, 2.5, True, False, None, "3", FQ(3)):
        same(tag, "multiply", new, old, G1, n)
        same(tag, "multiply", new, old, inf1, n)
    for a in malformed[:12]:
        for n in (0, 1, 2, 3):
            same(tag, "multiply", new, old, a, n)

    consts_after = {k: canon(getattr(new, k)) for k in names}
    assert consts_before == consts_after, tag
    print(tag, "ok")

print("p2 equivalent on", n_checks, "paired calls")
