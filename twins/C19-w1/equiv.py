import os, sys; sys.path.insert(0, os.getcwd())
"""
Equivalence demonstration for C19 / w1 (restructured ecdsa_raw_recover).

Loads the pristine secp256k1 module from ./pristine/secp256k1.py under another
module name and the edited one from the current working tree, then compares
return values and exception classes (and messages) of ecdsa_raw_recover on a
broad grid of (hash, v, r, s), including boundary and malformed inputs.

Run as:  cd /tmp/wt2/C19 && /venv/bin/python /tmp/twin6/C19/w1/equiv.py
"""
import hashlib
import importlib.util
import random
import time

HERE = os.path.dirname(os.path.abspath(__file__))

spec = importlib.util.spec_from_file_location(
    "pristine_secp256k1", os.path.join(HERE, "pristine", "secp256k1.py")
)
old = importlib.util.module_from_spec(spec)
spec.loader.exec_module(old)

import py_ecc.secp256k1.secp256k1 as new  # noqa: E402

assert os.path.realpath(new.__file__).startswith(os.path.realpath(os.getcwd())), (
    new.__file__
)
assert os.path.realpath(old.__file__) != os.path.realpath(new.__file__)

P, N = old.P, old.N
CONSTS = ("P", "N", "A", "B", "Gx", "Gy", "G")
for c in CONSTS:
    assert getattr(old, c) == getattr(new, c), c
CONST_SNAPSHOT = {c: getattr(new, c) for c in CONSTS}

rng = random.Random(0xC19)
checked = 0
returned = 0
raised = {}


def outcome(fn, *args):
    try:
        res = fn(*args)
    except BaseException as e:  # noqa: B902
        return ("exc", type(e), str(e))
    return ("ok", type(res), res)


def compare(msghash, vrs, label=""):
    global checked, returned
    a = outcome(old.ecdsa_raw_recover, msghash, vrs)
    b = outcome(new.ecdsa_raw_recover, msghash, vrs)
    if a != b:
        print("MISMATCH", label, repr(msghash)[:80], repr(vrs)[:200])
        print("  pristine:", a)
        print("  edited:  ", b)
        sys.exit(1)
    checked += 1
    if a[0] == "ok":
        returned += 1
        # result type details: tuple of two ints
        assert type(a[2]) is type(b[2]) is tuple
        assert [type(c) for c in a[2]] == [type(c) for c in b[2]]
    else:
        raised[a[1].__name__] = raised.get(a[1].__name__, 0) + 1
    return a


def is_x(x):
    w = (x * x * x + 7) % P
    return pow(w, (P - 1) // 2, P) in (0, 1)


# ---------------------------------------------------------------- inputs
valid_x, invalid_x = [], []
c = 1
while len(valid_x) < 4 or len(invalid_x) < 4:
    (valid_x if is_x(c) else invalid_x).append(c)
    c += 1
valid_x, invalid_x = valid_x[:4], invalid_x[:4]
while len(valid_x) < 8 or len(invalid_x) < 8:
    c = rng.randrange(P)
    (valid_x if is_x(c) else invalid_x).append(c)
# x-coordinates >= N (only ~2^128 of them): search downward from P-1
hi_valid = [x for x in range(P - 1, P - 40, -1) if is_x(x)][:3]
hi_invalid = [x for x in range(P - 1, P - 40, -1) if not is_x(x)][:3]

R_VALUES = (
    [0, 1, 2, 3, N - 1, N, N + 1, N + 2, P - 1, P - 2, P - 3, old.Gx]
    + valid_x[:8]
    + invalid_x[:8]
    + hi_valid
    + hi_invalid
)
S_VALUES = [
    0,
    1,
    2,
    (N - 1) // 2,
    (N + 1) // 2,
    N - 1,
    N,
    N + 1,
    2 * N,
    2 * N + 5,
    rng.randrange(1, N),
    rng.randrange(N, 2**256),
]
V_VALUES = [0, 1, 26, 27, 28, 29, 35, 36]
HASHES = [
    b"\x00" * 32,
    b"\xff" * 32,  # z > N
    old.N.to_bytes(32, "big"),  # z == N -> -z % N == 0
    (old.N - 1).to_bytes(32, "big"),
    (1).to_bytes(32, "big"),
    hashlib.sha256(b"C19").digest(),
]

t0 = time.time()

# 1. full grid over the property's quantification domain
for h in HASHES:
    for v in V_VALUES:
        for r in R_VALUES:
            for s in S_VALUES:
                compare(h, (v, r, s), "grid")

# 2. real signatures, low-s and high-s twins, wrong parity, cross-hash
for i in range(40):
    priv = rng.randrange(1, N).to_bytes(32, "big")
    h = hashlib.sha256(b"msg%d" % i).digest()
    v, r, s = old.ecdsa_raw_sign(h, priv)
    pub = old.privtopub(priv)
    a = compare(h, (v, r, s), "sig")
    assert a[0] == "ok" and a[2] == pub
    a = compare(h, (55 - v, r, N - s), "high-s")  # malleated signature
    assert a[0] == "ok" and a[2] == pub
    compare(h, (55 - v, r, s), "other parity")
    compare(h, (v, r, N - s), "high-s same v")
    compare(h, (v, r, s + N), "s+N")
    compare(h, (v, r + N, s), "r+N")
    compare(hashlib.sha256(h).digest(), (v, r, s), "other hash")
    compare(h, [v, r, s], "list vrs")

# 3. s*R == z*G  -> the sum is the point at infinity
for i in range(6):
    k = rng.randrange(1, N)
    Rp = old.multiply(old.G, k)
    z = rng.randrange(1, N)
    s = z * old.inv(k, N) % N
    h = z.to_bytes(32, "big")
    for v in (27, 28):
        for ss in (s, N - s, s + N):
            compare(h, (v, Rp[0], ss), "infinity")

# 4. random valid / invalid / out-of-range values
for i in range(150):
    h = rng.randbytes(32)
    r = rng.choice([rng.randrange(P), rng.randrange(N), rng.choice(valid_x)])
    s = rng.choice([rng.randrange(N), rng.randrange(2**256)])
    compare(h, (rng.choice([27, 28]), r, s), "random")

# 5. inputs outside the stated domain / malformed (exception classes must match)
h = HASHES[-1]
gx = old.Gx
ODD = [
    (27, -1, 5),
    (28, -gx, 5),
    (27, gx - P, 5),  # negative representative of a valid x
    (27, gx + P, 5),  # r >= P
    (28, gx + 2 * P, 7),
    (27, gx, -5),
    (28, gx, -N),
    (27, 2**300 + 1, 3),
    (27, gx, 2**300 + 1),
    (27, 10**5000, 3),  # longer than the int->str digit limit
    (29, 10**5000, 3),
    (10**5000, gx, 3),
    (27.0, gx, 5),
    (28.0, invalid_x[0], 5),
    (27.5, gx, 5),
    (True, gx, 5),
    (None, gx, 5),
    ("27", gx, 5),
    (b"\x1b", gx, 5),
    (27, float(3), 5),
    (27, 1.5, 5),
    (27, None, 5),
    (27, "1", 5),
    (27, gx, 5.0),
    (27, gx, 3.5),
    (28, gx, float(N)),
    (27, gx, None),
    (27, gx, "5"),
    (27, gx, b"5"),
    (27, invalid_x[0], None),
    (27, N, None),
    (27, 0, "x"),
    (27, gx, True),
    (27, True, 5),
    (27, gx, False),
    (27, gx),
    (27, gx, 5, 6),
    (),
    None,
    27,
    "abc",
    b"\x1b\x01\x02",
    [28, gx, 9],
    iter([28, gx, 9]),
]
for vrs in ODD:
    if hasattr(vrs, "__next__"):
        a = outcome(old.ecdsa_raw_recover, h, iter([28, gx, 9]))
        b = outcome(new.ecdsa_raw_recover, h, iter([28, gx, 9]))
        assert a == b, (a, b)
        checked += 1
        continue
    compare(h, vrs, "odd")

ODD_HASHES = [
    b"",
    b"\x01",
    b"\xff" * 64,
    bytearray(b"\x07" * 32),
    memoryview(b"\x09" * 32),
    "6a74f15f29c3227c5d1d2e27894da58d417a484ef53bc7aa57ee323b42ded656",
    "",
    [1, 2, 3],
    [-1, -2],
    (0,),
    [1.5],
    [None],
    None,
    5,
    object(),
]
for oh in ODD_HASHES:
    compare(oh, (27, gx, 5), "odd hash")
    compare(oh, (28, gx, N + 5), "odd hash")
    compare(oh, (27, invalid_x[0], 5), "odd hash / invalid r")
    compare(oh, (30, gx, 5), "odd hash / bad v")
    compare(oh, (27, gx, 0), "odd hash / zero s")

# 6. call histories: repeat and interleave; results must not depend on history
seq = []
for i in range(12):
    priv = rng.randrange(1, N).to_bytes(32, "big")
    hh = rng.randbytes(32)
    seq.append((hh, old.ecdsa_raw_sign(hh, priv)))
    seq.append((hh, (27, invalid_x[i % len(invalid_x)], 5)))
    seq.append((hh, (26, gx, 5)))
first = [outcome(new.ecdsa_raw_recover, hh, vrs) for hh, vrs in seq]
order = list(range(len(seq))) * 2
rng.shuffle(order)
for idx in order:
    hh, vrs = seq[idx]
    again = outcome(new.ecdsa_raw_recover, hh, vrs)
    assert again == first[idx] == outcome(old.ecdsa_raw_recover, hh, vrs)
    checked += 1

# 7. nothing at module level was mutated, other public functions agree
for cname, val in CONST_SNAPSHOT.items():
    assert getattr(new, cname) == val and getattr(old, cname) == val, cname
assert type(new.G) is tuple and new.G == (new.Gx, new.Gy)
for i in range(10):
    priv = rng.randrange(1, N).to_bytes(32, "big")
    hh = rng.randbytes(32)
    assert old.ecdsa_raw_sign(hh, priv) == new.ecdsa_raw_sign(hh, priv)
    assert old.privtopub(priv) == new.privtopub(priv)
    assert old.deterministic_generate_k(hh, priv) == new.deterministic_generate_k(
        hh, priv
    )
old_public = {n for n in dir(old) if not n.startswith("_")}
new_public = {n for n in dir(new) if not n.startswith("_")}
assert old_public <= new_public, old_public - new_public

print(
    "OK: %d comparisons identical (%d returned a point; raised: %s) in %.1fs"
    % (checked, returned, raised, time.time() - t0)
)
sys.exit(0)
