import os, sys; sys.path.insert(0, os.getcwd())  # noqa: E401,E702

"""
Equivalence demonstration for p2 (shared _checked_privkey / _checked_message helpers
in py_ecc/bls/ciphersuites.py).

Run as:  cd /tmp/wt2/C01 && /venv/bin/python /tmp/twin2/C01/p2/equiv.py

Loads the pristine ciphersuites.py (saved next to this script) under another module
name inside the py_ecc.bls package and compares it with the edited tree on return
values, exception classes and exception messages.
"""
import importlib.util
import random
import time

HERE = os.path.dirname(os.path.abspath(__file__))
T0 = time.time()

import py_ecc.bls.ciphersuites as new_cs  # noqa: E402
from py_ecc.optimized_bls12_381 import curve_order as r  # noqa: E402

assert os.path.realpath(new_cs.__file__).startswith(os.path.realpath(os.getcwd()))
assert hasattr(new_cs.BaseG2Ciphersuite, "_checked_privkey"), "p2 must be applied"

spec = importlib.util.spec_from_file_location(
    "py_ecc.bls._pristine_ciphersuites", os.path.join(HERE, "pristine", "ciphersuites.py")
)
old_cs = importlib.util.module_from_spec(spec)
sys.modules[spec.name] = old_cs
spec.loader.exec_module(old_cs)
assert not hasattr(old_cs.BaseG2Ciphersuite, "_checked_privkey")

checks = 0
rnd = random.Random(20260930)


def outcome(f, *a):
    try:
        v = f(*a)
        return ("ok", type(v).__name__, v)
    except BaseException as e:  # noqa: B902
        return ("exc", type(e).__name__, str(e))


def same(fnew, fold, *a, expect=None):
    global checks
    n = outcome(fnew, *a)
    o = outcome(fold, *a)
    assert n == o, (fnew, a, n, o)
    if expect is not None:
        assert n[:2] == expect, (fnew, a, n, expect)
    checks += 1
    return n


TRUE = ("ok", "bool")
VERR = ("exc", "ValidationError")


class IntSub(int):
    pass


suites = [
    (new_cs.G2Basic, old_cs.G2Basic),
    (new_cs.G2MessageAugmentation, old_cs.G2MessageAugmentation),
    (new_cs.G2ProofOfPossession, old_cs.G2ProofOfPossession),
]
POPN, POPO = suites[2]

msgs = [
    b"",
    b"\x00",
    b"a",
    b"a" * 55,
    b"a" * 56,
    b"a" * 63,
    b"a" * 64,
    b"a" * 65,
    bytes(range(256)),
    rnd.randbytes(3 * 1024 + 7),
]
bad_sks = [
    0,
    r,
    r + 1,
    -1,
    -r,
    -(r - 1),
    2**255,
    2**256,
    2 * r,
    2 * r - 1,
    r + 5,
    False,
    IntSub(0),
    IntSub(r),
    "1",
    "0x01",
    1.0,
    float(r - 1),
    None,
    b"\x01",
    bytearray(b"\x01"),
    [1],
    (1,),
    1 + 0j,
    r - 0.5,
]
good_sks = [1, 2, 3, r - 2, r - 1, rnd.getrandbits(255) % (r - 1) + 1, True]
good_sks += [IntSub(1), IntSub(r - 1), IntSub(2**200 + 9)]

# ---- SkToPk over every bit length and the boundaries -----------------------
for sk in good_sks:
    v = same(new_cs.G2Basic.SkToPk, old_cs.G2Basic.SkToPk, sk, expect=("ok", "bytes"))
    assert len(v[2]) == 48
for bits in range(1, 256):
    for sk in {(1 << (bits - 1)), rnd.getrandbits(bits) | (1 << (bits - 1))}:
        if 0 < sk < r:
            same(POPN.SkToPk, POPO.SkToPk, sk, expect=("ok", "bytes"))
        else:
            same(POPN.SkToPk, POPO.SkToPk, sk, expect=VERR)
for N, O in suites:
    for sk in bad_sks:
        same(N.SkToPk, O.SkToPk, sk, expect=VERR)
        same(N.Sign, O.Sign, sk, b"msg", expect=VERR)
        same(N.Sign, O.Sign, sk, b"", expect=VERR)
        # an invalid key is reported before an invalid message, as before
        same(N.Sign, O.Sign, sk, "not bytes", expect=VERR)
        same(N._CoreSign, O._CoreSign, sk, b"m", N.DST, expect=VERR)
for sk in bad_sks:
    same(POPN.PopProve, POPO.PopProve, sk, expect=VERR)
# helper accessors behave like the inlined checks
for sk in bad_sks + good_sks:
    assert new_cs.G2Basic._is_valid_privkey(sk) == old_cs.G2Basic._is_valid_privkey(sk)
    checks += 1
print("keys done: %d checks, %.1fs" % (checks, time.time() - T0))

# ---- invalid messages -------------------------------------------------------
bad_msgs = ["text", bytearray(b"x"), memoryview(b"x"), None, 5, [b"x"], (b"x",)]
for si, (N, O) in enumerate(suites):
    pk = N.SkToPk(7)
    sig = N.Sign(7, b"ok")
    for bm in bad_msgs:
        same(N.Sign, O.Sign, 7, bm)
        same(N._CoreSign, O._CoreSign, 7, bm, N.DST, expect=VERR)
        same(N.Verify, O.Verify, pk, bm, sig)
        same(N._CoreVerify, O._CoreVerify, pk, bm, sig, N.DST, expect=TRUE)
    same(POPN.PopVerify, POPO.PopVerify, "pk", sig, expect=TRUE)

# ---- honest signatures verify; Sign output identical -----------------------
sign_sks = good_sks + [2**7, 2**64 - 1, 2**128 + 1, 2**254, r - 3]
for si, (N, O) in enumerate(suites):
    for j in range(10):
        sk = sign_sks[(j + 5 * si) % len(sign_sks)]
        m = msgs[(3 * j + si) % len(msgs)]
        pk = same(N.SkToPk, O.SkToPk, sk, expect=("ok", "bytes"))[2]
        sig = same(N.Sign, O.Sign, sk, m, expect=("ok", "bytes"))[2]
        assert len(sig) == 96
        if j % 5 == si:
            v = same(N.Verify, O.Verify, pk, m, sig, expect=TRUE)
        elif j % 2 == 0:
            v = outcome(N.Verify, pk, m, sig)
        else:
            # cross-check: the edited Sign is accepted by the pristine Verify
            v = outcome(O.Verify, pk, m, sig)
        assert v == ("ok", "bool", True), (N, sk, m, v)
        checks += 1
    # repeated / interleaved calls
    sk, m = sign_sks[si], msgs[si + 2]
    s1 = N.Sign(sk, m)
    N.SkToPk(sk + 1)
    assert outcome(N.Sign, 0, m)[:2] == VERR
    assert N.Sign(sk, m) == s1 == O.Sign(sk, m)
    pk = N.SkToPk(sk)
    same(N.Verify, O.Verify, pk, m + b"!", s1, expect=TRUE)  # value is False
    assert N.Verify(pk, m + b"!", s1) is False
    assert N.Verify(N.SkToPk(sk + 1), m, s1) is False
    # malformed public keys / signatures: still plain False
    inf_pk = bytes([0xC0]) + b"\x00" * 47
    for bad_pk in (pk[:-1], pk + b"\x00", b"", inf_pk, b"\xff" * 48, bytearray(pk), None):
        same(N.Verify, O.Verify, bad_pk, m, s1)
    for bad_sig in (s1[:-1], s1 + b"\x00", b"", b"\xff" * 96, bytearray(s1), None, 3):
        same(N.Verify, O.Verify, pk, m, bad_sig)
    print("suite %s done: %d checks, %.1fs" % (N.__name__, checks, time.time() - T0))

# ---- proofs of possession ---------------------------------------------------
for j, sk in enumerate([1, 2, r - 2, r - 1, good_sks[5], IntSub(12345), True]):
    pk = POPN.SkToPk(sk)
    proof = same(POPN.PopProve, POPO.PopProve, sk, expect=("ok", "bytes"))[2]
    if j % 3 == 0:
        v = same(POPN.PopVerify, POPO.PopVerify, pk, proof, expect=TRUE)
    elif j % 3 == 1:
        v = outcome(POPN.PopVerify, pk, proof)
    else:
        v = outcome(POPO.PopVerify, pk, proof)
    assert v == ("ok", "bool", True)
    checks += 1
pk1, proof1, proof2 = POPN.SkToPk(1), POPN.PopProve(1), POPN.PopProve(2)
assert same(POPN.PopVerify, POPO.PopVerify, pk1, proof2, expect=TRUE)[2] is False
assert POPN.PopVerify(pk1, proof1) is True

# ---- aggregate paths use the same validators --------------------------------
ks = [3, 4, 5]
pks = [POPN.SkToPk(k) for k in ks]
ms = [b"agg-1", b"agg-2", b"agg-3"]
agg = same(POPN.Aggregate, POPO.Aggregate, [POPN.Sign(k, m) for k, m in zip(ks, ms)])[2]
assert same(POPN.AggregateVerify, POPO.AggregateVerify, pks, ms, agg)[2] is True
assert same(POPN.AggregateVerify, POPO.AggregateVerify, pks, ms[:2] + ["x"], agg)[2] is False
fagg = POPN.Aggregate([POPN.Sign(k, b"same") for k in ks])
assert same(POPN.FastAggregateVerify, POPO.FastAggregateVerify, pks, b"same", fagg)[2]
assert not same(POPN.FastAggregateVerify, POPO.FastAggregateVerify, pks, "same", fagg)[2]

# ---- KeyGen unaffected and in range ------------------------------------------
for ikm in (b"\x00" * 32, bytes(range(32)), rnd.randbytes(48), b""):
    for info in (b"", b"info"):
        v = same(POPN.KeyGen, POPO.KeyGen, ikm, info, expect=("ok", "int"))
        assert 1 <= v[2] < r
        same(POPN.SkToPk, POPO.SkToPk, v[2], expect=("ok", "bytes"))

# module constants untouched
assert new_cs.curve_order == old_cs.curve_order == r
assert new_cs.G1 == old_cs.G1 and new_cs.G1 is old_cs.G1
print("OK p2: %d checks identical, %.1fs" % (checks, time.time() - T0))
