import os, sys; sys.path.insert(0, os.getcwd())  # noqa: E401,E702

"""
Equivalence demonstration for C09/p1 (memoised hash_to_G2).

Loads the pristine py_ecc/bls/hash_to_curve.py next to the edited one and checks
that both return equal points / raise the same exception classes, for single
calls and for call histories that repeat, interleave and overflow the memo
table.  Also checks Sign / PopProve / Aggregate / Verify end to end.
"""
import hashlib
import importlib.util
import random
import time

HERE = os.path.dirname(os.path.abspath(__file__))
T0 = time.time()


def load(name, path):
    spec = importlib.util.spec_from_file_location(name, path)
    mod = importlib.util.module_from_spec(spec)
    sys.modules[name] = mod
    spec.loader.exec_module(mod)
    return mod


import py_ecc.bls.hash_to_curve as new  # noqa: E402

assert os.path.abspath(new.__file__).startswith(os.getcwd()), new.__file__
old = load(
    "py_ecc.bls._pristine_hash_to_curve",
    os.path.join(HERE, "pristine", "hash_to_curve.py"),
)
assert not hasattr(old, "_hash_to_G2_coeffs") and hasattr(new, "_hash_to_G2_coeffs")

from py_ecc.bls import G2Basic, G2MessageAugmentation, G2ProofOfPossession  # noqa: E402
from py_ecc.bls.g2_primitives import G2_to_signature  # noqa: E402
from py_ecc.fields import optimized_bls12_381_FQ2 as FQ2  # noqa: E402
from py_ecc.optimized_bls12_381 import (  # noqa: E402
    add,
    b2,
    curve_order,
    is_on_curve,
    multiply,
    normalize,
)

sha256 = hashlib.sha256
checks = 0


def outcome(fn, *args):
    try:
        return ("ok", fn(*args))
    except BaseException as e:  # noqa: B902
        return ("exc", type(e))


def same_point(a, b):
    """Strict: same container type, same element types, same raw coordinates."""
    assert type(a) is type(b) is tuple and len(a) == len(b) == 3, (a, b)
    for ea, eb in zip(a, b):
        assert type(ea) is type(eb) is FQ2, (type(ea), type(eb))
        assert type(ea.coeffs) is type(eb.coeffs) is tuple
        assert ea.coeffs == eb.coeffs
        assert all(type(c) is int for c in ea.coeffs + eb.coeffs)
        assert ea.modulus_coeffs == eb.modulus_coeffs and ea.degree == eb.degree
        assert ea.mc_tuples == eb.mc_tuples
    return True


def compare(message, DST, H, expect=None):
    global checks
    checks += 1
    o = outcome(old.hash_to_G2, message, DST, H)
    n = outcome(new.hash_to_G2, message, DST, H)
    assert o[0] == n[0], (message, DST, H, o, n)
    if o[0] == "exc":
        assert o[1] is n[1], (message, DST, H, o, n)
    else:
        same_point(o[1], n[1])
    if expect is not None:
        assert o[0] == expect, (message, DST, H, o)
    return n


DST_NUL = G2Basic.DST
DST_AUG = G2MessageAugmentation.DST
DST_POP = G2ProofOfPossession.DST
POP_TAG = G2ProofOfPossession.POP_TAG
assert DST_NUL == b"BLS_SIG_BLS12381G2_XMD:SHA-256_SSWU_RO_NUL_"
assert DST_AUG == b"BLS_SIG_BLS12381G2_XMD:SHA-256_SSWU_RO_AUG_"
assert DST_POP == b"BLS_SIG_BLS12381G2_XMD:SHA-256_SSWU_RO_POP_"
assert POP_TAG == b"BLS_POP_BLS12381G2_XMD:SHA-256_SSWU_RO_POP_"

rng = random.Random(0xC09)

# ---------------------------------------------------------------- 1. plain inputs
msgs = [b"", b"\x00", b"abc", b"\x00" * 32, bytes(range(256)), rng.randbytes(48)]
for m in msgs:
    for d in (DST_NUL, DST_AUG, DST_POP, POP_TAG):
        compare(m, d, sha256, "ok")
# the same message under different tags must not collide in the memo table
pts = [new.hash_to_G2(b"abc", d, sha256) for d in (DST_NUL, DST_AUG, DST_POP, POP_TAG)]
assert len({tuple(e.coeffs for e in p) for p in pts}) == 4
# message/DST boundary must not collide either: (b"ab", b"c") vs (b"a", b"bc")
a = compare(b"ab", b"c", sha256, "ok")[1]
b_ = compare(b"a", b"bc", sha256, "ok")[1]
assert tuple(e.coeffs for e in a) != tuple(e.coeffs for e in b_)

# ------------------------------------------------- 2. boundary and malformed input
compare(b"abc", b"", sha256, "ok")  # empty DST
compare(b"abc", b"D" * 255, sha256, "ok")  # longest DST
for _ in range(3):  # refused every time, never cached
    assert compare(b"abc", b"D" * 256, sha256, "exc")[1] is ValueError
compare(b"abc", b"D" * 255, sha256, "ok")


class MyBytes(bytes):
    pass


class WeirdBytes(bytes):
    """Equal to / hashes like everything: would poison a naive memo table."""

    def __eq__(self, other):
        return True

    def __hash__(self):
        return hash(b"abc")


class Unhashable:
    """A hash 'function' object that cannot be a dict key."""

    __hash__ = None

    def __call__(self, data=b""):
        return hashlib.sha256(data)


def sha256_wrapper(data=b""):
    return hashlib.sha256(data)


compare(b"abc", DST_NUL, sha256, "ok")
for m in (
    bytearray(b"abc"),
    memoryview(b"abc"),
    MyBytes(b"abc"),
    WeirdBytes(b"xyz"),
    "abc",
    None,
    7,
    [97, 98, 99],
    (b"abc",),
):
    compare(m, DST_NUL, sha256)
    compare(b"abc", DST_NUL, sha256, "ok")
for d in (
    bytearray(DST_NUL),
    memoryview(DST_NUL),
    MyBytes(DST_NUL),
    WeirdBytes(b"other tag"),
    DST_NUL.decode(),
    None,
    5,
):
    compare(b"abc", d, sha256)
    compare(b"abc", DST_NUL, sha256, "ok")
for H in (
    hashlib.sha512,
    hashlib.sha384,
    hashlib.sha1,
    hashlib.sha3_256,
    sha256_wrapper,
    Unhashable(),
    lambda data=b"": hashlib.sha256(data),
    None,
    "sha256",
    hashlib.shake_128,
):
    compare(b"abc", DST_NUL, H)
    compare(b"abc", DST_NUL, sha256, "ok")
print("sections 1-2 done", checks, "comparisons", round(time.time() - T0, 1), "s")

# -------------------------------------------- 3. histories: repeats and interleaving
keys = [
    (b"m0", DST_NUL),
    (b"m0", DST_POP),
    (b"m1", DST_NUL),
    (b"", POP_TAG),
    (b"m0" + DST_NUL, b""),
]
truth = {k: old.hash_to_G2(k[0], k[1], sha256) for k in keys}
for _ in range(60):
    k = rng.choice(keys)
    got = new.hash_to_G2(k[0], k[1], sha256)
    same_point(truth[k], got)
    checks += 1
    if rng.random() < 0.2:  # interleave refused / uncached calls
        assert outcome(new.hash_to_G2, k[0], b"D" * 256, sha256) == ("exc", ValueError)
        same_point(
            new.hash_to_G2(bytearray(k[0]), k[1], sha256),
            truth[k],
        )
info = new._hash_to_G2_coeffs.cache_info()
assert info.hits > 0, info

# a hit hands out fresh objects: vandalising a result cannot change later results
k = keys[0]
r1 = new.hash_to_G2(k[0], k[1], sha256)
r2 = new.hash_to_G2(k[0], k[1], sha256)
assert r1 is not r2 and all(x is not y for x, y in zip(r1, r2))
r1[0].coeffs = (1, 2)
r1[1].coeffs = (3, 4)
r1[2].coeffs = (0, 0)
same_point(truth[k], new.hash_to_G2(k[0], k[1], sha256))
same_point(truth[k], r2)
# arguments are not mutated
ba = bytearray(b"mutable message")
new.hash_to_G2(ba, DST_NUL, sha256)
assert ba == bytearray(b"mutable message")
same_point(
    old.hash_to_G2(b"mutable message", DST_NUL, sha256),
    new.hash_to_G2(bytes(ba), DST_NUL, sha256),
)
ba[0:1] = b"M"  # changing the caller's buffer afterwards changes the answer
same_point(
    old.hash_to_G2(b"Mutable message", DST_NUL, sha256),
    new.hash_to_G2(bytes(ba), DST_NUL, sha256),
)
print("section 3 done", round(time.time() - T0, 1), "s")

# --------------------------------------------------- 4. overflow the table (eviction)
maxsize = new._hash_to_G2_coeffs.cache_info().maxsize
assert maxsize is not None and maxsize <= 64
first = (b"evict-0", DST_NUL)
for i in range(maxsize + 3):
    p = new.hash_to_G2(b"evict-%d" % i, DST_NUL, sha256)
    assert is_on_curve(p, b2)
    if i % 16 == 0:
        same_point(old.hash_to_G2(b"evict-%d" % i, DST_NUL, sha256), p)
info = new._hash_to_G2_coeffs.cache_info()
assert info.currsize == maxsize, info  # bounded
misses = info.misses
same_point(old.hash_to_G2(*first, sha256), new.hash_to_G2(*first, sha256))
assert new._hash_to_G2_coeffs.cache_info().misses == misses + 1  # was evicted
for k in keys:  # old entries, evicted or not, still give the same answers
    same_point(truth[k], new.hash_to_G2(k[0], k[1], sha256))
print("section 4 done", round(time.time() - T0, 1), "s")

# ------------------------------------------- 5. end to end through the ciphersuites
import py_ecc.bls.ciphersuites as cs  # noqa: E402

assert cs.hash_to_G2 is new.hash_to_G2


def ref_sign(sk, message, dst):
    return G2_to_signature(multiply(old.hash_to_G2(message, dst, sha256), sk))


sks = [1, 2, curve_order - 1, rng.randrange(1, curve_order)]
sigs = []
for sk in sks:
    pk = G2Basic.SkToPk(sk)
    for m in (b"", b"hello"):
        s_nul = G2Basic.Sign(sk, m)
        assert s_nul == ref_sign(sk, m, DST_NUL) == G2Basic.Sign(sk, m)
        s_aug = G2MessageAugmentation.Sign(sk, m)
        assert s_aug == ref_sign(sk, pk + m, DST_AUG)
        s_pop = G2ProofOfPossession.Sign(sk, m)
        assert s_pop == ref_sign(sk, m, DST_POP)
        assert len({s_nul, s_aug, s_pop}) == 3
        sigs.append(s_pop)
    proof = G2ProofOfPossession.PopProve(sk)
    assert proof == ref_sign(sk, pk, POP_TAG) == G2ProofOfPossession.PopProve(sk)
    assert proof != G2ProofOfPossession.Sign(sk, pk)
# sign -> verify uses the memoised point on the verify side
sk = sks[-1]
pk = G2Basic.SkToPk(sk)
assert G2Basic.Verify(pk, b"hello", G2Basic.Sign(sk, b"hello"))
assert not G2Basic.Verify(pk, b"hellO", G2Basic.Sign(sk, b"hello"))
assert G2MessageAugmentation.Verify(
    pk, b"hello", G2MessageAugmentation.Sign(sk, b"hello")
)
assert G2ProofOfPossession.PopVerify(pk, G2ProofOfPossession.PopProve(sk))
assert not G2ProofOfPossession.PopVerify(pk, G2ProofOfPossession.Sign(sk, pk))
# Aggregate of signatures over one message == signature under the summed key
agg = G2ProofOfPossession.Aggregate([sigs[0], sigs[2], sigs[4]])  # b"" by sk 1,2,r-1
pt = old.hash_to_G2(b"", DST_POP, sha256)
acc = add(add(multiply(pt, 1), multiply(pt, 2)), multiply(pt, curve_order - 1))
assert agg == G2_to_signature(acc) == ref_sign(2, b"", DST_POP)
assert normalize(acc) == normalize(multiply(new.hash_to_G2(b"", DST_POP, sha256), 2))
# refused inputs are refused the same way, before and after a successful call
from eth_utils import ValidationError  # noqa: E402

for bad in (0, curve_order, -1, 1.0, None, "1"):
    assert outcome(G2Basic.Sign, bad, b"hello") == ("exc", ValidationError)
for bad in ("hello", None, bytearray(b"hello")):
    assert outcome(G2Basic.Sign, 1, bad) == ("exc", ValidationError)
assert outcome(G2MessageAugmentation.Sign, 1, "hello") == ("exc", TypeError)
assert G2MessageAugmentation.Sign(1, bytearray(b"hello")) == ref_sign(
    1, G2Basic.SkToPk(1) + b"hello", DST_AUG
)

print(
    "OK: p1 equivalent;",
    checks,
    "direct comparisons;",
    new._hash_to_G2_coeffs.cache_info(),
    round(time.time() - T0, 1),
    "s",
)
