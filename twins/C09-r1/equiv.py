import os, sys; sys.path.insert(0, os.getcwd())  # noqa: E401,E702

"""
Equivalence demonstration for refactoring r1 (py_ecc/bls/ciphersuites.py).

Loads the pristine ciphersuites module (saved next to this script) under another
module name inside the py_ecc.bls package, and compares it against the refactored
module of the working tree on SkToPk / Sign / PopProve / Aggregate for all three
suites: valid inputs, boundary secret keys, malformed inputs.  Results must be
byte-identical and exceptions must have the same class (and text).
"""
import importlib.util
import random

HERE = os.path.dirname(os.path.abspath(__file__))

import py_ecc.bls.ciphersuites as new  # noqa: E402

assert os.path.abspath(new.__file__).startswith(os.getcwd()), new.__file__

spec = importlib.util.spec_from_file_location(
    "py_ecc.bls._pristine_ciphersuites",
    os.path.join(HERE, "pristine", "ciphersuites.py"),
)
old = importlib.util.module_from_spec(spec)
sys.modules[spec.name] = old
spec.loader.exec_module(old)

from py_ecc.optimized_bls12_381 import curve_order as r  # noqa: E402

SUITES = ["G2Basic", "G2MessageAugmentation", "G2ProofOfPossession"]
checked = 0
mismatches = []


def run(f, *a):
    try:
        return ("ok", f(*a))
    except BaseException as e:  # noqa: B902
        return ("exc", type(e), str(e))


def same(label, fo, fn, *a):
    global checked
    ro, rn = run(fo, *a), run(fn, *a)
    checked += 1
    if ro != rn or (ro[0] == "ok" and type(ro[1]) is not type(rn[1])):
        mismatches.append((label, a, ro, rn))
    return ro


rng = random.Random(0xC09)

# constants
for s in SUITES:
    assert getattr(old, s).DST == getattr(new, s).DST
assert old.G2ProofOfPossession.POP_TAG == new.G2ProofOfPossession.POP_TAG
assert old.BaseG2Ciphersuite.xmd_hash_function is new.BaseG2Ciphersuite.xmd_hash_function

good_sks = [1, 2, 3, r - 1, r - 2, (r - 1) // 2, 2**254, True] + [
    rng.randrange(1, r) for _ in range(4)
]
bad_sks = [0, -1, r, r + 1, 2 * r, -r, 2**256, "1", 1.0, None, b"\x01", [1], False]

# SkToPk
for s in SUITES:
    for sk in good_sks + bad_sks:
        same(s + ".SkToPk", getattr(old, s).SkToPk, getattr(new, s).SkToPk, sk)

# Sign / _CoreSign
messages = [
    b"",
    b"\x00",
    b"abc",
    b"\x00" * 48,
    b"\xff" * 96,
    bytes(range(256)) * 3,
    rng.randbytes(33),
]
bad_messages = ["abc", bytearray(b"abc"), None, 5, memoryview(b"abc"), [b"a"]]
sign_sks = [1, r - 1, rng.randrange(1, r), rng.randrange(1, r)]
sigs = {s: [] for s in SUITES}
for s in SUITES:
    O, N = getattr(old, s), getattr(new, s)
    for i, sk in enumerate(sign_sks):
        for m in messages if i < 2 else messages[:3]:
            res = same(s + ".Sign", O.Sign, N.Sign, sk, m)
            assert res[0] == "ok" and len(res[1]) == 96
            sigs[s].append(res[1])
    for sk in bad_sks:
        same(s + ".Sign/bad sk", O.Sign, N.Sign, sk, b"abc")
    for m in bad_messages:
        same(s + ".Sign/bad msg", O.Sign, N.Sign, 7, m)
    # both invalid: the secret-key check comes first in both versions
    same(s + ".Sign/both bad", O.Sign, N.Sign, 0, "abc")
    # _CoreSign directly with assorted DSTs (including an over-long one -> ValueError)
    for dst in [b"", b"X", O.DST, b"Q" * 255, b"Q" * 256, "str-dst", None]:
        same(s + "._CoreSign", O._CoreSign, N._CoreSign, 5, b"msg", dst)
    same(s + "._CoreSign/bad", O._CoreSign, N._CoreSign, r, b"msg", b"X")
    same(s + "._CoreSign/bad", O._CoreSign, N._CoreSign, 5, "msg", b"X")

# PopProve
O, N = old.G2ProofOfPossession, new.G2ProofOfPossession
for sk in good_sks + bad_sks:
    same("PopProve", O.PopProve, N.PopProve, sk)

# Aggregate
INF = b"\xc0" + b"\x00" * 95
from py_ecc.bls.g2_primitives import G2_to_signature, signature_to_G2  # noqa: E402
from py_ecc.optimized_bls12_381 import neg  # noqa: E402

pool = sigs["G2Basic"][:6] + sigs["G2ProofOfPossession"][:3]
negated = G2_to_signature(neg(signature_to_G2(pool[0])))
no_cflag = b"\x00" * 96  # decoding raises ValueError
bad_bflag = b"\x80" + b"\x00" * 95  # decoding raises ValueError
inf_aflag = b"\xe0" + b"\x00" * 95
x_too_big = b"\x9f" + b"\xff" * 95
not_on_curve = None
for k in range(1, 50):
    cand = (2**383 + k).to_bytes(48, "big") + (0).to_bytes(48, "big")
    if run(signature_to_G2, cand)[0] == "exc":
        not_on_curve = cand
        break
assert not_on_curve is not None
agg_inputs = [
    [],
    (),
    [pool[0]],
    (pool[0],),
    [pool[0], pool[1]],
    [pool[1], pool[0]],
    pool,
    tuple(pool),
    [pool[0]] * 5,
    [pool[0], negated],  # sums to the point at infinity
    [INF],
    [INF, INF],
    [INF, pool[2]],
    [pool[2], INF, pool[3]],
    # malformed lengths / types -> ValidationError
    [b""],
    [pool[0][:95]],
    [pool[0] + b"\x00"],
    [pool[0], pool[1][:48]],
    [pool[0], "x" * 96],
    [bytearray(pool[0])],
    [None],
    [pool[0], None],
    [96],
    # well-sized but undecodable -> ValueError
    [no_cflag],
    [pool[0], no_cflag],
    [bad_bflag],
    [inf_aflag],
    [x_too_big],
    [not_on_curve],
    [pool[0], not_on_curve, pool[1]],
    # undecodable BEFORE a wrongly-sized one: size validation of all comes first
    [no_cflag, b"short"],
    [not_on_curve, pool[0][:10]],
    [b"short", no_cflag],
    # non-sequences
    None,
    5,
    iter([pool[0]]),
    (x for x in [pool[0]]),
    {pool[0]: 1},
    {pool[0], pool[1]},
    pool[0],  # bytes: len 96, iterating gives ints -> ValidationError
    b"",
    "",
    "abc",
]
for s in SUITES:
    O, N = getattr(old, s), getattr(new, s)
    for inp in agg_inputs:
        if hasattr(inp, "__next__"):
            # one-shot iterators: give each version its own copy
            ro, rn = run(O.Aggregate, iter([pool[0]])), run(N.Aggregate, iter([pool[0]]))
            checked += 1
            if ro != rn:
                mismatches.append((s + ".Aggregate/iter", ro, rn))
            continue
        same(s + ".Aggregate", O.Aggregate, N.Aggregate, inp)
    for _ in range(6):
        k = rng.randrange(1, 6)
        inp = [rng.choice(pool + [INF, negated]) for _ in range(k)]
        same(s + ".Aggregate/random", O.Aggregate, N.Aggregate, inp)

# A couple of end-to-end round trips through the (untouched) verifiers, old<->new
pk = new.G2Basic.SkToPk(sign_sks[2])
sig_new = new.G2Basic.Sign(sign_sks[2], b"roundtrip")
sig_old = old.G2Basic.Sign(sign_sks[2], b"roundtrip")
assert sig_new == sig_old
assert old.G2Basic.Verify(pk, b"roundtrip", sig_new)
proof = new.G2ProofOfPossession.PopProve(sign_sks[2])
assert old.G2ProofOfPossession.PopVerify(pk, proof)

if mismatches:
    for m in mismatches[:20]:
        print("MISMATCH", m)
    print(f"{len(mismatches)} mismatches out of {checked} comparisons")
    sys.exit(1)
print(f"r1 equivalence OK: {checked} comparisons, 0 mismatches")
