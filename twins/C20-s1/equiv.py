import os, sys; sys.path.insert(0, os.getcwd())  # noqa: E401,E702

"""
Equivalence demonstration for edit s1 (C20).

s1 moves exptable / exp_by_p / final_exponentiate out of
py_ecc/optimized_bls12_381/optimized_pairing.py into the new module
py_ecc/optimized_bls12_381/optimized_final_exponentiation.py and re-exports
them from optimized_pairing.

The pristine optimized_pairing.py is loaded next to the edited one (inside the
same package so that its relative imports resolve to the very same curve /
field modules) and both are driven with the same inputs, in different call
orders, with snapshots of arguments and module constants around every call.
"""

import copy
import importlib
import importlib.util
import json
import random
import subprocess

HERE = os.path.dirname(os.path.abspath(__file__))
PRISTINE = os.path.join(HERE, "pristine", "optimized_pairing.py")

import py_ecc  # noqa: E402

assert os.path.abspath(py_ecc.__file__).startswith(os.getcwd()), py_ecc.__file__

import py_ecc.optimized_bls12_381 as pkg  # noqa: E402
from py_ecc.bls import G2Basic, G2ProofOfPossession  # noqa: E402
from py_ecc.fields import (  # noqa: E402
    optimized_bls12_381_FQ as FQ,
    optimized_bls12_381_FQ2 as FQ2,
    optimized_bls12_381_FQ12 as FQ12,
    optimized_bn128_FQ12 as BN_FQ12,
)
from py_ecc.optimized_bls12_381 import (  # noqa: E402
    optimized_curve as oc,
    optimized_pairing as new,
)


def load_pristine():
    name = "py_ecc.optimized_bls12_381._pristine_optimized_pairing"
    spec = importlib.util.spec_from_file_location(name, PRISTINE)
    mod = importlib.util.module_from_spec(spec)
    sys.modules[name] = mod
    spec.loader.exec_module(mod)
    return mod


old = load_pristine()
assert "exptable = [FQ12(" in open(PRISTINE).read()
assert "exptable = [FQ12(" not in open(new.__file__).read(), "edit s1 not applied"
newmod = importlib.import_module(
    "py_ecc.optimized_bls12_381.optimized_final_exponentiation"
)

checks = 0


def ok(cond, msg):
    global checks
    checks += 1
    if not cond:
        raise AssertionError(msg)


# ---------------------------------------------------------------- structure
def sig(v):
    """hashable deep description of a value: type names and integer contents."""
    if v is None or isinstance(v, (bool, int, str, bytes)):
        return (type(v).__name__, v)
    if isinstance(v, (tuple, list)):
        return (type(v).__name__, tuple(sig(e) for e in v))
    if hasattr(v, "coeffs"):
        return (
            type(v).__name__,
            type(v.coeffs).__name__,
            tuple(sig(c) for c in v.coeffs),
        )
    if hasattr(v, "n"):
        return (type(v).__name__, sig(v.n))
    return (type(v).__name__, repr(v))


# every path binds the very same objects
for nm in ("exptable", "exp_by_p", "final_exponentiate"):
    ok(getattr(new, nm) is getattr(newmod, nm), "re-export not identical: " + nm)
ok(pkg.final_exponentiate is newmod.final_exponentiate, "package re-export")
ok(pkg.pairing is new.pairing, "package pairing")
from py_ecc.bls import ciphersuites  # noqa: E402

ok(ciphersuites.final_exponentiate is new.final_exponentiate, "ciphersuites binding")

# public names of the module are unchanged
pub_old = sorted(n for n in vars(old) if not n.startswith("__"))
pub_new = sorted(n for n in vars(new) if not n.startswith("__"))
ok(pub_old == pub_new, "module namespace changed: %r" % (set(pub_old) ^ set(pub_new)))

# all module-level data of both modules is equal in value and type
for nm in pub_old:
    a, b = getattr(old, nm), getattr(new, nm)
    if callable(a) and not hasattr(a, "coeffs"):
        ok(callable(b), nm)
        continue
    ok(sig(a) == sig(b), "module constant differs: " + nm)
ok(type(new.exptable) is list and len(new.exptable) == 12, "exptable shape")
ok(new.field_modulus == newmod.field_modulus == old.field_modulus, "field_modulus")
for f in ("exp_by_p", "final_exponentiate", "pairing", "miller_loop", "linefunc"):
    fo, fn = getattr(old, f), getattr(new, f)
    ok(fo.__name__ == fn.__name__, f)
    ok(fo.__defaults__ == fn.__defaults__, f)
    ok(
        fo.__code__.co_varnames[: fo.__code__.co_argcount]
        == fn.__code__.co_varnames[: fn.__code__.co_argcount],
        f,
    )


# ---------------------------------------------------------------- snapshots
def constants_snapshot():
    snap = {}
    for nm in ("G1", "G2", "G12", "Z1", "Z2", "b", "b2", "b12", "w"):
        snap["oc." + nm] = sig(getattr(oc, nm))
    snap["new.exptable"] = sig(new.exptable)
    snap["old.exptable"] = sig(old.exptable)
    snap["new.pbe"] = sig(new.pseudo_binary_encoding)
    snap["old.pbe"] = sig(old.pseudo_binary_encoding)
    snap["FQ12.mc"] = sig(FQ12.FQ12_MODULUS_COEFFS)
    snap["FQ2.mc"] = sig(FQ2.FQ2_MODULUS_COEFFS)
    snap["cls"] = sig(sorted((k, repr(v)) for c in (FQ, FQ2, FQ12)
                             for k, v in vars(c).items()
                             # copy.deepcopy in this harness makes copyreg cache
                             # __slotnames__ on the class; not library state
                             if not k.startswith("__")))
    snap["fm"] = (FQ.field_modulus, FQ2.field_modulus, FQ12.field_modulus)
    return snap


BASE = constants_snapshot()


def call(fn, args, kwargs=None):
    kwargs = kwargs or {}
    before = sig(args) + sig(sorted(kwargs.items()))
    try:
        r = ("ok", sig(fn(*args, **kwargs)))
    except Exception as e:  # noqa: BLE001
        r = ("exc", type(e).__name__)
    ok(sig(args) + sig(sorted(kwargs.items())) == before, "argument mutated")
    ok(constants_snapshot() == BASE, "module constant mutated by %s" % fn.__name__)
    return r


# ---------------------------------------------------------------- inputs
rnd = random.Random(20)
p = FQ.field_modulus


def rfq12():
    return FQ12([rnd.randrange(p) for _ in range(12)])


pair_val = old.pairing(oc.G2, oc.G1, final_exponentiate=False)

fq12_inputs = [
    FQ12.zero(),
    FQ12.one(),
    FQ12([p - 1] + [0] * 11),
    FQ12([0] * 11 + [1]),
    FQ12([0] * 11 + [p - 1]),
    FQ12([p - 1] * 12),
    FQ12([0, 1] + [0] * 10),
    FQ12([-1] + [0] * 11),
    FQ12([p] + [0] * 11),
    FQ12([p + 5, -3] + [2**400] * 10),
    FQ12([FQ(7)] * 12),
    pair_val,
    pair_val * pair_val,
    rfq12(),
    rfq12(),
]
malformed = [
    None,
    0,
    1,
    "x",
    b"\x00",
    (),
    [1] * 12,
    FQ(3),
    FQ2([1, 2]),
    BN_FQ12([1] + [0] * 11),
    BN_FQ12([3] * 12),
    oc.G1,
]

exp_inputs = fq12_inputs + malformed
fe_inputs = fq12_inputs[:4] + fq12_inputs[7:13] + malformed

results_old, results_new = {}, {}

# exp_by_p: old first then new, then reversed order, interleaved with other calls
for i, x in enumerate(exp_inputs):
    ro = call(old.exp_by_p, (x,))
    rn = call(new.exp_by_p, (x,))
    ok(ro == rn, "exp_by_p differs on input %d: %r %r" % (i, ro[0], rn[0]))
    results_old[("exp", i)] = ro
    results_new[("exp", i)] = rn

for i, x in enumerate(fe_inputs):
    rn = call(new.final_exponentiate, (x,))
    ro = call(old.final_exponentiate, (x,))
    ok(ro == rn, "final_exponentiate differs on input %d: %r %r" % (i, ro, rn))
    results_old[("fe", i)] = ro
    results_new[("fe", i)] = rn

# Frobenius really is x -> x^p on a couple of values (sanity of the shared table)
for x in (fq12_inputs[13], pair_val):
    ok(new.exp_by_p(x) == x**p, "exp_by_p is not the Frobenius map")

# ---------------------------------------------------------------- pairings
G1, G2, Z1, Z2 = oc.G1, oc.G2, oc.Z1, oc.Z2
P2 = oc.multiply(G1, 2)
Q3 = oc.multiply(G2, 3)
Pproj = (G1[0] * FQ(5), G1[1] * FQ(5), G1[2] * FQ(5))  # another representative
Qproj = (G2[0] * FQ2([3, 4]), G2[1] * FQ2([3, 4]), G2[2] * FQ2([3, 4]))
bad_P = (G1[0], G1[1] + FQ(1), G1[2])
bad_Q = (G2[0], G2[1] + FQ2([1, 0]), G2[2])

pair_cases = [
    ((G2, G1), {}),
    ((G2, G1), {"final_exponentiate": False}),
    ((Q3, P2), {"final_exponentiate": True}),
    ((Qproj, Pproj), {}),
    ((Z2, G1), {}),
    ((G2, Z1), {}),
    ((Z2, Z1), {"final_exponentiate": False}),
    ((G2, bad_P), {}),
    ((bad_Q, G1), {}),
    ((G1, G2), {}),
    ((None, G1), {}),
    ((G2, None), {}),
]
for i, (a, kw) in enumerate(pair_cases):
    ro = call(old.pairing, a, kw)
    rn = call(new.pairing, a, kw)
    ok(ro == rn, "pairing differs on case %d: %r %r" % (i, ro[0], rn[0]))
    results_old[("pair", i)] = ro
    results_new[("pair", i)] = rn

ml_cases = [
    ((G2, G1), {"final_exponentiate": False}),
    ((None, G1), {}),
    ((G2, None), {"final_exponentiate": False}),
    ((None, None), {}),
]
for i, (a, kw) in enumerate(ml_cases):
    ro = call(old.miller_loop, a, kw)
    rn = call(new.miller_loop, a, kw)
    ok(ro == rn, "miller_loop differs on case %d" % i)

# final_exponentiate(product of unexponentiated pairings) == product of pairings
a = new.pairing(G2, P2, final_exponentiate=False)
ok(
    new.final_exponentiate(a) == old.pairing(G2, P2)
    and old.final_exponentiate(a) == new.pairing(G2, P2),
    "cross-version final exponentiation disagrees",
)

# ---------------------------------------------------------------- histories
# repeat every call in a shuffled order (different history); results must be
# those of the first round, in both versions.
keys = list(results_new)
rnd.shuffle(keys)
for k in keys[:30]:
    kind, i = k
    if kind == "exp":
        fn_o, fn_n, a, kw = old.exp_by_p, new.exp_by_p, (exp_inputs[i],), {}
    elif kind == "fe":
        if i % 3:
            continue
        fn_o, fn_n, a, kw = (
            old.final_exponentiate,
            new.final_exponentiate,
            (fe_inputs[i],),
            {},
        )
    else:
        if i in (0, 2, 3):
            continue  # the expensive ones were already repeated above
        fn_o, fn_n = old.pairing, new.pairing
        a, kw = pair_cases[i]
    ok(call(fn_n, a, kw) == results_new[k], "history dependence (new) %r" % (k,))
    ok(call(fn_o, a, kw) == results_old[k], "history dependence (old) %r" % (k,))
    # equal-but-not-identical argument
    a2 = copy.deepcopy(a)
    ok(call(fn_n, a2, kw) == results_new[k], "equal argument, new %r" % (k,))

# ---------------------------------------------------------------- BLS on top
sk1, sk2 = 42, 2**200 + 17
msg = b"C20 twin s1"
for suite in (G2Basic, G2ProofOfPossession):
    pk1, pk2 = suite.SkToPk(sk1), suite.SkToPk(sk2)
    s1_, s2_ = suite.Sign(sk1, msg), suite.Sign(sk2, msg + b"!")
    ok(suite.Verify(pk1, msg, s1_) is True, "verify")
    ok(suite.Verify(pk2, msg, s1_) is False, "verify wrong key")
    ok(suite.Verify(pk1, msg, b"\x00" * 96) is False, "verify malformed sig")
    agg = suite.Aggregate([s1_, s2_])
    ok(suite.AggregateVerify([pk1, pk2], [msg, msg + b"!"], agg) is True, "aggverify")
    ok(suite.AggregateVerify([], [], agg) is False, "aggverify empty")
    ok(suite.Verify(pk1, msg, s1_) is True, "verify again")
    ok(constants_snapshot() == BASE, "constants after BLS")

# ---------------------------------------------------------------- fresh process
# the same calls in another order in a freshly started interpreter, going
# through the new module's own path first.
child = r"""
import os, sys; sys.path.insert(0, os.getcwd())
import json
from py_ecc.optimized_bls12_381.optimized_final_exponentiation import (
    exp_by_p, final_exponentiate, exptable)
from py_ecc.fields import optimized_bls12_381_FQ12 as FQ12
from py_ecc.optimized_bls12_381 import optimized_pairing as op, G1, G2
assert op.exptable is exptable and op.final_exponentiate is final_exponentiate
x = FQ12(json.loads(sys.argv[1]))
r2 = final_exponentiate(x)
r1 = exp_by_p(x)
r3 = op.pairing(G2, G1)
print(json.dumps([[int(c) for c in r.coeffs] for r in (r1, r2, r3)]
      + [[[int(c) for c in e.coeffs] for e in exptable]]))
"""
x = fq12_inputs[13]
out = subprocess.run(
    [sys.executable, "-c", child, json.dumps([int(c) for c in x.coeffs])],
    capture_output=True,
    text=True,
    cwd=os.getcwd(),
    check=True,
)
r1, r2, r3, tab = json.loads(out.stdout)
ok(r1 == [int(c) for c in old.exp_by_p(x).coeffs], "fresh process exp_by_p")
ok(r2 == [int(c) for c in old.final_exponentiate(x).coeffs], "fresh process fe")
ok(r3 == [int(c) for c in old.pairing(G2, G1).coeffs], "fresh process pairing")
ok(tab == [[int(c) for c in e.coeffs] for e in old.exptable], "fresh exptable")

ok(constants_snapshot() == BASE, "constants at end")
print("s1 equivalence: %d checks passed" % checks)
