import os, sys; sys.path.insert(0, os.getcwd())  # noqa: E401,E702

# Equivalence demonstration for p2 (all four pairing modules):
#   * optimized_bn128 / optimized_bls12_381: the two on-curve checks of pairing() are
#     factored into check_pairing_arguments(Q, P); the infinity test is spelled with
#     optimized_curve.is_inf (P first, then Q, as before)
#   * bn128 / bls12_381: pairing() gets the explicit infinity short-circuit the optimized
#     modules have (after the on-curve checks), instead of relying on twist(None) /
#     cast_point_to_fq12(None) / miller_loop(None, ...) to produce FQ12.one()
# Each pristine file is loaded inside its package under another module name and driven
# with the same arguments as the edited one.
import importlib
import importlib.util
import random
import time

HERE = os.path.dirname(os.path.abspath(__file__))
T0 = time.time()
rng = random.Random(0x2C05)
n_checks = 0


def load_pristine(pkg, fname):
    name = f"py_ecc.{pkg}._pristine_{fname}"
    spec = importlib.util.spec_from_file_location(
        name, os.path.join(HERE, "pristine", f"{pkg}_{fname}.py")
    )
    mod = importlib.util.module_from_spec(spec)
    sys.modules[name] = mod
    spec.loader.exec_module(mod)
    return mod


def describe(v):
    if isinstance(v, tuple):
        return ("tuple",) + tuple(describe(e) for e in v)
    if hasattr(v, "coeffs"):
        return (
            type(v).__name__,
            tuple(int(c) for c in v.coeffs),
            tuple(type(c).__name__ for c in v.coeffs),
        )
    if hasattr(v, "n"):
        return (type(v).__name__, v.n)
    return (type(v).__name__, repr(v))


def outcome(f, *a, **k):
    try:
        return ("ok", describe(f(*a, **k)))
    except Exception as e:  # noqa: BLE001
        return ("exc", type(e).__name__, str(e) if isinstance(e, ValueError) else "")


def same(fo, fn, *a, **k):
    global n_checks
    before = describe(tuple(x for x in a if isinstance(x, tuple)))
    o, n = outcome(fo, *a, **k), outcome(fn, *a, **k)
    assert o == n, (fo.__module__, a, k, o, n)
    assert describe(tuple(x for x in a if isinstance(x, tuple))) == before
    n_checks += 1
    return n


def is_value_error(res):
    return res[0] == "exc" and res[1] == "ValueError"


# ------------------------------------------------------------------ optimized modules
def run_optimized(pkg):
    lib = importlib.import_module(f"py_ecc.{pkg}")
    oc = importlib.import_module(f"py_ecc.{pkg}.optimized_curve")
    new = importlib.import_module(f"py_ecc.{pkg}.optimized_pairing")
    old = load_pristine(pkg, "optimized_pairing")
    assert hasattr(new, "check_pairing_arguments"), "edit not applied?"
    assert not hasattr(old, "check_pairing_arguments") and old is not new
    assert lib.pairing is new.pairing
    FQ, FQ2, FQ12 = lib.FQ, lib.FQ2, lib.FQ12
    G1, G2, Z1, Z2 = oc.G1, oc.G2, oc.Z1, oc.Z2
    p, r = oc.field_modulus, oc.curve_order
    one = ("ok", describe(FQ12.one()))
    mul, add = oc.multiply, oc.add
    full = [rng.randrange(1, r) for _ in range(3)]

    def scale(pt, k):
        return tuple(c * k for c in pt)

    k1 = FQ(rng.randrange(1, p))
    k2 = FQ2([rng.randrange(p), rng.randrange(1, p)])
    valid = [
        (G2, G1),
        (mul(G2, 2), mul(G1, r - 1)),
        (mul(G2, full[0]), mul(G1, full[1])),
        (scale(mul(G2, r - 1), k2), scale(mul(G1, 2), k1)),
        (add(mul(G2, 3), mul(G2, full[2])), add(G1, mul(G1, full[0]))),
        (oc.normalize(mul(G2, 7)) + (FQ2.one(),), mul(G1, 7)),
    ]
    for i, (Q, P) in enumerate(valid):
        if i in (0, 2):
            assert same(old.pairing, new.pairing, Q, P)[0] == "ok"
        assert same(old.pairing, new.pairing, Q, P, final_exponentiate=False)[0] == "ok"
        assert same(old.pairing, new.pairing, Q, P, False)[0] == "ok"
        assert new.check_pairing_arguments(Q, P) is None

    infs1 = [Z1, (FQ(0), FQ(0), FQ(0)), (FQ(5), FQ(9), FQ(0)), mul(G1, 0), mul(G1, r),
             (G1[0], G1[1], FQ.zero()), add(G1, oc.neg(G1))]
    infs2 = [Z2, (FQ2.zero(), FQ2.zero(), FQ2.zero()), mul(G2, 0), mul(G2, r),
             (G2[0], G2[1], FQ2.zero()), add(G2, oc.neg(G2))]
    for z in infs1:
        for Q in (G2, mul(G2, full[0]), Z2, infs2[1]):
            for fe in (True, False):
                assert same(old.pairing, new.pairing, Q, z, final_exponentiate=fe) == one
    for z in infs2:
        for P in (G1, mul(G1, full[1]), Z1):
            for fe in (True, False):
                assert same(old.pairing, new.pairing, z, P, final_exponentiate=fe) == one

    offP = [(FQ(1), FQ(3), FQ(1)), (FQ(0), FQ(1), FQ(1)), (G1[0], G1[1], FQ(2)),
            (G1[1], G1[0], FQ(1)), scale((G1[0], G1[1] + FQ(1), G1[2]), k1)]
    offQ = [(G2[0], G2[1] + FQ2.one(), FQ2.one()), (G2[1], G2[0], FQ2.one()),
            (G2[0], G2[1], FQ2([2, 0])), (FQ2([1, 1]), FQ2([2, 3]), FQ2([1, 0]))]
    for P in offP:
        assert not oc.is_on_curve(P, oc.b)
        for Q in (G2, Z2, mul(G2, full[2])) + tuple(offQ[:2]):
            for kw in ({}, {"final_exponentiate": False}):
                assert is_value_error(same(old.pairing, new.pairing, Q, P, **kw))
        res = outcome(new.check_pairing_arguments, G2, P)
        assert is_value_error(res) and "point P" in res[2]
    for Q in offQ:
        assert not oc.is_on_curve(Q, oc.b2)
        for P in (G1, Z1, mul(G1, full[0]), offP[0]):
            res = same(old.pairing, new.pairing, Q, P)
            assert is_value_error(res) and "point Q" in res[2]
        res = outcome(new.check_pairing_arguments, Q, G1)
        assert is_value_error(res) and "point Q" in res[2]
    # malformed / swapped / wrong-type arguments: same exception class
    bad = [(G1, G2), (G2, G2), (G1, G1), (None, G1), (G2, None), (None, None),
           (G2[:2], G1), (G2, G1[:2]), ((), G1), (G2, ()), (G2, "abc"), (5, 6),
           (G2, (1, 2, 3)), (Z2, (1, 2, 0)), ([G2[0], G2[1], G2[2]], list(G1)),
           (G2, (G1[0], G1[1], 0)), ((G2[0], G2[1], 0), G1), (Z1, Z2), (G2, Z2)]
    for Q, P in bad:
        same(old.pairing, new.pairing, Q, P, final_exponentiate=False)
    # untouched siblings still agree
    same(old.miller_loop, new.miller_loop, None, None)
    x = FQ12([rng.randrange(p) for _ in range(12)])
    if pkg == "optimized_bls12_381":
        same(old.final_exponentiate, new.final_exponentiate, x)
    # history: interleave equal and different arguments
    hist = [valid[0], (Z2, G1), valid[3], (offQ[0], G1), valid[0], (G2, Z1),
            (G2, offP[0]), valid[3], valid[0]]
    first = {}
    for Q, P in hist:
        got = same(old.pairing, new.pairing, Q, P, final_exponentiate=False)
        assert first.setdefault(describe((Q, P)), got) == got
    # the property on the edited module
    e = new.pairing(G2, G1)
    assert e != FQ12.one() and e**r == FQ12.one()
    assert new.pairing(mul(G2, 2), mul(G1, 3)) == e**6
    assert new.pairing(G2, oc.neg(G1)) * e == FQ12.one()


# -------------------------------------------------------------------- affine modules
def run_affine(pkg, n_full):
    lib = importlib.import_module(f"py_ecc.{pkg}")
    cv = importlib.import_module(f"py_ecc.{pkg}.{pkg}_curve")
    new = importlib.import_module(f"py_ecc.{pkg}.{pkg}_pairing")
    old = load_pristine(pkg, f"{pkg}_pairing")
    assert hasattr(new, "is_inf") and not hasattr(old, "is_inf"), "edit not applied?"
    assert lib.pairing is new.pairing and old is not new
    FQ, FQ2, FQ12 = lib.FQ, lib.FQ2, lib.FQ12
    G1, G2 = cv.G1, cv.G2
    r = cv.curve_order
    one = ("ok", describe(FQ12.one()))
    mul, add = cv.multiply, cv.add
    full = [rng.randrange(1, r) for _ in range(3)]
    valid = [(G2, G1), (mul(G2, r - 1), mul(G1, full[0]))][:n_full]
    first_res = [same(old.pairing, new.pairing, Q, P) for Q, P in valid]
    assert all(x[0] == "ok" and x != one for x in first_res)

    infs1 = [None, cv.Z1, mul(G1, 0), mul(G1, r), add(G1, cv.neg(G1))]
    infs2 = [None, cv.Z2, mul(G2, 0), mul(G2, r), add(G2, cv.neg(G2))]
    assert all(z is None for z in infs1 + infs2)
    for z in infs1:
        for Q in (G2, mul(G2, 2), mul(G2, full[1]), None):
            assert same(old.pairing, new.pairing, Q, z) == one
    for z in infs2:
        for P in (G1, mul(G1, 2), mul(G1, full[2]), None):
            assert same(old.pairing, new.pairing, z, P) == one
    # keyword spelling of the arguments
    assert same(old.pairing, new.pairing, Q=None, P=G1) == one
    assert same(old.pairing, new.pairing, P=None, Q=G2) == one

    offP = [(FQ(1), FQ(3)), (FQ(0), FQ(1)), (G1[1], G1[0]), (G1[0], G1[1] + FQ(1))]
    offQ = [(G2[0], G2[1] + FQ2.one()), (G2[1], G2[0]), (FQ2([1, 1]), FQ2([2, 3]))]
    for P in offP:
        assert not cv.is_on_curve(P, cv.b)
        for Q in (G2, None, mul(G2, full[0])) + tuple(offQ[:1]):
            res = same(old.pairing, new.pairing, Q, P)
            assert is_value_error(res)
            if Q is None or Q is G2:
                assert "point P" in res[2]
    for Q in offQ:
        assert not cv.is_on_curve(Q, cv.b2)
        for P in (G1, None, mul(G1, full[1]), offP[0]):
            res = same(old.pairing, new.pairing, Q, P)
            assert is_value_error(res) and "point Q" in res[2]
    bad = [(G1, G2), (G2, G2), (G1, G1), (G2[:1], G1), (G2, G1[:1]), ((), G1),
           (G2, ()), (G2, "ab"), (5, 6), (G2, (1, 2)), (None, (1, 2)), (None, "ab"),
           ((G2[0], G2[1], FQ2.one()), G1), (G2, (G1[0], G1[1], FQ(1))), (False, G1),
           (G2, False), (0, None), (None, 0), ([], None)]
    for Q, P in bad:
        same(old.pairing, new.pairing, Q, P)
    # list spelling of a valid point together with infinity (no Miller loop needed)
    assert same(old.pairing, new.pairing, [G2[0], G2[1]], None) == one
    assert same(old.pairing, new.pairing, None, [G1[0], G1[1]]) == one
    # untouched siblings
    same(old.miller_loop, new.miller_loop, None, None)
    same(old.miller_loop, new.miller_loop, cv.twist(G2), None)
    same(old.miller_loop, new.miller_loop, None, new.cast_point_to_fq12(G1))
    # history: cheap calls interleaved around a repeated real pairing
    hist = [(None, G1), (offQ[0], G1), (G2, None), (G2, offP[0]), (None, None),
            (None, G1), (G2, None)]
    first = {}
    for Q, P in hist:
        got = same(old.pairing, new.pairing, Q, P)
        assert first.setdefault(describe((Q, P)), got) == got
    if valid and pkg == "bn128":
        # edited module again after the interleaving: equal to the first result
        assert outcome(new.pairing, *valid[0]) == first_res[0]


run_optimized("optimized_bn128")
run_optimized("optimized_bls12_381")
run_affine("bn128", 1)
run_affine("bls12_381", 1)
print(f"p2 equivalent: {n_checks} comparisons, {time.time() - T0:.1f}s")
