import os, sys; sys.path.insert(0, os.getcwd())

"""
Equivalence demonstration for a behaviour-preserving edit of
py_ecc/secp256k1/secp256k1.py (property C18).

Loads the pristine copy of the module (saved next to this script) under a
different module name and the edited module from the current working
directory, and compares results / exception classes on a broad set of inputs:
the real secp256k1 constants, Jacobian-level calls with arbitrary projective
representatives, malformed operands, repeated / interleaved call sequences and
the same code with its constants replaced by small prime-order curves
(exhaustive over all pairs and a wide scalar range).
"""

import importlib.util
import random

HERE = os.path.dirname(os.path.abspath(__file__))

spec = importlib.util.spec_from_file_location(
    "pristine_secp256k1", os.path.join(HERE, "pristine", "secp256k1.py")
)
old = importlib.util.module_from_spec(spec)
spec.loader.exec_module(old)

from py_ecc.secp256k1 import secp256k1 as new  # noqa: E402

assert os.path.abspath(new.__file__).startswith(os.getcwd()), new.__file__
assert os.path.abspath(old.__file__) != os.path.abspath(new.__file__)

rng = random.Random(0xC18)
checks = 0


def outcome(fn, *args):
    try:
        r = fn(*args)
    except RecursionError:
        raise
    except BaseException as e:  # noqa: B902
        return ("exc", type(e))
    return ("ok", r, deep_types(r))


def deep_types(r):
    if isinstance(r, tuple):
        return (tuple,) + tuple(deep_types(x) for x in r)
    return type(r)


def same(name, *args):
    """Call old.<name> and new.<name> on equal arguments; compare outcomes."""
    global checks
    a = outcome(getattr(old, name), *args)
    b = outcome(getattr(new, name), *args)
    if a != b and not (_both_nan_result(a, b)):
        raise AssertionError(f"{name}{args!r}: pristine {a!r} != edited {b!r}")
    # identity of pass-through results (functions that return an operand itself)
    if a[0] == "ok":
        ra = getattr(old, name)(*args)
        rb = getattr(new, name)(*args)
        for arg in args:
            if (ra is arg) != (rb is arg):
                raise AssertionError(f"{name}{args!r}: operand pass-through differs")
    checks += 1
    return a


def _both_nan_result(a, b):
    return False


# ---------------------------------------------------------------------------
# 0. constants untouched
# ---------------------------------------------------------------------------
for c in ("P", "N", "A", "B", "Gx", "Gy", "G"):
    assert getattr(old, c) == getattr(new, c), c
    assert type(getattr(old, c)) is type(getattr(new, c)), c
CONST_SNAPSHOT = {c: getattr(new, c) for c in ("P", "N", "A", "B", "Gx", "Gy", "G")}

P, N, G = old.P, old.N, old.G


# ---------------------------------------------------------------------------
# textbook affine group law (independent reference, identity = (0, 0))
# ---------------------------------------------------------------------------
def ref_add(p1, p2, prime, a):
    if p1 == (0, 0):
        return p2
    if p2 == (0, 0):
        return p1
    x1, y1 = p1
    x2, y2 = p2
    if x1 == x2:
        if (y1 + y2) % prime == 0:
            return (0, 0)
        lam = (3 * x1 * x1 + a) * pow(2 * y1, -1, prime) % prime
    else:
        lam = (y2 - y1) * pow(x2 - x1, -1, prime) % prime
    x3 = (lam * lam - x1 - x2) % prime
    return (x3, (lam * (x1 - x3) - y1) % prime)


def ref_mul(p1, n, prime, a, order):
    n %= order
    acc = (0, 0)
    addend = p1
    while n:
        if n & 1:
            acc = ref_add(acc, addend, prime, a)
        addend = ref_add(addend, addend, prime, a)
        n >>= 1
    return acc


# ---------------------------------------------------------------------------
# 1. real curve: affine API
# ---------------------------------------------------------------------------
ks = [1, 2, 3, 4, 5, 7, 8, 15, 16, 17, N - 1, N - 2, (N - 1) // 2, (N + 1) // 2]
ks += [rng.randrange(1, N) for _ in range(6)]
pts = [old.multiply(G, k) for k in ks]
neg = lambda pt: (pt[0], (P - pt[1]) % P)  # noqa: E731
ID = (0, 0)

scalars = [0, 1, 2, 3, 4, 5, 6, 7, 8, 9, 255, 256, 257, 2**128, 2**255, 2**256 - 1,
           N - 2, N - 1, N, N + 1, N + 2, 2 * N, 2 * N + 5, 3 * N - 1, 17 * N,
           -1, -2, -3, -N, -N - 1, -N + 1, -2 * N - 7, True, False]
scalars += [rng.getrandbits(b) for b in (8, 31, 64, 129, 255, 256, 257, 300, 511, 512)]
scalars += [-rng.getrandbits(b) for b in (8, 64, 256, 400, 512)]

for pt in pts[:8] + [ID]:
    for n in scalars:
        r = same("multiply", pt, n)
        assert r[0] == "ok"
for pt in pts[8:]:
    for n in scalars[::4]:
        same("multiply", pt, n)

all_pts = pts + [neg(x) for x in pts[:8]] + [ID]
for p1 in all_pts:
    for p2 in all_pts:
        r = same("add", p1, p2)
        assert r[0] == "ok"
# textbook sanity on a sample (both versions agree with each other already)
for p1 in all_pts[:6] + [ID]:
    for p2 in all_pts[:6] + [neg(all_pts[0]), ID]:
        assert new.add(p1, p2) == ref_add(p1, p2, P, 0), (p1, p2)
for n in [0, 1, 2, N - 1, N, N + 1, 2 * N + 9, -1, -12345, rng.getrandbits(512)]:
    assert new.multiply(G, n) == ref_mul(G, n, P, 0, N), n

# privtopub
privs = [b"", b"\x00", b"\x01", b"\x02", b"\x00" * 32, b"\x00" * 31 + b"\x01",
         b"\xff" * 32, N.to_bytes(32, "big"), (N - 1).to_bytes(32, "big"),
         (N + 1).to_bytes(32, "big"), b"\xff" * 64, bytearray(b"\x05\x06"),
         "ab", [1, 2, 3], None, 5, (b"a", b"b")]
privs += [rng.getrandbits(256).to_bytes(32, "big") for _ in range(8)]
for d in privs:
    same("privtopub", d)

# ---------------------------------------------------------------------------
# 2. real curve: Jacobian API with arbitrary representatives
# ---------------------------------------------------------------------------
def rep(pt, z, unreduced=0):
    """Jacobian representative (x z^2, y z^3, z) of an affine point."""
    x, y = pt
    return ((x * z * z) % P + unreduced * P, (y * z * z * z) % P - unreduced * P, z)


zs = [1, 2, 3, P - 1, P - 2, rng.randrange(2, P), rng.randrange(2, P)]
jac = []
for pt in pts[:6] + [neg(pts[0]), neg(pts[3])]:
    for z in zs[:4] + [rng.randrange(2, P)]:
        jac.append(rep(pt, z))
    jac.append(rep(pt, rng.randrange(2, P), unreduced=3))
    jac.append(rep(pt, P + 5))            # z not reduced
    jac.append(rep(pt, -7))               # negative z
identities = [(0, 0, 0), (0, 0, 1), (1, 0, 0), (5, 0, 3), (0, 0, P), (7, 0, 1), (0, False, 1)]
odd = [(1, 1, 0), (3, 4, 0), (0, 5, 1), (1, 2, 3), (P, P, P), (P + 1, P + 2, 1), (-1, -2, -3),
       (old.Gx, old.Gy, 0)]
jall = jac + identities + odd

for p1 in jall:
    same("jacobian_double", p1)
    same("from_jacobian", p1)
for p1 in jall:
    for p2 in jall[::3] + identities:
        same("jacobian_add", p1, p2)
        same("jacobian_add", p2, p1)
# same point, different representatives (doubling branch) and inverse pairs
for pt in pts[:6]:
    for z1 in zs[:3]:
        for z2 in zs[2:6]:
            same("jacobian_add", rep(pt, z1), rep(pt, z2))
            same("jacobian_add", rep(pt, z1), rep(neg(pt), z2))
jscalars = scalars[:34:2] + [rng.getrandbits(256), rng.getrandbits(512), -rng.getrandbits(300)]
for p1 in jac[::5] + identities + odd:
    for n in jscalars:
        same("jacobian_multiply", p1, n)

for pt in all_pts:
    same("to_jacobian", pt)
for a in [0, 1, 2, -1, P - 1, P, P + 1, 2 * P, -P, rng.randrange(P), rng.getrandbits(300)]:
    for m in (P, N, 7, 1):
        same("inv", a, m)

# 2b. arbitrary integer triples (not on the curve, unreduced, negative, huge):
# the edit only re-associates exact integer products, so these must agree too
def rnd_int():
    b = rng.choice([1, 2, 8, 64, 255, 256, 257, 600])
    v = rng.getrandbits(b)
    return -v if rng.random() < 0.3 else v


triples = [(rnd_int(), rnd_int(), rnd_int()) for _ in range(400)]
triples += [(x, y, 0) for (x, y, _) in triples[:40]] + [(x, 0, z) for (x, _, z) in triples[:40]]
triples += [(True, True, True), (False, True, True), (2, True, False)]
for i, t in enumerate(triples):
    same("jacobian_double", t)
    same("from_jacobian", t)
    same("jacobian_add", t, triples[(7 * i + 3) % len(triples)])
    same("jacobian_add", t, t)
    same("jacobian_add", t, (t[0] + P, t[1] - P, t[2] + 2 * P))
    if i % 8 == 0:
        same("jacobian_multiply", t, rnd_int())

# ---------------------------------------------------------------------------
# 3. malformed operands: exception classes must match
# ---------------------------------------------------------------------------
bad_pts = [(), (1,), (1, 2), (1, 0), (0, 0), (1, 2, 3, 4), None, 5, "abc", [1, 2, 3],
           (None, None, None), (1, None, 1), (1, 2, None), ("a", "b", "c"), (1.5, 2.5, 1),
           (1, 2, 1.0), (1, "y", 1), {0: 1, 1: 2, 2: 3}, b"\x01\x02\x03", (1, 2, 0.0)]
good = jac[0]
for bp in bad_pts:
    same("jacobian_double", bp)
    same("from_jacobian", bp)
    same("to_jacobian", bp)
    same("jacobian_add", bp, good)
    same("jacobian_add", good, bp)
    same("jacobian_add", bp, bp)
    for n in (0, 1, 2, 3, 5, N, -1, N + 2):
        same("jacobian_multiply", bp, n)
    same("multiply", bp, 3)
    same("multiply", bp, 0)
    same("add", bp, G)
    same("add", G, bp)
bad_ns = [None, "3", b"\x03", 2.0, 3.0, 4.0, 5.0, 1.0, 0.0, 2.5, 0.5, 1.5, 5.5, 9.2, -2.5, -1.0,
          float(2**70), float("inf"), float("-inf"), float("nan"), 1e300, [3], (3,), 3 + 0j, 2 + 0j,
          1 + 0j, 0j]
import fractions, decimal  # noqa: E401,E402
bad_ns += [fractions.Fraction(5), fractions.Fraction(6), fractions.Fraction(5, 2),
           fractions.Fraction(-7, 3), decimal.Decimal(6), decimal.Decimal("2.5")]
small_pt = (3, 4, 1)  # keeps float arithmetic finite: results still compared exactly
for n in bad_ns:
    for p1 in (good, small_pt, (0, 0, 1), (2, 0, 5)):
        a = outcome(old.jacobian_multiply, p1, n)
        b = outcome(new.jacobian_multiply, p1, n)
        assert repr(a) == repr(b), (p1, n, a, b)   # repr: nan-safe comparison
        checks += 1
    a = outcome(old.multiply, G, n)
    b = outcome(new.multiply, G, n)
    assert repr(a) == repr(b), (n, a, b)
    checks += 1

# ---------------------------------------------------------------------------
# 4. call histories: repeat / interleave, results must not depend on history
# ---------------------------------------------------------------------------
first = {}
calls = []
for _ in range(120):
    kind = rng.choice(["mul", "add", "priv", "jmul", "jadd"])
    if kind == "mul":
        calls.append(("multiply", (rng.choice(all_pts), rng.choice(scalars))))
    elif kind == "add":
        calls.append(("add", (rng.choice(all_pts), rng.choice(all_pts))))
    elif kind == "priv":
        calls.append(("privtopub", (rng.choice(privs[:1] + privs[2:11] + privs[-8:]),)))
    elif kind == "jmul":
        calls.append(("jacobian_multiply", (rng.choice(jall), rng.choice(jscalars))))
    else:
        calls.append(("jacobian_add", (rng.choice(jall), rng.choice(jall))))
calls = calls + calls[::-1] + calls[::2]
for name, args in calls:
    key = (name, repr(args))
    r = same(name, *args)
    if key in first:
        assert first[key] == r, ("history dependence", name, args)
    first[key] = r
    # arguments are immutable tuples/bytes: make sure nothing rebinds constants
for c, v in CONST_SNAPSHOT.items():
    assert getattr(new, c) == v and getattr(old, c) == v, c

# ---------------------------------------------------------------------------
# 5. small prime-order curves: replace the constants in BOTH modules
# ---------------------------------------------------------------------------
def curve_points(prime, a, b):
    sq = {}
    for y in range(prime):
        sq.setdefault(y * y % prime, []).append(y)
    out = []
    for x in range(prime):
        for y in sq.get((x * x * x + a * x + b) % prime, []):
            out.append((x, y))
    return out


def is_prime(n):
    return n > 1 and all(n % d for d in range(2, int(n**0.5) + 1))


small = []
for prime in (11, 13, 17, 19, 23, 29, 31, 37, 43, 61, 67, 97, 101):
    found = 0
    for a in (0, 1, 2, 3, prime - 3):
        for b in range(1, prime):
            if (4 * a**3 + 27 * b * b) % prime == 0:
                continue
            cp = curve_points(prime, a, b)
            order = len(cp) + 1
            if is_prime(order) and order > 3 and (0, 0) not in cp:
                small.append((prime, a, b, order, cp))
                found += 1
                break
        if found >= 3:
            break
assert len(small) >= 12, len(small)

saved = {m: {c: getattr(m, c) for c in ("P", "N", "A", "B", "G", "Gx", "Gy")} for m in (old, new)}
try:
    for prime, a, b, order, cp in small:
        g = cp[len(cp) // 2]
        for m in (old, new):
            m.P, m.N, m.A, m.B, m.G, m.Gx, m.Gy = prime, order, a, b, g, g[0], g[1]
        every = cp + [(0, 0)]
        exhaustive = prime <= 43
        pairs = every if exhaustive else every[::3] + [(0, 0)]
        for p1 in pairs:
            for p2 in every:
                r = same("add", p1, p2)
                assert r[1] == ref_add(p1, p2, prime, a), (prime, a, b, p1, p2, r)
        ns = list(range(-2 * order - 3, 3 * order + 4)) + [rng.getrandbits(64), -rng.getrandbits(70), 2**512 - 1]
        for p1 in pairs:
            for n in (ns if exhaustive else ns[::5]):
                r = same("multiply", p1, n)
                assert r[1] == ref_mul(p1, n, prime, a, order), (prime, a, b, p1, n, r)
        # Jacobian level with every representative scale on the tiny curves
        if prime <= 19:
            reps = [((x * z * z) % prime, (y * z * z * z) % prime, z) for (x, y) in cp for z in range(1, prime)]
            reps += [(0, 0, 0), (0, 0, 1), (1, 0, 0), (2, 0, 3)]
            sub = reps[::7] + reps[-4:]
            for p1 in reps:
                same("jacobian_double", p1)
                same("from_jacobian", p1)
                for p2 in sub:
                    same("jacobian_add", p1, p2)
                    same("jacobian_add", p2, p1)
            for p1 in sub:
                for n in range(-order - 2, 2 * order + 3):
                    same("jacobian_multiply", p1, n)
        for d in range(0, 2 * order + 2):
            r = same("privtopub", d.to_bytes(2, "big"))
            assert r[1] == ref_mul(g, d, prime, a, order)
finally:
    for m in (old, new):
        for c, v in saved[m].items():
            setattr(m, c, v)

# after restoring: real-curve results unchanged (no hidden state captured)
for n in (0, 1, 2, N - 1, N, N + 1, -5, rng.getrandbits(512)):
    r = same("multiply", G, n)
    assert r[1] == ref_mul(G, n, P, 0, N)
for c, v in CONST_SNAPSHOT.items():
    assert getattr(new, c) == v and getattr(old, c) == v, c

print(f"OK: {checks} comparisons, pristine and edited module agree")
sys.exit(0)
