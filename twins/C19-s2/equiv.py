import os, sys; sys.path.insert(0, os.getcwd())  # noqa: E702

# Equivalence demonstration for C19 / s2 (curve constants of py_ecc.secp256k1.secp256k1
# re-written as grouped hex literals with import-time asserts; (P + 1) // 4 and the
# recovery-id literals 27 / (27, 28) given private module-level names).
#
# Loads the pristine secp256k1.py under another module name and compares it with the
# edited package that is importable from the current directory.

import importlib
import importlib.util
import random
import types

HERE = os.path.dirname(os.path.abspath(__file__))


def load_pristine():
    path = os.path.join(HERE, "pristine", "secp256k1.py")
    spec = importlib.util.spec_from_file_location("pristine_secp256k1", path)
    mod = importlib.util.module_from_spec(spec)
    sys.modules["pristine_secp256k1"] = mod
    spec.loader.exec_module(mod)
    return mod


old = load_pristine()
new = importlib.import_module("py_ecc.secp256k1.secp256k1")
pkg = importlib.import_module("py_ecc.secp256k1")
assert os.path.abspath(new.__file__).startswith(os.getcwd()), new.__file__
assert os.path.abspath(old.__file__).startswith(HERE), old.__file__

checks = 0


def outcome(f, *args):
    """Return ('ok', type, value) or ('exc', exception class name)."""
    try:
        res = f(*args)
    except RecursionError:
        return ("exc", "RecursionError")
    except Exception as e:  # noqa: BLE001
        return ("exc", type(e).__name__)
    return ("ok", deep_types(res), res)


def deep_types(v):
    if isinstance(v, (tuple, list)):
        return (type(v).__name__, tuple(deep_types(e) for e in v))
    return type(v).__name__


def same(name, *args):
    global checks
    a = outcome(getattr(old, name), *args)
    b = outcome(getattr(new, name), *args)
    assert a == b, (name, args, a, b)
    checks += 1
    return a


# ---------------------------------------------------------------------------
# 1. module surface: same public names, same values and types of constants
# ---------------------------------------------------------------------------
def public(mod):
    return {
        k
        for k, v in vars(mod).items()
        if not k.startswith("_")  # the edit adds private names only
        and not isinstance(v, types.ModuleType)
        # names merely imported from ``typing`` for annotations are not API
        and k not in ("Any", "Tuple", "cast", "TYPE_CHECKING")
    }


assert public(old) == public(new), public(old) ^ public(new)
for k in sorted(public(old)):
    vo, vn = getattr(old, k), getattr(new, k)
    if callable(vo) or k in ("TYPE_CHECKING",):
        assert callable(vn) == callable(vo), k
        continue
    assert type(vo) is type(vn) and vo == vn, (k, vo, vn)
    assert deep_types(vo) == deep_types(vn), k
    checks += 1

for k in ("P", "N", "A", "B", "Gx", "Gy", "G"):
    assert type(getattr(new, k)) is type(getattr(old, k))
    assert getattr(new, k) == getattr(old, k)
for k in ("G", "N", "P", "ecdsa_raw_recover", "ecdsa_raw_sign", "privtopub"):
    # the package keeps re-exporting the very objects of the submodule
    assert getattr(pkg, k) is getattr(new, k), k

# s2-specific: the re-written constants are plain ints with identical values / reprs
for k in ("P", "N", "A", "B", "Gx", "Gy"):
    assert type(getattr(new, k)) is int and type(getattr(old, k)) is int, k
    assert repr(getattr(new, k)) == repr(getattr(old, k)), k
    assert hash(getattr(new, k)) == hash(getattr(old, k)), k
assert type(new.G) is tuple and repr(new.G) == repr(old.G)
assert new.P == 2**256 - 2**32 - 977
assert type(new._SQRT_EXPONENT) is int and new._SQRT_EXPONENT == (old.P + 1) // 4
assert type(new._V_OFFSET) is int and new._V_OFFSET == 27
assert type(new._VALID_V) is tuple and new._VALID_V == (27, 28)
assert [type(e) for e in new._VALID_V] == [int, int]
for v in (0, 1, 26, 27, 28, 29, 35, 36, 27.0, 28.0, True, 27 + 0j, "27", None, -27):
    assert (v in new._VALID_V) == (v in (27, 28)), v

P, N, G = old.P, old.N, old.G
rng = random.Random(0xC19)


def snapshot(mod):
    return {k: getattr(mod, k) for k in ("P", "N", "A", "B", "Gx", "Gy", "G")}


snap_old, snap_new = snapshot(old), snapshot(new)

# ---------------------------------------------------------------------------
# 2. helpers used by the anchor code
# ---------------------------------------------------------------------------
for a in [0, 1, 2, -1, -N, N - 1, N, N + 1, P - 1, P, P + 1, 2 * N, 3 * N + 5] + [
    rng.randrange(0, 2**260) for _ in range(200)
]:
    for n in (N, P, 1, 2, 7):
        same("inv", a, n)
same("inv", 5, 0)  # ZeroDivisionError in both
same("inv", "x", N)  # TypeError in both
same("inv", None, N)

for x in [
    b"",
    b"\x00",
    b"\x00" * 32,
    b"\xff" * 32,
    b"\x01" * 33,
    bytearray(b"\x12\x34"),
    "abc",
    "",
    [1, 2, 300],
    ["a", 5],
    (0,),
    None,
    5,
    [b"ab"],
    [1.5],
]:
    same("bytes_to_int", x)
for x in [0, 5, -3, "a", b"a", "", "ab", b"", None, 1.5, True]:
    same("safe_ord", x)

pts = [G, (0, 0), (G[0], P - G[1])]
for k in (2, 3, 5, N - 1, rng.randrange(1, N)):
    pts.append(old.multiply(G, k))
for p in pts:
    same("to_jacobian", p)
    same("jacobian_double", old.to_jacobian(p))
    for n in (0, 1, 2, 3, N - 1, N, N + 1, -1, -5, 2 * N + 3, rng.randrange(0, 2**300)):
        same("multiply", p, n)
        same("jacobian_multiply", old.to_jacobian(p), n)
    for q in pts:
        same("add", p, q)
        same("jacobian_add", old.to_jacobian(p), old.to_jacobian(q))
for j in [(0, 0, 0), (0, 0, 1), (1, 0, 5), (G[0], G[1], 1), (5, 7, 0)]:
    same("from_jacobian", j)
    same("jacobian_double", j)

# ---------------------------------------------------------------------------
# 3. signing side (shares bytes_to_int / inv / constants)
# ---------------------------------------------------------------------------
privs = [
    (1).to_bytes(32, "big"),
    (N - 1).to_bytes(32, "big"),
    N.to_bytes(32, "big"),
    b"\x00" * 32,
    bytes(rng.randrange(256) for _ in range(32)),
    bytes(rng.randrange(256) for _ in range(32)),
    b"\x07",
]
hashes = [
    b"\x00" * 32,
    b"\xff" * 32,
    N.to_bytes(32, "big"),
    (N - 1).to_bytes(32, "big"),
    (N + 1).to_bytes(32, "big"),
    b"\x35" * 32,
    bytes(rng.randrange(256) for _ in range(32)),
    bytes(rng.randrange(256) for _ in range(32)),
    b"",
    b"\x01",
    b"\xab" * 33,
]
signed = []
for priv in privs:
    same("privtopub", priv)
    for h in hashes:
        same("deterministic_generate_k", h, priv)
        o = same("ecdsa_raw_sign", h, priv)
        if o[0] == "ok":
            signed.append((h, priv, o[2]))
same("ecdsa_raw_sign", "notbytes", privs[0])
same("ecdsa_raw_sign", hashes[0], "notbytes")
same("privtopub", None)

# sign -> recover round trip is identical and correct in both
for h, priv, vrs in signed:
    o = same("ecdsa_raw_recover", h, vrs)
    if o[0] == "ok" and old.bytes_to_int(priv) % N != 0:
        assert o[2] == old.privtopub(priv)
    v, r, s = vrs
    # high-s twin with flipped parity recovers the same key in both versions
    same("ecdsa_raw_recover", h, (55 - v, r, N - s))
    same("ecdsa_raw_recover", h, (v, r, N - s))
    same("ecdsa_raw_recover", h, (55 - v, r, s))


# ---------------------------------------------------------------------------
# 4. the property grid for ecdsa_raw_recover
# ---------------------------------------------------------------------------
def is_x(x):
    c = (x**3 + 7) % P
    return c == 0 or pow(c, (P - 1) // 2, P) == 1


valid_x, invalid_x = [], []
x = 2
while len(valid_x) < 3 or len(invalid_x) < 3:
    (valid_x if is_x(x) else invalid_x).append(x)
    x += 1
while len(valid_x) < 6 or len(invalid_x) < 6:
    x = rng.randrange(0, P)
    (valid_x if is_x(x) else invalid_x).append(x)
valid_x, invalid_x = valid_x[:6], invalid_x[:6]

r_list = [0, 1, N - 1, N, N + 1, P - 1, G[0]] + valid_x + invalid_x
r_list += [rng.randrange(0, P) for _ in range(4)]
s_list = [0, 1, (N - 1) // 2, (N + 1) // 2, N - 1, N, N + 1, 2 * N, 2 * N + 3]
s_list += [rng.randrange(1, N) for _ in range(3)]
v_list = [0, 1, 26, 27, 28, 29, 35, 36]
grid_hashes = [hashes[0], hashes[1], hashes[2], hashes[5], hashes[6], hashes[8], hashes[10]]


def check_property(h, v, r, s, o):
    """The C19 statement itself, evaluated with the pristine arithmetic."""
    bad = (
        v not in (27, 28)
        or r % N == 0
        or s % N == 0
        or not is_x(r)
    )
    if bad:
        assert o == ("exc", "ValueError"), (h, v, r, s, o)
        return
    assert o[0] == "ok", (h, v, r, s, o)
    Q = o[2]
    c = (r**3 + 7) % P
    y = pow(c, (P + 1) // 4, P)
    if y % 2 != (v - 27):
        y = P - y
    assert (y * y - c) % P == 0 and y % 2 == v - 27
    z = old.bytes_to_int(h)
    rhs = old.add(old.multiply((r, y), s), old.multiply(G, (N - z) % N))
    if Q == (0, 0):
        assert rhs == (0, 0), (h, v, r, s)
    else:
        assert old.multiply(Q, r % N) == rhs, (h, v, r, s)


nres = {"ok": 0, "exc": 0}
for h in grid_hashes:
    for v in v_list:
        for r in r_list:
            for s in s_list:
                o = same("ecdsa_raw_recover", h, (v, r, s))
                nres[o[0]] += 1
                if h in (hashes[0], hashes[6]) and s in s_list[:5]:
                    check_property(h, v, r, s, o)
assert nres["ok"] > 500 and nres["exc"] > 500, nres

# recovered key is the point at infinity: s*R == z*G
for k in (1, 2, 12345, rng.randrange(1, N)):
    R = old.multiply(G, k)
    for h in (hashes[5], hashes[6], hashes[1]):
        z = old.bytes_to_int(h)
        s = z * old.inv(k, N) % N
        v = 27 + R[1] % 2
        o = same("ecdsa_raw_recover", h, (v, R[0], s))
        assert o == ("ok", deep_types((0, 0)), (0, 0)), o
        same("ecdsa_raw_recover", h, (55 - v, R[0], s))

# malformed inputs: identical exception classes
malformed = [
    (hashes[0], (27, G[0])),
    (hashes[0], (27, G[0], 1, 2)),
    (hashes[0], None),
    (hashes[0], 27),
    (hashes[0], ("27", G[0], 1)),
    (hashes[0], (27.0, G[0], 1)),
    (hashes[0], (28.0, G[0], 5)),
    (hashes[0], (True, G[0], 1)),
    (hashes[0], (27 + 0j, G[0], 1)),
    (hashes[0], (__import__("fractions").Fraction(28), G[0], 1)),
    (hashes[0], (__import__("decimal").Decimal(27), G[0], 1)),
    (hashes[0], ([27], G[0], 1)),
    (hashes[0], (None, G[0], 1)),
    (hashes[0], (27, None, 1)),
    (hashes[0], (27, G[0], None)),
    (hashes[0], (27, "1", 1)),
    (hashes[0], (27, G[0], "1")),
    (hashes[0], (27, float(3), 1)),
    (hashes[0], (27, -1, 1)),
    (hashes[0], (27, -G[0], 1)),
    (hashes[0], (27, G[0], -1)),
    (hashes[0], (28, G[0], -N)),
    (hashes[0], (27, P, 1)),
    (hashes[0], (27, P + G[0], 1)),
    (hashes[0], (28, 2**300 + 1, 3)),
    (hashes[0], [27, G[0], 1]),
    (None, (27, G[0], 1)),
    (5, (27, G[0], 1)),
    ("abc", (27, G[0], 1)),
    ([1, 2, 3], (28, G[0], 9)),
    (None, (30, G[0], 1)),
    (None, (27, invalid_x[0], 1)),
    (None, (27, G[0], 0)),
]
for h, vrs in malformed:
    same("ecdsa_raw_recover", h, vrs)

# ---------------------------------------------------------------------------
# 5. call histories: repeat and interleave, results stay equal; constants intact
# ---------------------------------------------------------------------------
cases = [(h, (v, r, s)) for h in grid_hashes[:3] for v in (27, 28, 29) for r in r_list[5:10] for s in s_list[1:4]]
first = [outcome(new.ecdsa_raw_recover, h, vrs) for h, vrs in cases]
rng.shuffle(cases_shuffled := list(range(len(cases))))
for i in cases_shuffled:
    h, vrs = cases[i]
    new.ecdsa_raw_sign(hashes[5], privs[4])
    new.privtopub(privs[1])
    again = outcome(new.ecdsa_raw_recover, h, vrs)
    assert again == first[i] == outcome(old.ecdsa_raw_recover, h, vrs)
    checks += 1
    if i % 7 == 0:
        try:
            new.ecdsa_raw_recover(h, (99, 0, 0))
        except ValueError:
            pass

assert snapshot(old) == snap_old and snapshot(new) == snap_new
for k, v in snap_new.items():
    assert getattr(new, k) is v, k

print("equiv OK: %d comparisons, recover grid %r" % (checks, nres))
