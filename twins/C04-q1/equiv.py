import os, sys; sys.path.insert(0, os.getcwd())  # noqa: E702
"""
Equivalence demonstration for q1 (C04): the restructured
py_ecc/bls/ciphersuites.py of the working tree against the pristine copy saved
next to this script.  Both are imported side by side; every verification entry
point of the three suites is called with the same arguments on both and the
outcome (value + type, or exception class) and the sequence of arguments that
reach `pairing` are compared.
"""
import importlib.util
import random
import time

HERE = os.path.dirname(os.path.abspath(__file__))
T0 = time.time()

import py_ecc.bls.ciphersuites as NEW  # noqa: E402

spec = importlib.util.spec_from_file_location(
    "py_ecc.bls._pristine_ciphersuites",
    os.path.join(HERE, "pristine", "ciphersuites.py"),
)
OLD = importlib.util.module_from_spec(spec)
sys.modules[spec.name] = OLD
spec.loader.exec_module(OLD)

assert os.path.realpath(NEW.__file__).startswith(os.path.realpath(os.getcwd()))
assert NEW.__file__ != OLD.__file__

from py_ecc.bls.constants import POW_2_381, POW_2_382, POW_2_383  # noqa: E402
from py_ecc.bls.g2_primitives import (  # noqa: E402
    G1_to_pubkey,
    G2_to_signature,
    subgroup_check,
)
from py_ecc.bls.point_compression import (  # noqa: E402
    modular_squareroot_in_FQ2,
)
from py_ecc.fields import (  # noqa: E402
    optimized_bls12_381_FQ as FQ,
    optimized_bls12_381_FQ2 as FQ2,
)
from py_ecc.optimized_bls12_381 import (  # noqa: E402
    G1,
    G2,
    Z1,
    Z2,
    add,
    b2,
    field_modulus as q,
    multiply,
)

# --------------------------------------------------------------------------
# pairing recorder installed in both modules
# --------------------------------------------------------------------------
LOG = {"new": [], "old": []}


def install(mod, key):
    real = mod.pairing

    def recorder(Q, P, final_exponentiate=True):
        LOG[key].append((repr(Q), repr(P), final_exponentiate))
        return real(Q, P, final_exponentiate=final_exponentiate)

    mod.pairing = recorder


install(NEW, "new")
install(OLD, "old")


def outcome(f, *args):
    try:
        r = f(*args)
    except BaseException as e:  # noqa: B902
        return ("exc", type(e).__name__)
    return ("ok", type(r).__name__, r)


N_CALLS = 0
HISTORY = {}


def check(suite, fn, *args, remember=None):
    """Call suite.fn(*args) in both versions, compare outcome and pairing log."""
    global N_CALLS
    N_CALLS += 1
    LOG["new"].clear()
    LOG["old"].clear()
    snapshot = repr(args)
    a = outcome(getattr(getattr(NEW, suite), fn), *args)
    log_new = list(LOG["new"])
    b = outcome(getattr(getattr(OLD, suite), fn), *args)
    log_old = list(LOG["old"])
    assert a == b, (suite, fn, args, a, b)
    assert log_new == log_old, (suite, fn, args, log_new, log_old)
    assert repr(args) == snapshot, "arguments were mutated"
    if remember is not None:
        k = (suite, fn, remember)
        if k in HISTORY:
            assert HISTORY[k] == a, ("history dependent result", k, HISTORY[k], a)
        HISTORY[k] = a
    return a


SUITES = ["G2Basic", "G2MessageAugmentation", "G2ProofOfPossession"]
rng = random.Random(0xC04)

# --------------------------------------------------------------------------
# material
# --------------------------------------------------------------------------
SK = [1, 2, 3, 0x1234567]
PK = [NEW.G2Basic.SkToPk(sk) for sk in SK]
MSG = [b"", b"abc", b"\x00" * 32, b"abc"]


def enc48(n):
    return (n % (1 << 384)).to_bytes(48, "big")


# on-curve G1 point outside the prime-order subgroup
def g1_cofactor_point():
    x = 1
    while True:
        x += 1
        rhs = (x**3 + 4) % q
        y = pow(rhs, (q + 1) // 4, q)
        if y * y % q == rhs:
            pt = (FQ(x), FQ(y), FQ(1))
            if not subgroup_check(pt):
                return pt


def g2_cofactor_point():
    k = 1
    while True:
        k += 1
        x = FQ2([k, 1])
        y = modular_squareroot_in_FQ2(x**3 + b2)
        if y is not None:
            pt = (x, y, FQ2([1, 0]))
            if not subgroup_check(pt):
                return pt


def x_not_on_g1():
    x = 1
    while True:
        x += 1
        rhs = (x**3 + 4) % q
        y = pow(rhs, (q + 1) // 4, q)
        if y * y % q != rhs:
            return x


G1_COF = G1_to_pubkey(g1_cofactor_point())
G2_COF = G2_to_signature(g2_cofactor_point())
PK_INF = G1_to_pubkey(Z1)
SIG_INF = G2_to_signature(Z2)
assert PK_INF == b"\xc0" + b"\x00" * 47 and SIG_INF == b"\xc0" + b"\x00" * 95

good_pk = PK[1]
good_x = int.from_bytes(good_pk, "big") % POW_2_381

bad_pubkeys = [
    b"",
    b"\x00",
    good_pk[:47],
    good_pk[1:],
    good_pk + b"\x00",
    b"\x00" + good_pk,
    good_pk + good_pk,
    b"\x00" * 48 + good_pk,
    good_pk + b"\x00" * 48,
    b"\x00" * 48,
    b"\xff" * 48,
    PK_INF,
    b"\xe0" + b"\x00" * 47,
    b"\x80" + b"\x00" * 47,
    b"\x40" + b"\x00" * 47,
    G1_COF,
    enc48(POW_2_383 + x_not_on_g1()),
    bytearray(good_pk),
    memoryview(good_pk),
    good_pk.hex(),
    int.from_bytes(good_pk, "big"),
    None,
    (1, 2, 3),
]
# all eight flag combinations on a valid x, and on x = 0
for flags in range(8):
    bad_pubkeys.append(enc48((flags << 381) + good_x))
    bad_pubkeys.append(enc48(flags << 381))
# boundary x values with the "compressed" flag (and with the sign flag)
for x in (0, 1, q - 1, q, q + 1, POW_2_381 - 1):
    bad_pubkeys.append(enc48(POW_2_383 + x))
    bad_pubkeys.append(enc48(POW_2_383 + POW_2_381 + x))
    bad_pubkeys.append(enc48(POW_2_383 + POW_2_382 + x))
# random bytes of many lengths
for n in list(range(0, 201, 7)) + [47, 48, 49, 95, 96, 97, 200]:
    bad_pubkeys.append(bytes(rng.getrandbits(8) for _ in range(n)))
for _ in range(20):
    r = bytearray(rng.getrandbits(8) for _ in range(48))
    r[0] = (r[0] & 0x1F) | 0x80
    bad_pubkeys.append(bytes(r))

good_sig = NEW.G2Basic.Sign(SK[1], MSG[1])
sig_z1 = int.from_bytes(good_sig[:48], "big")
sig_x1 = sig_z1 % POW_2_381
bad_sigs = [
    b"",
    good_sig[:95],
    good_sig[1:],
    good_sig[:48],
    good_sig + b"\x00",
    b"\x00" + good_sig,
    good_sig + good_sig,
    b"\x00" * 96,
    b"\xff" * 96,
    SIG_INF,
    b"\xe0" + b"\x00" * 95,
    b"\x80" + b"\x00" * 95,
    b"\xc0" + b"\x00" * 94 + b"\x01",
    G2_COF,
    good_sig[:48] + enc48(q),
    good_sig[:48] + enc48(q - 1),
    good_sig[:48] + enc48(q + 1),
    good_sig[:48] + enc48(POW_2_381 - 1),
    good_sig[:48] + enc48(POW_2_383 + int.from_bytes(good_sig[48:], "big")),
    good_sig[48:] + good_sig[:48],
    bytearray(good_sig),
    good_sig.hex(),
    None,
    12345,
]
for flags in range(8):
    bad_sigs.append(enc48((flags << 381) + sig_x1) + good_sig[48:])
    bad_sigs.append(enc48(flags << 381) + b"\x00" * 48)
for x in (0, 1, q - 1, q, q + 1, POW_2_381 - 1):
    bad_sigs.append(enc48(POW_2_383 + x) + b"\x00" * 48)
    bad_sigs.append(enc48(POW_2_383 + x) + enc48(x))
for n in list(range(0, 201, 25)) + [95, 96, 97, 192]:
    bad_sigs.append(bytes(rng.getrandbits(8) for _ in range(n)))
for _ in range(6):
    r = bytearray(rng.getrandbits(8) for _ in range(96))
    r[0] = (r[0] & 0x1F) | 0x80
    r[48] &= 0x1F
    bad_sigs.append(bytes(r))

# --------------------------------------------------------------------------
# 1. KeyValidate on everything (cheap), twice, interleaved
# --------------------------------------------------------------------------
all_keys = PK + bad_pubkeys
for rnd in range(2):
    for i, k in enumerate(all_keys):
        for s in SUITES:
            check(s, "KeyValidate", k, remember=("kv", i))
    # private length gates too
    for i, k in enumerate(all_keys):
        for s in SUITES:
            check(s, "_is_valid_pubkey", k, remember=("ivp", i))
for i, sg in enumerate([good_sig] + bad_sigs):
    for s in SUITES:
        check(s, "_is_valid_signature", sg, remember=("ivs", i))
for i, k in enumerate(PK):
    assert check("G2Basic", "KeyValidate", k)[2] is True
print("KeyValidate done", N_CALLS, round(time.time() - T0, 1))

# --------------------------------------------------------------------------
# 2. Verify / PopVerify with malformed keys and signatures
# --------------------------------------------------------------------------
sigs = {s: getattr(NEW, s).Sign(SK[1], MSG[1]) for s in SUITES}
proof = NEW.G2ProofOfPossession.PopProve(SK[1])

for i, k in enumerate(bad_pubkeys):
    for s in SUITES:
        r = check(s, "Verify", k, MSG[1], sigs[s], remember=("vbk", i))
        # (flag patterns 100/101 on a valid x are themselves valid keys)
        if isinstance(k, bytes) and not OLD.G2Basic.KeyValidate(k):
            assert r == ("ok", "bool", False), (s, k, r)
    check("G2ProofOfPossession", "PopVerify", k, proof, remember=("pbk", i))
for i, sg in enumerate(bad_sigs):
    # (the augmentation suite shares _CoreVerify; sample it to bound the runtime)
    for s in [
        "G2Basic",
        *(["G2ProofOfPossession"] if i % 2 == 0 else []),
        *(["G2MessageAugmentation"] if i % 4 == 1 else []),
    ]:
        r = check(s, "Verify", good_pk, MSG[1], sg, remember=("vbs", i))
        if isinstance(sg, bytes) and sg != good_sig:
            assert r == ("ok", "bool", False), (s, sg, r)
    if i % 2 == 1:
        check("G2ProofOfPossession", "PopVerify", good_pk, sg, remember=("pbs", i))
# malformed messages
for m in (None, "abc", bytearray(b"abc"), 7):
    for s in SUITES:
        check(s, "Verify", good_pk, m, sigs[s])
print("malformed Verify done", N_CALLS, round(time.time() - T0, 1))

# --------------------------------------------------------------------------
# 3. good paths (these reach the pairing), wrong message / key / signature
# --------------------------------------------------------------------------
for s in SUITES:
    assert check(s, "Verify", good_pk, MSG[1], sigs[s], remember="good")[2] is True
    assert check(s, "Verify", good_pk, MSG[2], sigs[s], remember="wrongmsg")[2] is False
# wrong key; a subgroup point that is not the signature; the identity as signature
assert check("G2MessageAugmentation", "Verify", PK[2], MSG[1], sigs["G2MessageAugmentation"])[2] is False
check("G2ProofOfPossession", "Verify", good_pk, MSG[1], G2_to_signature(multiply(G2, 77)))
check("G2Basic", "Verify", good_pk, MSG[1], SIG_INF, remember="infsig")
assert check("G2ProofOfPossession", "PopVerify", good_pk, proof, remember="pop")[2] is True
assert check("G2ProofOfPossession", "PopVerify", PK[0], proof, remember="pop2")[2] is False
check("G2ProofOfPossession", "PopVerify", good_pk, sigs["G2ProofOfPossession"])
# core entry points called directly, with a foreign DST
check("G2Basic", "_CoreVerify", good_pk, MSG[1], sigs["G2Basic"], b"other-dst")
print("good Verify done", N_CALLS, round(time.time() - T0, 1))

# --------------------------------------------------------------------------
# 4. AggregateVerify / FastAggregateVerify
# --------------------------------------------------------------------------
msgs3 = [b"m0", b"m1", b"m2"]
agg = {}
agg2 = {}
for s in SUITES:
    cls = getattr(NEW, s)
    agg[s] = cls.Aggregate([cls.Sign(sk, m) for sk, m in zip(SK[:3], msgs3)])
    agg2[s] = cls.Aggregate([cls.Sign(sk, m) for sk, m in zip(SK[:2], msgs3)])
    assert check(s, "AggregateVerify", PK[:2], msgs3[:2], agg2[s], remember="agg2")[2] is True
    if s == "G2Basic":
        assert check(s, "AggregateVerify", PK[:3], msgs3, agg[s], remember="agg")[2] is True
        # tuple containers, permuted messages, identity signature, foreign DST
        check(s, "AggregateVerify", tuple(PK[:2]), tuple(msgs3[:2]), agg2[s])
        check(s, "AggregateVerify", PK[:2], msgs3[1::-1], agg2[s], remember="aggp")
        check(s, "AggregateVerify", PK[:2], msgs3[:2], SIG_INF)
        check(s, "_CoreAggregateVerify", PK[:2], msgs3[:2], agg2[s], b"other-dst")
    # duplicated messages
    check(s, "AggregateVerify", PK[:2], [b"m0", b"m0"], agg2[s], remember="aggd")
    # structural problems
    check(s, "AggregateVerify", [], [], agg[s])
    check(s, "AggregateVerify", PK[:3], msgs3[:2], agg[s])
    check(s, "AggregateVerify", PK[:2], msgs3, agg[s])
    check(s, "AggregateVerify", PK[:3], [b"m0", "m1", b"m2"], agg[s])
    check(s, "AggregateVerify", PK[:3], [b"m0", None, b"m2"], agg[s])
    check(s, "AggregateVerify", PK[:3], msgs3, G2_COF)

# a malformed key in every position of the list
subset = [
    PK_INF,
    G1_COF,
    enc48(POW_2_383 + q),
    enc48(POW_2_383 + x_not_on_g1()),
    enc48(good_x),
    good_pk + b"\x00",
    b"\x00" + good_pk,
    good_pk[:47],
    b"",
    bytearray(good_pk),
    None,
]
for i, k in enumerate(subset):
    for pos in range(3):
        keys = list(PK[:3])
        keys[pos] = k
        # 48-byte keys pass the length gate, so every earlier list position is
        # paired before the bad one is met: sample the augmentation suite
        for s in SUITES if i < 2 or i >= 5 else ("G2Basic", "G2ProofOfPossession"):
            r = check(s, "AggregateVerify", keys, msgs3, agg[s], remember=("aggbad", i, pos))
            if isinstance(k, bytes):
                assert r == ("ok", "bool", False), (s, k, pos, r)
        r = check(
            "G2ProofOfPossession",
            "FastAggregateVerify",
            keys,
            b"fast",
            agg["G2ProofOfPossession"],
            remember=("fastbad", i, pos),
        )
# a selection of malformed signatures in the aggregate entry points
for i, sg in enumerate(bad_sigs[:10]):
    for s in SUITES:
        check(s, "AggregateVerify", PK[:3], msgs3, sg, remember=("aggbs", i))
    check("G2ProofOfPossession", "FastAggregateVerify", PK[:3], b"fast", sg)

POP = NEW.G2ProofOfPossession
fast_sig = POP.Aggregate([POP.Sign(sk, b"fast") for sk in SK[:3]])
assert check("G2ProofOfPossession", "FastAggregateVerify", PK[:3], b"fast", fast_sig, remember="f")[2] is True
assert check("G2ProofOfPossession", "FastAggregateVerify", PK[:2], b"fast", fast_sig, remember="f2")[2] is False
check("G2ProofOfPossession", "FastAggregateVerify", [], b"fast", fast_sig)
check("G2ProofOfPossession", "FastAggregateVerify", PK[:3], "fast", fast_sig)
# keys that cancel: the aggregate key is the identity
neg_pk = G1_to_pubkey(add(Z1, multiply(G1, NEW.curve_order - SK[1])))
check("G2ProofOfPossession", "FastAggregateVerify", [good_pk, neg_pk], b"fast", fast_sig)
check("G2ProofOfPossession", "FastAggregateVerify", [good_pk, neg_pk], b"fast", SIG_INF)
print("aggregate done", N_CALLS, round(time.time() - T0, 1))

# --------------------------------------------------------------------------
# 5. history: repeat a sample of earlier calls after everything else
# --------------------------------------------------------------------------
for s in SUITES:
    check(s, "Verify", good_pk, MSG[1], sigs[s], remember="good")
    for i, k in enumerate(bad_pubkeys[:25]):
        check(s, "Verify", k, MSG[1], sigs[s], remember=("vbk", i))
check("G2ProofOfPossession", "Verify", good_pk, MSG[2], sigs["G2ProofOfPossession"], remember="wrongmsg")
for i, sg in enumerate(bad_sigs[:20]):
    check("G2Basic", "Verify", good_pk, MSG[1], sg, remember=("vbs", i))
check("G2Basic", "AggregateVerify", PK[:2], msgs3[1::-1], agg2["G2Basic"], remember="aggp")
check("G2MessageAugmentation", "AggregateVerify", PK[:2], msgs3[:2], agg2["G2MessageAugmentation"], remember="agg2")
check("G2ProofOfPossession", "PopVerify", good_pk, proof, remember="pop")
check("G2ProofOfPossession", "FastAggregateVerify", PK[:3], b"fast", fast_sig, remember="f")

# non-verification API of the touched module is unchanged as well
for s in SUITES:
    for sk in (0, 1, 5, NEW.curve_order - 1, NEW.curve_order, -1, "1", None):
        check(s, "SkToPk", sk)
        check(s, "Sign", sk, b"x")
    check(s, "Aggregate", [])
    check(s, "Aggregate", [good_sig, good_sig])
    check(s, "Aggregate", [good_sig, good_sig[:95]])
    check(s, "KeyGen", b"\x01" * 32)

print("OK: %d paired calls identical, %.1fs" % (N_CALLS, time.time() - T0))
