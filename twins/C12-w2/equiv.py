import os, sys; sys.path.insert(0, os.getcwd())  # noqa: E702

# Equivalence demonstration for twin C12/w2: restructured optimized bn128
# miller_loop (index loop, fused signed-digit branch, named Frobenius locals,
# named numerator/denominator, operands of miller_loop bound once in pairing)
# versus the pristine module.
# Run as:  cd /tmp/wt2/C12 && /venv/bin/python /tmp/twin6/C12/w2/equiv.py
import importlib.util
import random
import time

T0 = time.time()
HERE = os.path.dirname(os.path.abspath(__file__))

import py_ecc.optimized_bn128.optimized_pairing as new  # noqa: E402
from py_ecc.fields import (  # noqa: E402
    optimized_bls12_381_FQ2 as bls_FQ2,
    optimized_bn128_FQ as FQ,
    optimized_bn128_FQ2 as FQ2,
    optimized_bn128_FQ12 as FQ12,
)
from py_ecc.optimized_bn128 import (  # noqa: E402
    G1,
    G2,
    Z1,
    Z2,
    b2,
    curve_order,
    is_on_curve,
    multiply,
    neg,
    normalize,
    twist,
)

assert new.__file__.startswith(os.getcwd()), new.__file__

spec = importlib.util.spec_from_file_location(
    "py_ecc.optimized_bn128._pristine_optimized_pairing",
    os.path.join(HERE, "pristine", "optimized_bn128_optimized_pairing.py"),
)
old = importlib.util.module_from_spec(spec)
sys.modules[spec.name] = old
spec.loader.exec_module(old)
assert old is not new and old.miller_loop is not new.miller_loop

P = new.field_modulus
rng = random.Random(0xC12 + 2)
checks = 0
encoding_snapshot = list(new.pseudo_binary_encoding)
assert encoding_snapshot == list(old.pseudo_binary_encoding)
assert new.log_ate_loop_count == 63 == len(encoding_snapshot) - 2
assert set(encoding_snapshot) == {0, 1, -1}


def key(v):
    if isinstance(v, (FQ12, FQ2, FQ)):
        c = v.coeffs if hasattr(v, "coeffs") else (v.n,)
        return (type(v).__name__, type(v).__module__, tuple(int(x) for x in c))
    if isinstance(v, tuple):
        return tuple(key(x) for x in v)
    return ("other", repr(v))


def outcome(fn, *args, **kw):
    try:
        return ("ok", key(fn(*args, **kw)))
    except BaseException as e:  # noqa: B902
        return ("exc", type(e).__name__)


def same(name, *args, **kw):
    global checks
    snap = key(tuple(a for a in args if isinstance(a, tuple)))
    a = outcome(getattr(old, name), *args, **kw)
    b = outcome(getattr(new, name), *args, **kw)
    assert a == b, (name, args, kw, a, b)
    assert snap == key(tuple(a for a in args if isinstance(a, tuple)))  # no mutation
    checks += 1
    return a


def rescale(pt, lam):
    return (pt[0] * lam, pt[1] * lam, pt[2] * lam)


def rand_fq2(nonzero=True):
    while True:
        v = FQ2([rng.randrange(P), rng.randrange(P)])
        if not nonzero or v != FQ2.zero():
            return v


# ------------------------------------------------------ subgroup point pairs
scalars = [(1, 1), (2, 1), (1, 2), (3, 5), (curve_order - 1, 1), (1, curve_order - 1),
           (curve_order - 2, curve_order - 3), (2**64, 2**128 + 1)]
scalars += [(rng.randrange(1, curve_order), rng.randrange(1, curve_order))
            for _ in range(8)]
pairs = [(multiply(G2, k2), multiply(G1, k1)) for k1, k2 in scalars]
# other projective representatives of the same points (Z != 1, random scalings)
for idx in (0, 3, 9, 12):
    q, p = pairs[idx]
    pairs.append((rescale(q, rand_fq2()), rescale(p, FQ(rng.randrange(2, P)))))
    pairs.append((rescale(q, FQ2([P - 1, 0])), rescale(p, FQ(P - 1))))
# normalised representatives
q, p = pairs[5]
pairs.append((new.normalize1(q), new.normalize1(p)))

miller_values = []
for q, p in pairs:
    r = same("pairing", q, p, final_exponentiate=False)
    assert r[0] == "ok"
    miller_values.append(r[1])
    # direct miller_loop calls on the twisted / cast operands
    r2 = same("miller_loop", twist(q), new.cast_point_to_fq12(p), final_exponentiate=False)
    assert r2 == r
    r3 = same("miller_loop", twist(q), new.cast_point_to_fq12(p), False)
    assert r3 == r
# default flag / explicit True: full pairings, old vs new
full = {}
for idx in (0, 3, 4, 7, 9, 16, 17, 20, 24):
    q, p = pairs[idx]
    full[idx] = same("pairing", q, p)
    assert full[idx][0] == "ok"
assert same("pairing", pairs[3][0], pairs[3][1], final_exponentiate=True) == full[3]
assert same("pairing", pairs[3][0], pairs[3][1], True) == full[3]
# representative independence of the exponentiated value (16,17 rescale 0)
assert full[0] == full[16] == full[17]
# split form: final_exponentiate(miller) == pairing, both modules
for idx in (0, 9):
    q, p = pairs[idx]
    f_new = new.pairing(q, p, final_exponentiate=False)
    f_old = old.pairing(q, p, final_exponentiate=False)
    assert ("ok", key(new.final_exponentiate(f_new))) == full[idx]
    assert ("ok", key(old.final_exponentiate(f_old))) == full[idx]
    checks += 2
# products of 1..6 Miller values: exponentiate once == product of pairings
prod_f, prod_e = FQ12.one(), FQ12.one()
for n, idx in enumerate((0, 3, 4, 7, 9, 20), start=1):
    q, p = pairs[idx]
    prod_f = prod_f * new.pairing(q, p, final_exponentiate=False)
    prod_e = prod_e * new.pairing(q, p)
    assert key(new.final_exponentiate(prod_f)) == key(prod_e), n
    checks += 1

# the reference (affine, non-optimized) bn128 pairing gives the same element
from py_ecc.bn128 import FQ as rFQ, FQ2 as rFQ2, pairing as ref_pairing  # noqa: E402

for idx in (3,):
    q, p = pairs[idx]
    qa, pa = normalize(q), normalize(p)
    ref = ref_pairing(
        (rFQ2([int(c) for c in qa[0].coeffs]), rFQ2([int(c) for c in qa[1].coeffs])),
        (rFQ(pa[0].n), rFQ(pa[1].n)),
    )
    assert tuple(int(c) for c in ref.coeffs) == full[idx][1][2]
    checks += 1

# bilinearity through the new code: e(Q, P) * e(Q, -P) == 1
assert key(new.final_exponentiate(
    new.pairing(G2, G1, False) * new.pairing(G2, neg(G1), False))) == key(FQ12.one())

# ------------------------------- identical sequence of line evaluations etc.
def traced(mod, q, p, fe):
    log = []
    saved = {n: getattr(mod, n) for n in ("linefunc", "add", "double", "neg")}

    def wrap(name, fn):
        def w(*a):
            r = fn(*a)
            log.append((name, key(tuple(a)), key(r)))
            return r
        return w

    try:
        for n, fn in saved.items():
            setattr(mod, n, wrap(n, fn))
        res = outcome(mod.miller_loop, q, p, fe)
    finally:
        for n, fn in saved.items():
            setattr(mod, n, fn)
    return res, log


for idx in (0, 12, 19):
    q, p = pairs[idx]
    ra, la = traced(old, twist(q), old.cast_point_to_fq12(p), False)
    rb, lb = traced(new, twist(q), new.cast_point_to_fq12(p), False)
    assert ra == rb and la == lb and len(la) > 150
    n_neg = sum(1 for e in la if e[0] == "neg")
    assert n_neg == encoding_snapshot[:64].count(-1)
    assert sum(1 for e in la if e[0] == "linefunc") == 64 + sum(
        1 for d in encoding_snapshot[:64] if d) + 2
    checks += 1

# ------------------------------------ identity, degenerate, malformed inputs
def fq2_sqrt(a):
    # p = 3 mod 4, FQ2 = FQ[i] / (i**2 + 1); returns None for non-residues
    a1 = a ** ((P - 3) // 4)
    alpha = a1 * a1 * a
    x0 = a1 * a
    if alpha == -FQ2.one():
        cand = FQ2([0, 1]) * x0
    else:
        cand = (FQ2.one() + alpha) ** ((P - 1) // 2) * x0
    return cand if cand * cand == a else None


assert P % 4 == 3
on_twist_not_subgroup = None
x = 1
while on_twist_not_subgroup is None:
    # a point of the twist curve outside the order-r subgroup
    xx = FQ2([x, 1])
    yy = fq2_sqrt(xx * xx * xx + b2)
    if yy is not None:
        pt = (xx, yy, FQ2.one())
        assert is_on_curve(pt, b2)
        if multiply(pt, curve_order)[2] != FQ2.zero():
            on_twist_not_subgroup = pt
    x += 1

zero12 = FQ12.zero()
one12 = FQ12.one()
tw_g2, c_g1 = twist(G2), new.cast_point_to_fq12(G1)
weird = [
    # (Q, P) through pairing()
    ("pairing", Z2, G1), ("pairing", G2, Z1), ("pairing", Z2, Z1),
    ("pairing", rescale(Z2, FQ2([5, 7])), G1), ("pairing", G2, rescale(Z1, FQ(9))),
    ("pairing", (FQ2.zero(), FQ2.zero(), FQ2.zero()), G1),
    ("pairing", G2, (FQ(0), FQ(0), FQ(0))),
    ("pairing", on_twist_not_subgroup, G1),
    ("pairing", on_twist_not_subgroup, multiply(G1, 77)),
    ("pairing", G1, G2), ("pairing", G2, G2), ("pairing", G1, G1),
    ("pairing", None, G1), ("pairing", G2, None), ("pairing", None, None),
    ("pairing", G2[:2], G1), ("pairing", G2, G1[:2]), ("pairing", (), ()),
    ("pairing", G2 + (FQ2.one(),), G1), ("pairing", list(G2), list(G1)),
    ("pairing", (FQ2([1, 2]), FQ2([3, 4]), FQ2.one()), G1),       # off curve
    ("pairing", G2, (FQ(1), FQ(1), FQ(1))),                        # off curve
    ("pairing", (1, 2, 1), G1), ("pairing", G2, (1, 2, 1)), ("pairing", "abc", G1),
    ("pairing", tuple(bls_FQ2([int(c) for c in v.coeffs]) for v in G2), G1),
    ("pairing", 5, 7),
    # direct miller_loop calls
    ("miller_loop", None, c_g1), ("miller_loop", tw_g2, None), ("miller_loop", None, None),
    ("miller_loop", G2, G1),                      # untwisted operands
    ("miller_loop", tw_g2, G1), ("miller_loop", G2, c_g1),
    ("miller_loop", twist(Z2), c_g1),             # infinity straight into the loop
    ("miller_loop", tw_g2, new.cast_point_to_fq12(Z1)),
    ("miller_loop", (zero12, zero12, zero12), c_g1),
    ("miller_loop", tw_g2, (zero12, zero12, zero12)),
    ("miller_loop", (one12, one12, one12), (one12, one12, one12)),
    ("miller_loop", (zero12, one12, zero12), (zero12, one12, zero12)),
    ("miller_loop", c_g1, tw_g2), ("miller_loop", tw_g2, tw_g2), ("miller_loop", c_g1, c_g1),
    ("miller_loop", twist(on_twist_not_subgroup), c_g1),
    ("miller_loop", tw_g2[:2], c_g1), ("miller_loop", tw_g2, c_g1[:2]),
    ("miller_loop", tw_g2 + (one12,), c_g1), ("miller_loop", (), ()),
    ("miller_loop", list(tw_g2), list(c_g1)),
    ("miller_loop", (1, 2, 3), (4, 5, 6)), ("miller_loop", "abc", "def"),
    ("miller_loop", 5, 7), ("miller_loop", (tw_g2[0], None, tw_g2[2]), c_g1),
    ("miller_loop", (tw_g2[0], tw_g2[1], 1), c_g1),
    ("miller_loop", tw_g2, (c_g1[0], c_g1[1], 1)),
]
kinds = set()
for name, q, p in weird:
    for fe in (False, True):
        r = same(name, q, p, final_exponentiate=fe)
        kinds.add(r[0] if r[0] == "ok" else r[1])
assert "ok" in kinds and len(kinds) >= 3, kinds
# wrong arity / keywords
for name in ("pairing", "miller_loop"):
    for args, kw in [((), {}), ((G2,), {}), ((G2, G1, True, 1), {}),
                     ((G2, G1), {"final_exp": True}), ((), {"Q": None, "P": None})]:
        same(name, *args, **kw)
# unchanged neighbours in the same file
for v in (FQ12.zero(), FQ12.one(), FQ12([rng.randrange(P) for _ in range(12)]), None):
    same("final_exponentiate", v)
for pt in (G1, Z1, None, G2, (1, 2)):
    same("cast_point_to_fq12", pt)

# ----------------------------------------- call histories: repeat/interleave
history = [("pairing", pairs[0]), ("pairing", (Z2, G1)), ("pairing", pairs[9]),
           ("miller_loop", (tw_g2, c_g1)), ("pairing", (G1, G2)), ("pairing", pairs[0]),
           ("miller_loop", (None, c_g1)), ("pairing", pairs[17]),
           ("miller_loop", ((zero12,) * 3, c_g1)), ("pairing", pairs[9]),
           ("pairing", (on_twist_not_subgroup, G1)), ("miller_loop", (tw_g2, c_g1))]
first = {}
for rnd in range(3):
    order = list(range(len(history)))
    if rnd:
        rng.shuffle(order)
    for i in order:
        name, (q, p) = history[i]
        r = same(name, q, p, final_exponentiate=False)
        assert first.setdefault(i, r) == r
assert first[0] == ("ok", miller_values[0]) and first[2] == ("ok", miller_values[9])

# nothing at module level was changed by any of the calls
for mod in (old, new):
    assert list(mod.pseudo_binary_encoding) == encoding_snapshot
    assert mod.log_ate_loop_count == 63 and mod.ate_loop_count == 29793968203157093288
    assert mod.field_modulus == P and mod.curve_order == curve_order
assert key(G1) == key((FQ(1), FQ(2), FQ(1))) and key(tw_g2) == key(twist(G2))

print("C12/w2 equivalent: %d checks, %.1fs" % (checks, time.time() - T0))
sys.exit(0)
