import os, sys; sys.path.insert(0, os.getcwd())

import hashlib
import importlib.util
import random
import time

HERE = os.path.dirname(os.path.abspath(__file__))

spec = importlib.util.spec_from_file_location(
    "pristine_secp256k1", os.path.join(HERE, "pristine", "secp256k1.py")
)
old = importlib.util.module_from_spec(spec)
spec.loader.exec_module(old)

import py_ecc.secp256k1.secp256k1 as new  # noqa: E402

assert os.path.abspath(new.__file__).startswith(os.getcwd()), new.__file__
assert os.path.abspath(old.__file__) != os.path.abspath(new.__file__)

T0 = time.time()
N, P = old.N, old.P
rng = random.Random(0xC06)
checks = 0


def outcome(fn, *args):
    try:
        return ("ok", fn(*args))
    except BaseException as e:  # noqa: BLE001
        return ("exc", type(e), str(e))


def same(name, *args):
    global checks
    a = outcome(getattr(old, name), *args)
    b = outcome(getattr(new, name), *args)
    assert a == b, (name, args, a, b)
    if a[0] == "ok":
        assert type(a[1]) is type(b[1]), (name, args, a, b)
        if isinstance(a[1], tuple):
            assert [type(t) for t in a[1]] == [type(t) for t in b[1]], (name, args)
    checks += 1
    return a


# ---- module surface: every pristine public name still exists, constants equal
for nm in dir(old):
    if nm.startswith("__"):
        continue
    assert hasattr(new, nm), nm
    ov, nv = getattr(old, nm), getattr(new, nm)
    if isinstance(ov, (int, tuple)):
        assert ov == nv and type(ov) is type(nv), nm
CONSTS = ("P", "N", "A", "B", "Gx", "Gy", "G")
snapshot = {c: getattr(new, c) for c in CONSTS}
extra_snapshot = {
    nm: getattr(new, nm)
    for nm in dir(new)
    if not nm.startswith("__") and isinstance(getattr(new, nm), (int, tuple, bytes))
}


def b32(i):
    return i.to_bytes(32, "big")


keys_int = [1, 2, 3, 7, 255, 256, 2**128, N // 2, N // 2 + 1, N - 2, N - 1]
keys_int += [rng.randrange(1, N) for _ in range(12)]
keys = [b32(k) for k in keys_int]

hashes = [b"\x00" * 32, b"\xff" * 32, b32(N - 1), b32(N), b32(N + 1), b32(1), b32(P),
          b32(N // 2), b32(2**255)]
hashes += [bytes(rng.getrandbits(8) for _ in range(32)) for _ in range(8)]
var_hashes = [bytes(rng.getrandbits(8) for _ in range(n)) for n in range(0, 65, 3)] + [
    b"", b"\x00", b"\x00" * 64, b"\xff" * 64]


def verify(z, pub, r, s):
    w = old.inv(s, N)
    u1, u2 = z * w % N, r * w % N
    pt = old.add(old.multiply(old.G, u1), old.multiply(pub, u2))
    return pt[0] % N == r


# ---- the property itself, and old/new agreement, on the quantified domain
for ki, key in enumerate(keys):
    pub = same("privtopub", key)[1]
    assert pub == old.multiply(old.G, keys_int[ki])
    hs = hashes if ki < 12 else hashes[:5]
    for h in hs:
        same("deterministic_generate_k", h, key)
        res = same("ecdsa_raw_sign", h, key)
        assert res[0] == "ok"
        v, r, s = res[1]
        assert v in (27, 28) and 1 <= r < N and 1 <= s <= N // 2
        assert verify(old.bytes_to_int(h), pub, r, s)
        rec = same("ecdsa_raw_recover", h, (v, r, s))
        assert rec == ("ok", pub)
        other = same("ecdsa_raw_recover", h, (55 - v, r, s))
        assert other[0] == "exc" or other[1] != pub
        # high-s malleated twin as well
        same("ecdsa_raw_recover", h, (55 - v, r, N - s))
        same("ecdsa_raw_recover", h, (v, r, N - s))

# 0..64 byte hashes
for key in keys[:3] + keys[-3:]:
    for h in var_hashes:
        same("deterministic_generate_k", h, key)
        res = same("ecdsa_raw_sign", h, key)
        if res[0] == "ok":
            same("ecdsa_raw_recover", h, res[1])

# ---- keys outside the stated range / odd lengths
odd_keys = [b"", b"\x00", b"\x00" * 32, b32(N), b32(N + 1), b"\xff" * 32, b"\x01",
            b"\x01" * 33, b"\x05" * 64, b32(N)[1:]]
for key in odd_keys:
    same("privtopub", key)
    for h in hashes[:3] + [b"", b"abc"]:
        same("deterministic_generate_k", h, key)
        res = same("ecdsa_raw_sign", h, key)
        if res[0] == "ok":
            same("ecdsa_raw_recover", h, res[1])
            v, r, s = res[1]
            same("ecdsa_raw_recover", h, (55 - v, r, s))

# ---- other argument types
k0 = keys[4]
h0 = hashes[10]
typed = [
    (h0, bytearray(k0)), (bytearray(h0), k0), (bytearray(h0), bytearray(k0)),
    (memoryview(h0), k0), (h0, memoryview(k0)), (memoryview(h0), memoryview(k0)),
    (list(h0), k0), (h0, list(k0)), (tuple(h0), tuple(k0)),
    (h0.decode("latin-1"), k0), (h0, k0.decode("latin-1")),
    ("abc", "def"), (None, k0), (h0, None), (5, k0), (h0, 5), ([], k0), (h0, []),
    ([b"ab"], k0), (["ab"], k0), (h0, ["ab"]), ([1.5], k0), (h0, [1.5]),
    ([300, -1], k0), (h0, [300, -1]),
]
for h, k in typed:
    same("deterministic_generate_k", h, k)
    same("ecdsa_raw_sign", h, k)
    same("privtopub", k)
    same("bytes_to_int", h)

# ---- malformed signatures into recover
good = old.ecdsa_raw_sign(h0, k0)
gv, gr, gs = good
not_on_curve = next(x for x in range(1, 100)
                    if pow((x ** 3 + 7) % P, (P - 1) // 2, P) != 1)
on_curve_small = next(x for x in range(1, 100)
                      if pow((x ** 3 + 7) % P, (P - 1) // 2, P) == 1)
vs = [27, 28, 0, 1, 26, 29, 30, -27, 27.0, 28.0, 27.5, True, None, "27", b"\x1b", (27,),
      2**256 + 27, 1j]
rs = [gr, 0, 1, 2, not_on_curve, on_curve_small, N - 1, N, N + 1, gr + N, P - 1, P,
      P + 1, gr + P, 2 * N, -1, -gr, 2**256, 2**300 + 5, float(gr), 1.0, None, "1",
      b"\x01", True, (1,), 1j]
ss = [gs, 0, 1, N - gs, N - 1, N, N + 1, 2 * N, gs + N, -1, -gs, 2**300 + 5, 1.0, 0.0,
      float("nan"), None, "1", b"\x01", True, False, (1,), 1j]
for v in vs:
    for r in rs[:8] + rs[-8:]:
        same("ecdsa_raw_recover", h0, (v, r, gs))
    for s in ss[:6] + ss[-10:]:
        same("ecdsa_raw_recover", h0, (v, gr, s))
for r in rs:
    for s in ss:
        for v in (27, 28):
            same("ecdsa_raw_recover", h0, (v, r, s))
for h in [b"", b"\x00" * 32, b32(N), b32(N - 1), b32(N + 1), b"\xff" * 64, "abc", None,
          5, list(h0), bytearray(h0), memoryview(h0), [1.5], ["ab"]]:
    for sig in [good, (55 - gv, gr, gs), (27, 1, 1), (28, 1, 1), (27, 0, 1), (27, 1, 0),
                (27, not_on_curve, 1), (29, gr, gs), (27, gr, None), (27, None, gs)]:
        same("ecdsa_raw_recover", h, sig)
for sig in [(), (27,), (27, gr), (27, gr, gs, 1), [gv, gr, gs], None, 5, "abc", b"abc",
            b"\x1b\x01\x01", {27: 1, 1: 2, 2: 3}, iter([gv, gr, gs]),
            (x for x in (gv, gr, gs))]:
    # generators / iterators are single-use: build one per side
    if hasattr(sig, "__next__"):
        a = outcome(old.ecdsa_raw_recover, h0, iter([gv, gr, gs]))
        b = outcome(new.ecdsa_raw_recover, h0, iter([gv, gr, gs]))
        assert a == b
        checks += 1
    else:
        same("ecdsa_raw_recover", h0, sig)

# ---- helpers of the module that the anchors rely on
pts2 = [old.G, old.multiply(old.G, 2), old.multiply(old.G, N - 1), (0, 0), (1, 0), (0, 7)]
pts3 = [(old.Gx, old.Gy, 1), (0, 0, 0), (0, 0, 1), (0, 1, 0), (1, 0, 1),
        old.jacobian_double((old.Gx, old.Gy, 1)),
        old.jacobian_multiply((old.Gx, old.Gy, 1), 12345),
        (old.Gx, P - old.Gy, 1), (5, 7, 0)]
scalars = [0, 1, 2, 3, N - 1, N, N + 1, 2 * N, -1, -N, 2**256, 2**300 + 7, True, False]
for p in pts2:
    same("to_jacobian", p)
    for n in scalars:
        same("multiply", p, n)
    for q in pts2:
        same("add", p, q)
for p in pts3:
    same("from_jacobian", p)
    same("jacobian_double", p)
    for n in scalars:
        same("jacobian_multiply", p, n)
    for q in pts3:
        same("jacobian_add", p, q)
for a in [0, 1, 2, N - 1, N, N + 1, P, -1, -5, 2**300, gr, gs]:
    for n in (N, P, 7, 1):
        same("inv", a, n)
for x in [b"", b"\x00", b"\x01\x00", "ab", [1, 2], [256, 1], (3,), bytearray(b"ab"), None, 3]:
    same("bytes_to_int", x)
for x in [0, 5, "a", b"a", "", "ab", None, 1.5, True]:
    same("safe_ord", x)

# ---- call histories: repeat and interleave calls with equal / different args
calls = []
for _ in range(60):
    k = rng.choice(keys[:8])
    h = rng.choice(hashes[:8] + var_hashes[:4])
    calls.append(("ecdsa_raw_sign", (h, k)))
    calls.append(("deterministic_generate_k", (h, k)))
    calls.append(("privtopub", (k,)))
    sig = old.ecdsa_raw_sign(h, k)
    calls.append(("ecdsa_raw_recover", (h, sig)))
    calls.append(("ecdsa_raw_recover", (h, (55 - sig[0], sig[1], sig[2]))))
    calls.append(("ecdsa_raw_recover", (h, (29, sig[1], sig[2]))))
    calls.append(("ecdsa_raw_recover", (h, (27, not_on_curve, sig[2]))))
    calls.append(("ecdsa_raw_recover", (h, (27, sig[1], 0))))
rng.shuffle(calls)
first_seen = {}
for name, args in calls + calls[::-1]:
    res = same(name, *args)
    key = (name, repr(args))
    if key in first_seen:
        assert first_seen[key] == res, key
    else:
        first_seen[key] = res

# arguments are not mutated
ba_h, ba_k = bytearray(h0), bytearray(k0)
lst_sig = [gv, gr, gs]
new.ecdsa_raw_sign(ba_h, ba_k)
new.deterministic_generate_k(ba_h, ba_k)
new.ecdsa_raw_recover(ba_h, lst_sig)
assert ba_h == h0 and ba_k == k0 and lst_sig == [gv, gr, gs]

# module-level constants untouched after all of the above
for c, val in snapshot.items():
    assert getattr(new, c) == val and getattr(old, c) == val, c
for nm, val in extra_snapshot.items():
    assert getattr(new, nm) == val and type(getattr(new, nm)) is type(val), nm

# ---- q2 specific: hoisted constants and reordered statements
from decimal import Decimal  # noqa: E402
from fractions import Fraction  # noqa: E402

assert new._G_JACOBIAN == (old.Gx, old.Gy, 1) == old.to_jacobian(old.G)
assert [type(c) for c in new._G_JACOBIAN] == [int, int, int]
assert new._SQRT_EXPONENT == (old.P + 1) // 4 and type(new._SQRT_EXPONENT) is int
for s_odd in ["%d", "%s", "x", "", b"%d", [], [1], {}, Decimal(gs), Fraction(gs), Fraction(1, 3),
              Decimal("0.5"), float("inf"), -float("inf"), 2.5, 1e300]:
    for r_odd in [gr, 1, 0, not_on_curve, Decimal(gr), Fraction(gr), Fraction(1, 3), Decimal(1)]:
        for v in (27, 28, 29):
            same("ecdsa_raw_recover", h0, (v, r_odd, s_odd))
            same("ecdsa_raw_recover", b32(N - 1), (v, r_odd, s_odd))
# z = N - 1 makes jacobian_multiply hand back its (now shared) base-point argument;
# r = 1 makes the final multiplication return its argument too
for h in (b32(N - 1), (2 * N - 1).to_bytes(33, "big"), b32(N), b32(0), b32(1)):
    for sig in [(27, 1, 1), (28, 1, 1), (27, 1, N - 1), (27, old.Gx, 1), (28, old.Gx, 1),
                (27, old.Gx, N - 1), (28, old.Gx, N - 1), good]:
        for _ in range(2):
            same("ecdsa_raw_recover", h, sig)
            assert new._G_JACOBIAN == (old.Gx, old.Gy, 1)

# well-known vector: key 1, sha256("") style sanity that determinism is RFC 6979
k1 = b32(1)
hh = hashlib.sha256(b"Satoshi Nakamoto").digest()
assert new.deterministic_generate_k(hh, k1) == \
    0x8F8A276C19F4149656B280621E358CCE24F5F52542772691EE69063B74F15D15
same("ecdsa_raw_sign", hh, k1)

print("OK: %d old/new comparisons identical in %.1fs" % (checks, time.time() - T0))
