from typing import (
    TYPE_CHECKING,
    Sequence,
    Tuple,
    Union,
    cast,
)

if TYPE_CHECKING:
    from py_ecc.fields.field_elements import (
        FQ,
    )
    from py_ecc.fields.optimized_field_elements import (
        FQ as optimized_FQ,
    )


IntOrFQ = Union[int, "FQ"]


def prime_field_inv(a: int, n: int) -> int:
    """
    Extended euclidean algorithm to find modular inverses for integers
    """
    # To address a == n edge case.
    # https://tools.ietf.org/html/draft-irtf-cfrg-hash-to-curve-09#section-4
    # inv0(x): This function returns the multiplicative inverse of x in
    # F, extended to all of F by fixing inv0(0) == 0.
    a %= n

    if a == 0:
        return 0
    lm, hm = 1, 0
    low, high = a % n, n
    while low > 1:
        r = high // low
        nm, new = hm - lm * r, high - low * r
        lm, low, hm, high = nm, new, lm, low
    return lm % n


# Utility methods for polynomial math
def deg(p: Sequence[Union[int, "FQ", "optimized_FQ"]]) -> int:
    d = len(p) - 1
    while p[d] == 0 and d:
        d -= 1
    return d


def poly_rounded_div(a: Sequence[IntOrFQ], b: Sequence[IntOrFQ]) -> Tuple[IntOrFQ, ...]:
    dega = deg(a)
    degb = deg(b)
    temp = [x for x in a]
    o = [0 for x in a]
    for i in range(dega - degb, -1, -1):
        o[i] += int(temp[degb + i] / b[degb])
        for c in range(degb + 1):
            temp[c + i] -= o[c]
    return cast(Tuple[IntOrFQ, ...], tuple(o[: deg(o) + 1]))
