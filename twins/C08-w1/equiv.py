import os, sys; sys.path.insert(0, os.getcwd())  # noqa: E401,E702

"""
Equivalence demonstration for edit w1 (property C08).

Loads the pristine py_ecc/utils.py and py_ecc/fields/field_elements.py (saved
next to this script) under other module names and compares them with the edited
modules of the working tree on a broad set of inputs: return values (integer
coefficients and coefficient type names) and exception classes must coincide.
"""
import copy
import importlib.util
import random
import types
from fractions import Fraction

HERE = os.path.dirname(os.path.abspath(__file__))
PRISTINE = os.path.join(HERE, "pristine")

import py_ecc.utils as new_utils  # noqa: E402
import py_ecc.fields.field_elements as new_fe  # noqa: E402
from py_ecc.fields.field_properties import field_properties  # noqa: E402

assert os.path.abspath(new_utils.__file__).startswith(os.getcwd()), new_utils.__file__

spec = importlib.util.spec_from_file_location(
    "pristine_utils", os.path.join(PRISTINE, "utils.py")
)
old_utils = importlib.util.module_from_spec(spec)
sys.modules["pristine_utils"] = old_utils
spec.loader.exec_module(old_utils)

src = open(os.path.join(PRISTINE, "field_elements.py")).read()
assert src.count("from py_ecc.utils import") == 1
src = src.replace("from py_ecc.utils import", "from pristine_utils import")
old_fe = types.ModuleType("pristine_field_elements")
sys.modules["pristine_field_elements"] = old_fe
exec(compile(src, "pristine_field_elements.py", "exec"), old_fe.__dict__)
assert old_fe.prime_field_inv is old_utils.prime_field_inv
assert new_fe.prime_field_inv is new_utils.prime_field_inv
assert old_utils.prime_field_inv is not new_utils.prime_field_inv

# the edit must really be in place
assert open(new_utils.__file__).read() != open(
    os.path.join(PRISTINE, "utils.py")
).read(), "working tree utils.py is pristine: apply the patch first"
assert open(new_fe.__file__).read() != open(
    os.path.join(PRISTINE, "field_elements.py")
).read(), "working tree field_elements.py is pristine: apply the patch first"

rng = random.Random(0xC08)
import time
T0 = time.time()


def mark(name):
    if os.environ.get('EQUIV_TIMING'):
        print('%-8s %6.1fs' % (name, time.time() - T0))


N_CHECKS = 0
FIELD_PROPERTIES_SNAPSHOT = copy.deepcopy(field_properties)


def norm(v):
    """Turn a result into a comparable structure (value + shape + type names)."""
    if isinstance(v, (old_fe.FQ, new_fe.FQ)):
        return ("FQ", v.n, type(v.n).__name__, v.field_modulus)
    if isinstance(v, (old_fe.FQP, new_fe.FQP)):
        return (
            "FQP",
            type(v).__name__,
            tuple(norm(c) for c in v.coeffs),
            tuple(norm(c) for c in v.modulus_coeffs),
            v.degree,
        )
    if isinstance(v, (list, tuple)):
        return (type(v).__name__, tuple(norm(c) for c in v))
    return (type(v).__name__, repr(v))


def outcome(f, *args):
    try:
        return ("ok", norm(f(*args)))
    except RecursionError:
        raise
    except BaseException as e:  # noqa: B902
        return ("exc", type(e).__name__)


def same(label, f_old, f_new, args_old, args_new=None):
    global N_CHECKS
    if args_new is None:
        args_new = args_old
    before_old = norm(list(args_old))
    before_new = norm(list(args_new))
    a = outcome(f_old, *args_old)
    b = outcome(f_new, *args_new)
    N_CHECKS += 1
    if a != b:
        print("MISMATCH", label, args_old, a, b)
        sys.exit(1)
    # no mutation of the arguments
    if norm(list(args_old)) != before_old or norm(list(args_new)) != before_new:
        print("ARGUMENT MUTATED", label, args_old)
        sys.exit(1)
    return a


# --------------------------------------------------------------------------
# 1. prime_field_inv
# --------------------------------------------------------------------------
P254 = field_properties["bn128"]["field_modulus"]
P381 = field_properties["bls12_381"]["field_modulus"]
CURVE_ORDER = 21888242871839275222246405745257275088548364400416034343698204186575808495617

for n in range(-40, 41):
    for a in range(-90, 91):
        same("pfi-small", old_utils.prime_field_inv, new_utils.prime_field_inv, (a, n))

for n in (P254, P381, CURVE_ORDER, 2**255 - 19, 2**256, 2**64, 3 * P254, P254 * P381,
          -P254, 1, 2, 3):
    specials = [0, 1, 2, -1, -2, n - 1, n, n + 1, 2 * n, -n, n // 2, n // 2 + 1,
                n * n, n * n - 1, 2**600 + 1, -(2**600) - 1]
    for a in specials + [rng.randrange(-(2**520), 2**520) for _ in range(300)]:
        r = same("pfi-big", old_utils.prime_field_inv, new_utils.prime_field_inv, (a, n))
        if n in (P254, P381, CURVE_ORDER) and a % n:
            assert r[0] == "ok" and (int(r[1][1]) * a) % n == 1

# malformed operands: exception classes (and values where defined) must agree
for a, n in [(1, 0), (0, 0), (5, 0), (True, 7), (False, 7), (3, True), (2.5, 7), (3.0, 7),
             (5, 7.0), (10.0, 7.5), (float("nan"), 7), (float("inf"), 7), (3, float("inf")),
             (Fraction(3, 2), 7), (Fraction(6, 2), 7), ("3", 7), (3, "7"), (None, 7),
             (3, None), ([1], 7), (1 + 2j, 7), (b"a", 7)]:
    same("pfi-malformed", old_utils.prime_field_inv, new_utils.prime_field_inv, (a, n))

# repeated / interleaved calls give the same answers (no hidden state)
seq = [(rng.randrange(-(10**6), 10**6), rng.choice([7, 97, P254, P381, 12, 1]))
       for _ in range(200)]
first = [outcome(new_utils.prime_field_inv, *x) for x in seq]
order = list(range(len(seq))) * 2
rng.shuffle(order)
for k in order:
    assert outcome(new_utils.prime_field_inv, *seq[k]) == first[k]
    assert outcome(old_utils.prime_field_inv, *seq[k]) == first[k]


# --------------------------------------------------------------------------
mark('before: 2. deg / p')
# 2. deg / poly_rounded_div on int lists, FQ lists, mixed lists, odd shapes
# --------------------------------------------------------------------------
def make_fq(mod, p):
    return type("FQ_%d" % p, (mod.FQ,), {"field_modulus": p})


def rand_poly(length, p, kind, FQc):
    out = []
    for _ in range(length):
        c = rng.choice([0, 0, 1, p - 1, rng.randrange(p), rng.randrange(-3 * p, 3 * p)])
        if kind == "fq" or (kind == "mixed" and rng.random() < 0.5):
            c = FQc(c)
        out.append(c)
    return out


for p in (2, 3, 5, 7, 13, 101, P254, P381):
    FQ_old, FQ_new = make_fq(old_fe, p), make_fq(new_fe, p)
    for kind in ("int", "fq", "mixed"):
        for _ in range(150):
            la, lb = rng.randrange(0, 8), rng.randrange(0, 8)
            state = rng.getstate()
            a_old, b_old = rand_poly(la, p, kind, FQ_old), rand_poly(lb, p, kind, FQ_old)
            rng.setstate(state)
            a_new, b_new = rand_poly(la, p, kind, FQ_new), rand_poly(lb, p, kind, FQ_new)
            for wrap in (list, tuple):
                same("deg", old_utils.deg, new_utils.deg, (wrap(a_old),), (wrap(a_new),))
                same("prd", old_utils.poly_rounded_div, new_utils.poly_rounded_div,
                     (wrap(a_old), wrap(b_old)), (wrap(a_new), wrap(b_new)))
                same("prd-self", old_utils.poly_rounded_div, new_utils.poly_rounded_div,
                     (wrap(a_old), wrap(a_old)), (wrap(a_new), wrap(a_new)))

for a, b in [([], []), ([], [1]), ([1], []), ([0], [0]), ([0, 0, 0], [0, 0]), ([1, 2, 3], [0]),
             ([1, 2, 3], [0, 0, 0, 0, 0]), ([1], [1, 2, 3]), ([6, 4, 2], [2]), ([6, 4, 2], [0, 2]),
             ([1.5, 2.5], [0.5]), (["a", 1], [1]), ([1, 2], ["a"]), ([None], [1]), ([1, 2], [None, 3]),
             ((1, 2, 3, 4, 5, 6), (0, 0, 1)), ([5, 0, 0, 7], [3, 1]), ("abc", [1]), (None, [1]),
             ([1, 2, 3], None), ([7, 7, 7, 7], [7, 7, 7, 7]), ([-9, 4, -2, 8], [3, -2])]:
    same("prd-odd", old_utils.poly_rounded_div, new_utils.poly_rounded_div, (a, b))
    same("deg-odd", old_utils.deg, new_utils.deg, (a,))
    same("deg-odd", old_utils.deg, new_utils.deg, (b,))


# --------------------------------------------------------------------------
mark('before: 3. Field c')
# 3. Field classes: FQ division and FQP.inv / division
# --------------------------------------------------------------------------
def make_classes(mod, p, mc2=None, mc12=None, extra=()):
    out = {"FQ": make_fq(mod, p)}
    if mc2 is not None:
        out["FQ2"] = type("XFQ2", (mod.FQ2,), {"field_modulus": p, "FQ2_MODULUS_COEFFS": mc2})
    if mc12 is not None:
        out["FQ12"] = type(
            "XFQ12", (mod.FQ12,), {"field_modulus": p, "FQ12_MODULUS_COEFFS": mc12}
        )
    for name, mc in extra:
        # generic-degree extension built directly on FQP
        def init(self, coeffs, _mc=mc, _mod=mod):
            _mod.FQP.__init__(self, coeffs, _mc)

        out[name] = type(name, (mod.FQP,), {"field_modulus": p, "degree": len(mc),
                                            "__init__": init})
    return out


def check_fq(p, values, divisors):
    co, cn = make_fq(old_fe, p), make_fq(new_fe, p)
    for x in values:
        for y in divisors:
            same("fq/fq", lambda a, b: a / b, lambda a, b: a / b, (co(x), co(y)), (cn(x), cn(y)))
            same("fq/int", lambda a, b: a / b, lambda a, b: a / b, (co(x), y), (cn(x), y))
            same("int/fq", lambda a, b: a / b, lambda a, b: a / b, (x, co(y)), (x, cn(y)))
    for bad in (1.5, "2", None, [1]):
        same("fq/bad", lambda a, b: a / b, lambda a, b: a / b, (co(3), bad), (cn(3), bad))
        same("bad/fq", lambda a, b: b / a, lambda a, b: b / a, (co(3), bad), (cn(3), bad))


for p in (2, 3, 5, 7, 11, 13):
    check_fq(p, range(-p, 2 * p + 1), range(-p - 1, 2 * p + 2))
for p in (P254, P381):
    vals = [0, 1, 2, -1, p - 1, p, p + 1, p // 2, 2**600, -(2**300)] + [
        rng.randrange(p) for _ in range(12)
    ]
    check_fq(p, vals, vals)


def elems(cls_old, cls_new, coeffs):
    return cls_old(list(coeffs)), cls_new(list(coeffs))


def check_unary(cls_old, cls_new, coeffs):
    xo, xn = elems(cls_old, cls_new, coeffs)
    r = same("inv", lambda x: x.inv(), lambda x: x.inv(), (xo,), (xn,))
    # a second call on the same object, after other calls, gives the same answer
    r2 = same("inv-again", lambda x: x.inv(), lambda x: x.inv(), (xo,), (xn,))
    assert r == r2
    same("x*inv", lambda x: x * x.inv(), lambda x: x * x.inv(), (xo,), (xn,))
    same("one/x", lambda x: type(x).one() / x, lambda x: type(x).one() / x, (xo,), (xn,))
    return r


def check_binary(cls_old, cls_new, c1, c2):
    xo, xn = elems(cls_old, cls_new, c1)
    yo, yn = elems(cls_old, cls_new, c2)
    same("x/y", lambda a, b: a / b, lambda a, b: a / b, (xo, yo), (xn, yn))
    same("(x/y)*y", lambda a, b: (a / b) * b, lambda a, b: (a / b) * b, (xo, yo), (xn, yn))


def check_scalar_div(cls_old, cls_new, fq_old, fq_new, coeffs, k):
    xo, xn = elems(cls_old, cls_new, coeffs)
    same("x/int", lambda a, b: a / b, lambda a, b: a / b, (xo, k), (xn, k))
    same("x/FQ", lambda a, b: a / b, lambda a, b: a / b, (xo, fq_old(k)), (xn, fq_new(k)))


def interesting_coeffs(p, d, count):
    out = [[0] * d, [1] + [0] * (d - 1), [p - 1] * d, [-1] + [0] * (d - 1), [1] * d,
           [0] * (d - 1) + [1], [0] * (d - 1) + [p - 1], [p] * d, [p + 1] + [0] * (d - 1),
           [2**300 + i for i in range(d)], [-(3**200) - i for i in range(d)]]
    for i in range(d):
        e = [0] * d
        e[i] = rng.randrange(1, p) if p > 1 else 0
        out.append(e)
    for _ in range(count):
        kind = rng.random()
        if kind < 0.5:
            out.append([rng.randrange(p) for _ in range(d)])
        elif kind < 0.8:
            out.append([rng.choice([0, 0, 0, 1, p - 1, rng.randrange(p)]) for _ in range(d)])
        else:
            out.append([rng.randrange(-(p**2), p**2) for _ in range(d)])
    return out


mark('before: 3a. the fo')
# 3a. the four production fields, via the modulus constants of field_properties
for curve, p in (("bn128", P254), ("bls12_381", P381)):
    mc2 = field_properties[curve]["fq2_modulus_coeffs"]
    mc12 = field_properties[curve]["fq12_modulus_coeffs"]
    co = make_classes(old_fe, p, mc2, mc12)
    cn = make_classes(new_fe, p, mc2, mc12)
    for name, d, count in (("FQ2", 2, 40), ("FQ12", 12, 14)):
        cs = interesting_coeffs(p, d, count)
        for c in cs:
            r = check_unary(co[name], cn[name], c)
            if any(v % p for v in c):
                xo = co[name](c)
                assert xo * xo.inv() == co[name].one()
        for c1, c2 in zip(cs, cs[1:] + cs[:1]):
            check_binary(co[name], cn[name], c1, c2)
        for c in cs[:8]:
            for k in (0, 1, -1, p, p - 1, 2**400 + 3, rng.randrange(p)):
                check_scalar_div(co[name], cn[name], co["FQ"], cn["FQ"], c, k)
        # FQ-typed coefficients as constructor input
        for c in cs[:6]:
            xo = co[name]([co["FQ"](v) for v in c])
            xn = cn[name]([cn["FQ"](v) for v in c])
            same("inv-fqcoeffs", lambda x: x.inv(), lambda x: x.inv(), (xo,), (xn,))


mark('before: 3b. exhaus')
# 3b. exhaustive GF(p^2) for small p (x^2 + 1 where irreducible, else another modulus)
def quad_modulus(p):
    for c0 in range(p):
        for c1 in range(p):
            if all((x * x + c1 * x + c0) % p for x in range(p)):
                yield (c0, c1)


for p in (2, 3, 5, 7, 11, 13):
    mods = list(quad_modulus(p))
    for mc2 in mods[:1] + mods[-1:]:
        co = make_classes(old_fe, p, mc2)
        cn = make_classes(new_fe, p, mc2)
        all_elems = [(a, b) for a in range(p) for b in range(p)]
        for c in all_elems:
            r = check_unary(co["FQ2"], cn["FQ2"], c)
            if c != (0, 0):
                xo = co["FQ2"](list(c))
                assert xo * xo.inv() == co["FQ2"].one(), (p, mc2, c)
        pairs = all_elems if p <= 7 else rng.sample(all_elems, 25)
        for c1 in pairs:
            for c2 in all_elems:
                check_binary(co["FQ2"], cn["FQ2"], c1, c2)
        for c in all_elems[: 3 * p]:
            for k in range(-p, 2 * p + 1):
                check_scalar_div(co["FQ2"], cn["FQ2"], co["FQ"], cn["FQ"], c, k)

mark('before: 3c. reduci')
# 3c. reducible quadratic moduli: the Euclid loop still terminates, results agree
for p, mc2 in ((3, (2, 0)), (5, (4, 0)), (7, (0, 0)), (7, (6, 0)), (2, (0, 1)), (11, (1, 2))):
    co = make_classes(old_fe, p, mc2)
    cn = make_classes(new_fe, p, mc2)
    for a in range(p):
        for b in range(p):
            check_unary(co["FQ2"], cn["FQ2"], (a, b))


mark('before: 3d. degree')
# 3d. degree-12 extensions of GF(2), GF(3), GF(5), GF(7) and other degrees
def find_modulus(p, d, want_field):
    """random monic modulus of degree d; if want_field, one for which sampled
    non-zero elements all have x * inv(x) == 1 in the pristine implementation."""
    while True:
        mc = tuple([rng.randrange(1, p)] + [rng.randrange(p) for _ in range(d - 1)])
        if not want_field:
            return mc
        cls = make_classes(old_fe, p, extra=(("EXT", mc),))["EXT"]
        one = cls([1] + [0] * (d - 1))
        ok = True
        for _ in range(60):
            c = [rng.randrange(p) for _ in range(d)]
            if any(c) and (cls(c) * cls(c).inv()) != one:
                ok = False
                break
        if ok:
            return mc


for p in (2, 3, 5, 7):
    for want_field in (True, False):
        mc12 = find_modulus(p, 12, want_field)
        co = make_classes(old_fe, p, None, mc12)
        cn = make_classes(new_fe, p, None, mc12)
        cs = interesting_coeffs(p, 12, 45)
        for c in cs:
            check_unary(co["FQ12"], cn["FQ12"], c)
        for c1, c2 in zip(cs[:40], cs[7:47]):
            check_binary(co["FQ12"], cn["FQ12"], c1, c2)
        for c in cs[:10]:
            for k in range(-p, 2 * p + 1):
                check_scalar_div(co["FQ12"], cn["FQ12"], co["FQ"], cn["FQ"], c, k)

mark('before: the known')
# the known trinomial x^12 + x^3 + 1 over GF(2): all 4096 elements
co = make_classes(old_fe, 2, None, (1, 0, 0, 1) + (0,) * 8)
cn = make_classes(new_fe, 2, None, (1, 0, 0, 1) + (0,) * 8)
for v in range(4096):
    c = [(v >> i) & 1 for i in range(12)]
    if v % 16 == 5:
        check_unary(co["FQ12"], cn["FQ12"], c)
    else:
        xo, xn = elems(co["FQ12"], cn["FQ12"], c)
        same("inv", lambda x: x.inv(), lambda x: x.inv(), (xo,), (xn,))

mark('before: generic de')
# generic degrees 1, 3, 4, 6 built directly on FQP (type(self)(coeffs) inside inv keeps
# working because the subclass supplies the modulus), and raw FQP instances for which
# inv() fails in the constructor call: the exception class must be the same
for p in (3, 7, 101, P254):
    for d in (1, 3, 4, 6):
        mc = find_modulus(p, d, False)
        co = make_classes(old_fe, p, extra=(("EXT", mc),))
        cn = make_classes(new_fe, p, extra=(("EXT", mc),))
        for c in interesting_coeffs(p, d, 25):
            check_unary(co["EXT"], cn["EXT"], c)
        rawo = type("RAW", (old_fe.FQP,), {"field_modulus": p})
        rawn = type("RAW", (new_fe.FQP,), {"field_modulus": p})
        for c in interesting_coeffs(p, d, 3):
            same("raw-inv", lambda x: x.inv(), lambda x: x.inv(),
                 (rawo(c, mc),), (rawn(c, mc),))
    rawo = type("RAW", (old_fe.FQP,), {"field_modulus": p})
    rawn = type("RAW", (new_fe.FQP,), {"field_modulus": p})
    same("raw-empty-inv", lambda x: x.inv(), lambda x: x.inv(), (rawo([], []),), (rawn([], []),))

mark('before: 3e. the li')
# 3e. the library's own curve classes (edited tree) still agree with pristine classes
from py_ecc.fields import (  # noqa: E402
    bls12_381_FQ2,
    bls12_381_FQ12,
    bn128_FQ2,
    bn128_FQ12,
)

for lib_cls, curve, key, attr, d in (
    (bn128_FQ2, "bn128", "fq2_modulus_coeffs", "FQ2", 2),
    (bn128_FQ12, "bn128", "fq12_modulus_coeffs", "FQ12", 12),
    (bls12_381_FQ2, "bls12_381", "fq2_modulus_coeffs", "FQ2", 2),
    (bls12_381_FQ12, "bls12_381", "fq12_modulus_coeffs", "FQ12", 12),
):
    p = field_properties[curve]["field_modulus"]
    kw = {"mc2": field_properties[curve][key]} if d == 2 else {"mc12": field_properties[curve][key]}
    co = make_classes(old_fe, p, **kw)[attr]
    for c in interesting_coeffs(p, d, 6):
        a = outcome(lambda: co(c).inv())
        b = outcome(lambda: lib_cls(c).inv())
        assert a[0] == b[0] == "ok" and a[1][2:] == b[1][2:], (a, b)
        N_CHECKS += 1

assert field_properties == FIELD_PROPERTIES_SNAPSHOT, "module-level constants were modified"
print("w1 equivalence: %d comparisons identical" % N_CHECKS)
sys.exit(0)
