import os, sys; sys.path.insert(0, os.getcwd())  # noqa: E401,E702

# Equivalence demonstration for edit p1 (C07):
#   - twist() uses module-level precomputed powers / inverse powers of w
#   - reference add() computes the common term -m * newx once
# Compares the edited modules of the working tree with the pristine copies saved
# next to this script, on the same inputs and the same call sequences.

import importlib
import importlib.util
import random

HERE = os.path.dirname(os.path.abspath(__file__))
random.seed(0xC07)

MODULES = {
    "bn128": ("py_ecc.bn128.bn128_curve", "bn128_bn128_curve.py", False),
    "bls12_381": ("py_ecc.bls12_381.bls12_381_curve", "bls12_381_bls12_381_curve.py", False),
    "optimized_bn128": (
        "py_ecc.optimized_bn128.optimized_curve",
        "optimized_bn128_optimized_curve.py",
        True,
    ),
}


def load_pristine(tag, filename):
    spec = importlib.util.spec_from_file_location(
        "pristine_" + tag, os.path.join(HERE, "pristine", filename)
    )
    mod = importlib.util.module_from_spec(spec)
    spec.loader.exec_module(mod)
    return mod


def canon(v):
    """Structural, type-aware canonical form of a result."""
    if v is None or isinstance(v, (bool, int, str)):
        return (type(v).__name__, v)
    if isinstance(v, (tuple, list)):
        return (type(v).__name__, tuple(canon(e) for e in v))
    if hasattr(v, "coeffs"):
        return (type(v).__name__, tuple(int(c) for c in v.coeffs))
    if hasattr(v, "n"):
        return (type(v).__name__, int(v.n))
    return (type(v).__name__, repr(v))


def run(fn, *args):
    try:
        return ("ok", canon(fn(*args)))
    except RecursionError:
        return ("exc", "RecursionError")
    except Exception as e:  # noqa: BLE001
        return ("exc", type(e).__name__)


n_checks = 0


def same(tag, name, new_mod, old_mod, *args):
    global n_checks
    before = canon(args)
    a = run(getattr(new_mod, name), *args)
    mid = canon(args)
    b = run(getattr(old_mod, name), *args)
    assert before == mid == canon(args), (tag, name, "argument mutated")
    assert a == b, (tag, name, args, a, b)
    n_checks += 1
    return a


def rand_fq2_pair(m):
    p = m.field_modulus
    return (
        m.FQ2([random.randrange(p), random.randrange(p)]),
        m.FQ2([random.randrange(p), random.randrange(p)]),
    )


def rescale(m, pt, optimized):
    """Another projective representative of the same point (optimized only)."""
    if not optimized:
        return pt
    lam = m.FQ2([random.randrange(1, m.field_modulus), random.randrange(m.field_modulus)])
    return tuple(c * lam for c in pt)


for tag, (modname, filename, optimized) in MODULES.items():
    new = importlib.import_module(modname)
    old = load_pristine(tag, filename)
    assert new is not old and new.__file__ != old.__file__
    r, p = new.curve_order, new.field_modulus

    # module-level data is untouched
    for const in ("field_modulus", "curve_order", "b", "b2", "b12", "G1", "G2", "G12", "w", "Z1", "Z2"):
        assert canon(getattr(new, const)) == canon(getattr(old, const)), (tag, const)
    consts_before = {
        k: canon(v) for k, v in vars(new).items() if k.startswith("w") or k in ("G1", "G2", "G12", "b", "b2", "b12")
    }

    G1, G2, G12 = new.G1, new.G2, new.G12
    if optimized:
        inf1, inf2 = new.Z1, new.Z2
        inf12 = (new.FQ12.one(), new.FQ12.one(), new.FQ12.zero())
        odd_infs = [(new.FQ2.zero(), new.FQ2.zero(), new.FQ2.zero()),
                    (new.FQ2([5, 7]), new.FQ2([0, 3]), new.FQ2.zero())]
    else:
        inf1 = inf2 = inf12 = None
        odd_infs = []

    scalars = [0, 1, 2, 3, r - 1, r, r + 1, 2 * p - r, random.getrandbits(640), random.getrandbits(255)]

    # ---------------- twist ----------------
    g2_points = [G2, inf2] + odd_infs
    for n in [2, 3, r - 1, random.getrandbits(200)]:
        g2_points.append(new.multiply(G2, n))
    g2_points.append(new.neg(G2))
    g2_points.append(new.double(G2))
    # arbitrary coordinates: off-curve / outside the subgroup; twist is defined on them too
    for _ in range(6):
        xy = rand_fq2_pair(new)
        g2_points.append(xy + (new.FQ2.one(),) if optimized else xy)
    # coordinates with zero components
    z2 = new.FQ2.zero()
    o2 = new.FQ2.one()
    g2_points.append((z2, o2, o2) if optimized else (z2, o2))
    g2_points.append((o2, z2, o2) if optimized else (o2, z2))
    g2_points.append((z2, z2, o2) if optimized else (z2, z2))
    if optimized:
        g2_points += [rescale(new, pt, True) for pt in list(g2_points[:8])]

    malformed = [
        G1, G12, (1, 2), (1, 2, 3), (), (G2[0],), G2 + (G2[0],), 5, "ab", [G2[0], G2[1]],
        (G2[0], 7), (None, None), (None, None, None), None, new.FQ2([1, 2]), G2[:2], G2 + (new.FQ2.one(),),
    ]

    # repeat and interleave: the same argument several times, in shuffled order,
    # interleaved with malformed calls
    seq = g2_points + malformed + g2_points[:6]
    random.shuffle(seq)
    seq = seq + [G2, G2, inf2, G2]
    results = {}
    for pt in seq:
        res = same(tag, "twist", new, old, pt)
        key = repr(canon(pt))
        # history independence: an equal argument always gives an equal result
        assert results.setdefault(key, res) == res, (tag, "twist history", pt)

    # twisted points are valid inputs of the group operations in both versions
    t_new, t_old = new.twist(G2), old.twist(G2)
    assert canon(t_new) == canon(t_old) == canon(new.G12)
    assert new.is_on_curve(t_new, new.b12)
    t3 = new.twist(new.multiply(G2, 3))
    for mod in (new, old):
        lhs = mod.multiply(t_new, 3)
        assert mod.eq(lhs, t3) if optimized else lhs == t3

    # ---------------- add / double / neg / multiply ----------------
    groups = [
        ("G1", G1, inf1, new.b),
        ("G2", G2, inf2, new.b2),
        ("G12", G12, inf12, new.b12),
    ]
    for gname, G, inf, coeff_b in groups:
        big = gname != "G12"
        pts = [inf, G, new.double(G), new.neg(G), new.multiply(G, 3)]
        if big:
            pts.append(new.multiply(G, r - 1))
            pts += [new.multiply(G, random.getrandbits(120)) for _ in range(3)]
        # off-curve point (still accepted by add/double: no on-curve check is made)
        one = G[0].one()
        off = (G[0] + one, G[1]) + tuple(G[2:])
        pts.append(off)
        # y == 0 point (order 2 on its own curve)
        pts.append((G[0], G[1].zero()) + tuple(G[2:]))
        for a in pts:
            same(tag, "double", new, old, a)
            same(tag, "neg", new, old, a)
            for c in pts:
                same(tag, "add", new, old, a, c)
        # associativity / commutativity observed identically
        trip = pts[1:5] if big else pts[1:3]
        for a in trip:
            for c in trip:
                for d in trip[:2]:
                    x = run(new.add, new.add(a, c), d)
                    y = run(old.add, old.add(a, c), d)
                    assert x == y
                    n_checks += 1
        ns = scalars if big else [0, 1, 2, 3, 11, random.getrandbits(24)]
        for n in ns:
            same(tag, "multiply", new, old, G, n)
            same(tag, "multiply", new, old, inf, n)
        same(tag, "multiply", new, old, off, 7)
        # order: r * G is infinity in both
        if big:
            assert new.is_inf(new.multiply(G, r)) and old.is_inf(old.multiply(G, r))

    # malformed operands of add
    bad_pairs = [
        (G1, G2), (G2, G1), (G1, (1, 2)), ((1, 2), (3, 4)), ((1, 2, 1), (3, 4, 1)), (G1, 5), (5, G1),
        (G1, ()), ((), G1), (G1, G1 + (G1[0],)), (G1, "ab"), (G12, G2), (inf1, 5), (5, inf1),
        (G1, (None, None)), (G1, (None, None, None)), (G1, None), (None, G1), (None, None),
        ((3, 4), (3, 4)), ((3, 4), (3, 5)), ((3, 4, 1), (3, 4, 1)),
    ]
    for a, c in bad_pairs:
        same(tag, "add", new, old, a, c)
    # (negative n is left out: multiply() is untouched by this edit and, with the
    # recursion limit of 100000 that py_ecc sets, it needs 100000 doublings before
    # RecursionError is raised in either version)
    for n in (1.0, 2.5, True, False, None, "3", new.FQ(3)):
        same(tag, "multiply", new, old, G1, n)

    # module constants (incl. the new precomputed ones) unchanged by all of the above
    consts_after = {
        k: canon(v) for k, v in vars(new).items() if k.startswith("w") or k in ("G1", "G2", "G12", "b", "b2", "b12")
    }
    assert consts_before == consts_after, tag
    # the precomputed values are what the pristine expressions compute
    if hasattr(new, "w_squared"):
        assert canon(new.w_squared) == canon(old.w**2) and canon(new.w_cubed) == canon(old.w**3)
    if hasattr(new, "w_squared_inv"):
        assert canon(new.w_squared_inv) == canon((old.w**2).inv())
        assert canon(new.w_cubed_inv) == canon((old.w**3).inv())
        assert new.w_squared_inv * old.w**2 == new.FQ12.one()
    print(tag, "ok")

print("p1 equivalent on", n_checks, "paired calls")
