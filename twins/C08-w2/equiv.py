import os, sys; sys.path.insert(0, os.getcwd())  # noqa: E401,E702

# Equivalence demonstration for edit w2 (property C08).
#
# Loads the pristine py_ecc/fields/optimized_field_elements.py (saved next to this
# script) under another module name and compares it with the edited module of the
# working tree on a broad set of inputs: return values (integer coefficients and
# coefficient type names) and exception classes must coincide.
import copy
import importlib.util
import random
import time

HERE = os.path.dirname(os.path.abspath(__file__))
PRISTINE = os.path.join(HERE, "pristine")

import py_ecc.fields.optimized_field_elements as new_fe  # noqa: E402
from py_ecc.fields.field_properties import field_properties  # noqa: E402

assert os.path.abspath(new_fe.__file__).startswith(os.getcwd()), new_fe.__file__

spec = importlib.util.spec_from_file_location(
    "pristine_optimized_field_elements",
    os.path.join(PRISTINE, "optimized_field_elements.py"),
)
old_fe = importlib.util.module_from_spec(spec)
sys.modules["pristine_optimized_field_elements"] = old_fe
spec.loader.exec_module(old_fe)
assert old_fe.FQP is not new_fe.FQP

# the edit must really be in place
assert open(new_fe.__file__).read() != open(
    os.path.join(PRISTINE, "optimized_field_elements.py")
).read(), "working tree optimized_field_elements.py is pristine: apply the patch first"

rng = random.Random(0xC0802)
T0 = time.time()
N_CHECKS = 0
FIELD_PROPERTIES_SNAPSHOT = copy.deepcopy(field_properties)


def mark(name):
    if os.environ.get("EQUIV_TIMING"):
        print("%-12s %6.1fs" % (name, time.time() - T0))


def norm(v):
    """Turn a result into a comparable structure (value + shape + type names)."""
    if isinstance(v, (old_fe.FQ, new_fe.FQ)):
        return ("FQ", v.n, type(v.n).__name__, v.field_modulus)
    if isinstance(v, (old_fe.FQP, new_fe.FQP)):
        return (
            "FQP",
            type(v).__name__,
            tuple(norm(c) for c in v.coeffs),
            tuple(norm(c) for c in v.modulus_coeffs),
            v.degree,
        )
    if isinstance(v, (list, tuple)):
        return (type(v).__name__, tuple(norm(c) for c in v))
    return (type(v).__name__, repr(v))


def outcome(f, *args):
    try:
        return ("ok", norm(f(*args)))
    except RecursionError:
        raise
    except BaseException as e:  # noqa: B902
        return ("exc", type(e).__name__)


def same(label, f_old, f_new, args_old, args_new=None):
    global N_CHECKS
    if args_new is None:
        args_new = args_old
    before_old = norm(list(args_old))
    before_new = norm(list(args_new))
    a = outcome(f_old, *args_old)
    b = outcome(f_new, *args_new)
    N_CHECKS += 1
    if a != b:
        print("MISMATCH", label, args_old, a, b)
        sys.exit(1)
    if norm(list(args_old)) != before_old or norm(list(args_new)) != before_new:
        print("ARGUMENT MUTATED", label, args_old)
        sys.exit(1)
    return a


P254 = field_properties["bn128"]["field_modulus"]
P381 = field_properties["bls12_381"]["field_modulus"]


def make_fq(mod, p):
    return type("FQ_%d" % p, (mod.FQ,), {"field_modulus": p})


def make_classes(mod, p, mc2=None, mc12=None, extra=()):
    out = {"FQ": make_fq(mod, p)}
    if mc2 is not None:
        out["FQ2"] = type("XFQ2", (mod.FQ2,), {"field_modulus": p, "FQ2_MODULUS_COEFFS": mc2})
    if mc12 is not None:
        out["FQ12"] = type(
            "XFQ12", (mod.FQ12,), {"field_modulus": p, "FQ12_MODULUS_COEFFS": mc12}
        )
    for name, mc in extra:
        # generic-degree extension built directly on FQP
        def init(self, coeffs, _mc=mc, _mod=mod):
            self.mc_tuples = [(i, c) for i, c in enumerate(_mc) if c]
            _mod.FQP.__init__(self, coeffs, _mc)

        out[name] = type(name, (mod.FQP,), {"field_modulus": p, "degree": len(mc),
                                            "__init__": init})
    return out


# --------------------------------------------------------------------------
# 1. optimized_poly_rounded_div called directly
# --------------------------------------------------------------------------
def rand_poly(length, p, kind, FQc):
    out = []
    for _ in range(length):
        c = rng.choice([0, 0, 1, p - 1, rng.randrange(p), rng.randrange(-3 * p, 3 * p)])
        if kind == "fq" or (kind == "mixed" and rng.random() < 0.5):
            c = FQc(c)
        out.append(c)
    return out


def oprd(x, a, b):
    return x.optimized_poly_rounded_div(a, b)


for p in (2, 3, 5, 7, 13, 101, P254, P381):
    co = make_classes(old_fe, p, (1, 0))
    cn = make_classes(new_fe, p, (1, 0))
    xo, xn = co["FQ2"]([1, 2]), cn["FQ2"]([1, 2])
    for kind in ("int", "fq", "mixed"):
        for _ in range(150):
            la, lb = rng.randrange(0, 8), rng.randrange(0, 8)
            state = rng.getstate()
            a_old, b_old = rand_poly(la, p, kind, co["FQ"]), rand_poly(lb, p, kind, co["FQ"])
            rng.setstate(state)
            a_new, b_new = rand_poly(la, p, kind, cn["FQ"]), rand_poly(lb, p, kind, cn["FQ"])
            for wrap in (list, tuple):
                same("oprd", oprd, oprd, (xo, wrap(a_old), wrap(b_old)),
                     (xn, wrap(a_new), wrap(b_new)))
                same("oprd-self", oprd, oprd, (xo, wrap(a_old), wrap(a_old)),
                     (xn, wrap(a_new), wrap(a_new)))
    for a, b in [([], []), ([], [1]), ([1], []), ([0], [0]), ([0, 0, 0], [0, 0]),
                 ([1, 2, 3], [0]), ([1, 2, 3], [0, 0, 0, 0, 0]), ([1], [1, 2, 3]),
                 ([6, 4, 2], [2]), ([6, 4, 2], [0, 2]), ([None], [1]), ([1, 2], [None, 3]),
                 ((1, 2, 3, 4, 5, 6), (0, 0, 1)), ([5, 0, 0, 7], [3, 1]), (None, [1]),
                 ([1, 2, 3], None), ([7, 7, 7, 7], [7, 7, 7, 7]), ([-9, 4, -2, 8], [3, -2]),
                 ([1.5, 2.5], [2]), ([True, False, True], [True, True])]:
        same("oprd-odd", oprd, oprd, (xo, a, b), (xn, a, b))
mark("oprd")


# --------------------------------------------------------------------------
# 2. FQ division (shares prime_field_inv; untouched by the edit, checked anyway)
# --------------------------------------------------------------------------
def check_fq(p, values, divisors):
    co, cn = make_fq(old_fe, p), make_fq(new_fe, p)
    for x in values:
        for y in divisors:
            same("fq/fq", lambda a, b: a / b, lambda a, b: a / b, (co(x), co(y)), (cn(x), cn(y)))
            same("fq/int", lambda a, b: a / b, lambda a, b: a / b, (co(x), y), (cn(x), y))
            same("int/fq", lambda a, b: a / b, lambda a, b: a / b, (x, co(y)), (x, cn(y)))
    for bad in (1.5, "2", None, [1]):
        same("fq/bad", lambda a, b: a / b, lambda a, b: a / b, (co(3), bad), (cn(3), bad))
        same("bad/fq", lambda a, b: b / a, lambda a, b: b / a, (co(3), bad), (cn(3), bad))


for p in (2, 3, 7, 13):
    check_fq(p, range(-p, 2 * p + 1), range(-p - 1, 2 * p + 2))
for p in (P254, P381):
    vals = [0, 1, -1, p - 1, p, p + 1, 2**600] + [rng.randrange(p) for _ in range(5)]
    check_fq(p, vals, vals)
mark("fq")


# --------------------------------------------------------------------------
# 3. FQP.inv and FQP division
# --------------------------------------------------------------------------
def elems(cls_old, cls_new, coeffs):
    return cls_old(list(coeffs)), cls_new(list(coeffs))


def check_unary(cls_old, cls_new, coeffs, full=True):
    xo, xn = elems(cls_old, cls_new, coeffs)
    r = same("inv", lambda x: x.inv(), lambda x: x.inv(), (xo,), (xn,))
    if not full:
        return r
    # a second call on the same object, after other calls, gives the same answer
    r2 = same("inv-again", lambda x: x.inv(), lambda x: x.inv(), (xo,), (xn,))
    assert r == r2
    same("x*inv", lambda x: x * x.inv(), lambda x: x * x.inv(), (xo,), (xn,))
    same("one/x", lambda x: type(x).one() / x, lambda x: type(x).one() / x, (xo,), (xn,))
    return r


def check_binary(cls_old, cls_new, c1, c2):
    xo, xn = elems(cls_old, cls_new, c1)
    yo, yn = elems(cls_old, cls_new, c2)
    same("x/y", lambda a, b: a / b, lambda a, b: a / b, (xo, yo), (xn, yn))
    same("(x/y)*y", lambda a, b: (a / b) * b, lambda a, b: (a / b) * b, (xo, yo), (xn, yn))


def check_scalar_div(cls_old, cls_new, fq_old, fq_new, coeffs, k):
    xo, xn = elems(cls_old, cls_new, coeffs)
    same("x/int", lambda a, b: a / b, lambda a, b: a / b, (xo, k), (xn, k))
    same("x/bool", lambda a, b: a / b, lambda a, b: a / b, (xo, bool(k)), (xn, bool(k)))
    # not accepted by the optimized classes: same TypeError in both
    same("x/FQ", lambda a, b: a / b, lambda a, b: a / b, (xo, fq_old(k)), (xn, fq_new(k)))
    same("x/float", lambda a, b: a / b, lambda a, b: a / b, (xo, 1.5), (xn, 1.5))
    # FQ-typed coefficients (kept un-normalised by the optimized constructor)
    xo = cls_old([fq_old(v) for v in coeffs])
    xn = cls_new([fq_new(v) for v in coeffs])
    same("xfq/int", lambda a, b: a / b, lambda a, b: a / b, (xo, k), (xn, k))


def interesting_coeffs(p, d, count):
    out = [[0] * d, [1] + [0] * (d - 1), [p - 1] * d, [-1] + [0] * (d - 1), [1] * d,
           [0] * (d - 1) + [1], [0] * (d - 1) + [p - 1], [p] * d, [p + 1] + [0] * (d - 1),
           [2**300 + i for i in range(d)], [-(3**200) - i for i in range(d)]]
    for i in range(d):
        e = [0] * d
        e[i] = rng.randrange(1, p) if p > 1 else 0
        out.append(e)
    for _ in range(count):
        kind = rng.random()
        if kind < 0.5:
            out.append([rng.randrange(p) for _ in range(d)])
        elif kind < 0.8:
            out.append([rng.choice([0, 0, 0, 1, p - 1, rng.randrange(p)]) for _ in range(d)])
        else:
            out.append([rng.randrange(-(p**2), p**2) for _ in range(d)])
    return out


# 3a. the four production fields, via the modulus constants of field_properties
for curve, p in (("bn128", P254), ("bls12_381", P381)):
    mc2 = field_properties[curve]["fq2_modulus_coeffs"]
    mc12 = field_properties[curve]["fq12_modulus_coeffs"]
    co = make_classes(old_fe, p, mc2, mc12)
    cn = make_classes(new_fe, p, mc2, mc12)
    for name, d, count in (("FQ2", 2, 200), ("FQ12", 12, 80)):
        cs = interesting_coeffs(p, d, count)
        for c in cs:
            check_unary(co[name], cn[name], c)
            if any(v % p for v in c):
                xo = co[name](c)
                assert xo * xo.inv() == co[name].one()
        for c1, c2 in zip(cs, cs[1:] + cs[:1]):
            check_binary(co[name], cn[name], c1, c2)
        for c in cs[:8]:
            for k in (0, 1, -1, p, p - 1, 2**400 + 3, rng.randrange(p)):
                check_scalar_div(co[name], cn[name], co["FQ"], cn["FQ"], c, k)
        # FQ-typed coefficients as constructor input (first Euclid step sees FQ objects)
        for c in cs[:14]:
            xo = co[name]([co["FQ"](v) for v in c])
            xn = cn[name]([cn["FQ"](v) for v in c])
            same("inv-fqcoeffs", lambda x: x.inv(), lambda x: x.inv(), (xo,), (xn,))
            yo, yn = elems(co[name], cn[name], cs[3])
            same("int/fqcoeffs", lambda a, b: a / b, lambda a, b: a / b, (yo, xo), (yn, xn))
mark("3a")


# 3b. exhaustive GF(p^2) for small p
def quad_modulus(p):
    for c0 in range(p):
        for c1 in range(p):
            if all((x * x + c1 * x + c0) % p for x in range(p)):
                yield (c0, c1)


for p in (2, 3, 5, 7, 11, 13):
    mods = list(quad_modulus(p))
    for mc2 in mods[:2] + mods[-1:]:
        co = make_classes(old_fe, p, mc2)
        cn = make_classes(new_fe, p, mc2)
        all_elems = [(a, b) for a in range(p) for b in range(p)]
        for c in all_elems:
            check_unary(co["FQ2"], cn["FQ2"], c)
            if c != (0, 0):
                xo = co["FQ2"](list(c))
                assert xo * xo.inv() == co["FQ2"].one(), (p, mc2, c)
            xo = co["FQ2"]([co["FQ"](v) for v in c])
            xn = cn["FQ2"]([cn["FQ"](v) for v in c])
            same("inv-fqcoeffs", lambda x: x.inv(), lambda x: x.inv(), (xo,), (xn,))
        pairs = all_elems if p <= 7 else rng.sample(all_elems, 25)
        for c1 in pairs:
            for c2 in all_elems:
                check_binary(co["FQ2"], cn["FQ2"], c1, c2)
        for c in all_elems[: 3 * p]:
            for k in range(-p, 2 * p + 1):
                check_scalar_div(co["FQ2"], cn["FQ2"], co["FQ"], cn["FQ"], c, k)
mark("3b")

# 3c. reducible quadratic moduli: the Euclid loop still terminates, results agree
for p, mc2 in ((3, (2, 0)), (5, (4, 0)), (7, (0, 0)), (7, (6, 0)), (2, (0, 1)), (11, (1, 2))):
    co = make_classes(old_fe, p, mc2)
    cn = make_classes(new_fe, p, mc2)
    for a in range(p):
        for b in range(p):
            check_unary(co["FQ2"], cn["FQ2"], (a, b))
mark("3c")


# 3d. degree-12 extensions of GF(2), GF(3), GF(5), GF(7) and other degrees
def find_modulus(p, d, want_field):
    """random monic modulus of degree d; if want_field, one for which sampled
    non-zero elements all have x * inv(x) == 1 in the pristine implementation."""
    while True:
        mc = tuple([rng.randrange(1, p)] + [rng.randrange(p) for _ in range(d - 1)])
        if not want_field:
            return mc
        cls = make_classes(old_fe, p, extra=(("EXT", mc),))["EXT"]
        one = cls([1] + [0] * (d - 1))
        ok = True
        for _ in range(60):
            c = [rng.randrange(p) for _ in range(d)]
            if any(c) and (cls(c) * cls(c).inv()) != one:
                ok = False
                break
        if ok:
            return mc


for p in (2, 3, 5, 7):
    for want_field in (True, False):
        mc12 = find_modulus(p, 12, want_field)
        co = make_classes(old_fe, p, None, mc12)
        cn = make_classes(new_fe, p, None, mc12)
        cs = interesting_coeffs(p, 12, 150)
        for c in cs:
            check_unary(co["FQ12"], cn["FQ12"], c)
        for c1, c2 in zip(cs[:60], cs[7:67]):
            check_binary(co["FQ12"], cn["FQ12"], c1, c2)
        for c in cs[:10]:
            for k in range(-p, 2 * p + 1):
                check_scalar_div(co["FQ12"], cn["FQ12"], co["FQ"], cn["FQ"], c, k)
mark("3d")

# the known trinomial x^12 + x^3 + 1 over GF(2): all 4096 elements
co = make_classes(old_fe, 2, None, (1, 0, 0, 1) + (0,) * 8)
cn = make_classes(new_fe, 2, None, (1, 0, 0, 1) + (0,) * 8)
for v in range(4096):
    c = [(v >> i) & 1 for i in range(12)]
    check_unary(co["FQ12"], cn["FQ12"], c, full=(v % 16 == 5))
mark("gf4096")

# generic degrees 1, 3, 4, 6 built directly on FQP, and raw FQP instances for which
# inv() fails (no mc_tuples / constructor arity): the exception class must be the same
for p in (3, 7, 101, P254):
    for d in (1, 3, 4, 6):
        mc = find_modulus(p, d, False)
        co = make_classes(old_fe, p, extra=(("EXT", mc),))
        cn = make_classes(new_fe, p, extra=(("EXT", mc),))
        for c in interesting_coeffs(p, d, 25):
            check_unary(co["EXT"], cn["EXT"], c)
        rawo = type("RAW", (old_fe.FQP,), {"field_modulus": p})
        rawn = type("RAW", (new_fe.FQP,), {"field_modulus": p})
        for c in interesting_coeffs(p, d, 3):
            same("raw-inv", lambda x: x.inv(), lambda x: x.inv(),
                 (rawo(c, mc),), (rawn(c, mc),))
            same("raw-div", lambda x: x / 3, lambda x: x / 3, (rawo(c, mc),), (rawn(c, mc),))
    same("raw-empty", lambda m: m.FQP([], []), lambda m: m.FQP([], []), (old_fe,), (new_fe,))
mark("generic")

# 3e. the library's own curve classes (edited tree) still agree with pristine classes,
# and sgn0 caches on the operands do not interfere with repeated inversions
from py_ecc.fields import (  # noqa: E402
    optimized_bls12_381_FQ2,
    optimized_bls12_381_FQ12,
    optimized_bn128_FQ2,
    optimized_bn128_FQ12,
)

for lib_cls, curve, key, attr, d in (
    (optimized_bn128_FQ2, "bn128", "fq2_modulus_coeffs", "FQ2", 2),
    (optimized_bn128_FQ12, "bn128", "fq12_modulus_coeffs", "FQ12", 12),
    (optimized_bls12_381_FQ2, "bls12_381", "fq2_modulus_coeffs", "FQ2", 2),
    (optimized_bls12_381_FQ12, "bls12_381", "fq12_modulus_coeffs", "FQ12", 12),
):
    p = field_properties[curve]["field_modulus"]
    kw = ({"mc2": field_properties[curve][key]} if d == 2
          else {"mc12": field_properties[curve][key]})
    co = make_classes(old_fe, p, **kw)[attr]
    for c in interesting_coeffs(p, d, 6):
        xo, xn = co(c), lib_cls(c)
        a = outcome(lambda: xo.inv())
        assert xo.sgn0 == xn.sgn0
        b = outcome(lambda: xn.inv())
        b2 = outcome(lambda: xn.inv())
        assert a[0] == b[0] == "ok" and a[1][2:] == b[1][2:] == b2[1][2:], (a, b)
        N_CHECKS += 1

assert field_properties == FIELD_PROPERTIES_SNAPSHOT, "module-level constants were modified"
print("w2 equivalence: %d comparisons identical" % N_CHECKS)
sys.exit(0)
