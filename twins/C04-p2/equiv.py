import os, sys; sys.path.insert(0, os.getcwd())  # noqa: E401,E702

"""
Equivalence demonstration for twin C04/p2 (one shared octet-string gate behind
_is_valid_pubkey / _is_valid_message / _is_valid_signature; one shared
"decode signature + subgroup check" helper for _CoreVerify/_CoreAggregateVerify).

Run as:  cd /tmp/wt2/C04 && /venv/bin/python /tmp/twin2/C04/p2/equiv.py

Loads the pristine py_ecc/bls/ciphersuites.py (saved next to this script) under
another module name and compares it with the module of the working tree on
  * the three gates _is_valid_pubkey/_is_valid_message/_is_valid_signature of
    every suite on byte strings of every length 0..200 and on non-bytes values,
  * KeyValidate for a large corpus of well-formed and malformed keys,
  * Verify / AggregateVerify / FastAggregateVerify / PopVerify of the three
    suites for malformed keys, malformed signatures, bad keys in every list
    position and a handful of complete (valid / forged) verifications,
  * call histories that repeat and interleave equal and different arguments,
    plus a sweep of random 48-byte keys,
  * the arguments that reach `pairing` (recorded by a wrapper).
Results must be equal, of the same type, and exceptions of the same class.
"""

import importlib.util
import random
import time

HERE = os.path.dirname(os.path.abspath(__file__))
T0 = time.time()

import py_ecc  # noqa: E402

assert os.path.abspath(py_ecc.__file__).startswith(os.getcwd()), py_ecc.__file__

from py_ecc.bls import ciphersuites as NEW  # noqa: E402
from py_ecc.bls.g2_primitives import (  # noqa: E402
    G1_to_pubkey,
    G2_to_signature,
    pubkey_to_G1,
    signature_to_G2,
    subgroup_check,
)
from py_ecc.bls.point_compression import (  # noqa: E402
    compress_G1,
    compress_G2,
    decompress_G1,
    decompress_G2,
)
from py_ecc.optimized_bls12_381 import (  # noqa: E402
    G1,
    G2,
    add,
    b,
    b2,
    curve_order,
    field_modulus as q,
    is_inf,
    is_on_curve,
    multiply,
    normalize,
)

spec = importlib.util.spec_from_file_location(
    "py_ecc.bls.ciphersuites_pristine", os.path.join(HERE, "pristine", "ciphersuites.py")
)
OLD = importlib.util.module_from_spec(spec)
sys.modules[spec.name] = OLD
spec.loader.exec_module(OLD)

if not hasattr(NEW.BaseG2Ciphersuite, "_signature_to_checked_G2"):
    print("note: working tree does not contain the p2 edit (comparing pristine with itself)")

SUITES = ["G2Basic", "G2MessageAugmentation", "G2ProofOfPossession"]
rng = random.Random(0xC04)

# ----------------------------------------------------------------------------
# recording wrapper around `pairing` in each version's namespace
# ----------------------------------------------------------------------------
PAIRING_LOG = {"old": [], "new": []}


def _canon(pt):
    if is_inf(pt):
        return "inf"
    x, y = normalize(pt)
    return (repr(x), repr(y))


def _wrap(mod, tag):
    real = mod.pairing

    def recording_pairing(Q, P, final_exponentiate=True):
        # every caller-supplied point that reaches a pairing is safe
        assert is_on_curve(Q, b2) and subgroup_check(Q), "unsafe G2 point in pairing"
        assert is_on_curve(P, b) and subgroup_check(P), "unsafe G1 point in pairing"
        PAIRING_LOG[tag].append((_canon(Q), _canon(P), final_exponentiate))
        return real(Q, P, final_exponentiate=final_exponentiate)

    mod.pairing = recording_pairing


_wrap(OLD, "old")
_wrap(NEW, "new")


def outcome(fn, *args):
    try:
        r = fn(*args)
    except BaseException as e:  # noqa: B902
        return ("raise", type(e).__name__)
    return ("ok", type(r).__name__, r)


N_CMP = 0


def same(suite, name, *args, expect_bool=True):
    """call suite.name(*args) in both versions and compare"""
    global N_CMP
    N_CMP += 1
    snap = repr(args)
    o = outcome(getattr(getattr(OLD, suite), name), *args)
    n = outcome(getattr(getattr(NEW, suite), name), *args)
    assert repr(args) == snap, ("argument mutated", suite, name)
    assert o == n, (suite, name, args, o, n)
    if expect_bool:
        assert o[0] == "ok" and o[1] == "bool", (suite, name, args, o)
    return o


# ----------------------------------------------------------------------------
# corpus
# ----------------------------------------------------------------------------
P381, P382, P383 = 1 << 381, 1 << 382, 1 << 383
SKS = [1, 2, 3, 0xC04C04, curve_order - 1]
PKS = [G1_to_pubkey(multiply(G1, sk)) for sk in SKS]
MSG = b"twin C04"
BASIC = NEW.G2Basic
SIGS_BASIC = [OLD.G2Basic.Sign(sk, MSG) for sk in SKS[:3]]


def i48(z):
    return z.to_bytes(48, "big")


def g1_on_curve_not_in_subgroup():
    x = 3
    while True:
        x += 1
        try:
            pt = decompress_G1(P383 + x)
        except ValueError:
            continue
        if not subgroup_check(pt):
            return pt


def g2_on_curve_not_in_subgroup():
    x = 0
    while True:
        x += 1
        try:
            pt = decompress_G2((P383 + x, x + 1))
        except ValueError:
            continue
        if not subgroup_check(pt):
            return pt


C1 = g1_on_curve_not_in_subgroup()
C2 = g2_on_curve_not_in_subgroup()
C1_TORSION = multiply(C1, curve_order)  # pure cofactor component, not identity
C2_TORSION = multiply(C2, curve_order)
assert not is_inf(C1_TORSION) and not is_inf(C2_TORSION)
PK_COF = [
    i48(compress_G1(C1)),
    i48(compress_G1(C1_TORSION)),
    i48(compress_G1(add(multiply(G1, 7), C1_TORSION))),
]
SIG_COF = []
for pt in (C2, C2_TORSION, add(signature_to_G2(SIGS_BASIC[0]), C2_TORSION)):
    z1, z2 = compress_G2(pt)
    SIG_COF.append(i48(z1) + i48(z2))

x_off = 1
while True:
    try:
        decompress_G1(P383 + x_off)
        x_off += 1
    except ValueError:
        break
PK_OFF_CURVE = [i48(P383 + x_off), i48(P383 + P381 + x_off)]

BOUNDARY_X = [0, 1, q - 1, q, q + 1, P381 - 1]
FLAGS = [c * P383 + bb * P382 + a * P381 for c in (0, 1) for bb in (0, 1) for a in (0, 1)]


def key_corpus():
    ks = []
    ks += PKS
    ks += PK_COF + PK_OFF_CURVE
    # all eight flag combinations on boundary x and on a valid x
    valid_x = int.from_bytes(PKS[1], "big") % P381
    for x in BOUNDARY_X + [valid_x]:
        for f in FLAGS:
            ks.append(i48(f + x))
    # identity encodings and near misses
    ks += [b"\xc0" + b"\x00" * 47, b"\xe0" + b"\x00" * 47, b"\x40" + b"\x00" * 47,
           b"\x00" * 48, b"\xc0" + b"\x00" * 46 + b"\x01", b"\xff" * 48]
    # extra leading / trailing bytes, truncation, zero padding
    for pk in (PKS[0], PKS[3], b"\xc0" + b"\x00" * 47):
        ks += [b"\x00" + pk, pk + b"\x00", b"\x00" * 48 + pk, pk + b"\x00" * 48,
               pk[:-1], pk[1:], pk[:47] + b"", pk[:24], pk + pk, b"\x80" + pk,
               pk[:1] + b"\x00" + pk[1:]]
    # every length 0..200: random, and a valid key padded / cut to that length
    for n in range(0, 201):
        ks.append(bytes(rng.getrandbits(8) for _ in range(n)))
        if n % 4 == 0:
            ks.append((PKS[2] + b"\x00" * 200)[:n])
            ks.append((b"\x00" * 200 + PKS[2])[-n:] if n else b"")
    # random 48-byte strings, half of them with the compression flag forced on
    for i in range(120):
        r = bytearray(rng.getrandbits(8) for _ in range(48))
        if i % 2:
            r[0] = (r[0] | 0x80) & 0xBF
        ks.append(bytes(r))
    return ks


class EvilBytes(bytes):
    """content and __bytes__ disagree: must never be looked up in a memo table"""

    def __new__(cls, content, shown):
        self = super().__new__(cls, content)
        self.shown = shown
        return self

    def __bytes__(self):
        return self.shown


class PlainSub(bytes):
    pass


NON_BYTES = [None, 0, 48, "a" * 48, bytearray(PKS[0]), memoryview(PKS[0]), (1, 2), [PKS[0]],
             PlainSub(PKS[0]), PlainSub(PK_COF[0]),
             EvilBytes(PKS[0], PK_COF[0]), EvilBytes(PK_COF[0], PKS[0]),
             EvilBytes(PKS[0], b"\x00")]


def sig_corpus():
    ss = []
    ss += SIGS_BASIC[:2]
    ss += SIG_COF
    s0 = SIGS_BASIC[0]
    valid_x1 = int.from_bytes(s0[:48], "big") % P381
    valid_z2 = int.from_bytes(s0[48:], "big")
    for x1 in BOUNDARY_X + [valid_x1]:
        for f in FLAGS:
            for z2 in (0, valid_z2, q):
                if f != P383 and (x1, z2) not in ((0, 0), (valid_x1, valid_z2)) and rng.random() < 0.8:
                    continue  # thin out the part that is refused by the flag checks
                ss.append(i48(f + x1) + i48(z2))
    for z2 in (1, q - 1, q + 1, P381 - 1, P381 + valid_z2, P383 + valid_z2, (1 << 384) - 1):
        ss.append(i48(P383 + valid_x1) + i48(z2))
        ss.append(i48(P383 + P382) + i48(z2))
    ss += [b"\xc0" + b"\x00" * 95, b"\xe0" + b"\x00" * 95, b"\x00" * 96, b"\xff" * 96]
    for s in (s0, b"\xc0" + b"\x00" * 95):
        ss += [b"\x00" + s, s + b"\x00", s[:-1], s[1:], s[:48], s[48:], s + s, b"\x00" * 96 + s]
    for n in range(0, 201, 4):
        ss.append(bytes(rng.getrandbits(8) for _ in range(n)))
        ss.append((s0 + b"\x00" * 200)[:n])
    for i in range(8):
        r = bytearray(rng.getrandbits(8) for _ in range(96))
        r[0] = (r[0] | 0x80) & 0x9F
        ss.append(bytes(r))
    ss += [None, 7, "s" * 96, bytearray(s0), PlainSub(s0)]
    return ss


KEYS = key_corpus()
SIGS = sig_corpus()
print(f"corpus: {len(KEYS)} keys, {len(SIGS)} signatures, {len(NON_BYTES)} non-bytes keys "
      f"[{time.time() - T0:.1f}s]")

# ----------------------------------------------------------------------------
# A. KeyValidate: corpus, three suites, two shuffled passes (second pass = hits)
# ----------------------------------------------------------------------------
accepted = 0
for rep in range(2):
    order = list(KEYS) + NON_BYTES
    rng.shuffle(order)
    for k in order:
        suite = SUITES[rng.randrange(3)] if rep else SUITES[0]
        o = same(suite, "KeyValidate", k)
        accepted += o[2] is True
# equal-but-distinct objects and all suites for the interesting ones
for k in PKS + PK_COF + PK_OFF_CURVE + [b"\xc0" + b"\x00" * 47]:
    for s in SUITES:
        same(s, "KeyValidate", bytes(bytearray(k)))
assert accepted >= 2 * len(PKS)
print(f"A ok: KeyValidate  ({N_CMP} comparisons) [{time.time() - T0:.1f}s]")

# ----------------------------------------------------------------------------
# B. the gates themselves (result and result type), every suite
# ----------------------------------------------------------------------------
GATE_VALUES = [bytes(n) for n in range(0, 201)] + [b"\xff" * n for n in (47, 48, 49, 95, 96, 97)]
GATE_VALUES += KEYS[::7] + [s_ for s_ in SIGS[::5]] + NON_BYTES
GATE_VALUES += [bytearray(48), bytearray(96), memoryview(bytes(96)), "x" * 96, 96, 48.0, True,
                (b"\x00",) * 48, [0] * 96, range(48), {1: 2}, object(), PlainSub(bytes(96)), b"", ""]
for v in GATE_VALUES:
    for s in SUITES + ["BaseG2Ciphersuite"]:
        same(s, "_is_valid_message", v)
        same(s, "_is_valid_signature", v)
        if s == "G2ProofOfPossession" and type(v) is bytes and len(v) == 48 and v[0] & 0x80:
            continue  # PoP gate = KeyValidate, covered in A
        same(s, "_is_valid_pubkey", v)
for k in PKS + PK_COF + PK_OFF_CURVE + NON_BYTES:
    same("G2ProofOfPossession", "_is_valid_pubkey", k)
for i in range(600):
    r = bytearray(rng.getrandbits(8) for _ in range(48))
    if i % 4:
        r[0] &= 0x7F
    same(SUITES[i % 3], "KeyValidate", bytes(r))
print(f"B ok: gates ({N_CMP} comparisons) [{time.time() - T0:.1f}s]")

# ----------------------------------------------------------------------------
# C. single-key entry points with malformed keys (valid signature)
# ----------------------------------------------------------------------------
sig_ok = SIGS_BASIC[0]
sub = [k for i, k in enumerate(KEYS) if i % 5 == 0 or len(k) == 48][:140] + NON_BYTES
for i, k in enumerate(sub):
    if type(k) is bytes and k in PKS:
        continue  # complete verifications are done in section F
    s = SUITES[i % 3]
    same(s, "Verify", k, MSG, sig_ok, expect_bool=not (s == "G2MessageAugmentation" and not isinstance(k, bytes)))
    if i % 2 == 0:
        same("G2ProofOfPossession", "PopVerify", k, sig_ok)
print(f"C ok: malformed keys ({N_CMP} comparisons) [{time.time() - T0:.1f}s]")

# ----------------------------------------------------------------------------
# D. malformed signatures with a valid key, all entry points
# ----------------------------------------------------------------------------
for i, sg in enumerate(SIGS):
    if type(sg) is bytes and sg in SIGS_BASIC:
        continue
    s = SUITES[i % 3]
    same(s, "Verify", PKS[0], MSG, sg)
    if i % 5 == 0:
        same("G2ProofOfPossession", "PopVerify", PKS[0], sg)
        same(SUITES[(i // 5) % 3], "AggregateVerify", [PKS[0], PKS[1]], [b"a", b"b"], sg)
        same("G2ProofOfPossession", "FastAggregateVerify", [PKS[0], PKS[1]], MSG, sg)
print(f"D ok: malformed signatures ({N_CMP} comparisons) [{time.time() - T0:.1f}s]")

# ----------------------------------------------------------------------------
# E. bad key in every position of a key list
# ----------------------------------------------------------------------------
BAD = [PK_COF[0], PK_COF[2], PK_OFF_CURVE[0], b"\xc0" + b"\x00" * 47, PKS[0] + b"\x00",
       b"\x00" + PKS[0], PKS[0][:47], i48(P383 + q), i48(int.from_bytes(PKS[0], "big") - P383),
       bytearray(PKS[0]), None, EvilBytes(PKS[0], PK_COF[0])]
msgs3 = [b"m0", b"m1", b"m2"]
for bi, bad in enumerate(BAD):
    for pos in range(3):
        lst = [PKS[0], PKS[1], PKS[2]]
        lst[pos] = bad
        same("G2ProofOfPossession", "AggregateVerify", lst, msgs3, sig_ok)
        same("G2ProofOfPossession", "FastAggregateVerify", lst, MSG, sig_ok)
        same("G2ProofOfPossession", "FastAggregateVerify", tuple(lst), MSG, sig_ok)
        if bi < 4 and pos < 2 or pos == 0:
            isb = isinstance(bad, bytes)
            same("G2Basic", "AggregateVerify", lst, msgs3, sig_ok)
            same("G2MessageAugmentation", "AggregateVerify", lst, msgs3, sig_ok, expect_bool=isb)
for s in SUITES:
    same(s, "AggregateVerify", [], [], sig_ok)
    same(s, "AggregateVerify", [PKS[0]], [], sig_ok)
    same(s, "AggregateVerify", [PKS[0]], [b"a", b"b"], sig_ok)
same("G2ProofOfPossession", "FastAggregateVerify", [], MSG, sig_ok)
same("G2Basic", "AggregateVerify", [PKS[0], PKS[1]], [b"a", b"a"], sig_ok)
print(f"E ok: key lists ({N_CMP} comparisons) [{time.time() - T0:.1f}s]")

# ----------------------------------------------------------------------------
# F. complete verifications and an interleaved history
# ----------------------------------------------------------------------------
POP = OLD.G2ProofOfPossession
AUG = OLD.G2MessageAugmentation
sig_b = SIGS_BASIC[1]                       # Basic, SKS[1], MSG
sig_a = AUG.Sign(SKS[1], MSG)
sig_p = POP.Sign(SKS[1], MSG)
proof = POP.PopProve(SKS[1])
agg_b = OLD.G2Basic.Aggregate([OLD.G2Basic.Sign(SKS[0], b"m0"), OLD.G2Basic.Sign(SKS[1], b"m1")])
fast = POP.Aggregate([POP.Sign(SKS[0], MSG), POP.Sign(SKS[1], MSG)])
inf_sig = b"\xc0" + b"\x00" * 95
history = [
    ("G2Basic", "KeyValidate", (PKS[1],)),
    ("G2Basic", "Verify", (PKS[1], MSG, sig_b)),
    ("G2Basic", "KeyValidate", (PK_COF[2],)),
    ("G2Basic", "Verify", (PKS[1], b"other", sig_b)),
    ("G2Basic", "Verify", (PK_COF[2], MSG, sig_b)),
    ("G2MessageAugmentation", "Verify", (PKS[1], MSG, sig_a)),
    ("G2ProofOfPossession", "Verify", (PKS[1], MSG, sig_p)),
    ("G2ProofOfPossession", "PopVerify", (PKS[1], proof)),
    ("G2ProofOfPossession", "PopVerify", (PKS[0], proof)),
    ("G2ProofOfPossession", "PopVerify", (PK_COF[0], proof)),
    ("G2Basic", "Verify", (PKS[1], MSG, inf_sig)),
    ("G2Basic", "Verify", (PKS[1], MSG, SIG_COF[2])),
    ("G2Basic", "AggregateVerify", ([PKS[0], PKS[1]], [b"m0", b"m1"], agg_b)),
    ("G2Basic", "AggregateVerify", ([PKS[0], PK_COF[1]], [b"m0", b"m1"], agg_b)),
    ("G2ProofOfPossession", "FastAggregateVerify", ([PKS[0], PKS[1]], MSG, fast)),
    ("G2ProofOfPossession", "FastAggregateVerify", ([PKS[0], PKS[4]], MSG, fast)),  # keys cancel
    ("G2ProofOfPossession", "FastAggregateVerify", ([PKS[0], PK_COF[2]], MSG, fast)),
    ("G2Basic", "KeyValidate", (PKS[1],)),
    ("G2Basic", "Verify", (bytes(bytearray(PKS[1])), MSG, sig_b)),
    ("G2Basic", "Verify", (EvilBytes(PKS[1], PK_COF[0]), MSG, sig_b)),
    ("G2Basic", "Verify", (EvilBytes(PK_COF[0], PKS[1]), MSG, sig_b)),
    ("G2Basic", "KeyValidate", (PKS[1],)),
]
results = [same(*h[:2], *h[2]) for h in history]
got = [r[2] for r in results]
want = [True, True, False, False, False, True, True, True, False, False, False, False,
        True, False, True, False, False, True, True]
assert got[:len(want)] == want, got
assert got[-1] is True
print(f"F ok: complete verifications / history ({N_CMP} comparisons) [{time.time() - T0:.1f}s]")

# ----------------------------------------------------------------------------
# pairing arguments seen by the wrapper
# ----------------------------------------------------------------------------
assert PAIRING_LOG["old"] == PAIRING_LOG["new"], "pairing argument sequences differ"
assert len(PAIRING_LOG["old"]) > 20
print(f"pairing calls recorded per version: {len(PAIRING_LOG['old'])} (identical sequences, all safe)")
print(f"EQUIVALENT: {N_CMP} comparisons, {time.time() - T0:.1f}s")
