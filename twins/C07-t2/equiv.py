import os, sys; sys.path.insert(0, os.getcwd())  # noqa: E401,E702

"""
Equivalence demonstration for C07 / t2.

Compares the four edited curve modules (imported from the current working
directory) with the pristine copies saved next to this script:
  py_ecc/bn128/bn128_curve.py, py_ecc/bls12_381/bls12_381_curve.py
      double / add / is_on_curve restated (x*x for x**2, slope factored out)
  py_ecc/optimized_bn128/optimized_curve.py, py_ecc/optimized_bls12_381/optimized_curve.py
      is_on_curve restated (products for powers)
on
  * module constants (computed at import through the edited code paths),
  * add/double/neg/multiply/twist/is_on_curve/eq on G1, G2, G12 points: infinity,
    P = Q, P = -Q, same x / different y, off-curve points, a twist-curve point
    outside the order-r subgroup, other projective representatives, scalars
    0,1,2,3,r-1,r,r+1,2p-r and random ones up to 640 bits,
  * exhaustive pairs of points of small curves y^2 = x^3 + b over small prime
    fields, quadratic extensions and composite moduli (where the affine
    "Point addition is incorrect" check really fires),
  * exact rational coordinates (fractions.Fraction) as an independent field,
  * coordinates of mixed classes (ints, other curve's field, reference vs
    optimized field classes, FQ vs FQ2 vs FQ12) and malformed arguments.
Results are compared with their types and exact coordinates (no normalisation);
exceptions are compared by class and message (for the interpreter's own
"unsupported operand" TypeErrors on non-field operands: by class).  Exit 0 = identical.
"""

import fractions
import importlib.util
import itertools
import random
import time

T0 = time.time()

HERE = os.path.dirname(os.path.abspath(__file__))


def load(path, name):
    spec = importlib.util.spec_from_file_location(name, path)
    mod = importlib.util.module_from_spec(spec)
    spec.loader.exec_module(mod)
    return mod


import py_ecc.bls12_381.bls12_381_curve as new_bls  # noqa: E402
import py_ecc.bn128.bn128_curve as new_bn  # noqa: E402
import py_ecc.optimized_bls12_381.optimized_curve as new_obls  # noqa: E402
import py_ecc.optimized_bn128.optimized_curve as new_obn  # noqa: E402

PAIRS = {}
for key, newmod, fname in [
    ("bn128", new_bn, "bn128_curve.py"),
    ("bls12_381", new_bls, "bls12_381_curve.py"),
    ("optimized_bn128", new_obn, "optimized_bn128_curve.py"),
    ("optimized_bls12_381", new_obls, "optimized_bls12_381_curve.py"),
]:
    ppath = os.path.join(HERE, "pristine", fname)
    assert newmod.__file__.startswith(os.getcwd()), newmod.__file__
    assert open(ppath).read() != open(newmod.__file__).read(), "tree is not edited"
    PAIRS[key] = (load(ppath, "pristine_" + key), newmod)

from py_ecc.fields import field_elements as fe  # noqa: E402
from py_ecc.fields import optimized_field_elements as ofe  # noqa: E402
import py_ecc.fields as F  # noqa: E402


def canon(o):
    if o is None or isinstance(o, (bool, int, str)):
        return (type(o).__name__, o)
    if isinstance(o, (float, fractions.Fraction)):
        return (type(o).__name__, repr(o))
    if isinstance(o, (tuple, list)):
        return (type(o).__name__, tuple(canon(e) for e in o))
    if isinstance(o, (fe.FQ, ofe.FQ)):
        return (type(o).__module__, type(o).__name__, o.n)
    if isinstance(o, (fe.FQP, ofe.FQP)):
        return (
            type(o).__module__,
            type(o).__name__,
            tuple((type(c).__name__, int(c)) for c in o.coeffs),
        )
    return (type(o).__name__, repr(o))


def outcome(f, *args):
    try:
        return ("ok", canon(f(*args)))
    except RecursionError:
        return ("raise", "RecursionError")
    except BaseException as e:  # noqa: B902
        msg = str(e)
        if isinstance(e, TypeError) and (
            "unsupported operand type(s)" in msg or "can't multiply sequence" in msg
        ):
            # raised by the interpreter for non-field operands (None, str, ...): the
            # text names the operator (** vs *), the class is what callers can see
            return ("raise", "TypeError", "<builtin operand error>")
        return ("raise", type(e).__name__, canon(e.args))


checked = 0


def same(key, fname, *args):
    global checked
    old, new = PAIRS[key]
    before = canon(args)
    a = outcome(getattr(old, fname), *args)
    mid = canon(args)
    b = outcome(getattr(new, fname), *args)
    assert before == mid == canon(args), ("argument mutated", key, fname, args)
    assert a == b, (key, fname, args, a, b)
    checked += 1
    return a


rng = random.Random(0xC07 + 2)

# ---------------------------------------------------------------- constants
for key, (old, new) in PAIRS.items():
    for name in ["field_modulus", "curve_order", "b", "b2", "b12", "G1", "G2", "G12",
                 "Z1", "Z2", "w"]:
        assert canon(getattr(old, name)) == canon(getattr(new, name)), (key, name)
    assert sorted(vars(old)) == sorted(vars(new)), key


def fq2_sqrt(FQ2, p, a):
    # FQ2 = Fp[i] / (i^2 + 1), p = 3 mod 4: complex square-root method on ints
    a0, a1 = int(a.coeffs[0]), int(a.coeffs[1])

    def fsqrt(v):
        v %= p
        s_ = pow(v, (p + 1) // 4, p)
        return s_ if s_ * s_ % p == v else None

    if a1 == 0:
        return None
    nrm = fsqrt(a0 * a0 + a1 * a1)
    if nrm is None:
        return None
    inv2 = pow(2, -1, p)
    for cand in ((a0 + nrm) * inv2 % p, (a0 - nrm) * inv2 % p):
        x_ = fsqrt(cand)
        if x_:
            c = FQ2([x_, a1 * pow(2 * x_, -1, p) % p])
            if c * c == a:
                return c
    return None


# ---------------------------------------------------------------- reference modules
for key, FQ, FQ2, FQ12 in [
    ("bn128", F.bn128_FQ, F.bn128_FQ2, F.bn128_FQ12),
    ("bls12_381", F.bls12_381_FQ, F.bls12_381_FQ2, F.bls12_381_FQ12),
]:
    old, new = PAIRS[key]
    r, p = new.curve_order, new.field_modulus
    scalars = [0, 1, 2, 3, r - 1, r, r + 1, 2 * p - r] + [
        rng.getrandbits(k) for k in (5, 640)
    ]
    ks = [1, 2, 3, r - 1, rng.randrange(r)]
    groups = {
        "G1": [None] + [old.multiply(old.G1, k) for k in ks],
        "G2": [None] + [old.multiply(old.G2, k) for k in ks],
        "G12": [None] + [old.multiply(old.G12, k) for k in (1, 2, 5)],
    }
    x1, y1 = old.G1
    groups["G1"] += [(x1, y1 + 1), (FQ(0), FQ(0)), (FQ(5), FQ(0)), (x1, FQ(0))]
    x2, y2 = old.G2
    groups["G2"] += [(x2, y2 + FQ2([1, 0])), (FQ2([1, 2]), FQ2([0, 0]))]
    # a point of the twist curve outside the order-r subgroup
    xx, found = FQ2([3, 1]), None
    for i in range(60):
        xx = xx + FQ2([1, 0])
        yy = fq2_sqrt(FQ2, p, xx * xx * xx + old.b2)
        if yy is not None and old.multiply((xx, yy), r) is not None:
            found = (xx, yy)
            break
    assert found is not None and old.is_on_curve(found, old.b2)
    groups["G2"] += [found, old.double(found)]
    # a point of E(Fp) outside the order-r subgroup exists for bls12-381 (cofactor > 1)
    if key == "bls12_381":
        for xv in range(1, 60):
            rhs = (xv ** 3 + 4) % p
            yv = pow(rhs, (p + 1) // 4, p)
            if yv * yv % p == rhs and old.multiply((FQ(xv), FQ(yv)), r) is not None:
                groups["G1"] += [(FQ(xv), FQ(yv))]
                break
        else:
            raise AssertionError("no off-subgroup G1 point")
    bs = {"G1": old.b, "G2": old.b2, "G12": old.b12}
    for gname, pts in groups.items():
        for P in pts:
            same(key, "double", P)
            same(key, "neg", P)
            for bb in bs.values():
                same(key, "is_on_curve", P, bb)
            if gname == "G2":
                same(key, "twist", P)
        for P, Q in itertools.product(pts, repeat=2):
            same(key, "add", P, Q)
        for P, Q in reversed(list(itertools.product(pts, repeat=2))):
            same(key, "add", P, Q)  # again, other order: no call-history dependence
        sc = scalars if gname != "G12" else [0, 1, 2, 3, 5, 11]
        for P in pts[1:3] if gname != "G12" else pts[:2]:
            for n in sc:
                same(key, "multiply", P, n)
    print("[%s] real-curve checks done (%d so far, %.0fs)" % (key, checked, time.time() - T0))

# ---------------------------------------------------------------- small curves (reference)


def small_fields(q, composite=False):
    out = []
    for base, tag in ((fe, "ref"), (ofe, "opt")):
        Fq = type("SmallFQ%d%s" % (q, tag), (base.FQ,), {"field_modulus": q})
        out.append(("Fq" + tag, [Fq(i) for i in range(q)], lambda v, Fq=Fq: Fq(v)))
        if q % 4 == 3 and not composite and q <= 7:
            Fq2 = type("SmallFQ2_%d%s" % (q, tag), (base.FQ2,),
                       {"field_modulus": q, "FQ2_MODULUS_COEFFS": (1, 0)})
            els = [Fq2([i, j]) for i in range(q) for j in range(q)]
            out.append(("Fq2" + tag, els, lambda v, Fq2=Fq2: Fq2([v, 0])))
    return out


value_errors = 0
for q, bvals, composite in [(5, (1,), False), (7, (1, 3), False), (11, (1, 2), False),
                            (3, (1,), False), (2, (1,), False),
                            (15, (1, 4), True), (21, (1,), True)]:
    for fname, els, lift in small_fields(q, composite):
        for bv in bvals:
            bb = lift(bv)
            pts = [None] + [(x, y) for x in els for y in els if y * y - x * x * x == bb]
            pts = pts[:50]
            some = els[: min(len(els), 5)]
            off = [(x, y) for x in some for y in some][:16]
            for key in ("bn128", "bls12_381"):
                for P in pts + off:
                    same(key, "double", P)
                    same(key, "is_on_curve", P, bb)
                    for n in (0, 1, 2, 3, len(pts), 1000003):
                        same(key, "multiply", P, n)
                for P, Q in itertools.product(pts, repeat=2):
                    same(key, "add", P, Q)
                for P, Q in itertools.product(off, repeat=2):
                    res = same(key, "add", P, Q)
                    value_errors += res[:2] == ("raise", "ValueError")
assert value_errors > 0, "the affine addition check never fired"
print("small-curve checks done (%d so far, addition-check ValueError hit %d times, %.0fs)"
      % (checked, value_errors, time.time() - T0))

# small projective curves for the optimized is_on_curve: every representative
for q, bv in [(5, 1), (7, 3), (11, 2), (15, 4)]:
    Fq = type("SmallOptFQ%d" % q, (ofe.FQ,), {"field_modulus": q})
    els = [Fq(i) for i in range(q)]
    for key in ("optimized_bn128", "optimized_bls12_381"):
        for x, y, z in itertools.product(els, repeat=3):
            same(key, "is_on_curve", (x, y, z), Fq(bv))
            same(key, "is_on_curve", (x.n, y.n, z.n), bv)
Fq2 = type("SmallOptFQ2_3", (ofe.FQ2,), {"field_modulus": 3, "FQ2_MODULUS_COEFFS": (1, 0)})
els = [Fq2([i, j]) for i in range(3) for j in range(3)]
for key in ("optimized_bn128", "optimized_bls12_381"):
    for x, y, z in itertools.product(els, repeat=3):
        same(key, "is_on_curve", (x, y, z), Fq2([1, 1]))

# ---------------------------------------------------------------- optimized modules
for key, FQ, FQ2, FQ12 in [
    ("optimized_bn128", F.optimized_bn128_FQ, F.optimized_bn128_FQ2,
     F.optimized_bn128_FQ12),
    ("optimized_bls12_381", F.optimized_bls12_381_FQ, F.optimized_bls12_381_FQ2,
     F.optimized_bls12_381_FQ12),
]:
    old, new = PAIRS[key]
    r, p = new.curve_order, new.field_modulus
    g1 = [old.Z1, (FQ(0), FQ(0), FQ(0)), (FQ(0), FQ(7), FQ(0))] + [
        old.multiply(old.G1, k) for k in (1, 2, 3, r - 1, rng.randrange(r), r, r + 1)
    ]
    g2 = [old.Z2, (FQ2.zero(), FQ2.zero(), FQ2.zero())] + [
        old.multiply(old.G2, k) for k in (1, 2, 3, r - 1, rng.randrange(r), r)
    ]
    g12 = [old.twist(old.Z2)] + [old.multiply(old.G12, k) for k in (1, 2, 5)]
    # other projective representatives and off-curve points
    lam = FQ(rng.randrange(2, p))
    g1 += [(x * lam, y * lam, z * lam) for x, y, z in g1[3:6]]
    g1 += [(x, y + 1, z) for x, y, z in g1[3:5]] + [(FQ(1), FQ(1), FQ(1))]
    lam2 = FQ2([rng.randrange(p), rng.randrange(p)])
    g2 += [(x * lam2, y * lam2, z * lam2) for x, y, z in g2[2:5]]
    g2 += [(x, y + FQ2.one(), z) for x, y, z in g2[2:4]]
    g12 += [(x, y, z + FQ12.one()) for x, y, z in g12[1:2]]
    bs = [old.b, old.b2, old.b12, 4, None]
    for pts in (g1, g2, g12):
        for P in pts:
            for bb in bs:
                same(key, "is_on_curve", P, bb)
            same(key, "double", P)
        for P, Q in itertools.product(pts[:6], repeat=2):
            same(key, "add", P, Q)
            same(key, "eq", P, Q)
    for P in g2[:5]:
        same(key, "twist", P)
    for n in (0, 1, 2, 3, r - 1, r, r + 1, 2 * p - r, rng.getrandbits(640)):
        same(key, "multiply", old.G1, n)
    same(key, "multiply", old.G2, r + 1)
    print("[%s] checks done (%d so far, %.0fs)" % (key, checked, time.time() - T0))

# ---------------------------------------------------------------- exact rationals
Fr = fractions.Fraction
fr_pts = [(Fr(a, b), Fr(c, d)) for a, b, c, d in
          [(1, 1, 2, 1), (1, 2, 3, 4), (-5, 3, 7, 2), (0, 1, 0, 1), (1, 2, -3, 4),
           (22, 7, 1, 3), (2, 1, 3, 1), (-1, 1, 0, 1)]]
for key in ("bn128", "bls12_381"):
    for P, Q in itertools.product(fr_pts + [None], repeat=2):
        same(key, "add", P, Q)
    for P in fr_pts:
        same(key, "double", P)
        same(key, "is_on_curve", P, Fr(3))
        same(key, "is_on_curve", P, 3)
for key in ("optimized_bn128", "optimized_bls12_381"):
    for P, z in itertools.product(fr_pts, (Fr(1), Fr(0), Fr(-2, 3), 1, 0)):
        same(key, "is_on_curve", P + (z,), Fr(3))
        same(key, "is_on_curve", P + (z,), 4)

# ---------------------------------------------------------------- mixed classes / malformed
coords = [
    0, 1, 5, True,
    F.bn128_FQ(2), F.bn128_FQ(7), F.bls12_381_FQ(2), F.bls12_381_FQ(7),
    F.optimized_bn128_FQ(3), F.optimized_bls12_381_FQ(3),
    F.bn128_FQ2([1, 2]), F.bls12_381_FQ2([1, 2]), F.optimized_bn128_FQ2([1, 2]),
    F.optimized_bls12_381_FQ2([3, 4]), F.bn128_FQ12([1] * 12),
    F.optimized_bn128_FQ12([1] * 12), F.optimized_bn128_FQ2([F.optimized_bn128_FQ(1),
                                                            F.optimized_bn128_FQ(2)]),
    None, "a", [1], (1, 2), Fr(1, 2), object(),
]
pts2 = list(itertools.product(coords, repeat=2))
for key in ("bn128", "bls12_381"):
    for P in pts2:
        same(key, "double", P)
        for bb in (3, PAIRS[key][1].b, PAIRS[key][1].b2, None):
            same(key, "is_on_curve", P, bb)
    # pairs of mixed points: every combination of the field-like coordinates
    fieldish = [c for c in coords if isinstance(c, (fe.FQ, ofe.FQ, fe.FQP, ofe.FQP))]
    mixed = list(itertools.product(fieldish, repeat=2))
    rng.shuffle(mixed)
    def is_heavy(P):
        return any(isinstance(c, (fe.FQ12, ofe.FQ12)) for c in P)

    light = [P for P in mixed if not is_heavy(P)]
    heavy = [P for P in mixed if is_heavy(P)]
    for P, Q in itertools.product(light[:32], repeat=2):
        same(key, "add", P, Q)
    for P, Q in itertools.product(heavy[:6], light[:3] + heavy[:6]):
        same(key, "add", P, Q)
        same(key, "add", Q, P)
    intish = [(a, b_) for a in (1, F.bn128_FQ(2), F.bls12_381_FQ(9))
              for b_ in (4, F.bn128_FQ(7), F.bls12_381_FQ(2))]
    intish = [P for P in intish if not (isinstance(P[0], int) and isinstance(P[1], int))]
    for P, Q in itertools.product(intish, repeat=2):
        same(key, "add", P, Q)
    bad = [None, (), (1,), (F.bn128_FQ(1),), (F.bn128_FQ(1), F.bn128_FQ(2), F.bn128_FQ(1)),
           "ab", 5, (F.bn128_FQ(1), None), (None, None), ("a", "b"), {"x": 1},
           PAIRS[key][1].G1, PAIRS[key][1].G2, PAIRS["optimized_bn128"][1].G1]
    for P, Q in itertools.product(bad, repeat=2):
        same(key, "add", P, Q)
    for P in bad:
        same(key, "double", P)
        same(key, "is_on_curve", P, PAIRS[key][1].b)
        for n in (0, 1, 2, 3, 2.0, 2.5, "2", None):
            same(key, "multiply", P, n)
    # negative scalars recurse until RecursionError today (py_ecc raises the limit
    # to 100000 frames, so use cheap points); huge scalars just work
    F7 = type("NegFQ7", (fe.FQ,), {"field_modulus": 7})
    for n in (-1, -2, -5):
        assert same(key, "multiply", None, n) == ("raise", "RecursionError")
        assert same(key, "multiply", (F7(3), F7(2)), n) == ("raise", "RecursionError")
    same(key, "multiply", PAIRS[key][1].G1, 1 << 1100)
for key in ("optimized_bn128", "optimized_bls12_381"):
    pts3 = list(itertools.product(coords, repeat=3))
    rng.shuffle(pts3)
    for P in pts3[:1500]:
        same(key, "is_on_curve", P, PAIRS[key][1].b)
    for P in pts3[:200]:
        for bb in (4, PAIRS[key][1].b2, F.bn128_FQ(3), None, "b"):
            same(key, "is_on_curve", P, bb)
    for P in [None, (), (1,), (1, 2), "abc", 5, (None, None, None),
              PAIRS["bn128"][1].G1, PAIRS[key][1].G1 + (1,)]:
        for bb in (PAIRS[key][1].b, 4):
            same(key, "is_on_curve", P, bb)

print("t2 equivalence: %d comparisons identical" % checked)
