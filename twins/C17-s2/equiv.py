import os, sys; sys.path.insert(0, os.getcwd())
import importlib.util
import random

HERE = os.path.dirname(os.path.abspath(__file__))
PRI = os.path.join(HERE, "pristine", "py_ecc")


def load(name, path, subst=()):
    """Load a pristine source file as module `name` (inside the live package so that
    its relative imports resolve), optionally rewriting import targets."""
    src = open(path).read()
    for a, b in subst:
        assert a in src, (a, path)
        src = src.replace(a, b)
    spec = importlib.util.spec_from_loader(name, loader=None, origin=path)
    mod = importlib.util.module_from_spec(spec)
    mod.__file__ = path
    mod.__package__ = name.rpartition(".")[0]
    sys.modules[name] = mod
    exec(compile(src, path, "exec"), mod.__dict__)
    return mod


import py_ecc.bls  # noqa: E402
import py_ecc.optimized_bls12_381  # noqa: E402

# live (edited) modules
import py_ecc.bls.constants as new_bconst  # noqa: E402
import py_ecc.bls.g2_primitives as g2p  # noqa: E402
import py_ecc.bls.hash_to_curve as new_h2c  # noqa: E402
import py_ecc.optimized_bls12_381.constants as new_const  # noqa: E402
import py_ecc.optimized_bls12_381.optimized_clear_cofactor as new_cc  # noqa: E402

# pristine modules under other names; the (untouched) clear-cofactor module is loaded a
# second time bound to the pristine constants
old_const = load(
    "py_ecc.optimized_bls12_381._pristine_constants",
    os.path.join(PRI, "optimized_bls12_381", "constants.py"),
)
old_cc = load(
    "py_ecc.optimized_bls12_381._pristine_optimized_clear_cofactor",
    os.path.join(PRI, "optimized_bls12_381", "optimized_clear_cofactor.py"),
    subst=[("from .constants import", "from ._pristine_constants import")],
)
old_bconst = load(
    "py_ecc.bls._pristine_constants",
    os.path.join(PRI, "bls", "constants.py"),
)
assert old_cc.H_EFF_G2 is old_const.H_EFF_G2 and new_cc.H_EFF_G2 is new_const.H_EFF_G2

from py_ecc.fields import (  # noqa: E402
    optimized_bls12_381_FQ as FQ,
    optimized_bls12_381_FQ2 as FQ2,
)
from py_ecc.optimized_bls12_381 import (  # noqa: E402
    G1, G2, Z1, Z2, add, b, b2, curve_order, field_modulus, is_inf, is_on_curve,
    multiply, neg,
)
from py_ecc.bls.point_compression import modular_squareroot_in_FQ2  # noqa: E402
from py_ecc.bls.constants import G2_COFACTOR  # noqa: E402

checks = 0


def same_value(a, b_):
    """Exact equality of results including element types."""
    if type(a) is not type(b_):
        return False
    if isinstance(a, tuple):
        return len(a) == len(b_) and all(same_value(x, y) for x, y in zip(a, b_))
    return a == b_


def outcome(f, *args):
    try:
        return ("ok", f(*args))
    except Exception as e:  # noqa: BLE001
        return ("exc", type(e))


def check_same(fold, fnew, *args):
    global checks
    o, n = outcome(fold, *args), outcome(fnew, *args)
    assert o[0] == n[0], (fold, args, o, n)
    if o[0] == "ok":
        assert same_value(o[1], n[1]), (fold, args, o, n)
    else:
        assert o[1] is n[1], (fold, args, o, n)
    checks += 1
    return n


# ---------------------------------------------------------------- namespaces
# every name the pristine modules defined is still there with an equal value of the
# same type (ints stay ints, FQ/FQ2 elements and tuples of them unchanged)
for old, new in ((old_const, new_const), (old_bconst, new_bconst)):
    for name, val in vars(old).items():
        if name.startswith("__"):
            continue
        assert hasattr(new, name), (new.__name__, name)
        nv = getattr(new, name)
        if isinstance(val, type):
            assert val is nv, name
            continue
        assert same_value(val, nv), (new.__name__, name)
        checks += 1
for mod, name in ((new_const, "H_EFF_G1"), (new_const, "H_EFF_G2"), (new_bconst, "G2_COFACTOR"),
                  (new_const, "BLS_X")):
    assert type(getattr(mod, name)) is int, name
assert new_const.H_EFF_G1 == old_const.H_EFF_G1 == 0xD201000000010001
assert new_const.H_EFF_G2 == old_const.H_EFF_G2
assert new_bconst.G2_COFACTOR == old_bconst.G2_COFACTOR
assert repr(new_const.H_EFF_G2) == repr(old_const.H_EFF_G2)
assert hash(new_bconst.G2_COFACTOR) == hash(old_bconst.G2_COFACTOR)
# relations to the curve parameter
x = new_const.BLS_X
assert x == -0xD201000000010000
assert py_ecc.optimized_bls12_381.curve_order == x**4 - x**2 + 1
assert py_ecc.optimized_bls12_381.field_modulus == (x - 1) ** 2 * (x**4 - x**2 + 1) // 3 + x
assert old_const.H_EFF_G2 == old_bconst.G2_COFACTOR * (3 * x * x - 3)
assert old_const.H_EFF_G1 == 1 - x
assert py_ecc.optimized_bls12_381.multiply_clear_cofactor_G1 is new_cc.multiply_clear_cofactor_G1
assert py_ecc.optimized_bls12_381.multiply_clear_cofactor_G2 is new_cc.multiply_clear_cofactor_G2
assert new_h2c.multiply_clear_cofactor_G1 is new_cc.multiply_clear_cofactor_G1

# ---------------------------------------------------------------- inputs
rng = random.Random(0xC17)
p = field_modulus
H1 = (0xD201000000010000 + 1) ** 2 // 3  # cofactor of E(Fp)
assert (p + 1 - (-0xD201000000010000 + 1)) == H1 * curve_order
H2 = G2_COFACTOR


def rand_E1():
    while True:
        x = FQ(rng.randrange(p))
        y2 = x**3 + b
        y = y2 ** ((p + 1) // 4)
        if y * y == y2:
            if rng.random() < 0.5:
                y = -y
            return (x, y, FQ(1))


def rand_E2():
    while True:
        x = FQ2([rng.randrange(p), rng.randrange(p)])
        y = modular_squareroot_in_FQ2(x**3 + b2)
        if y is not None:
            if rng.random() < 0.5:
                y = -y
            return (x, y, FQ2.one())


def scale(pt, lam):
    return tuple(c * lam for c in pt)


def torsion(randpt, h, primes):
    """Cofactor-torsion points: a full cofactor component and points of small prime order"""
    out = []
    R = randpt()
    T = multiply(R, curve_order)
    assert not is_inf(T)
    out.append(T)
    for q in primes:
        assert h % q == 0
        qe = q
        while h % (qe * q) == 0:
            qe *= q
        for _ in range(20):
            Tq = multiply(randpt(), curve_order * (h // qe))
            if not is_inf(Tq):
                while not is_inf(multiply(Tq, q)):
                    Tq = multiply(Tq, q)
                out.append(Tq)
                break
        else:
            raise AssertionError("no point of order %d found" % q)
    return out


T1 = torsion(rand_E1, H1, [3, 11])
T2 = torsion(rand_E2, H2, [13, 23])

ks = [0, 1, 2, 3, curve_order - 1, curve_order, curve_order + 1, rng.randrange(curve_order),
      rng.randrange(2**256)]


def family(G, Z, Ts, randpt, F, bcoef):
    pts = []
    for k in ks:
        kg = multiply(G, k)
        pts.append(kg)
    for k in ks[:5] + ks[-2:]:
        kg = multiply(G, k)
        for T in Ts:
            pts.append(add(kg, T))
    pts.extend(Ts)
    pts.extend(neg(T) for T in Ts)
    pts.extend(randpt() for _ in range(3))
    # infinity in several representations
    zero, one = F.zero(), F.one()
    pts.extend([Z, (zero, one, zero), (zero, zero, zero), (one * 5, one * 7, zero),
                multiply(G, curve_order), add(G, neg(G))])
    for q in pts:
        if not is_inf(q):
            assert is_on_curve(q, bcoef)
    # other projective representatives
    lams = [F(2) if F is FQ else FQ2([0, 1]), F(p - 1) if F is FQ else FQ2([3, p - 5])]
    pts.extend([scale(q, lam) for q in pts[::3] for lam in lams])
    # list-typed point, not-on-curve points
    pts.append(list(G))
    pts.append((G[0], G[1] + one, G[2]))
    pts.append((one, one, one))
    return pts


E1_pts = family(G1, Z1, T1, rand_E1, FQ, b)
E2_pts = family(G2, Z2, T2, rand_E2, FQ2, b2)

malformed = [None, (), (FQ(1), FQ(2)), 7, "abc", (FQ(1), FQ2.one(), FQ(1)),
             (G1[0], G1[1], 0), (G2[0], G2[1], None), [], b"\x00" * 48, (None, None, None)]

# ---------------------------------------------------------------- comparisons
def on_curve(pt, bcoef):
    try:
        return isinstance(pt, tuple) and is_on_curve(pt, bcoef)
    except Exception:  # noqa: BLE001
        return False


n_acc = n_rej = 0
for pt in E1_pts + E2_pts:
    if on_curve(pt, b) or on_curve(pt, b2):
        r = g2p.subgroup_check(pt)
        assert type(r) is bool
        n_acc += r
        n_rej += not r
for rnd in range(2):  # second round: same calls again after all the others (call history)
    for pt in E1_pts + malformed:
        r = check_same(old_cc.multiply_clear_cofactor_G1, new_cc.multiply_clear_cofactor_G1, pt)
        check_same(old_cc.multiply_clear_cofactor_G1, new_h2c.clear_cofactor_G1, pt)
        if r[0] == "ok" and rnd == 0 and on_curve(pt, b):
            assert g2p.subgroup_check(r[1])
    for i, pt in enumerate((E2_pts if rnd == 0 else E2_pts[::4]) + malformed):
        r = check_same(old_cc.multiply_clear_cofactor_G2, new_cc.multiply_clear_cofactor_G2, pt)
        if rnd == 0:
            check_same(old_cc.multiply_clear_cofactor_G2, new_h2c.clear_cofactor_G2, pt)
        if r[0] == "ok" and rnd == 0 and on_curve(pt, b2):
            assert g2p.subgroup_check(r[1])
            # multiplying by the true cofactor h2 also lands in the subgroup
            if i % 8 == 0:
                assert g2p.subgroup_check(multiply(pt, new_bconst.G2_COFACTOR))
    # constants still what they were after the calls
    assert new_const.H_EFF_G1 == old_const.H_EFF_G1 and new_const.H_EFF_G2 == old_const.H_EFF_G2
    assert new_bconst.G2_COFACTOR == old_bconst.G2_COFACTOR

# hash_to_G2 / hash_to_G1 (users of the effective cofactors) give points of the subgroup
import hashlib  # noqa: E402
for msg in (b"", b"abc", b"\x00" * 100):
    hp = new_h2c.hash_to_G2(msg, b"QUUX-V01-CS02-with-BLS12381G2_XMD:SHA-256_SSWU_RO_", hashlib.sha256)
    assert g2p.subgroup_check(hp) and is_on_curve(hp, b2)
    hp = new_h2c.hash_to_G1(msg, b"QUUX-V01-CS02-with-BLS12381G1_XMD:SHA-256_SSWU_RO_", hashlib.sha256)
    assert g2p.subgroup_check(hp) and is_on_curve(hp, b)
# known-answer: RFC 9380 J.10.1, msg = ""
from py_ecc.optimized_bls12_381 import normalize  # noqa: E402
hp = normalize(new_h2c.hash_to_G2(b"", b"QUUX-V01-CS02-with-BLS12381G2_XMD:SHA-256_SSWU_RO_", hashlib.sha256))
assert hp[0].coeffs[0] == 0x0141EBFBDCA40EB85B87142E130AB689C673CF60F1A3E98D69335266F30D9B8D4AC44C1038E9DCDD5393FAF5C41FB78A  # noqa: E501

# property sanity: torsion components rejected, multiples of generators accepted
for T in T1 + T2:
    assert g2p.subgroup_check(T) is False
for k in ks:
    assert g2p.subgroup_check(multiply(G1, k)) is True
    assert g2p.subgroup_check(multiply(G2, k)) is True
assert n_acc > 20 and n_rej > 20, (n_acc, n_rej)

# constants were not mutated by any call
assert new_const.H_EFF_G1 == old_const.H_EFF_G1 and new_const.H_EFF_G2 == old_const.H_EFF_G2

# higher level users of the moved names: KeyValidate / signature checks
from py_ecc.bls import G2Basic, G2ProofOfPossession  # noqa: E402
from py_ecc.bls.point_compression import compress_G1  # noqa: E402
from py_ecc.bls.hash import i2osp  # noqa: E402
pk = G2Basic.SkToPk(42)
assert G2Basic.KeyValidate(pk) is True
bad = add(G1, T1[0])
assert G2Basic.KeyValidate(i2osp(compress_G1(bad), 48)) is False
sig = G2ProofOfPossession.Sign(42, b"msg")
assert G2ProofOfPossession.Verify(pk, b"msg", sig) is True
assert G2ProofOfPossession.Verify(pk, b"msg2", sig) is False

print("equiv OK: %d checks (%d accepted, %d rejected)" % (checks, n_acc, n_rej))
