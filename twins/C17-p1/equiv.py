import os, sys; sys.path.insert(0, os.getcwd())  # noqa: E401,E702

# Equivalence demonstration for C17/p1: bounded LRU memo inside subgroup_check.
# Loads the pristine py_ecc/bls/g2_primitives.py under another module name and checks that
# the edited module returns the same booleans / raises the same exception classes for
# every input and for every call history tried (repeats, interleavings, eviction, threads).
import importlib
import importlib.util
import random
import threading
import time

T0 = time.time()
HERE = os.path.dirname(os.path.abspath(__file__))

new = importlib.import_module("py_ecc.bls.g2_primitives")
assert os.path.abspath(new.__file__).startswith(os.getcwd()), new.__file__
spec = importlib.util.spec_from_file_location(
    "py_ecc.bls.g2_primitives_pristine", os.path.join(HERE, "pristine", "g2_primitives.py")
)
old = importlib.util.module_from_spec(spec)
sys.modules[spec.name] = old
spec.loader.exec_module(old)
assert not hasattr(old, "_subgroup_check_cache")
assert hasattr(new, "_subgroup_check_cache"), "edited tree expected"

from py_ecc.bls.point_compression import modular_squareroot_in_FQ2  # noqa: E402
from py_ecc.fields import (  # noqa: E402
    optimized_bn128_FQ,
    optimized_bn128_FQ2,
)
from py_ecc.optimized_bls12_381 import (  # noqa: E402
    FQ,
    FQ2,
    FQ12,
    G1,
    G2,
    G12,
    Z1,
    Z2,
    add,
    b,
    b2,
    curve_order as r,
    field_modulus as p,
    is_on_curve,
    multiply,
    neg,
)
import py_ecc.optimized_bn128 as bn  # noqa: E402

rng = random.Random(0xC17)
X = -0xD201000000010000
H1 = (X - 1) ** 2 // 3
H2 = (X**8 - 4 * X**7 + 5 * X**6 - 4 * X**4 + 6 * X**3 - 4 * X**2 - 4 * X + 13) // 9
assert p == H1 * r + X


def outcome(fn, *a):
    try:
        v = fn(*a)
        return ("ok", type(v).__name__, v)
    except RecursionError:
        raise
    except BaseException as e:  # noqa: B902
        return ("exc", type(e).__name__)


def snapshot(P):
    # a value-level picture of the argument, to detect mutation
    try:
        return repr(P)
    except Exception:
        return None


checked = 0


def compare(P, label=""):
    global checked
    if os.environ.get("EQUIV_TRACE"):
        print(f"{time.time() - T0:7.1f} {label}", flush=True)
    s0 = snapshot(P)
    a = outcome(old.subgroup_check, P)
    bres = outcome(new.subgroup_check, P)
    assert a == bres, (label, a, bres)
    assert snapshot(P) == s0, ("argument mutated", label)
    checked += 1
    return a


def rand_g1():
    while True:
        x = FQ(rng.randrange(p))
        rhs = x * x * x + b
        y = rhs ** ((p + 1) // 4)
        if y * y == rhs:
            if rng.random() < 0.5:
                y = -y
            return (x, y, FQ(1))


def rand_g2():
    while True:
        x = FQ2([rng.randrange(p), rng.randrange(p)])
        y = modular_squareroot_in_FQ2(x * x * x + b2)
        if y is not None:
            if rng.random() < 0.5:
                y = -y
            return (x, y, FQ2.one())


def scale(P, lam):
    return tuple(c * lam for c in P)


def lam1():
    return FQ(rng.randrange(1, p))


def lam2():
    return FQ2([rng.randrange(p), rng.randrange(1, p)])


# ---------------------------------------------------------------- well-formed points
pts = []  # (label, point, expected or None)
pts += [("G1", G1, True), ("G2", G2, True), ("Z1", Z1, True), ("Z2", Z2, True)]
pts += [
    ("inf010", (FQ(0), FQ(1), FQ(0)), True),
    ("inf000", (FQ(0), FQ(0), FQ(0)), True),
    ("infxy0", (FQ(5), FQ(7), FQ(0)), True),
    ("inf2_010", (FQ2.zero(), FQ2.one(), FQ2.zero()), True),
    ("inf2_000", (FQ2.zero(), FQ2.zero(), FQ2.zero()), True),
    ("inf2_xy0", (FQ2([3, 4]), FQ2([5, 6]), FQ2.zero()), True),
]
for k in [1, 2, 3, r - 1, r, r + 1, rng.randrange(r), rng.randrange(2**300)]:
    pts.append((f"kG1_{k}", multiply(G1, k), True))
for k in [1, 2, r - 1, r, rng.randrange(r)]:
    pts.append((f"kG2_{k}", multiply(G2, k), True))
pts.append(("negG1", neg(G1), True))
pts.append(("negG2", neg(G2), True))

# torsion components in E(Fp)
R1 = rand_g1()
T1_full = multiply(R1, r)  # order divides h1
pts.append(("R1", R1, None))
pts.append(("T1_full", T1_full, False))
for ell in [3, 11, 10177, 859267, 52437899]:
    assert H1 % ell == 0
    for _ in range(5):
        T = multiply(rand_g1(), r * (H1 // ell))
        if not T[2] == FQ(0):
            break
    assert is_on_curve(T, b)
    pts.append((f"T1_{ell}", T, None))
    pts.append((f"kG1+T1_{ell}", add(multiply(G1, rng.randrange(1, r)), T), None))
pts.append(("kG1+T1_full", add(multiply(G1, rng.randrange(1, r)), T1_full), False))

# torsion components in E'(Fp2)
R2 = rand_g2()
assert is_on_curve(R2, b2)
T2_full = multiply(R2, r)
pts.append(("R2", R2, None))
pts.append(("T2_full", T2_full, False))
for ell in [13, 23, 2713, 11953, 262069]:
    assert H2 % ell == 0
    T = multiply(rand_g2(), r * (H2 // ell))
    assert is_on_curve(T, b2)
    pts.append((f"T2_{ell}", T, None))
    pts.append((f"kG2+T2_{ell}", add(multiply(G2, rng.randrange(1, r)), T), None))
pts.append(("kG2+T2_full", add(multiply(G2, rng.randrange(1, r)), T2_full), False))

# random curve points and off-curve points
for i in range(4):
    pts.append((f"rand1_{i}", rand_g1(), None))
for i in range(2):
    pts.append((f"rand2_{i}", rand_g2(), None))
pts.append(("off1", (FQ(1), FQ(1), FQ(1)), None))
pts.append(("off1b", (FQ(0), FQ(0), FQ(1)), None))
pts.append(("off2", (FQ2([1, 2]), FQ2([3, 4]), FQ2([5, 6])), None))
# unreduced / hand-made coordinate objects (exotic but still plain FQ instances)
weird = FQ(1)
weird.n = p + 1
pts.append(("unreduced", (G1[0], G1[1], weird), None))
weird0 = FQ(0)
weird0.n = p
pts.append(("unreduced0", (G1[0], G1[1], weird0), None))

first = {}
for label, P, exp in pts:
    res = compare(P, label)
    assert res[0] == "ok" and res[1] == "bool", (label, res)
    if exp is not None:
        assert res[2] is exp, (label, res)
    first[label] = res

# projective rescalings of every point: same verdicts, distinct cache keys
for label, P, exp in pts:
    if type(P[0]) is FQ:
        Q = scale(P, lam1())
    else:
        Q = scale(P, lam2())
    res = compare(Q, label + "*lam")
    if "unreduced" not in label:
        assert res == first[label], (label, res, first[label])

# repeat everything (now served from the memo) in shuffled order, twice
for _ in range(2):
    order = list(pts)
    rng.shuffle(order)
    for label, P, exp in order:
        res = compare(P, label + "/again")
        assert res == first[label], label
        # equal-valued but distinct objects
        if type(P[0]) is FQ:
            Q = tuple(FQ(c.n) for c in P)
        else:
            Q = tuple(FQ2(list(c.coeffs)) for c in P)
        if "unreduced" not in label:
            assert compare(Q, label + "/copy") == first[label], label

# keys must separate fields and coordinate positions: same integers, different points
compare((FQ(0), FQ(1), FQ(0)), "perm-a")
compare((FQ(1), FQ(0), FQ(0)), "perm-b")
compare((FQ(0), FQ(0), FQ(1)), "perm-c")
compare((FQ(1), FQ(1), FQ(1)), "perm-d")
compare((FQ2([0, 1]), FQ2([1, 0]), FQ2([0, 0])), "perm2-a")
compare((FQ2([0, 1]), FQ2([1, 0]), FQ2([1, 0])), "perm2-b")
compare((FQ2([1, 0]), FQ2([0, 1]), FQ2([1, 0])), "perm2-c")
compare((FQ2([1, 0]), FQ2([1, 0]), FQ2([1, 0])), "perm2-d")
compare((FQ(1), FQ(0), FQ(1)), "perm-e")
compare((FQ2([1, 0]), FQ2([0, 0]), FQ2([1, 0])), "perm2-e")

# ---------------------------------------------------------------- malformed inputs
class SubFQ(FQ):  # same modulus, different class
    pass


class OtherFQ(FQ):
    field_modulus = 13


fq2_with_fq_coeffs = tuple(FQ2([FQ(c.coeffs[0]), FQ(c.coeffs[1])]) for c in G2)
malformed = [
    ("none", None),
    ("int", 5),
    ("str", "abc"),
    ("empty", ()),
    ("two", (G1[0], G1[1])),
    ("two0", (G1[0], FQ(0))),
    ("four", (G1[0], G1[1], G1[2], FQ(1))),
    ("list", list(G1)),
    ("listZ", list(Z1)),
    ("list2", list(G2)),
    # (plain-int coordinates are left out: without a modulus the doubling chain squares
    # the size of the numbers 255 times and never finishes, in either version)
    ("mixed-int", (G1[0], G1[1], 1)),
    ("mixed-fields", (G1[0], G1[1], FQ2.one())),
    ("mixed-fields2", (G2[0], G2[1], FQ(1))),
    ("mixed-fields3", (G1[0], G2[1], FQ(1))),
    ("subclass", tuple(SubFQ(c.n) for c in G1)),
    ("subclass-inf", (SubFQ(1), SubFQ(1), SubFQ(0))),
    ("otherfq", (OtherFQ(1), OtherFQ(2), OtherFQ(1))),
    ("otherfq-same-ints-as-cached", (OtherFQ(0), OtherFQ(1), OtherFQ(0))),
    ("fq2-fq-coeffs", fq2_with_fq_coeffs),
    ("bn128-G1", bn.G1),
    ("bn128-G2", bn.G2),
    ("bn128-Z1", bn.Z1),
    ("bn128-ints-as-bls", tuple(optimized_bn128_FQ(c.n) for c in (FQ(0), FQ(1), FQ(0)))),
    ("bn128-fq2", (optimized_bn128_FQ2([1, 0]), optimized_bn128_FQ2([1, 0]), optimized_bn128_FQ2([1, 0]))),
    ("G12", G12),
    ("fq12-inf", (FQ12.one(), FQ12.one(), FQ12.zero())),
    ("none-coords", (None, None, None)),
    ("float", (1.0, 2.0, 0.0)),
    ("dict", {G1[0].n: 0, G1[1].n: 1}),
    ("set", frozenset([1, 2])),
]
bad_n = FQ(1)
bad_n.n = 1.0
malformed.append(("float-n", (G1[0], G1[1], bad_n)))
bad_n2 = FQ(1)
bad_n2.n = True
malformed.append(("bool-n", (G1[0], G1[1], bad_n2)))
bad_c = FQ2([1, 0])
bad_c.coeffs = [1, 0]
malformed.append(("list-coeffs", (G2[0], G2[1], bad_c)))
bad_c2 = FQ2([1, 0])
bad_c2.coeffs = (1,)
malformed.append(("short-coeffs", (G2[0], G2[1], bad_c2)))
bad_c3 = FQ2([1, 0])
bad_c3.coeffs = (1.0, 0.0)
malformed.append(("float-coeffs", (G2[0], G2[1], bad_c3)))

size_before = len(new._subgroup_check_cache)
for _ in range(2):
    for label, P in malformed:
        compare(P, "malformed/" + label)
# interleave malformed with good ones
for label, P in malformed[:12]:
    compare(P, "malformed/" + label)
    compare(G1, "G1")
    compare(T1_full, "T1_full")
# only short-coeffs / unhandled shapes may or may not be cached; nothing that is not a
# plain tuple of FQ / FQ2 may have entered the table
for k in new._subgroup_check_cache:
    assert type(k) is tuple and k[0] in (FQ, FQ2), k

# ---------------------------------------------------------------- eviction / long histories
base = [G1, T1_full, R1, Z1, multiply(G1, 7), add(G1, T1_full)]
verdict = [old.subgroup_check(P) for P in base]
hist = []
for i in range(330):  # more distinct keys than the table holds
    j = rng.randrange(len(base))
    Q = scale(base[j], lam1())
    hist.append((j, Q))
    assert new.subgroup_check(Q) is verdict[j], (i, j)
    checked += 1
    if i % 7 == 0:  # revisit an old one (may be evicted or not)
        j2, Q2 = hist[rng.randrange(len(hist))]
        assert new.subgroup_check(Q2) is verdict[j2]
        assert new.subgroup_check(G2) is True
    assert len(new._subgroup_check_cache) <= new._SUBGROUP_CHECK_CACHE_SIZE
assert len(new._subgroup_check_cache) == new._SUBGROUP_CHECK_CACHE_SIZE
# everything again after eviction, against the pristine implementation
for j, Q in hist[:40] + hist[-40:]:
    assert compare(Q, "hist")[2] is verdict[j]
for label, P, exp in pts:
    assert compare(P, label + "/after-eviction") == first[label]

# ---------------------------------------------------------------- threads
errors = []


def worker(seed):
    lr = random.Random(seed)
    try:
        for _ in range(60):
            j = lr.randrange(len(base))
            lam = FQ(lr.randrange(1, p))
            Q = base[j] if lr.random() < 0.5 else tuple(c * lam for c in base[j])
            if new.subgroup_check(Q) is not verdict[j]:
                errors.append((seed, j))
    except BaseException as e:  # noqa: B902
        errors.append(repr(e))


ths = [threading.Thread(target=worker, args=(s,)) for s in range(4)]
[t.start() for t in ths]
[t.join() for t in ths]
assert not errors, errors
assert len(new._subgroup_check_cache) <= new._SUBGROUP_CHECK_CACHE_SIZE

# module constants untouched
import py_ecc.optimized_bls12_381 as C  # noqa: E402

assert C.curve_order == 52435875175126190479447740508185965837690552500527637822603658699938581184513
assert C.G1[2] == FQ(1) and C.Z1[2] == FQ(0) and C.G2[2] == FQ2.one() and C.Z2[2] == FQ2.zero()

# the other functions of the module are untouched: spot-check round trips on both
for k in [1, 5, rng.randrange(r)]:
    P1, P2 = multiply(G1, k), multiply(G2, k)
    assert old.G1_to_pubkey(P1) == new.G1_to_pubkey(P1)
    assert old.G2_to_signature(P2) == new.G2_to_signature(P2)
    assert outcome(old.pubkey_to_G1, new.G1_to_pubkey(P1))[:2] == outcome(new.pubkey_to_G1, old.G1_to_pubkey(P1))[:2]

print(f"p1 equiv OK: {checked} comparisons, {time.time() - T0:.1f}s")
