import os, sys; sys.path.insert(0, os.getcwd())  # noqa: E702
"""
Equivalence demonstration for t2 (algebraic restatements in py_ecc/bls/point_compression.py).

Loads the pristine point_compression.py (saved next to this script) under a second
module name inside the same package and compares every public function of the module
with the edited one: results must agree in value AND representation (classes, coefficient
types, reduced coefficients), exceptions in class and message.
"""
import importlib.util
import random

HERE = os.path.dirname(os.path.abspath(__file__))

import py_ecc.bls.point_compression as new  # noqa: E402

assert os.path.abspath(new.__file__).startswith(os.getcwd()), new.__file__

spec = importlib.util.spec_from_file_location(
    "py_ecc.bls.point_compression_pristine",
    os.path.join(HERE, "pristine", "point_compression.py"),
)
old = importlib.util.module_from_spec(spec)
sys.modules[spec.name] = old
spec.loader.exec_module(old)
assert old.__package__ == "py_ecc.bls"

from py_ecc.fields import (  # noqa: E402
    optimized_bls12_381_FQ as FQ,
    optimized_bls12_381_FQ2 as FQ2,
)
from py_ecc.optimized_bls12_381 import (  # noqa: E402
    G1, G2, Z1, Z2, add, b2, curve_order as r, double, field_modulus as q, is_on_curve,
    multiply, neg, normalize,
)
from py_ecc.bls.constants import EIGHTH_ROOTS_OF_UNITY, POW_2_381, POW_2_382, POW_2_383  # noqa: E402
from py_ecc.bls.hash_to_curve import hash_to_G2  # noqa: E402
from hashlib import sha256  # noqa: E402

rng = random.Random(0xC01)
n_checks = 0

# the eighth roots of unity are pairwise distinct (used by the restated table lookup)
for i in range(8):
    for j in range(i + 1, 8):
        assert EIGHTH_ROOTS_OF_UNITY[i] != EIGHTH_ROOTS_OF_UNITY[j]
assert len(EIGHTH_ROOTS_OF_UNITY) == 8 and type(EIGHTH_ROOTS_OF_UNITY) is tuple
ROOTS_BEFORE = [r_.coeffs for r_ in EIGHTH_ROOTS_OF_UNITY]


def canon(v):
    """value together with its exact representation"""
    if isinstance(v, FQ):
        return ("FQ", type(v).__name__, type(v.n).__name__, v.n)
    if isinstance(v, FQ2):
        return ("FQ2", type(v).__name__, tuple(canon(c) for c in v.coeffs))
    if isinstance(v, tuple):
        return ("tuple", tuple(canon(c) for c in v))
    if isinstance(v, list):
        return ("list", tuple(canon(c) for c in v))
    return (type(v).__name__, v)


def outcome(fn, *args):
    try:
        return ("ok", canon(fn(*args)))
    except BaseException as e:  # noqa: B902
        return ("exc", type(e).__name__, str(e))


def same(fname, *args):
    global n_checks
    a = outcome(getattr(old, fname), *args)
    b = outcome(getattr(new, fname), *args)
    if a != b:
        print("MISMATCH", fname, repr(args)[:300], "\n old:", a, "\n new:", b)
        sys.exit(1)
    n_checks += 1
    return b


def rescale(pt, k):
    """another projective representative of the same point"""
    x, y, z = pt
    return (x * k, y * k, z * k)


# ------------------------------------------------------------------ G1
scalars = [1, 2, 3, r - 2, r - 1, r, r + 1, 1 << 128, (1 << 200) - 1]
scalars += [1 << k for k in range(0, 255, 9)]
scalars += [rng.randrange(1 << 254, r) for _ in range(12)]
g1_pts = [Z1, (FQ(0), FQ(0), FQ(0)), (FQ(5), FQ(7), FQ(0)), G1, neg(G1), double(G1), add(G1, neg(G1))]
for s in scalars:
    p = multiply(G1, s)
    g1_pts += [p, neg(p), rescale(p, rng.randrange(1, q)), (p[0] / p[2], p[1] / p[2], FQ(1))]
zs = set()
for p in g1_pts:
    res = same("compress_G1", p)
    assert res[0] == "ok"
    z = res[1][1]
    zs.add(z)
    back = same("decompress_G1", z)
    assert back[0] == "ok" or not is_on_curve(p, FQ(4)), (p, back)
# points of the curve outside the subgroup and x values off the curve
for x in list(range(0, 40)) + [q - 1, q - 2, q, q + 1, POW_2_381 - 1] + [rng.randrange(q) for _ in range(150)]:
    for flags in range(8):
        zs.add(x + flags * POW_2_381)
zs |= {0, 1, -1, -5, -POW_2_383, -(POW_2_383 + 7), POW_2_383, POW_2_383 + POW_2_382, POW_2_383 + POW_2_382 + POW_2_381,
       POW_2_383 + POW_2_382 + 1, 2**384, 2**384 + POW_2_383 + 5, 2**400 + POW_2_383 + 12345, 2**383 + q, 2**383 + q - 1}
zs |= {rng.getrandbits(384) for _ in range(200)}
zs |= {rng.getrandbits(381) + POW_2_383 for _ in range(100)}
n_ok = 0
for z in sorted(zs):
    res = same("decompress_G1", z)
    same("get_flags", z)
    same("is_point_at_infinity", z)
    if res[0] == "ok":
        n_ok += 1
        # a decompressed point re-compresses identically in both versions
        pt = new.decompress_G1(z)
        same("compress_G1", pt)
assert n_ok > 100
for bad in [True, False, 1.5, None, "12", b"\x80", FQ(3), (1, 2)]:
    same("decompress_G1", bad)
for bad in [None, (1, 2, 3), (FQ(1), FQ(2)), (FQ2([1, 2]), FQ2([3, 4]), FQ2([1, 0])), G2, "abc", ()]:
    same("compress_G1", bad)

# ------------------------------------------------------------------ modular_squareroot_in_FQ2
vals = [FQ2([1, 0]), FQ2([0, 1]), FQ2([q - 1, 0]), FQ2([0, q - 1]), FQ2([4, 4]), FQ2([2, 0]), FQ2([3, 0]),
        FQ2([5, 0]), FQ2([0, 2]), FQ2([0, 3]), FQ2([1, 1]), FQ2([q - 1, q - 1]), FQ2([-1, 0]), FQ2([-3, 7])]
vals += list(EIGHTH_ROOTS_OF_UNITY)
for _ in range(60):
    v = FQ2([rng.randrange(q), rng.randrange(q)])
    vals += [v, v * v, v * v * EIGHTH_ROOTS_OF_UNITY[1]]
for _ in range(15):
    a = rng.randrange(q)
    vals += [FQ2([a, 0]), FQ2([a * a, 0]), FQ2([-(a * a), 0]), FQ2([0, a])]
# FQ-valued coefficients (accepted by the field class)
vals += [FQ2([FQ(9), FQ(0)]), FQ2([FQ(3), FQ(5)]), FQ2([FQ(rng.randrange(q)), FQ(rng.randrange(q))])]
n_some = n_none = 0
for v in vals:
    res = same("modular_squareroot_in_FQ2", v)
    assert res[0] == "ok"
    if res[1] == ("NoneType", None):
        n_none += 1
    else:
        n_some += 1
assert n_some > 50 and n_none > 20, (n_some, n_none)
for bad in [FQ2([0, 0]), FQ2.zero(), None, FQ(4), "x", (1, 2), 1.5]:  # (a bare int would be raised to a 760-bit power)
    res = same("modular_squareroot_in_FQ2", bad)
# repeated calls give equal results (no state)
v = vals[20]
assert same("modular_squareroot_in_FQ2", v) == same("modular_squareroot_in_FQ2", v)

# ------------------------------------------------------------------ G2
g2_pts = [Z2, (FQ2([0, 0]), FQ2([0, 0]), FQ2([0, 0])), G2, neg(G2), double(G2), add(G2, neg(G2))]
for s in scalars[:9] + scalars[-8:]:
    p = multiply(G2, s)
    g2_pts += [p, neg(p), rescale(p, FQ2([rng.randrange(1, q), rng.randrange(q)]))]
msgs = [b"", b"\x00", b"a" * 55, b"b" * 56, b"c" * 63, b"d" * 64, b"e" * 65, bytes(range(256)), rng.randbytes(3000)]
DSTS = [b"BLS_SIG_BLS12381G2_XMD:SHA-256_SSWU_RO_NUL_", b"BLS_SIG_BLS12381G2_XMD:SHA-256_SSWU_RO_AUG_",
        b"BLS_SIG_BLS12381G2_XMD:SHA-256_SSWU_RO_POP_", b"BLS_POP_BLS12381G2_XMD:SHA-256_SSWU_RO_POP_"]
sks = [1, 2, r - 2, r - 1, rng.randrange(1 << 254, r), rng.randrange(1 << 254, r), 1 << 254, 12345, 3]
for i, m in enumerate(msgs):
    h = hash_to_G2(m, DSTS[i % 4], sha256)
    g2_pts += [h, multiply(h, sks[i])]
# points of the twisted curve with a purely real / purely imaginary y (y_im == 0 branch)
special = []
bb = 1
while len(special) < 6 and bb < 400:
    # x = a + bb*i with Im(x^3) = 3 a^2 bb - bb^3 = -4  (so that x^3 + 4 + 4i is real)
    t = (bb**3 - 4) * pow(3 * bb, -1, q) % q
    a = pow(t, (q + 1) // 4, q)
    if a * a % q == t:
        for aa in (a, q - a):
            x = FQ2([aa, bb])
            rhs = x * x * x + b2
            assert rhs.coeffs[1] == 0
            special.append(x)
    bb += 1
assert special
n_real_y = 0
for x in special:
    for flag in (0, 1):
        z1 = x.coeffs[1] + flag * POW_2_381 + POW_2_383
        z2 = x.coeffs[0]
        res = same("decompress_G2", (z1, z2))
        if res[0] == "ok":
            pt = new.decompress_G2((z1, z2))
            if pt[1].coeffs[1] == 0:
                n_real_y += 1
            g2_pts.append(pt)
            g2_pts.append(neg(pt))
assert n_real_y >= 2, n_real_y

pairs = set()
for p in g2_pts:
    res = same("compress_G2", p)
    assert res[0] == "ok", res
    z1, z2 = new.compress_G2(p)
    pairs.add((z1, z2))
    # flip the sign flag, and clear/set the other flags
    for delta in (POW_2_381, -POW_2_383, POW_2_382):
        pairs.add((z1 ^ abs(delta), z2))
for x1 in list(range(0, 6)) + [q - 1, q, POW_2_381 - 1, rng.randrange(q), rng.randrange(q)]:
    for x2 in [0, 1, 2, q - 1, q, q + 5, -1, -7, 2**384, rng.randrange(q), rng.randrange(q)]:
        for flags in (4, 5, 6, 7, 0):
            pairs.add((x1 + flags * POW_2_381, x2))
for _ in range(120):
    pairs.add((rng.randrange(q) + POW_2_383 + rng.randrange(2) * POW_2_381, rng.randrange(q)))
pairs |= {(POW_2_383 + POW_2_382, 0), (POW_2_383 + POW_2_382, 1), (POW_2_383 + POW_2_382 + POW_2_381, 0),
          (POW_2_383, 0), (0, 0), (-1, 0), (2**384 + POW_2_383 + 3, 5)}
n_ok = 0
for pr in sorted(pairs):
    res = same("decompress_G2", pr)
    same("is_point_at_infinity", pr[0], pr[1])
    if res[0] == "ok":
        n_ok += 1
        pt = new.decompress_G2(pr)
        assert is_on_curve(pt, b2)
        same("compress_G2", pt)
assert n_ok > 80, n_ok
# unusual but accepted / refused argument shapes
for bad in [(POW_2_383 + 3, True), (POW_2_383 + 3, False), (POW_2_383 + 1, FQ(2)), (POW_2_383 + 1, FQ(0)),
            [POW_2_383 + 1, 2], (POW_2_383 + 1,), (POW_2_383 + 1, 2, 3), (POW_2_383 + 1, None), (None, 1),
            (POW_2_383 + 1, 1.0), (1.5, 1), None, 5, (True, 0), ("a", "b")]:
    same("decompress_G2", bad)
for bad in [None, (1, 2, 3), G1, Z1, (FQ2([1, 2]), FQ2([3, 4]), FQ2([1, 0])), (FQ2([1, 2]), FQ2([3, 4])), "abc", (),
            (FQ2([FQ(1), FQ(2)]), FQ2([FQ(3), FQ(4)]), FQ2([FQ(0), FQ(0)]))]:
    same("compress_G2", bad)

# each call returns fresh, independent objects; repeating / interleaving calls changes nothing
z1, z2 = new.compress_G2(G2)
a1 = same("decompress_G2", (z1, z2))
same("decompress_G2", (POW_2_383 + POW_2_382, 0))
same("decompress_G1", new.compress_G1(G1))
a2 = same("decompress_G2", (z1, z2))
assert a1 == a2
p_a, p_b = new.decompress_G2((z1, z2)), new.decompress_G2((z1, z2))
assert p_a is not p_b and p_a[2] is not p_b[2] and canon(p_a) == canon(p_b)

# module constants untouched
assert [r_.coeffs for r_ in EIGHTH_ROOTS_OF_UNITY] == ROOTS_BEFORE
assert canon(Z1) == canon((FQ(1), FQ(1), FQ(0))) and canon(Z2) == canon((FQ2([1, 0]), FQ2([1, 0]), FQ2([0, 0])))
assert canon(b2) == canon(FQ2([4, 4]))

# ------------------------------------------------------------------ the property itself on the edited tree
from py_ecc.bls import G2Basic, G2MessageAugmentation, G2ProofOfPossession  # noqa: E402
import py_ecc.bls.g2_primitives as prim  # noqa: E402

assert prim.compress_G2 is new.compress_G2 and prim.decompress_G1 is new.decompress_G1


def old_G2_to_signature(pt):
    z1, z2 = old.compress_G2(pt)
    return z1.to_bytes(48, "big") + z2.to_bytes(48, "big")


for i, (suite, sk, m) in enumerate([
    (G2Basic, 1, b""), (G2Basic, r - 1, b"a" * 64), (G2MessageAugmentation, r - 2, b"b" * 55),
    (G2MessageAugmentation, sks[4], bytes(range(256))), (G2ProofOfPossession, 2, b"c" * 65),
    (G2ProofOfPossession, sks[5], rng.randbytes(2048)),
]):
    pk = suite.SkToPk(sk)
    assert pk == old.compress_G1(multiply(G1, sk)).to_bytes(48, "big")
    sig = suite.Sign(sk, m)
    full_m = pk + m if suite is G2MessageAugmentation else m
    assert sig == old_G2_to_signature(multiply(hash_to_G2(full_m, suite.DST, sha256), sk))
    assert suite.Verify(pk, m, sig) is True
    n_checks += 3
for sk in (1, r - 1, sks[4]):
    pk = G2ProofOfPossession.SkToPk(sk)
    proof = G2ProofOfPossession.PopProve(sk)
    assert proof == old_G2_to_signature(multiply(hash_to_G2(pk, G2ProofOfPossession.POP_TAG, sha256), sk))
    assert G2ProofOfPossession.PopVerify(pk, proof) is True
    n_checks += 2

print("t2 equivalence: %d paired checks identical" % n_checks)
sys.exit(0)
