import os, sys; sys.path.insert(0, os.getcwd())  # noqa: E401,E702

"""
Run on the PRISTINE tree: records constants (with their Python types) and a set of
group-law results of all four curve modules as plain integers into golden.json.
equiv.py re-computes the same records on the edited tree and compares.
"""

import importlib
import json
import random

HERE = os.path.dirname(os.path.abspath(__file__))
MODULES = ["py_ecc.bn128", "py_ecc.bls12_381", "py_ecc.optimized_bn128",
           "py_ecc.optimized_bls12_381"]


def enc(v):
    """value -> JSON-able structure carrying exact type names"""
    if v is None:
        return None
    if isinstance(v, bool):
        return ["bool", v]
    if isinstance(v, int):
        return [type(v).__name__, str(v)]
    if isinstance(v, (tuple, list)):
        return [type(v).__name__, [enc(u) for u in v]]
    if isinstance(v, dict):
        return ["dict", [[k, enc(v[k])] for k in v]]
    if hasattr(v, "coeffs"):
        return [type(v).__name__, type(v).field_modulus and str(type(v).field_modulus),
                [enc(getattr(c, "n", c)) for c in v.coeffs],
                [type(c).__name__ for c in v.coeffs]]
    if hasattr(v, "n"):
        return [type(v).__name__, str(type(v).field_modulus), enc(v.n)]
    raise TypeError(type(v))


def outcome(f, *args):
    try:
        return ["ok", enc(f(*args))]
    except Exception as e:  # noqa: BLE001
        return ["exc", type(e).__name__]


def records():
    out = {}
    fp = importlib.import_module("py_ecc.fields.field_properties")
    out["field_properties"] = enc(fp.field_properties)
    out["field_properties_keys"] = [list(fp.field_properties), [list(d) for d in fp.field_properties.values()]]
    fields = importlib.import_module("py_ecc.fields")
    for cname in sorted(k for k in vars(fields) if "bn128_" in k or "bls12_381_" in k):
        cls = getattr(fields, cname)
        out["fields." + cname] = [enc(cls.field_modulus),
                                  enc(getattr(cls, "FQ2_MODULUS_COEFFS", None)),
                                  enc(getattr(cls, "FQ12_MODULUS_COEFFS", None))]
    for mname in MODULES:
        pkg = importlib.import_module(mname)
        cur = importlib.import_module(pkg.add.__module__)
        rng = random.Random(mname)
        p, r = cur.field_modulus, cur.curve_order
        rec = {}
        for name in ("field_modulus", "curve_order", "b", "b2", "b12", "G1", "G2", "G12",
                     "Z1", "Z2", "w"):
            rec[name] = enc(getattr(cur, name))
            assert getattr(pkg, name, getattr(cur, name)) is getattr(cur, name)
        norm = getattr(cur, "normalize", lambda q: q)

        def nrm(q):
            return None if cur.is_inf(q) else norm(q)

        scalars = [0, 1, 2, 3, r - 1, r, r + 1, 2 * p - r, r * r, p, p - r,
                   rng.getrandbits(255), rng.getrandbits(640)]
        for i, n in enumerate(scalars):
            rec["G1*s%d" % i] = outcome(lambda: nrm(cur.multiply(cur.G1, n)))
            rec["Z1*s%d" % i] = outcome(lambda: nrm(cur.multiply(cur.Z1, n)))
        for i, n in enumerate([0, 1, 2, 3, r - 1, r, r + 1, 2 * p - r, rng.getrandbits(640)]):
            rec["G2*s%d" % i] = outcome(lambda: nrm(cur.multiply(cur.G2, n)))
        for i, n in enumerate([0, 1, 2, 3, 5, r]):
            rec["G12*s%d" % i] = outcome(lambda: nrm(cur.multiply(cur.G12, n)))
        rec["G1*(n mod r)"] = outcome(lambda: cur.eq(cur.multiply(cur.G1, scalars[-1]),
                                                     cur.multiply(cur.G1, scalars[-1] % r)))
        rec["G2*(n mod r)"] = outcome(lambda: cur.eq(cur.multiply(cur.G2, scalars[-1]),
                                                     cur.multiply(cur.G2, scalars[-1] % r)))
        for gname, b in (("G1", cur.b), ("G2", cur.b2), ("G12", cur.b12)):
            g = getattr(cur, gname)
            g2, g3 = cur.double(g), cur.add(cur.double(g), g)
            z = cur.multiply(g, 0)
            rec[gname + " 2P"] = outcome(lambda: nrm(g2))
            rec[gname + " P+2P"] = outcome(lambda: nrm(cur.add(g, g2)))
            rec[gname + " P+P"] = outcome(lambda: nrm(cur.add(g, g)))
            rec[gname + " P-P"] = outcome(lambda: nrm(cur.add(g, cur.neg(g))))
            rec[gname + " P+0"] = outcome(lambda: nrm(cur.add(g, z)))
            rec[gname + " 0+P"] = outcome(lambda: nrm(cur.add(z, g)))
            rec[gname + " 0+0"] = outcome(lambda: nrm(cur.add(z, z)))
            rec[gname + " 2*0"] = outcome(lambda: nrm(cur.double(z)))
            rec[gname + " -0"] = outcome(lambda: nrm(cur.neg(z)))
            rec[gname + " assoc"] = outcome(lambda: cur.eq(cur.add(cur.add(g, g2), g3),
                                                           cur.add(g, cur.add(g2, g3))))
            rec[gname + " on"] = outcome(lambda: [cur.is_on_curve(q, b) for q in (g, g2, g3, z)])
        rec["twist(2*G2)"] = outcome(lambda: nrm(cur.twist(cur.double(cur.G2))))
        rec["twist hom"] = outcome(lambda: cur.eq(cur.twist(cur.double(cur.G2)),
                                                  cur.double(cur.twist(cur.G2))))
        rec["twist(Z2)"] = outcome(lambda: nrm(cur.twist(cur.multiply(cur.G2, 0))))
        # malformed
        rec["mul str"] = outcome(cur.multiply, cur.G1, "3")
        rec["mul None"] = outcome(cur.multiply, cur.G1, None)
        rec["add mixed"] = outcome(lambda: nrm(cur.add(cur.G1, cur.G2)))
        rec["double ()"] = outcome(cur.double, ())
        # pairing-level constants that depend on the order / modulus
        pairing = importlib.import_module(pkg.pairing.__module__)
        rec["pairing.field_modulus"] = enc(pairing.field_modulus)
        rec["pairing.ate_loop_count"] = enc(pairing.ate_loop_count)
        out[mname] = rec
    return out


if __name__ == "__main__":
    with open(os.path.join(HERE, "golden.json"), "w") as f:
        json.dump(records(), f, indent=0, sort_keys=True)
    print("golden written")
