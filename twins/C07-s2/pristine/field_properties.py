from typing import (
    TYPE_CHECKING,
    Dict,
    TypedDict,
)

if TYPE_CHECKING:
    from py_ecc.typing import (
        FQ2_modulus_coeffs_type,
        FQ12_modulus_coeffs_type,
    )


class Curve_Field_Properties(TypedDict):
    field_modulus: int
    fq2_modulus_coeffs: "FQ2_modulus_coeffs_type"
    fq12_modulus_coeffs: "FQ12_modulus_coeffs_type"


Field_Properties = Dict[str, Curve_Field_Properties]

field_properties: Field_Properties = {
    "bn128": {
        "field_modulus": 21888242871839275222246405745257275088696311157297823662689037894645226208583,  # noqa: E501
        "fq2_modulus_coeffs": (1, 0),
        "fq12_modulus_coeffs": (82, 0, 0, 0, 0, 0, -18, 0, 0, 0, 0, 0),  # Implied + [1]
    },
    "bls12_381": {
        "field_modulus": 4002409555221667393417789825735904156556882819939007885332058136124031650490837864442687629129015664037894272559787,  # noqa: E501
        "fq2_modulus_coeffs": (1, 0),
        "fq12_modulus_coeffs": (2, 0, 0, 0, 0, 0, -2, 0, 0, 0, 0, 0),  # Implied + [1]
    },
}
