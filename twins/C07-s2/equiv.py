import os, sys; sys.path.insert(0, os.getcwd())  # noqa: E401,E702

"""
Equivalence demonstration for C07/s2.

The edited tree writes the two field moduli (py_ecc/fields/field_properties.py) and
the four curve_order constants (the four curve modules) as expressions in the curve
family parameters BN128_U / BLS12_381_X instead of long literals.

Two independent comparisons against the pristine tree:
 (A) golden.json was produced by gen_golden.py on the PRISTINE tree (constants with
     their exact Python types, field-class attributes, group-law results of all four
     modules on G1/G2/G12 incl. infinity and boundary scalars, exception classes for
     malformed input).  The same records are recomputed here on the edited tree and
     must be identical.
 (B) the pristine copies of the five touched files (saved under pristine/) are loaded
     with importlib under other module names and compared object by object with the
     edited modules: every module-level constant (value and exact type), and the
     results of add/double/neg/multiply/twist/eq/is_on_curve on shared inputs.
"""

import importlib
import importlib.util
import json
import random

HERE = os.path.dirname(os.path.abspath(__file__))
sys.path.insert(1, HERE)

import gen_golden  # noqa: E402

import py_ecc  # noqa: E402

assert os.path.realpath(py_ecc.__file__).startswith(os.path.realpath(os.getcwd())), py_ecc.__file__

# ------------------------------------------------------------------ (A) golden
with open(os.path.join(HERE, "golden.json")) as f:
    golden = json.load(f)
now = json.loads(json.dumps(gen_golden.records(), sort_keys=True))
assert sorted(now) == sorted(golden)
nrec = 0
for k in golden:
    if isinstance(golden[k], dict):
        assert sorted(golden[k]) == sorted(now[k]), k
        for kk in golden[k]:
            assert golden[k][kk] == now[k][kk], (k, kk, golden[k][kk], now[k][kk])
            nrec += 1
    else:
        assert golden[k] == now[k], (k, golden[k], now[k])
        nrec += 1
print("(A) %d golden records identical" % nrec)


# ------------------------------------------------------- (B) pristine modules
def load(name, fname):
    spec = importlib.util.spec_from_file_location(name, os.path.join(HERE, "pristine", fname))
    mod = importlib.util.module_from_spec(spec)
    sys.modules[name] = mod
    spec.loader.exec_module(mod)
    return mod


checks = 0


def same(a, b, what):
    """deep equality including exact types"""
    global checks
    checks += 1
    if hasattr(a, "coeffs"):
        assert type(a) is type(b), (what, type(a), type(b))
        assert len(a.coeffs) == len(b.coeffs), what
        for u, v in zip(a.coeffs, b.coeffs):
            # reference FQP builds a fresh FQ subclass per instance
            assert type(u).__name__ == type(v).__name__, (what, u, v)
            assert getattr(u, "field_modulus", None) == getattr(v, "field_modulus", None)
            un, vn = getattr(u, "n", u), getattr(v, "n", v)
            assert type(un) is int and type(vn) is int and un == vn, (what, u, v)
        assert a == b, what
        return
    assert type(a) is type(b), (what, type(a), type(b))
    if isinstance(a, (tuple, list)):
        assert len(a) == len(b), what
        for u, v in zip(a, b):
            same(u, v, what)
    elif isinstance(a, dict):
        assert list(a) == list(b), what
        for k in a:
            same(a[k], b[k], (what, k))
    elif hasattr(a, "n"):
        assert type(a.n) is int and type(b.n) is int and a.n == b.n, (what, a, b)
        assert type(a).field_modulus == type(b).field_modulus
        assert a == b, what
    else:
        assert a == b, (what, a, b)


def outcome(f, *args):
    try:
        return ("ok", f(*args))
    except Exception as e:  # noqa: BLE001
        return ("exc", type(e))


def both(old, new, fname, *args):
    global checks
    ro = outcome(getattr(old, fname), *args)
    rn = outcome(getattr(new, fname), *args)
    assert ro[0] == rn[0], (fname, args, ro, rn)
    if ro[0] == "exc":
        assert ro[1] is rn[1], (fname, args, ro, rn)
        checks += 1
    else:
        same(ro[1], rn[1], (fname, args))
    return rn[1]


# field_properties: the dict is identical, key order and exact types included
old_fp = load("pristine_field_properties", "field_properties.py")
# (py_ecc.fields re-exports the dict under the submodule's own name, so fetch the
# module object itself from the import system rather than by attribute access)
new_fp = importlib.import_module("py_ecc.fields.field_properties")
assert new_fp is sys.modules["py_ecc.fields.field_properties"]
import py_ecc.fields  # noqa: E402

assert py_ecc.fields.field_properties is new_fp.field_properties

same(old_fp.field_properties, new_fp.field_properties, "field_properties")
assert type(new_fp.field_properties) is dict
for curve in ("bn128", "bls12_381"):
    for key, val in new_fp.field_properties[curve].items():
        oval = old_fp.field_properties[curve][key]
        assert type(val) is type(oval) and val == oval
        if isinstance(val, tuple):
            assert all(type(c) is int for c in val)
        else:
            assert type(val) is int
            assert hash(val) == hash(oval) and repr(val) == repr(oval)
# named parameters: exact relations to the published constants
u, x = new_fp.BN128_U, new_fp.BLS12_381_X
assert type(u) is int and type(x) is int
assert new_fp.BN128_FIELD_MODULUS is new_fp.field_properties["bn128"]["field_modulus"]
assert new_fp.BLS12_381_FIELD_MODULUS is new_fp.field_properties["bls12_381"]["field_modulus"]
assert ((x - 1) ** 2 * (x**4 - x**2 + 1)) % 3 == 0  # the // 3 is an exact division
assert 6 * u + 2 == 29793968203157093288  # bn128 ate loop count
assert -x == 15132376222941642752  # bls12-381 ate loop count
# everything else defined in the module is unchanged
for k in vars(old_fp):
    if not k.startswith("__") and k not in ("field_properties",):
        assert k in vars(new_fp), k

PAIRS = [
    ("bn128_curve.py", "py_ecc.bn128.bn128_curve", "py_ecc.bn128"),
    ("bls12_381_curve.py", "py_ecc.bls12_381.bls12_381_curve", "py_ecc.bls12_381"),
    ("optimized_bn128_curve.py", "py_ecc.optimized_bn128.optimized_curve", "py_ecc.optimized_bn128"),
    ("optimized_bls12_381_curve.py", "py_ecc.optimized_bls12_381.optimized_curve",
     "py_ecc.optimized_bls12_381"),
]
CONSTS = ("field_modulus", "curve_order", "b", "b2", "b12", "G1", "G2", "G12", "Z1", "Z2", "w")
orders = {}
for fname, modname, pkgname in PAIRS:
    old = load("pristine_" + fname[:-3], fname)
    new = importlib.import_module(modname)
    pkg = importlib.import_module(pkgname)
    pairing = importlib.import_module(pkg.pairing.__module__)
    # namespace: only the imported parameter name is new
    added = set(vars(new)) - set(vars(old))
    assert added <= {"BN128_U", "BLS12_381_X"}, added
    assert set(vars(old)) <= set(vars(new))
    for name in CONSTS:
        same(getattr(old, name), getattr(new, name), (modname, name))
    p, r = new.field_modulus, new.curve_order
    assert type(r) is int and type(p) is int and repr(r) == repr(old.curve_order)
    assert pkg.curve_order is new.curve_order and pairing.curve_order is new.curve_order
    assert pkg.field_modulus == old.field_modulus and pairing.field_modulus == old.field_modulus
    orders[modname] = (p, r)
    # import-time sanity checks of the module still hold for the derived values
    assert pow(2, r, r) == 2 and (p**12 - 1) % r == 0

    rng = random.Random(fname)
    inf1, inf2 = new.multiply(new.G1, 0), new.multiply(new.G2, 0)
    g1 = [inf1, new.G1, new.double(new.G1), new.multiply(new.G1, rng.randrange(r)),
          new.multiply(new.G1, r - 1)]
    g2 = [inf2, new.G2, new.double(new.G2), new.multiply(new.G2, rng.randrange(r))]
    g12 = [new.multiply(new.G12, 0), new.G12, new.double(new.G12)]
    if "optimized" in fname:
        # other projective representatives of the same points, and (0, 0, 0)
        FQ, FQ2 = new.FQ, new.FQ2
        lam = FQ(rng.randrange(1, p))
        g1 += [tuple(c * lam for c in g1[2]), (FQ(7), FQ(11), FQ.zero()),
               (FQ.zero(), FQ.zero(), FQ.zero())]
        lam2 = FQ2([rng.randrange(p), rng.randrange(1, p)])
        g2 += [tuple(c * lam2 for c in g2[2]), (FQ2.zero(), FQ2.zero(), FQ2.zero())]
    scalars = [0, 1, 2, 3, r - 1, r, r + 1, 2 * p - r, rng.getrandbits(640)]
    for pts, b, ns in ((g1, new.b, scalars), (g2, new.b2, [0, 1, 2, 3, r, 2 * p - r]),
                       (g12, new.b12, [0, 1, 2, 3])):
        for a in pts:
            both(old, new, "double", a)
            both(old, new, "neg", a)
            both(old, new, "is_inf", a)
            both(old, new, "is_on_curve", a, b)
            both(old, new, "add", a, new.neg(a))
            for c in pts:
                both(old, new, "add", a, c)
                both(old, new, "eq", a, c)
        for a in pts[:3]:
            for n in ns:
                both(old, new, "multiply", a, n)
    # multiply(P, n) == multiply(P, n mod r) on the prime-order subgroups, with both r
    n = rng.getrandbits(640)
    assert n % r == n % old.curve_order
    assert new.eq(new.multiply(new.G1, n), old.multiply(new.G1, n % old.curve_order))
    assert new.is_inf(new.multiply(new.G1, new.curve_order))
    assert new.is_inf(new.multiply(new.G2, new.curve_order))
    for q in g2[:3]:
        both(old, new, "twist", q)
    for q in ((), (1, 2), 5, "ab", (None, None, None)):
        both(old, new, "double", q)
        both(old, new, "twist", q)
        both(old, new, "multiply", q, 2)
    for n in ("3", None, 2.0, True):
        both(old, new, "multiply", new.G1, n)
    # repeat after interleaving: constants not disturbed
    for name in CONSTS:
        same(getattr(old, name), getattr(new, name), (modname, name, "again"))

# reference and optimized modules of one curve share modulus and order
assert orders["py_ecc.bn128.bn128_curve"] == orders["py_ecc.optimized_bn128.optimized_curve"]
assert (orders["py_ecc.bls12_381.bls12_381_curve"]
        == orders["py_ecc.optimized_bls12_381.optimized_curve"])

# users of curve_order elsewhere in the package bind the same int value
import py_ecc.bls.g2_primitives as g2p  # noqa: E402

assert g2p.curve_order == 52435875175126190479447740508185965837690552500527637822603658699938581184513
assert type(g2p.curve_order) is int

print("(B) %d comparisons against pristine module copies identical" % checks)
print("C07 s2 equivalence OK")
