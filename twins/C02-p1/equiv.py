import os, sys; sys.path.insert(0, os.getcwd())  # noqa: E702

"""
Equivalence demonstration for p1 (bounded memo of KeyValidate verdicts in
py_ecc/bls/ciphersuites.py).

Loads the pristine ciphersuites module next to the edited one (both share the
rest of the library) and compares, call by call and in the same order:
  * KeyValidate on well-formed, malformed and non-bytes inputs, with repeats,
    interleavings and a shrunken cache so eviction happens constantly;
  * Verify / PopVerify of all three suites on the candidate family of C02.
"""
import importlib.util
import random
import time

T0 = time.time()
HERE = os.path.dirname(os.path.abspath(__file__))

import py_ecc.bls.ciphersuites as new  # noqa: E402

assert os.path.abspath(new.__file__).startswith(os.getcwd()), new.__file__
assert hasattr(new, "_key_validate_cache"), "edited tree expected"

spec = importlib.util.spec_from_file_location(
    "py_ecc.bls.ciphersuites_pristine",
    os.path.join(HERE, "pristine", "ciphersuites.py"),
)
old = importlib.util.module_from_spec(spec)
sys.modules[spec.name] = old
spec.loader.exec_module(old)
assert not hasattr(old, "_key_validate_cache")

from py_ecc.bls.g2_primitives import (  # noqa: E402
    G1_to_pubkey,
    G2_to_signature,
    signature_to_G2,
)
from py_ecc.bls.hash import i2osp  # noqa: E402
from py_ecc.bls.hash_to_curve import hash_to_G2  # noqa: E402
from py_ecc.bls.point_compression import decompress_G1, decompress_G2  # noqa: E402
from py_ecc.optimized_bls12_381 import (  # noqa: E402
    G1,
    add,
    curve_order,
    field_modulus as q,
    is_inf,
    multiply,
    neg,
)

rng = random.Random(0xC02)
checks = 0


def outcome(f, *a):
    try:
        return ("ok", f(*a))
    except BaseException as e:  # noqa: B902
        return ("exc", type(e).__name__)


def same(label, fo, fn, *a):
    global checks
    ro, rn = outcome(fo, *a), outcome(fn, *a)
    assert ro == rn and type(ro[1]) is type(rn[1]), (label, ro, rn, a)
    checks += 1
    return rn


# --------------------------------------------------------------------------
# 1. KeyValidate: broad inputs, repeated + interleaved, tiny cache => eviction
# --------------------------------------------------------------------------
def g1_torsion_pubkey():
    # a point of E(Fp) outside the order-r subgroup
    while True:
        x = rng.randrange(q)
        try:
            pt = decompress_G1((1 << 383) + x)
        except ValueError:
            continue
        if not is_inf(multiply(pt, curve_order)):
            return G1_to_pubkey(pt)


class MyBytes(bytes):
    pass


good = [new.G2Basic.SkToPk(k) for k in (1, 2, 3, 7, curve_order - 1, 2**200 + 5)]
good += [new.G2Basic.SkToPk(rng.randrange(1, curve_order)) for _ in range(6)]
inf_pk = i2osp((1 << 383) + (1 << 382), 48)
bad = [
    inf_pk,
    i2osp((1 << 383) + (1 << 382) + (1 << 381), 48),  # infinity with a_flag
    i2osp((1 << 383) + (1 << 382) + 1, 48),  # b_flag with x != 0
    b"\x00" * 48,  # no c_flag
    bytes([good[0][0] & 0x7F]) + good[0][1:],  # c_flag cleared
    bytes([good[0][0] ^ 0x20]) + good[0][1:],  # sign bit flipped (valid: -P)
    bytes([good[0][0] | 0x40]) + good[0][1:],  # b_flag set on finite point
    i2osp((1 << 383) + q, 48),  # x == q
    i2osp((1 << 383) + q + 1, 48),  # x > q
    i2osp((1 << 383) + (1 << 381) - 1, 48),  # x = 2^381-1
    i2osp((1 << 383), 48),  # x = 0
    i2osp((1 << 383) + 1, 48),
    g1_torsion_pubkey(),
    g1_torsion_pubkey(),
    b"",
    good[0][:47],
    good[0] + b"\x00",
    b"\x00" + good[0],
    good[0] * 2,
]
for i in range(48):  # one flip per byte position of a valid key
    b = bytearray(good[1])
    b[i] ^= 1 << (i % 8)
    bad.append(bytes(b))
odd = [
    bytearray(good[0]),
    memoryview(good[0]),
    MyBytes(good[0]),
    MyBytes(inf_pk),
    good[0].hex(),
    None,
    5,
    tuple(good[0]),
    list(good[0]),
]

pool = good + bad + odd
new._KEY_VALIDATE_CACHE_SIZE = 5  # force constant eviction in this phase
seq = []
for _ in range(4):
    s = pool[:]
    rng.shuffle(s)
    seq += s
seq += [good[0], good[0], bad[0], good[0], bad[0], bad[0], odd[2], good[0]]
for x in seq:
    for suite in ("G2Basic", "G2ProofOfPossession", "BaseG2Ciphersuite"):
        same(
            "KeyValidate",
            getattr(old, suite).KeyValidate,
            getattr(new, suite).KeyValidate,
            x,
        )
    assert len(new._key_validate_cache) <= 5
    assert all(type(k) is bytes and len(k) == 48 for k in new._key_validate_cache)
    assert all(type(v) is bool for v in new._key_validate_cache.values())
# every stored verdict equals the pristine verdict for that key
for k, v in new._key_validate_cache.items():
    assert old.G2Basic.KeyValidate(k) is v
# the memo never aliases / mutates the argument
x = good[3]
cp = bytes(bytearray(x))
new.G2Basic.KeyValidate(x)
assert x == cp
new._KEY_VALIDATE_CACHE_SIZE = 1024
new._key_validate_cache.clear()
# fill past the real bound with cheap (non-decodable) keys
for i in range(1100):
    k = i2osp(i, 48)  # c_flag clear -> refused at decode
    assert new.G2Basic.KeyValidate(k) is False
assert len(new._key_validate_cache) == 1024
assert i2osp(0, 48) not in new._key_validate_cache  # oldest evicted
assert new.G2Basic.KeyValidate(i2osp(0, 48)) is False
print("KeyValidate phase done", checks, "checks", round(time.time() - T0, 1), "s")

# --------------------------------------------------------------------------
# 2. Verify / PopVerify over the candidate family
# --------------------------------------------------------------------------
def g2_torsion():
    while True:
        x1, x2 = rng.randrange(q), rng.randrange(q)
        try:
            pt = decompress_G2(((1 << 383) + x1, x2))
        except ValueError:
            continue
        t = multiply(pt, curve_order)
        if not is_inf(t):
            return pt, t


def random_g2_encoding():
    pt, _ = g2_torsion()
    return G2_to_signature(pt)


INF_SIG = i2osp((1 << 383) + (1 << 382), 48) + b"\x00" * 48

MODES = {
    "basic": (
        lambda m: m.G2Basic.Verify,
        lambda pk, msg: msg,
        new.G2Basic.DST,
        new.G2Basic.Sign,
    ),
    "aug": (
        lambda m: m.G2MessageAugmentation.Verify,
        lambda pk, msg: pk + msg,
        new.G2MessageAugmentation.DST,
        new.G2MessageAugmentation.Sign,
    ),
    "pop": (
        lambda m: m.G2ProofOfPossession.Verify,
        lambda pk, msg: msg,
        new.G2ProofOfPossession.DST,
        new.G2ProofOfPossession.Sign,
    ),
    "popverify": (
        lambda m: (lambda pk, msg, sig: m.G2ProofOfPossession.PopVerify(pk, sig)),
        lambda pk, msg: pk,
        new.G2ProofOfPossession.POP_TAG,
        lambda sk, msg: new.G2ProofOfPossession.PopProve(sk),
    ),
}

cases = [
    ("basic", 1, b""),
    ("aug", curve_order - 1, b"\x00" * 32),
    ("pop", rng.randrange(2, curve_order - 1), b"msg-C02"),
    ("popverify", rng.randrange(2, curve_order - 1), b"ignored"),
]


def run_mode(case):
    global checks
    mode, sk, msg = case
    rng.seed(sum(mode.encode()) + 0xC02)
    accepted = 0
    start = checks
    getv, eff, dst, sign = MODES[mode]
    vo, vn = getv(old), getv(new)
    pk = new.G2Basic.SkToPk(sk)
    sig = sign(sk, msg)
    # old and new Sign agree (Sign is untouched, but the module was reloaded)
    if mode != "popverify":
        suite_name = {
            "basic": "G2Basic",
            "aug": "G2MessageAugmentation",
            "pop": "G2ProofOfPossession",
        }[mode]
        assert getattr(old, suite_name).Sign(sk, msg) == sig
    else:
        assert old.G2ProofOfPossession.PopProve(sk) == sig
    S = signature_to_G2(sig)
    H = hash_to_G2(eff(pk, msg), dst, new.G2Basic.xmd_hash_function)
    _, T = g2_torsion()
    sk_other = rng.randrange(1, curve_order)
    idx = list(MODES).index(mode)
    cands = {
        "canonical": sig,
        "neg": G2_to_signature(neg(S)),
        "S+T": G2_to_signature(add(S, T)),
        "inf": INF_SIG,
        "random-g2": random_g2_encoding(),
    }
    # the expensive in-subgroup forgeries are spread over the four modes
    # (each kind is still exercised in two of them) to bound the runtime
    if idx % 2 == 0:
        cands["other-key"] = sign(sk_other, msg)
        cands["sk+1"] = G2_to_signature(multiply(H, (sk + 1) % curve_order or 1))
    else:
        cands["sk-1"] = G2_to_signature(multiply(H, (sk - 1) % curve_order or 2))
        cands["2S"] = G2_to_signature(add(S, S))
    if idx in (0, 3):
        cands["H-itself"] = G2_to_signature(H)
    if idx in (1, 2):
        cands["other-msg"] = sign(sk, msg + b"\x01")
    # cross-suite / cross-domain signatures on the same (sk, msg)
    for other in MODES:
        if other != mode:
            cands["as-" + other] = MODES[other][3](sk, msg)
    # flag bits, and single/multi-bit flips spread over all byte positions
    for bit in (7, 6, 5):
        b = bytearray(sig)
        b[0] ^= 1 << bit
        cands["flag%d" % bit] = bytes(b)
    b = bytearray(sig); b[48] ^= 0x80; cands["z2-flag"] = bytes(b)  # noqa: E702
    positions = rng.sample(range(96), 6)
    for pos in positions:
        b = bytearray(sig)
        b[pos] ^= 1 << rng.randrange(8)
        cands["flip@%d" % pos] = bytes(b)
    for _ in range(3):
        b = bytearray(sig)
        for pos in rng.sample(range(96), 3):
            b[pos] ^= rng.randrange(1, 256)
        cands["multi-%d" % _] = bytes(b)
    # malformed signature / key shapes
    cands["short"] = sig[:95]
    cands["long"] = sig + b"\x00"
    cands["bytearray"] = bytearray(sig)
    cands["none"] = None

    for name, c in cands.items():
        r = same(mode + ":" + name, vo, vn, pk, msg, c)
        if r == ("ok", True):
            accepted += 1
            assert c == sig, (mode, name)
        else:
            assert name != "canonical"
    # repeat the decisive calls after the history above (cache now warm),
    # interleaved with other keys and with invalid keys
    other_pk = new.G2Basic.SkToPk(sk_other)
    for pk_x, c in [
        (pk, sig),
        (other_pk, sig),
        (inf_pk, INF_SIG),
        (inf_pk, sig),
        (bad[5], sig),  # the negated public key
        (bad[12], sig),  # pubkey outside the subgroup
        (bad[4], sig),
        (pk + b"\x00", sig),
        (bytearray(pk), sig),
        (MyBytes(pk), sig),
        (None, sig),
        (pk, sig),
    ]:
        same(mode + ":history", vo, vn, pk_x, msg, c)
    print(mode, "done", checks, "checks", round(time.time() - T0, 1), "s")
    return checks - start, accepted


import multiprocessing  # noqa: E402

with multiprocessing.get_context("fork").Pool(4) as pool_:
    results = pool_.map(run_mode, cases)
accepted = sum(r[1] for r in results)
checks += sum(r[0] for r in results)
assert all(r[1] >= 1 for r in results)
assert accepted >= len(cases)
# the other entry points that go through KeyValidate, with warm cache
pks = [new.G2Basic.SkToPk(k) for k in (11, 12)]
for modname in ("G2Basic", "G2ProofOfPossession"):
    so, sn = getattr(old, modname), getattr(new, modname)
    sigs = [sn.Sign(11, b"a"), sn.Sign(12, b"b")]
    agg = sn.Aggregate(sigs)
    assert so.Aggregate(sigs) == agg
    same("aggverify", so.AggregateVerify, sn.AggregateVerify, pks, [b"a", b"b"], agg)
    same("aggverify", so.AggregateVerify, sn.AggregateVerify, pks, [b"a", b"c"], agg)
    same(
        "aggverify",
        so.AggregateVerify,
        sn.AggregateVerify,
        [pks[0], inf_pk],
        [b"a", b"b"],
        agg,
    )
so, sn = old.G2ProofOfPossession, new.G2ProofOfPossession
s2 = [sn.Sign(11, b"m"), sn.Sign(12, b"m")]
agg = sn.Aggregate(s2)
same("fast", so.FastAggregateVerify, sn.FastAggregateVerify, pks, b"m", agg)
same("fast", so.FastAggregateVerify, sn.FastAggregateVerify, pks[:1], b"m", agg)
same("fast", so.FastAggregateVerify, sn.FastAggregateVerify, [pks[0], inf_pk], b"m", agg)

print("OK: %d identical outcomes, %d acceptances, %.1f s" % (checks, accepted, time.time() - T0))
