import os, sys; sys.path.insert(0, os.getcwd())  # noqa: E401,E702

import importlib.util
import random
import time

HERE = os.path.dirname(os.path.abspath(__file__))

import py_ecc.bls.point_compression as new_pc  # noqa: E402
import py_ecc.bls.g2_primitives as g2p  # noqa: E402
from py_ecc.bls import G2Basic, G2MessageAugmentation, G2ProofOfPossession  # noqa: E402
from py_ecc.bls.constants import POW_2_381, POW_2_382, POW_2_383  # noqa: E402
from py_ecc.bls.hash_to_curve import hash_to_G2  # noqa: E402
from py_ecc.bls.hash import i2osp, os2ip  # noqa: E402
from py_ecc.fields import (  # noqa: E402
    optimized_bls12_381_FQ as FQ,
    optimized_bls12_381_FQ2 as FQ2,
)
from py_ecc.optimized_bls12_381 import (  # noqa: E402
    G1, G2, Z1, Z2, add, b2, curve_order, double, field_modulus as q, multiply, neg,
    normalize,
)
from hashlib import sha256  # noqa: E402

assert os.path.realpath(new_pc.__file__).startswith(os.path.realpath(os.getcwd())), (
    "must run with the worktree as cwd"
)


def load_pristine():
    name = "py_ecc.bls._pristine_point_compression"
    spec = importlib.util.spec_from_file_location(
        name, os.path.join(HERE, "pristine", "point_compression.py")
    )
    mod = importlib.util.module_from_spec(spec)
    sys.modules[name] = mod
    spec.loader.exec_module(mod)
    return mod


old_pc = load_pristine()
assert old_pc.__package__ == "py_ecc.bls"
assert old_pc.decompress_G2 is not new_pc.decompress_G2


def canon(v):
    if isinstance(v, FQ2):
        return ("FQ2", tuple(canon(c) for c in v.coeffs))
    if isinstance(v, FQ):
        return ("FQ", v.n)
    if isinstance(v, tuple):
        return ("tuple", type(v).__name__, tuple(canon(c) for c in v))
    if isinstance(v, bool):
        return ("bool", v)
    if isinstance(v, int):
        return ("int", v)
    if v is None:
        return None
    return (type(v).__name__, repr(v))


def run(f, *a):
    try:
        return ("ok", canon(f(*a)))
    except Exception as e:  # noqa: BLE001
        return ("exc", type(e).__name__, str(e))


n_checked = 0


def same(fname, *a):
    global n_checked
    r_new = run(getattr(new_pc, fname), *a)
    r_old = run(getattr(old_pc, fname), *a)
    assert r_new == r_old, (fname, a, r_new, r_old)
    n_checked += 1
    return r_new


rng = random.Random(20260101)
FLAGS = [a * POW_2_381 + b_ * POW_2_382 + c * POW_2_383
         for a in (0, 1) for b_ in (0, 1) for c in (0, 1)]

# ---------------------------------------------------------------- G1 decoding
g1_pts = [multiply(G1, k) for k in (1, 2, 3, 5, curve_order - 1, rng.randrange(1, curve_order))]
g1_zs = [new_pc.compress_G1(p) for p in g1_pts]
for z in g1_zs:
    assert old_pc.compress_G1(new_pc.decompress_G1(z)) == z
g1_xs = [z % POW_2_381 for z in g1_zs] + [0, 1, 2, 3, 4, q - 1, q, q + 1, POW_2_381 - 1]
g1_xs += [rng.randrange(q) for _ in range(40)]
for x in g1_xs:
    for fl in FLAGS:
        same("decompress_G1", x + fl)
for z in (-1, -POW_2_383, 2**384, 2**384 + POW_2_383 + 5, 2**400 + POW_2_383 + POW_2_382,
          POW_2_383 + POW_2_382, POW_2_383 + POW_2_382 + POW_2_381, POW_2_382):
    same("decompress_G1", z)
for bad in (None, "x", 1.5, b"\x00"):
    same("decompress_G1", bad)

# ------------------------------------------------- is_point_at_infinity/flags
for z1 in (0, 1, POW_2_381, POW_2_383 + POW_2_382, POW_2_383, 5 + POW_2_383):
    for z2 in (None, 0, 1, q):
        same("is_point_at_infinity", z1, z2)
    same("get_flags", z1)

# ---------------------------------------------------------------- G2 decoding
msgs = [b"", b"abc", b"\x00" * 32, bytes(range(48))]
h_pts = [hash_to_G2(m, G2Basic.DST, sha256) for m in msgs]
g2_pts = [multiply(G2, k) for k in (1, 2, 3, curve_order - 1, rng.randrange(1, curve_order))]
g2_pts += h_pts + [neg(p) for p in h_pts[:2]] + [double(h_pts[0]), add(h_pts[0], G2)]


def find_curve_points_not_in_subgroup(count):
    """valid encodings of points on the twist that were not cofactor-cleared"""
    out = []
    x0 = 1
    while len(out) < count:
        x0 += 1
        x = FQ2([x0, 1])
        y = old_pc.modular_squareroot_in_FQ2(x**3 + b2)
        if y is not None:
            out.append((x, y, FQ2([1, 0])))
    return out


offsub = find_curve_points_not_in_subgroup(3)
g2_pts += offsub + [add(h_pts[1], offsub[0])]

# compress: affine, projective representatives, infinity (several reps), off-curve
g2_encodings = []
for p in g2_pts:
    r = same("compress_G2", p)
    assert r[0] == "ok"
    for lam in (FQ2([2, 0]), FQ2([3, 7]), FQ2([q - 1, 5])):
        rp = (p[0] * lam, p[1] * lam, p[2] * lam)
        assert same("compress_G2", rp) == r
    g2_encodings.append(new_pc.compress_G2(p))
for infp in (Z2, (FQ2([1, 0]), FQ2([1, 0]), FQ2([0, 0])), (FQ2([5, 9]), FQ2([3, 4]), FQ2([0, 0])),
             (FQ2([0, 0]), FQ2([0, 0]), FQ2([0, 0]))):
    same("compress_G2", infp)
for offp in ((FQ2([1, 2]), FQ2([3, 4]), FQ2([1, 0])), (G2[0], G2[1], FQ2([2, 0])),
             (FQ2([0, 0]), FQ2([0, 0]), FQ2([1, 0]))):
    same("compress_G2", offp)
# y_im == 0 (sign taken from the real part) is unreachable by search; compare the
# new helper with the two pristine expressions (compress / decompress) directly
def old_compress_bit(y):
    y_re, y_im = y.coeffs
    return (int(y_im) * 2) // q if y_im > 0 else (int(y_re) * 2) // q


def old_decompress_negates(y, a_flag1):
    y_re, y_im = y.coeffs
    return bool((y_im > 0 and (int(y_im) * 2) // q != int(a_flag1)) or (
        y_im == 0 and (int(y_re) * 2) // q != int(a_flag1)
    ))


edge = (0, 1, 2, (q - 1) // 2, (q + 1) // 2, (q + 1) // 2 + 1, q - 2, q - 1)
ys = [FQ2([re, im]) for re in edge for im in edge]
ys += [FQ2([rng.randrange(q), rng.randrange(q)]) for _ in range(200)]
for y in ys:
    assert new_pc._sign_bit_FQ2(y) == old_compress_bit(y)
    for a in (False, True):
        assert (new_pc._sign_bit_FQ2(y) != int(a)) == old_decompress_negates(y, a)
        n_checked += 1

for idx, (z1, z2) in enumerate(g2_encodings):
    r = same("decompress_G2", (z1, z2))
    assert r[0] == "ok", r
    x1 = z1 % POW_2_381
    for fl in FLAGS:
        same("decompress_G2", (x1 + fl, z2))
    if idx % 6:
        continue
    # flags in the second half, out-of-range halves
    for fl in FLAGS[1:]:
        same("decompress_G2", (z1, z2 + fl))
    same("decompress_G2", (z1, z2 + q))
    same("decompress_G2", (z1 + q, z2))
    same("decompress_G2", (z1, -z2 - 1))
    same("decompress_G2", (z1, None))
    same("decompress_G2", (z1,))
    same("decompress_G2", (z1, z2, 0))

# infinity-like and boundary encodings
for z1x in (0, 1, q - 1, q, POW_2_381 - 1):
    for z2 in (0, 1, q - 1, q, POW_2_383, 2**384 - 1, -1):
        for fl in FLAGS:
            same("decompress_G2", (z1x + fl, z2))
# random x (about half have no square root)
for _ in range(30):
    z1x, z2 = rng.randrange(q), rng.randrange(q)
    for fl in (POW_2_383, POW_2_383 + POW_2_381):
        same("decompress_G2", (z1x + fl, z2))
for bad in (None, 5, ("a", "b"), (1.5, 2), (b"\x80", 0)):
    same("decompress_G2", bad)

# modular_squareroot_in_FQ2 is untouched but the new helper relies on it
for _ in range(20):
    v = FQ2([rng.randrange(q), rng.randrange(q)])
    same("modular_squareroot_in_FQ2", v)
    same("modular_squareroot_in_FQ2", v * v)
same("modular_squareroot_in_FQ2", FQ2([0, 1]))
same("modular_squareroot_in_FQ2", FQ2([1, 0]))

# ------------------------------------ every single-bit flip of one signature
sk = 0x1F2E3D4C5B6A79880123456789ABCDEF % curve_order
msg = b"equivalence"
sig = G2Basic.Sign(sk, msg)
flip_bits = range(96 * 8)  # every single-bit flip
for bit in flip_bits:
    c = bytearray(sig)
    c[bit // 8] ^= 1 << (bit % 8)
    c = bytes(c)
    same("decompress_G2", (os2ip(c[:48]), os2ip(c[48:])))
for _ in range(30):
    c = bytearray(sig)
    for bit in rng.sample(range(96 * 8), rng.randrange(2, 6)):
        c[bit // 8] ^= 1 << (bit % 8)
    same("decompress_G2", (os2ip(bytes(c[:48])), os2ip(bytes(c[48:]))))

print("function-level comparisons:", n_checked)

# ------------------------------------------- end-to-end: Verify / PopVerify
NAMES = ("compress_G1", "compress_G2", "decompress_G1", "decompress_G2")


class use:
    def __init__(self, mod):
        self.mod = mod

    def __enter__(self):
        self.saved = {n: getattr(g2p, n) for n in NAMES}
        for n in NAMES:
            setattr(g2p, n, getattr(self.mod, n))

    def __exit__(self, *a):
        for n, f in self.saved.items():
            setattr(g2p, n, f)


def enc(pt):
    z1, z2 = old_pc.compress_G2(pt)
    return i2osp(z1, 48) + i2osp(z2, 48)


pk = G2Basic.SkToPk(sk)
S = g2p.signature_to_G2(sig)
H = hash_to_G2(msg, G2Basic.DST, sha256)
flip = lambda s, bit: bytes(b ^ ((1 << (bit % 8)) if i == bit // 8 else 0) for i, b in enumerate(s))  # noqa: E731,E501
cands = {
    "canonical": sig,
    "other key": G2Basic.Sign(sk + 12345, msg),
    "other msg": G2Basic.Sign(sk, msg + b"!"),
    "aug suite": G2MessageAugmentation.Sign(sk, msg),
    "pop suite": G2ProofOfPossession.Sign(sk, msg),
    "pop proof": G2ProofOfPossession.PopProve(sk),
    "sk+1": enc(multiply(H, sk + 1)),
    "sk-1": enc(multiply(H, sk - 1)),
    "neg": enc(neg(S)),
    "double": enc(double(S)),
    "S+torsion": enc(add(S, multiply(offsub[0], curve_order))),
    "S+offsub": enc(add(S, offsub[1])),
    "infinity": i2osp(POW_2_383 + POW_2_382, 48) + bytes(48),
    "inf+a": i2osp(POW_2_383 + POW_2_382 + POW_2_381, 48) + bytes(48),
    "flip a": flip(sig, 5),
    "flip b": flip(sig, 6),
    "flip c": flip(sig, 7),
    "flip lsb": flip(sig, 95 * 8),
    "flip mid": flip(sig, 48 * 8 + 7),
    "zero": bytes(96),
    "short": sig[:95],
    "long": sig + b"\x00",
    "random G2": enc(multiply(G2, 987654321)),
}
t0 = time.time()
results = {}
for label, mod in (("new", new_pc), ("old", old_pc)):
    with use(mod):
        r = {}
        for k, c in cands.items():
            r["basic/" + k] = run(G2Basic.Verify, pk, msg, c)
        r["augnoprefix/aug suite"] = run(G2MessageAugmentation.Verify, pk, pk + msg, cands["aug suite"])
        r["basicprefix/aug suite"] = run(G2Basic.Verify, pk, pk + msg, cands["aug suite"])
        for k in ("canonical", "aug suite", "pop proof", "pop suite", "infinity"):
            r["aug/" + k] = run(G2MessageAugmentation.Verify, pk, msg, cands[k])
            r["pop/" + k] = run(G2ProofOfPossession.Verify, pk, msg, cands[k])
            r["popverify/" + k] = run(G2ProofOfPossession.PopVerify, pk, cands[k])
        # Sign goes through compress_G2 as well
        r["sign"] = run(G2Basic.Sign, sk, msg)
        r["popprove"] = run(G2ProofOfPossession.PopProve, sk)
        results[label] = r
assert results["new"] == results["old"], [
    (k, results["new"][k], results["old"][k]) for k in results["new"]
    if results["new"][k] != results["old"][k]
]
r = results["new"]
assert r["basic/canonical"] == ("ok", ("bool", True))
assert r["aug/aug suite"] == ("ok", ("bool", True))
assert r["popverify/pop proof"] == ("ok", ("bool", True))
assert r["pop/pop suite"] == ("ok", ("bool", True))
assert sum(1 for v in r.values() if v == ("ok", ("bool", True))) == 4, r
assert all(v[0] == "ok" for k, v in r.items())
print("end-to-end comparisons:", len(r), "in %.1fs" % (time.time() - t0))
print("OK")
