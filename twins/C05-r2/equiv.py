import os, sys; sys.path.insert(0, os.getcwd())  # noqa: E702

"""
Equivalence demonstration for refactoring r2 (property C05).

Loads the pristine py_ecc/optimized_bls12_381/optimized_pairing.py (saved next
to this script) under the name py_ecc.optimized_bls12_381._pristine_pairing so
that its relative imports resolve against the same curve / field modules as the
refactored module, and compares both modules on valid, boundary, infinite,
off-curve and malformed inputs: identical return values (coefficient by
coefficient) or identical exception classes.
"""
import importlib.util
import multiprocessing
import random

HERE = os.path.dirname(os.path.abspath(__file__))
PKG = "py_ecc.optimized_bls12_381"
PRISTINE_FILE = "optimized_bls12_381_pairing.py"


def load_pristine():
    name = PKG + "._pristine_pairing"
    if name in sys.modules:
        return sys.modules[name]
    importlib.import_module(PKG)
    spec = importlib.util.spec_from_file_location(
        name, os.path.join(HERE, "pristine", PRISTINE_FILE)
    )
    mod = importlib.util.module_from_spec(spec)
    sys.modules[name] = mod
    spec.loader.exec_module(mod)
    return mod


def canon(v):
    """Canonical, comparable form of a field element / point / None."""
    if v is None:
        return None
    if isinstance(v, tuple):
        return tuple(canon(c) for c in v)
    if hasattr(v, "coeffs"):
        return (type(v).__name__, tuple(int(c) for c in v.coeffs))
    if hasattr(v, "n"):
        return (type(v).__name__, int(v.n))
    return v


def outcome(fn, *args, **kw):
    try:
        return ("ok", canon(fn(*args, **kw)))
    except BaseException as e:  # noqa: BLE001
        return ("exc", type(e).__name__)


def rescale(pt, k):
    """Another projective representative of the same point."""
    return tuple(c * k for c in pt)


def build_cases():
    c = importlib.import_module(PKG + ".optimized_curve")
    FQ, FQ2 = c.FQ, c.FQ2
    rnd = random.Random(0xC05)
    r = c.curve_order
    G1, G2 = c.G1, c.G2
    cases = []

    def pr(Q, P, **kw):
        cases.append(("pairing", (Q, P), kw))

    # scalars of the property: 0, 1, 2, r-1, r, random full width
    wide = [rnd.randrange(r) for _ in range(4)]
    for a, bb in [(1, 1), (2, 1), (1, 2), (2, 2), (r - 1, 1), (1, r - 1),
                  (r - 1, r - 1), (wide[0], wide[1]), (wide[2], 2), (1, wide[3])]:
        pr(c.multiply(G2, bb), c.multiply(G1, a))
    pr(c.multiply(G2, wide[0]), c.multiply(G1, 3), final_exponentiate=False)
    pr(G2, G1, final_exponentiate=False)
    # sums and negations
    pr(c.add(G2, c.multiply(G2, 5)), c.neg(G1))
    pr(c.neg(G2), c.add(G1, c.multiply(G1, 7)))
    pr(c.neg(c.multiply(G2, wide[1])), c.neg(c.multiply(G1, wide[2])))
    # other projective representatives (not normalised, z != 1)
    k1, k2 = FQ(rnd.randrange(1, c.field_modulus)), FQ2([rnd.randrange(c.field_modulus), 5])
    pr(rescale(G2, k2), rescale(G1, k1))
    pr(rescale(c.multiply(G2, 9), k2), c.double(c.multiply(G1, wide[3])))
    pr(c.double(G2), rescale(c.multiply(G1, r - 1), k1), final_exponentiate=False)
    # infinity in either / both arguments, in several representations
    for fe in (True, False):
        pr(c.Z2, G1, final_exponentiate=fe)
        pr(G2, c.Z1, final_exponentiate=fe)
        pr(c.Z2, c.Z1, final_exponentiate=fe)
    pr(c.multiply(G2, r), G1)
    pr(G2, c.multiply(G1, r))
    pr(c.multiply(G2, 0), c.multiply(G1, 0))
    pr(c.add(G2, c.neg(G2)), G1)
    pr((FQ2([7, 1]), FQ2([0, 3]), FQ2.zero()), (FQ(5), FQ(0), FQ(0)))
    pr(G2, (FQ(0), FQ(0), FQ(0)))
    # off-curve inputs
    pr(G2, (FQ(1), FQ(3), FQ(1)))
    pr(G2, (G1[0], G1[1], FQ(2)))
    pr((G2[0], G2[1] + FQ2([1, 0]), G2[2]), G1)
    pr((G2[0] * 2, G2[1], G2[2]), (FQ(5), FQ(5), FQ(1)))
    pr(c.Z2, (FQ(5), FQ(5), FQ(1)))
    pr((G2[0] * 2, G2[1], G2[2]), c.Z1)
    pr((FQ2.zero(), FQ2.zero(), FQ2.one()), G1)
    # malformed inputs
    pr(G1, G2)  # swapped groups
    pr(G2, (1, 2, 1))
    pr(G2, (G1[0], G1[1]))
    pr((G2[0],), G1)
    pr(None, G1)
    pr(G2, None)
    pr("junk", G1)
    pr(G2, 7)
    pr(G2, (G1[0], G1[1], 1))
    # miller_loop called directly, incl. the None short-circuit
    for fe in (True, False):
        cases.append(("miller", (None, G1), {"final_exponentiate": fe}))
        cases.append(("miller", (G2, None), {"final_exponentiate": fe}))
    cases.append(("miller", (G2, c.multiply(G1, 5)), {"final_exponentiate": False}))
    cases.append(("miller", (G2, (1, 2, 1)), {}))
    cases.append(("miller", ((1, 2, 1), G1), {}))
    return cases


CASES = []  # filled in before the worker processes are forked


def run_case(index):
    new = importlib.import_module(PKG + ".optimized_pairing")
    old = load_pristine()
    kind, args, kw = CASES[index]
    fname = "pairing" if kind == "pairing" else "miller_loop"
    a = outcome(getattr(old, fname), *args, **kw)
    b_ = outcome(getattr(new, fname), *args, **kw)
    return (a == b_, a[0], a[1] if a[0] == "exc" else None,
            a[0] == "ok" and a[1] == canon(new.FQ12.one()))


def linefunc_sweep():
    """linefunc over all three branches (chord, tangent, vertical), over FQ and
    FQ12 (twisted G2 points), with normalised and non-normalised
    representatives, plus degenerate and malformed arguments."""
    new = importlib.import_module(PKG + ".optimized_pairing")
    c = importlib.import_module(PKG + ".optimized_curve")
    old = load_pristine()
    FQ, FQ12 = c.FQ, c.FQ12
    rnd = random.Random(77)
    r = c.curve_order
    n = 0
    branches = {"chord": 0, "tangent": 0, "vertical": 0}

    def check(A, B, T):
        nonlocal n
        o, w = outcome(old.linefunc, A, B, T), outcome(new.linefunc, A, B, T)
        assert o == w, (A, B, T, o, w)
        n += 1

    ks = [1, 2, 3, 5, r - 1, r - 2, r - 3, rnd.randrange(r), rnd.randrange(r)]
    g1 = [c.multiply(c.G1, k) for k in ks]
    g1 += [rescale(p, FQ(rnd.randrange(2, c.field_modulus))) for p in g1[:5]]
    g1 += [c.Z1, (FQ(0), FQ(0), FQ(0)), (FQ(1), FQ(3), FQ(1))]
    for A in g1:
        for B in g1:
            for T in g1[:4] + g1[9:11] + [c.Z1]:
                check(A, B, T)
                if c.is_inf(A) or c.is_inf(B):
                    continue
                den = B[0] * A[2] - A[0] * B[2]
                num = B[1] * A[2] - A[1] * B[2]
                key = "chord" if den != FQ(0) else ("tangent" if num == FQ(0) else "vertical")
                branches[key] += 1
    g12 = [c.twist(c.multiply(c.G2, k)) for k in (1, 2, 3, r - 1, r - 2, rnd.randrange(r))]
    g12.append(rescale(g12[1], FQ12([3, 1] + [0] * 10)))
    t12 = [new.cast_point_to_fq12(p) for p in (g1[0], g1[2], g1[9])]
    for A in g12:
        for B in g12:
            for T in t12:
                check(A, B, T)
    # malformed / mixed arguments
    bad = [None, (1, 2, 1), (FQ(1), FQ(2)), "xyz", (FQ(1), 2, FQ(1)), g12[0]]
    for X in bad:
        check(X, g1[0], g1[1])
        check(g1[0], X, g1[1])
        check(g1[0], g1[1], X)
        check(g1[0], g1[0], X)
        check(X, X, X)
    assert min(branches.values()) > 20, branches
    # untouched helpers / data still agree
    for name in ("ate_loop_count", "log_ate_loop_count", "field_modulus",
                 "pseudo_binary_encoding"):
        assert getattr(old, name) == getattr(new, name)
    for p in g1 + [None]:
        assert outcome(old.cast_point_to_fq12, p) == outcome(new.cast_point_to_fq12, p)
    return n, branches


def main():
    cases = build_cases()
    CASES.extend(cases)  # field elements do not pickle: workers inherit them by fork
    multiprocessing.set_start_method("fork")
    with multiprocessing.Pool(4) as pool:
        sweep = pool.apply_async(linefunc_sweep)
        results = pool.map(run_case, range(len(cases)), chunksize=1)
        n_line, branches = sweep.get()
    bad = [(c, r) for c, r in zip(cases, results) if not r[0]]
    n_ok = sum(1 for r in results if r[1] == "ok")
    n_exc = sum(1 for r in results if r[1] == "exc")
    n_unit = sum(1 for r in results if r[3])
    print(f"pairing/miller_loop cases: {len(cases)} ({n_ok} values of which {n_unit} are "
          f"the unit, {n_exc} exceptions: {sorted({r[2] for r in results if r[2]})}); "
          f"linefunc comparisons: {n_line}, branches {branches}")
    if bad:
        for c, r in bad:
            print("MISMATCH", c[0], c[2], r)
        sys.exit(1)
    assert n_ok >= 25 and n_exc >= 12 and n_unit >= 10
    print("EQUIVALENT")


if __name__ == "__main__":
    main()
