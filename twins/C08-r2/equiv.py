import os, sys; sys.path.insert(0, os.getcwd())  # noqa: E401,E702

"""
Equivalence demonstration for refactoring r2
(py_ecc/fields/field_elements.py: operand coercion of FQ.__add__/__sub__/__mul__
extracted into the module-level helper _operand_value).

Run as:  cd /tmp/wt2/C08 && /venv/bin/python /tmp/twin/C08/r2/equiv.py

The pristine field_elements.py (saved next to this script) is loaded under
another module name; identical operations are run on classes built from both
modules and results (class name + integer coefficients) / exception classes
are compared.
"""

import importlib.util
import itertools
import random

HERE = os.path.dirname(os.path.abspath(__file__))


def load(name, path):
    spec = importlib.util.spec_from_file_location(name, path)
    mod = importlib.util.module_from_spec(spec)
    sys.modules[name] = mod
    spec.loader.exec_module(mod)
    return mod


import py_ecc.fields.field_elements as NEW  # noqa: E402
import py_ecc.fields.optimized_field_elements as OPT  # noqa: E402

assert os.path.realpath(NEW.__file__).startswith(os.path.realpath(os.getcwd()))
OLD = load("pristine_field_elements", os.path.join(HERE, "pristine", "field_elements.py"))
assert OLD.FQ is not NEW.FQ
assert not hasattr(OLD, "_operand_value")

P254 = 21888242871839275222246405745257275088696311157297823662689037894645226208583
P381 = 4002409555221667393417789825735904156556882819939007885332058136124031650490837864442687629129015664037894272559787  # noqa: E501

rng = random.Random(0xC0802)
checked = 0
mismatches = []


class Kit:
    """Field classes of one module for one (p, FQ2 modulus, FQ12 modulus)."""

    def __init__(self, mod, p, c2, c12):
        self.mod = mod
        self.p = p
        self.FQ = type("FQ_", (mod.FQ,), {"field_modulus": p})
        self.FQx = type("FQother_", (mod.FQ,), {"field_modulus": p + 2})
        self.FQ2 = type(
            "FQ2_", (mod.FQ2,), {"field_modulus": p, "FQ2_MODULUS_COEFFS": c2}
        )
        self.FQ12 = type(
            "FQ12_", (mod.FQ12,), {"field_modulus": p, "FQ12_MODULUS_COEFFS": c12}
        )
        self.OptFQ = type("OptFQ_", (OPT.FQ,), {"field_modulus": p})


def val(x):
    if isinstance(x, (bool, int, str)):
        return (type(x).__name__, x)
    if hasattr(x, "coeffs"):
        return (
            type(x).__name__,
            tuple((type(c).__mro__[1].__name__, int(c)) for c in x.coeffs),
            x.degree,
            tuple(x.modulus_coeffs),
        )
    if hasattr(x, "n"):
        return (type(x).__name__, x.n, type(x.n).__name__)
    return (type(x).__name__, repr(x))


def run(fn, kit):
    try:
        return ("ok", val(fn(kit)))
    except BaseException as e:  # noqa: B902
        return ("exc", type(e).__name__)


def cmp(label, fn, ko, kn):
    global checked
    checked += 1
    a, b = run(fn, ko), run(fn, kn)
    if a != b:
        mismatches.append((label, a, b))


BIN = {
    "add": lambda x, y: x + y,
    "sub": lambda x, y: x - y,
    "mul": lambda x, y: x * y,
    "div": lambda x, y: x / y,
    "eq": lambda x, y: x == y,
    "ne": lambda x, y: x != y,
}
FQ_ONLY = {
    "lt": lambda x, y: x < y,
    "le": lambda x, y: x <= y,
    "gt": lambda x, y: x > y,
    "ge": lambda x, y: x >= y,
}

fields = [
    (P254, (1, 0), (82, 0, 0, 0, 0, 0, -18, 0, 0, 0, 0, 0)),
    (P381, (1, 0), (2, 0, 0, 0, 0, 0, -2, 0, 0, 0, 0, 0)),
    (2, (1, 1), (1, 0, 0, 1, 0, 0, 0, 0, 0, 0, 0, 0)),
    (3, (1, 0), (2, 1, 0, 0, 0, 0, 0, 0, 0, 0, 0, 0)),
    (5, (2, 0), (2, 1, 0, 0, 0, 0, 0, 0, 0, 0, 0, 1)),
    (7, (1, 0), (3, 0, 0, 0, 0, 0, 1, 0, 0, 0, 0, 0)),
    (11, (1, 0), (2, 0, 0, 0, 0, 0, 0, 0, 0, 0, 0, 1)),
]

for p, c2, c12 in fields:
    ko, kn = Kit(OLD, p, c2, c12), Kit(NEW, p, c2, c12)
    small = p < 20

    # ------------------------------------------------------------------ FQ
    if small:
        reps = list(range(-p - 1, 2 * p + 2))
    else:
        reps = [0, 1, 2, -1, -2, p - 1, p - 2, p, p + 1, 2 * p, 2 * p + 1, -p, -p - 1,
                p // 2, p // 2 + 1, p**2, p**2 - 1, -(p**3) + 7, 2**600 + 1]
        reps += [rng.randrange(p) for _ in range(25)]
        reps += [rng.randrange(-(p**2), p**2) for _ in range(10)]
    for a, b in itertools.product(reps, reps):
        for name, op in {**BIN, **FQ_ONLY}.items():
            cmp("FQ" + name, lambda k: op(k.FQ(a), k.FQ(b)), ko, kn)
            cmp("FQ" + name + "int", lambda k: op(k.FQ(a), b), ko, kn)
            cmp("intFQ" + name, lambda k: op(a, k.FQ(b)), ko, kn)
    # associativity / distributivity style compositions
    for _ in range(300):
        a, b, c = (rng.choice(reps) for _ in range(3))
        cmp("FQexpr1", lambda k: (k.FQ(a) + b) * k.FQ(c) - a * k.FQ(b), ko, kn)
        cmp("FQexpr2", lambda k: k.FQ(a) * (k.FQ(b) + c) - (k.FQ(a) * b + a * c), ko, kn)
        cmp("FQexpr3", lambda k: (k.FQ(a) / b) * b - c + (-k.FQ(c)), ko, kn)
    exps = [0, 1, 2, 3, 5, p - 2, p - 1, p, p + 1, p**2, p**12, p**12 - 1, -1, -5,
            2**2000 + 3, True, False]
    for a in reps[:12]:
        for e in exps:
            cmp("FQpow", lambda k: k.FQ(a) ** e, ko, kn)
        cmp("FQneg", lambda k: -k.FQ(a), ko, kn)
        cmp("FQint", lambda k: int(k.FQ(a)), ko, kn)
        cmp("FQrepr", lambda k: repr(k.FQ(a)), ko, kn)
    cmp("FQone", lambda k: k.FQ.one(), ko, kn)
    cmp("FQzero", lambda k: k.FQ.zero(), ko, kn)

    # malformed / unusual operands on every binary operation, both sides
    weird = [
        lambda k: None,
        lambda k: "3",
        lambda k: b"3",
        lambda k: 2.0,
        lambda k: 2.5,
        lambda k: 1 + 2j,
        lambda k: [1],
        lambda k: (1, 2),
        lambda k: object(),
        lambda k: True,
        lambda k: False,
        lambda k: k.FQx(5),  # FQ of another modulus: accepted, uses its .n
        lambda k: k.FQx(k.p + 1),  # .n not reduced w.r.t. p
        lambda k: k.OptFQ(5),  # optimized FQ is not a reference FQ
        lambda k: k.FQ2([1, 2]),
        lambda k: k.FQ12([1] * 12),
        lambda k: k.FQ,  # the class itself
    ]
    for w in weird:
        for a in (0, 1, 3, p - 1):
            for name, op in {**BIN, **FQ_ONLY}.items():
                cmp("FQ" + name + "weird", lambda k: op(k.FQ(a), w(k)), ko, kn)
                cmp("weirdFQ" + name, lambda k: op(w(k), k.FQ(a)), ko, kn)
            cmp("FQctor", lambda k: k.FQ(w(k)), ko, kn)
    cmp("FQnomod", lambda k: k.mod.FQ(1), ko, kn)
    cmp("FQnomod+", lambda k: k.mod.FQ.__add__(object(), 1), ko, kn)

    # ----------------------------------------------------------------- FQP
    for attr, degree in (("FQ2", 2), ("FQ12", 12)):
        if small and degree == 2:
            elems = [[i, j] for i in range(p) for j in range(p)]
        else:
            elems = [
                [0] * degree,
                [1] + [0] * (degree - 1),
                [p - 1] + [0] * (degree - 1),
                [-1] * degree,
                [0] * (degree - 1) + [1],
                [p + 3, -p - 4] + [2 * p] * (degree - 2),
            ]
            elems += [[rng.randrange(p) for _ in range(degree)] for _ in range(5)]
            elems += [
                [rng.randrange(p) if rng.random() < 0.25 else 0 for _ in range(degree)]
                for _ in range(4)
            ]
        pairs = list(itertools.product(elems, elems))
        if len(pairs) > 400:
            pairs = rng.sample(pairs, 400)
        for x, y in pairs:
            for name, op in BIN.items():
                cmp(attr + name, lambda k: op(getattr(k, attr)(x), getattr(k, attr)(y)), ko, kn)
        for x in elems[:40]:
            E = lambda k: getattr(k, attr)(x)  # noqa: E731
            cmp(attr + "inv", lambda k: E(k).inv(), ko, kn)
            cmp(attr + "neg", lambda k: -E(k), ko, kn)
            cmp(attr + "repr", lambda k: repr(E(k)), ko, kn)
            for s in (0, 1, -1, 2, p - 1, p, p + 5, -3 * p - 1, True):
                cmp(attr + "*int", lambda k: E(k) * s, ko, kn)
                cmp(attr + "int*", lambda k: s * E(k), ko, kn)
                cmp(attr + "/int", lambda k: E(k) / s, ko, kn)
                cmp(attr + "*FQ", lambda k: E(k) * k.FQ(s), ko, kn)
                cmp(attr + "/FQ", lambda k: E(k) / k.FQ(s), ko, kn)
            heavy = degree == 12 and not small and x not in elems[4:6]
            for e in (0, 1, 2, 3, 7, -2) if heavy else (0, 1, 2, 3, 7, p, p + 1, p**2 - 1, -2):
                cmp(attr + "pow", lambda k: E(k) ** e, ko, kn)
            if degree == 2 or x is elems[5]:
                cmp(attr + "powbig", lambda k: E(k) ** (p**degree - 1), ko, kn)
            for w in weird[:9] + weird[13:]:
                for name, op in BIN.items():
                    cmp(attr + name + "weird", lambda k: op(E(k), w(k)), ko, kn)
                    cmp("weird" + attr + name, lambda k: op(w(k), E(k)), ko, kn)
        for _ in range(60):
            x, y, z = (rng.choice(elems) for _ in range(3))
            cmp(
                attr + "expr",
                lambda k: (getattr(k, attr)(x) + getattr(k, attr)(y)) * getattr(k, attr)(z)
                - getattr(k, attr)(x) * getattr(k, attr)(z)
                - getattr(k, attr)(y) * getattr(k, attr)(z),
                ko,
                kn,
            )
        cmp(attr + "one", lambda k: getattr(k, attr).one(), ko, kn)
        cmp(attr + "zero", lambda k: getattr(k, attr).zero(), ko, kn)
        cmp(attr + "badlen", lambda k: getattr(k, attr)([1] * (degree + 1)), ko, kn)
        cmp(attr + "badcoeff", lambda k: getattr(k, attr)([None] * degree), ko, kn)

# purity: operands are not modified by the refactored operations
kn = Kit(NEW, P254, (1, 0), (82, 0, 0, 0, 0, 0, -18, 0, 0, 0, 0, 0))
a, b = kn.FQ(5), kn.FQ(P254 - 1)
for op in BIN.values():
    op(a, b), op(a, 7), op(7, a)
assert (a.n, b.n) == (5, P254 - 1)

print("checked", checked, "cases; mismatches:", len(mismatches))
for m in mismatches[:20]:
    print("MISMATCH", m)
sys.exit(1 if mismatches else 0)
