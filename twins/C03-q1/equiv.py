import os, sys; sys.path.insert(0, os.getcwd())  # noqa: E401,E702

"""
Equivalence demonstration for twin q1 of property C03.

Loads the pristine py_ecc/bls/ciphersuites.py (saved next to this script) as a
second module inside the py_ecc.bls package and compares it with the edited
module of the working tree on Aggregate / AggregateVerify / FastAggregateVerify
for the three suites: results, exception classes, call histories (each case is
evaluated again in reverse order, alternating which version runs first),
non-mutation of arguments and of module constants.
"""
import copy
import importlib.util
import itertools
import time
from hashlib import sha256

HERE = os.path.dirname(os.path.abspath(__file__))
T0 = time.time()


def load_pristine(modname, filename):
    spec = importlib.util.spec_from_file_location(
        modname, os.path.join(HERE, "pristine", filename)
    )
    mod = importlib.util.module_from_spec(spec)
    sys.modules[modname] = mod
    spec.loader.exec_module(mod)
    return mod


import py_ecc.bls.ciphersuites as new_mod  # noqa: E402

assert os.path.abspath(new_mod.__file__).startswith(os.getcwd()), new_mod.__file__
old_mod = load_pristine("py_ecc.bls._pristine_ciphersuites", "ciphersuites.py")
assert old_mod.__file__ != new_mod.__file__

from py_ecc.bls.g2_primitives import (  # noqa: E402
    G1_to_pubkey,
    G2_to_signature,
    signature_to_G2,
    subgroup_check,
)
from py_ecc.bls.hash_to_curve import (  # noqa: E402
    hash_to_field_FQ,
    hash_to_field_FQ2,
    map_to_curve_G1,
    map_to_curve_G2,
)
from py_ecc.optimized_bls12_381 import (  # noqa: E402
    G1,
    G2,
    Z1,
    Z2,
    curve_order,
    neg,
)

SUITES = ["G2Basic", "G2MessageAugmentation", "G2ProofOfPossession"]
CONSTS = {"G1": G1, "G2": G2, "Z1": Z1, "Z2": Z2}
CONSTS_SNAPSHOT = repr(CONSTS)


def outcome(fn, *args):
    try:
        return ("ok", fn(*args))
    except BaseException as e:  # noqa: B902
        if isinstance(e, (KeyboardInterrupt, SystemExit)):
            raise
        return ("exc", type(e))


class Gen:
    """A non-sized iterable factory: produces a fresh generator per use."""

    def __init__(self, items):
        self.items = items

    def __call__(self):
        return (x for x in self.items)


CASES = []  # (label, suite, method, args)


def case(label, suite, method, *args):
    CASES.append((label, suite, method, args))


ROT = [0]


def case_rot(label, suite, method, *args):
    """
    Expensive (several Miller loops) perturbation cases are spread round-robin
    over the three suites, which share _CoreAggregateVerify, to bound runtime.
    """
    ROT[0] += 1
    if ROT[0] % len(SUITES) == SUITES.index(suite):
        case(label, suite, method, *args)


# --------------------------------------------------------------------------
# material
# --------------------------------------------------------------------------
SKS = [1, curve_order - 1, 0x1234567890ABCDEF, 1]  # last one repeats the first
MSGS = [b"", b"m1", b"\x00" * 33, b"m3"]

INF_SIG = b"\xc0" + b"\x00" * 95
INF_PK = b"\xc0" + b"\x00" * 47
BAD_SIGS = [
    b"",
    b"\x00" * 95,
    b"\x00" * 97,
    bytearray(96),
    "s" * 96,
    12345,
    None,
    b"\x00" * 96,  # no compression flag
    b"\xff" * 96,  # all flags / x out of range
    b"\xe0" + b"\x00" * 95,  # infinity with sign flag
    b"\x80" + b"\x00" * 94 + b"\x01",  # small x, probably no square root
    b"\x9f" + b"\xff" * 95,  # x >= q
]
u0, _u1 = hash_to_field_FQ2(b"not-in-subgroup", 2, b"DST", sha256)
NONSUB_SIG = G2_to_signature(map_to_curve_G2(u0))
assert not subgroup_check(signature_to_G2(NONSUB_SIG))
(v0,) = hash_to_field_FQ(b"not-in-subgroup", 1, b"DST", sha256)
NONSUB_PK = G1_to_pubkey(map_to_curve_G1(v0))
BAD_PKS = [
    b"",
    b"\x00" * 47,
    b"\x00" * 49,
    bytearray(48),
    "p" * 48,
    7,
    None,
    b"\x00" * 48,
    b"\xff" * 48,
    INF_PK,
    NONSUB_PK,
]

for sname in SUITES:
    S = getattr(new_mod, sname)
    pks = [S.SkToPk(sk) for sk in SKS]
    sigs = [S.Sign(sk, m) for sk, m in zip(SKS, MSGS)]
    neg_sig0 = G2_to_signature(neg(signature_to_G2(sigs[0])))

    # ---------------- Aggregate ----------------
    for perm in itertools.permutations(range(4)):
        case(f"agg-perm{perm}", sname, "Aggregate", [sigs[i] for i in perm])
    case("agg-tuple", sname, "Aggregate", tuple(sigs))
    for n in range(0, 4):
        case(f"agg-prefix{n}", sname, "Aggregate", sigs[:n])
    case("agg-dup", sname, "Aggregate", [sigs[0], sigs[0]])
    case("agg-dup3", sname, "Aggregate", [sigs[1], sigs[0], sigs[1], sigs[1]])
    case("agg-cancel", sname, "Aggregate", [sigs[0], neg_sig0])
    case("agg-cancel+1", sname, "Aggregate", [sigs[0], neg_sig0, sigs[2]])
    case("agg-inf", sname, "Aggregate", [INF_SIG])
    case("agg-inf-inf", sname, "Aggregate", [INF_SIG, INF_SIG])
    case("agg-inf-mid", sname, "Aggregate", [sigs[0], INF_SIG, sigs[1]])
    case("agg-nonsub", sname, "Aggregate", [sigs[0], NONSUB_SIG])
    for i, bad in enumerate(BAD_SIGS):
        case(f"agg-bad{i}-only", sname, "Aggregate", [bad])
        case(f"agg-bad{i}-last", sname, "Aggregate", [sigs[0], sigs[1], bad])
        case(f"agg-bad{i}-first", sname, "Aggregate", [bad, sigs[0]])
    case("agg-two-bad", sname, "Aggregate", [sigs[0], b"\xff" * 96, b"\x00" * 5])
    case("agg-none", sname, "Aggregate", None)
    case("agg-int", sname, "Aggregate", 5)
    case("agg-gen", sname, "Aggregate", Gen(sigs))
    case("agg-bytes", sname, "Aggregate", sigs[0])  # a bytes object: ints inside
    case("agg-dict", sname, "Aggregate", {sigs[0]: 1, sigs[1]: 2})
    case("agg-set", sname, "Aggregate", frozenset(sigs[:2]))

    # grouping: aggregate of aggregates
    pairs = {}
    for a, b in [(0, 1), (2, 3), (1, 2), (0, 3)]:
        pairs[(a, b)] = S.Aggregate([sigs[a], sigs[b]])
    case("agg-group-01-23", sname, "Aggregate", [pairs[(0, 1)], pairs[(2, 3)]])
    case("agg-group-12-03", sname, "Aggregate", [pairs[(1, 2)], pairs[(0, 3)]])
    case("agg-group-0-12-3", sname, "Aggregate", [sigs[0], pairs[(1, 2)], sigs[3]])

    # ---------------- AggregateVerify ----------------
    agg = {n: S.Aggregate(sigs[:n]) for n in (1, 2, 3, 4)}
    AV = "AggregateVerify"
    case("av-1", sname, AV, pks[:1], MSGS[:1], agg[1])
    case("av-2", sname, AV, pks[:2], MSGS[:2], agg[2])
    case_rot("av-4-repeated-key", sname, AV, pks, MSGS, agg[4])
    case_rot("av-2-tuples", sname, AV, tuple(pks[:2]), tuple(MSGS[:2]), agg[2])
    case_rot("av-2-perm", sname, AV, pks[1::-1], MSGS[1::-1], agg[2])
    # perturbations of a 2-signer instance
    case("av-swap-msgs", sname, AV, pks[:2], MSGS[1::-1], agg[2])
    case_rot("av-subst-key", sname, AV, [pks[0], pks[2]], MSGS[:2], agg[2])
    case_rot("av-subst-msg", sname, AV, pks[:2], [MSGS[0], b"other"], agg[2])
    case_rot("av-dup-signer", sname, AV, [pks[0], pks[0]], [MSGS[0], MSGS[0]], agg[2])
    case_rot("av-dup-key", sname, AV, [pks[0], pks[0]], MSGS[:2], agg[2])
    case_rot("av-alter-agg", sname, AV, pks[:2], MSGS[:2], agg[3])
    case_rot("av-neg-agg", sname, AV, pks[:1], MSGS[:1], neg_sig0)
    case_rot("av-inf-agg", sname, AV, pks[:1], MSGS[:1], INF_SIG)
    case("av-nonsub-agg", sname, AV, pks[:1], MSGS[:1], NONSUB_SIG)
    case("av-drop-key", sname, AV, pks[:1], MSGS[:2], agg[2])
    case("av-drop-msg", sname, AV, pks[:2], MSGS[:1], agg[2])
    case_rot("av-drop-signer", sname, AV, pks[:1], MSGS[:1], agg[2])
    case_rot("av-extra-signer", sname, AV, pks[:3], MSGS[:3], agg[2])
    # the same message signed by two different keys (refused by the basic suite)
    same = [S.Sign(SKS[0], b"same"), S.Sign(SKS[1], b"same")]
    case_rot("av-same-msg", sname, AV, pks[:2], [b"same", b"same"], S.Aggregate(same))
    # empty / mismatched / malformed
    case("av-empty", sname, AV, [], [], agg[1])
    case("av-empty-inf", sname, AV, [], [], INF_SIG)
    case("av-empty-keys", sname, AV, [], MSGS[:1], agg[1])
    case("av-empty-msgs", sname, AV, pks[:1], [], agg[1])
    for i, bad in enumerate(BAD_PKS):
        case(f"av-badpk{i}", sname, AV, [bad], MSGS[:1], agg[1])
        case_rot(f"av-badpk{i}-second", sname, AV, [pks[0], bad], MSGS[:2], agg[2])
        case(f"av-badpk{i}-mismatch", sname, AV, [bad], MSGS[:2], agg[2])
    for i, bad in enumerate(BAD_SIGS):
        case(f"av-badsig{i}", sname, AV, pks[:1], MSGS[:1], bad)
        case(f"av-badsig{i}-empty", sname, AV, [], [], bad)
    for i, bad in enumerate(["text", 5, None, bytearray(b"m"), [b"m"], (b"m",)]):
        case(f"av-badmsg{i}", sname, AV, pks[:1], [bad], agg[1])
        case(f"av-badmsg{i}-second", sname, AV, pks[:2], [MSGS[0], bad], agg[2])
        case(f"av-badmsg{i}-mismatch", sname, AV, pks[:1], [MSGS[0], bad], agg[2])
    case("av-none-keys", sname, AV, None, MSGS[:1], agg[1])
    case("av-none-msgs", sname, AV, pks[:1], None, agg[1])
    case("av-int-keys", sname, AV, 3, MSGS[:1], agg[1])
    case("av-gen-keys", sname, AV, Gen(pks[:1]), MSGS[:1], agg[1])
    case("av-gen-msgs", sname, AV, pks[:1], Gen(MSGS[:1]), agg[1])
    case("av-bytes-keys", sname, AV, pks[0], MSGS[:1], agg[1])
    case("av-bytes-msgs", sname, AV, pks[:1], b"m", agg[1])

    # ---------------- FastAggregateVerify (PoP suite only has it) -------------
    if hasattr(S, "FastAggregateVerify"):
        FAV = "FastAggregateVerify"
        m = b"shared"
        fsigs = [S.Sign(sk, m) for sk in SKS]
        fagg3, fagg4 = S.Aggregate(fsigs[:3]), S.Aggregate(fsigs)
        case("fav-3", sname, FAV, pks[:3], m, fagg3)
        case("fav-4-repeated", sname, FAV, pks, m, fagg4)
        case("fav-1", sname, FAV, pks[:1], m, fsigs[0])
        case("fav-perm", sname, FAV, pks[2::-1], m, fagg3)
        case("fav-wrong-msg", sname, FAV, pks[:3], b"sharee", fagg3)
        case("fav-drop", sname, FAV, pks[:2], m, fagg3)
        case("fav-dup", sname, FAV, [pks[0], pks[1], pks[1]], m, fagg3)
        case("fav-alter", sname, FAV, pks[:3], m, fagg4)
        case("fav-cancel", sname, FAV, [pks[0], pks[1]], m, INF_SIG)  # sk0+sk1 = 0
        case("fav-empty", sname, FAV, [], m, fagg3)
        case("fav-badmsg", sname, FAV, pks[:3], "shared", fagg3)
        case("fav-none", sname, FAV, None, m, fagg3)
        for i, bad in enumerate(BAD_PKS):
            case(f"fav-badpk{i}", sname, FAV, [pks[0], bad], m, fagg3)
        for i, bad in enumerate(BAD_SIGS):
            case(f"fav-badsig{i}", sname, FAV, pks[:3], m, bad)

print(f"{len(CASES)} cases prepared in {time.time() - T0:.1f}s")


# --------------------------------------------------------------------------
# comparison
# --------------------------------------------------------------------------
def materialise(args):
    return tuple(a() if isinstance(a, Gen) else a for a in args)



failures = []
first_pass = {}
timing = {}
for idx, (label, sname, method, args) in enumerate(CASES):
    snapshot = copy.deepcopy([a for a in args if not isinstance(a, Gen)])
    order = (old_mod, new_mod) if idx % 2 == 0 else (new_mod, old_mod)
    res = {}
    t = time.time()
    for mod in order:
        res[mod] = outcome(getattr(getattr(mod, sname), method), *materialise(args))
    timing[idx] = time.time() - t
    if res[old_mod] != res[new_mod]:
        failures.append((sname, label, res[old_mod], res[new_mod]))
    if [a for a in args if not isinstance(a, Gen)] != snapshot:
        failures.append((sname, label, "argument mutated"))
    first_pass[idx] = res[old_mod]

print(f"first pass done at {time.time() - T0:.1f}s")

# second pass: reverse order, swapped precedence, only the cheap cases plus a
# bounded number of expensive ones - results must equal those of the first pass
budget = 12.0
for idx in reversed(range(len(CASES))):
    label, sname, method, args = CASES[idx]
    if timing[idx] > 0.2:
        if budget < timing[idx]:
            continue
        budget -= timing[idx]
    order = (new_mod, old_mod) if idx % 2 == 0 else (old_mod, new_mod)
    for mod in order:
        r = outcome(getattr(getattr(mod, sname), method), *materialise(args))
        if r != first_pass[idx]:
            failures.append((sname, label, "history", first_pass[idx], r))

if repr(CONSTS) != CONSTS_SNAPSHOT:
    failures.append(("module constants changed",))
for name in ("Z1", "Z2", "G1"):
    if getattr(new_mod, name) is not getattr(old_mod, name):
        failures.append(("constant identity differs", name))

# a few sanity anchors so that the comparison is not vacuous
kinds = {}
for idx, (label, sname, method, args) in enumerate(CASES):
    r = first_pass[idx]
    key = (method, r[0], r[1] if r[0] == "exc" or isinstance(r[1], bool) else "bytes")
    kinds[key] = kinds.get(key, 0) + 1
for k in sorted(kinds, key=repr):
    print(k, kinds[k])
assert kinds.get(("AggregateVerify", "ok", True), 0) >= 8
assert kinds.get(("AggregateVerify", "ok", False), 0) >= 50
assert kinds.get(("FastAggregateVerify", "ok", True), 0) >= 4
assert kinds.get(("Aggregate", "ok", "bytes"), 0) >= 90

print(f"total {time.time() - T0:.1f}s, failures: {len(failures)}")
for f in failures[:30]:
    print("MISMATCH", f)
sys.exit(1 if failures else 0)
