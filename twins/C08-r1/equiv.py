import os, sys; sys.path.insert(0, os.getcwd())  # noqa: E401,E702

"""
Equivalence demonstration for refactoring r1 (py_ecc/utils.py: prime_field_inv).

Run as:  cd /tmp/wt2/C08 && /venv/bin/python /tmp/twin/C08/r1/equiv.py

Loads the pristine utils.py (saved next to this script) under another module
name and compares it with the utils module of the tree in the current
directory: directly on prime_field_inv, and through the field classes (the
field modules are loaded a second time with the pristine prime_field_inv
patched in).
"""

import importlib.util
import random

HERE = os.path.dirname(os.path.abspath(__file__))


def load(name, path):
    spec = importlib.util.spec_from_file_location(name, path)
    mod = importlib.util.module_from_spec(spec)
    sys.modules[name] = mod
    spec.loader.exec_module(mod)
    return mod


import py_ecc.utils as new_utils  # noqa: E402

assert os.path.realpath(new_utils.__file__).startswith(
    os.path.realpath(os.getcwd())
), new_utils.__file__
old_utils = load("pristine_utils", os.path.join(HERE, "pristine", "utils.py"))
assert old_utils.prime_field_inv is not new_utils.prime_field_inv

P254 = 21888242871839275222246405745257275088696311157297823662689037894645226208583
P381 = 4002409555221667393417789825735904156556882819939007885332058136124031650490837864442687629129015664037894272559787  # noqa: E501
N254 = 21888242871839275222246405745257275088548364400416034343698204186575808495617
N381 = 52435875175126190479447740508185965837690552500527637822603658699938581184513

checked = 0
mismatches = []


def outcome(fn, *args):
    try:
        r = fn(*args)
        return ("ok", type(r).__name__, repr(r))
    except BaseException as e:  # noqa: B902
        return ("exc", type(e).__name__)


def cmp(label, f_old, f_new, *args):
    global checked
    checked += 1
    a, b = outcome(f_old, *args), outcome(f_new, *args)
    if a != b:
        mismatches.append((label, args, a, b))


# ---------------------------------------------------------------- direct calls
# exhaustive for small moduli (prime and composite, positive and negative, 0)
for n in list(range(-40, 0)) + list(range(0, 260)):
    for a in range(-2 * abs(n) - 3, 3 * abs(n) + 4):
        cmp("small", old_utils.prime_field_inv, new_utils.prime_field_inv, a, n)

rng = random.Random(0xC08)
for p in (P254, P381, N254, N381, 2**255 - 19, 2**521 - 1, 2**64, 10**30):
    edge = [0, 1, 2, 3, -1, -2, p - 2, p - 1, p, p + 1, 2 * p, 2 * p - 1, -p, -p - 1,
            -p + 1, p // 2, p // 2 + 1, p**2, p**2 + 1, p**12 - 1, 2**1024 + 1,
            True, False]
    rnd = [rng.randrange(p) for _ in range(3000)]
    rnd += [rng.randrange(-(p**3), p**3) for _ in range(500)]
    rnd += [1 << rng.randrange(0, 400) for _ in range(200)]
    for a in edge + rnd:
        cmp("big", old_utils.prime_field_inv, new_utils.prime_field_inv, a, p)
        # results of the refactored version are genuine inverses (sanity)
    for a in rnd[:200]:
        if p in (P254, P381, N254, N381, 2**255 - 19, 2**521 - 1) and a % p:
            assert new_utils.prime_field_inv(a, p) * a % p == 1
    assert new_utils.prime_field_inv(0, p) == 0
    assert new_utils.prime_field_inv(p, p) == 0

# malformed operands: identical exception classes (or identical results)
bad = [None, "3", b"\x03", 2.5, 7.0, -3.25, float("inf"), float("nan"), 3 + 1j,
       [3], (3,), {}, object()]
for a in bad + [0, 3, 5]:
    for n in bad + [0, 7, -7, P254]:
        cmp("malformed", old_utils.prime_field_inv, new_utils.prime_field_inv, a, n)

# the remaining helpers of the module are untouched; check anyway
for poly in ([0], [1], [0, 0], [1, 0], [0, 1, 0, 0], [3, 0, 2], [0, 0, 0, 0, 5]):
    cmp("deg", old_utils.deg, new_utils.deg, poly)

# ------------------------------------------------- through the field classes
ROOT = os.getcwd()
variants = {}
for kind, fname in (("ref", "field_elements.py"), ("opt", "optimized_field_elements.py")):
    path = os.path.join(ROOT, "py_ecc", "fields", fname)
    m_new = load("new_" + kind, path)
    m_old = load("old_" + kind, path)
    assert m_new.prime_field_inv is new_utils.prime_field_inv
    m_old.prime_field_inv = old_utils.prime_field_inv
    if hasattr(m_old, "poly_rounded_div"):
        m_old.poly_rounded_div = old_utils.poly_rounded_div
    variants[kind] = (m_old, m_new)


def mk(mod, p, c2, c12):
    fq = type("FQ_", (mod.FQ,), {"field_modulus": p})
    fq2 = type("FQ2_", (mod.FQ2,), {"field_modulus": p, "FQ2_MODULUS_COEFFS": c2})
    fq12 = type(
        "FQ12_", (mod.FQ12,), {"field_modulus": p, "FQ12_MODULUS_COEFFS": c12}
    )
    return fq, fq2, fq12


def val(x):
    if hasattr(x, "coeffs"):
        return (type(x).__name__, tuple((type(c).__name__, int(c)) for c in x.coeffs))
    if hasattr(x, "n"):
        return (type(x).__name__, x.n)
    return (type(x).__name__, repr(x))


def run(fn):
    try:
        return ("ok", val(fn()))
    except BaseException as e:  # noqa: B902
        return ("exc", type(e).__name__)


def cmp2(label, f_old, f_new):
    global checked
    checked += 1
    a, b = run(f_old), run(f_new)
    if a != b:
        mismatches.append((label, a, b))


fields = [
    (P254, (1, 0), (82, 0, 0, 0, 0, 0, -18, 0, 0, 0, 0, 0)),
    (P381, (1, 0), (2, 0, 0, 0, 0, 0, -2, 0, 0, 0, 0, 0)),
    (2, (1, 1), (1, 0, 0, 1, 0, 0, 0, 0, 0, 0, 0, 0)),
    (3, (1, 0), (2, 1, 0, 0, 0, 0, 0, 0, 0, 0, 0, 0)),
    (5, (2, 0), (2, 1, 0, 0, 0, 0, 0, 0, 0, 0, 0, 1)),
    (7, (1, 0), (3, 0, 0, 0, 0, 0, 1, 0, 0, 0, 0, 0)),
    (11, (1, 0), (2, 0, 0, 0, 0, 0, 0, 0, 0, 0, 0, 1)),
    (13, (11, 0), (2, 0, 0, 0, 0, 0, 0, 0, 0, 0, 0, 0)),
]

for kind, (m_old, m_new) in variants.items():
    for p, c2, c12 in fields:
        O = mk(m_old, p, c2, c12)
        N = mk(m_new, p, c2, c12)
        ints = [0, 1, 2, -1, p - 1, p, p + 1, 2 * p + 3, -p, -3 * p - 2, p**2 + 5]
        ints += [rng.randrange(-(p**2), p**2) for _ in range(40)]
        if p < 20:
            ints += list(range(-p, 2 * p + 1))
        for a in ints[:30]:
            for b in ints:
                cmp2("fq/", lambda: O[0](a) / O[0](b), lambda: N[0](a) / N[0](b))
                cmp2("fq/int", lambda: O[0](a) / b, lambda: N[0](a) / b)
                cmp2("int/fq", lambda: b / O[0](a), lambda: b / N[0](a))
        for bad_op in (None, "1", 1.5):
            cmp2("fq/bad", lambda: O[0](3) / bad_op, lambda: N[0](3) / bad_op)
            cmp2("bad/fq", lambda: bad_op / O[0](3), lambda: bad_op / N[0](3))
        for idx, degree in ((1, 2), (2, 12)):
            elems = [
                [0] * degree,
                [1] + [0] * (degree - 1),
                [p - 1] + [0] * (degree - 1),
                [0] * (degree - 1) + [1],
                [p - 1] * degree,
                [0, 1] + [0] * (degree - 2),
            ]
            elems += [[rng.randrange(p) for _ in range(degree)] for _ in range(12)]
            elems += [
                [rng.randrange(p) if rng.random() < 0.2 else 0 for _ in range(degree)]
                for _ in range(6)
            ]
            if p <= 13 and degree == 2:
                elems = [[i, j] for i in range(p) for j in range(p)]
            for e in elems:
                cmp2("inv", lambda: O[idx](e).inv(), lambda: N[idx](e).inv())
                cmp2(
                    "x*inv",
                    lambda: O[idx](e) * O[idx](e).inv(),
                    lambda: N[idx](e) * N[idx](e).inv(),
                )
                for s in (0, 1, -1, p, p - 1, p + 2, 12345):
                    cmp2("fqp/int", lambda: O[idx](e) / s, lambda: N[idx](e) / s)
                for f in elems[:6]:
                    cmp2(
                        "fqp/fqp",
                        lambda: O[idx](e) / O[idx](f),
                        lambda: N[idx](e) / N[idx](f),
                    )

print("checked", checked, "cases; mismatches:", len(mismatches))
for m in mismatches[:20]:
    print("MISMATCH", m)
sys.exit(1 if mismatches else 0)
