import os, sys; sys.path.insert(0, os.getcwd())  # noqa: E401,E702
"""
C02 / r2 equivalence demonstration.

Loads the pristine py_ecc/bls/point_compression.py (saved next to this script) as
py_ecc.bls._pristine_point_compression and compares its decompress_G2 with the
refactored one of the working tree: identical points (same coordinate types and
coefficient tuples) and identical exception classes, on

  A. every candidate signature string the property quantifies over (canonical, other
     keys / messages / suites, -S, 2S, S+T, flag flips, bit flips at every byte
     position, multi-bit flips, infinity and dirty infinity encodings, z2+q / x1+q
     re-encodings, random strings), for the three suites and PopProve;
  B. boundary integers for (z1, z2) around q, 2**381, 2**384 under all 8 flag patterns;
  C. genuine curve points whose y has zero imaginary part (the `y_im == 0` branch of
     the rewritten sign selection), both a_flag values;
  D. the sign-selection code itself driven through boundary values of (y_re, y_im)
     by stubbing modular_squareroot_in_FQ2 / is_on_curve identically in both modules;
  E. all other public functions of the module on shared inputs (they are untouched);
  F. end-to-end Verify / PopVerify with the refactored tree (sanity).
"""
import importlib.util
import itertools
import random
import time

HERE = os.path.dirname(os.path.abspath(__file__))
sys.path.insert(0, HERE)

import py_ecc.bls.point_compression as new_mod  # noqa: E402

assert os.path.abspath(new_mod.__file__).startswith(os.getcwd()), new_mod.__file__
spec = importlib.util.spec_from_file_location(
    "py_ecc.bls._pristine_point_compression",
    os.path.join(HERE, "pristine", "point_compression.py"),
)
old_mod = importlib.util.module_from_spec(spec)
sys.modules[spec.name] = old_mod
spec.loader.exec_module(old_mod)

import inspect  # noqa: E402

assert "y_sign_bit" in inspect.getsource(new_mod.decompress_G2), "refactoring not applied"
assert "y_sign_bit" not in inspect.getsource(old_mod.decompress_G2)

import c02_cases as C  # noqa: E402
from py_ecc.bls import G2Basic, G2MessageAugmentation, G2ProofOfPossession  # noqa: E402
from py_ecc.bls.hash import os2ip  # noqa: E402
from py_ecc.fields import optimized_bls12_381_FQ2 as FQ2  # noqa: E402
from py_ecc.optimized_bls12_381 import (  # noqa: E402
    G2, Z2, b2, curve_order, field_modulus as q, is_on_curve, multiply,
)


def canon(r):
    """structural description of a result: types + exact coefficients / identity"""
    if r is Z2:
        return "Z2-object"
    if isinstance(r, tuple):
        return tuple(canon(c) for c in r)
    if hasattr(r, "coeffs"):
        return (type(r).__module__, type(r).__name__,
                tuple((type(c).__name__, int(c)) for c in r.coeffs))
    return (type(r).__name__, repr(r))


def outcome(fn, *args):
    try:
        r = fn(*args)
    except BaseException as e:  # noqa: B902
        return ("raise", type(e).__name__)
    return ("ok", canon(r))


N = {"n": 0, "bad": 0, "ok": 0, "raise": 0}


def compare(label, name, *args):
    a = outcome(getattr(old_mod, name), *args)
    b_ = outcome(getattr(new_mod, name), *args)
    N["n"] += 1
    N[a[0]] += 1
    if a != b_:
        N["bad"] += 1
        print("MISMATCH", label, name, a, b_)
    return a


def main():
    t0 = time.time()
    rng = random.Random(0xC02 + 2)

    # ---- A. candidate signatures of the property
    sk = rng.randrange(2, curve_order - 1)
    msg = bytes(rng.randrange(256) for _ in range(33))
    suites = [
        ("basic", G2Basic.Sign),
        ("aug", G2MessageAugmentation.Sign),
        ("pop", G2ProofOfPossession.Sign),
        ("popprove", lambda s, m: G2ProofOfPossession.PopProve(s)),
    ]
    for sname, sign in suites:
        others = [
            ("sk+1", lambda: sign(sk + 1, msg)),
            ("sk-1", lambda: sign(sk - 1, msg)),
            ("msg'", lambda: sign(sk, msg + b"!")),
        ]
        cands = C.signature_candidates(sign, others, sk, msg, rng, nflips=96)
        for label, cand in cands:
            if not isinstance(cand, (bytes, bytearray)) or len(cand) == 0:
                continue  # signature_to_G2 is only reached with 96-byte strings
            p = (os2ip(cand[:48]), os2ip(cand[48:]))
            compare(sname + "/" + label, "decompress_G2", p)
    # all 8 bits of every byte of one signature
    S = G2Basic.Sign(sk, msg)
    for bit in range(768):
        c = C.flip(S, bit)
        compare("flip%d" % bit, "decompress_G2", (os2ip(c[:48]), os2ip(c[48:])))
    print("A done: %d comparisons, %.1fs" % (N["n"], time.time() - t0))

    # ---- B. boundary integers
    xs = [0, 1, 2, q - 2, q - 1, q, q + 1, 2**381 - 1, (q - 1) // 2, (q + 1) // 2]
    z2s = xs + [2**381, 2**381 + 5, 2**383, 2**384 - 1, 2**383 + 2**382, q + 2**383]
    for flags in range(8):
        for x1 in xs:
            for z2 in z2s:
                compare("B", "decompress_G2", ((flags << 381) + x1, z2))
    # random x (about half of them are on the curve), both signs
    for _ in range(150):
        x1, z2 = rng.randrange(q), rng.randrange(q)
        for flags in (4, 5):
            compare("Brand", "decompress_G2", ((flags << 381) + x1, z2))
    # outside the quantified domain, still identical: short/odd containers
    for p in [(2**383,), (2**383, 0, 0), None, 5]:
        compare("Bshape", "decompress_G2", p)
    print("B done: %d comparisons, %.1fs" % (N["n"], time.time() - t0))

    # ---- C. genuine points with y_im == 0
    n3 = (q * q - 1) // 9
    e3 = pow(3, -1, n3)
    h = FQ2([1, 1])
    while h ** ((q * q - 1) // 3) == FQ2.one():
        h = FQ2([rng.randrange(q), rng.randrange(q)])
    g = h**n3
    sylow = [g**i for i in range(9)]
    found = 0
    while found < 6:
        yr = rng.choice([rng.randrange(1, q), rng.randrange(1, 50), q - rng.randrange(1, 50)])
        y = FQ2([yr, 0])
        c = y * y - b2
        if c ** ((q * q - 1) // 3) != FQ2.one():
            continue
        r = c**e3
        x = None
        for zeta in sylow:
            if (r * zeta) ** 3 == c:
                x = r * zeta
                break
        assert x is not None
        assert is_on_curve((x, y, FQ2.one()), b2)
        x_re, x_im = (int(v) for v in x.coeffs)
        for a_flag in (0, 1):
            res = compare("C", "decompress_G2", (2**383 + a_flag * 2**381 + x_im, x_re))
            assert res[0] == "ok"
            y_out = res[1][1][2]
            assert y_out[1][1] == 0, "expected a point with y_im == 0"
            assert (y_out[0][1] * 2) // q == a_flag
        # round trip through the (untouched) encoder
        for yy in (y, -y):
            z = new_mod.compress_G2((x, yy, FQ2.one()))
            res = compare("Crt", "decompress_G2", z)
            assert res == ("ok", canon((x, yy, FQ2.one())))
        found += 1
    print("C done: %d comparisons, %.1fs" % (N["n"], time.time() - t0))

    # ---- D. drive the sign-selection code through boundary (y_re, y_im)
    vals = [0, 1, 2, (q - 1) // 2, (q + 1) // 2, q - 2, q - 1]
    vals += [rng.randrange(q) for _ in range(4)]
    saved = [(m, m.modular_squareroot_in_FQ2, m.is_on_curve) for m in (old_mod, new_mod)]
    try:
        for y_re, y_im in itertools.product(vals, repeat=2):
            stub = lambda value, y_re=y_re, y_im=y_im: FQ2([y_re, y_im])  # noqa: E731
            for m in (old_mod, new_mod):
                m.modular_squareroot_in_FQ2 = stub
                m.is_on_curve = lambda pt, b: True  # noqa: E731
            for a_flag in (0, 1):
                res = compare("D", "decompress_G2", (2**383 + a_flag * 2**381 + 7, 9))
                assert res[0] == "ok"
        for m in (old_mod, new_mod):
            m.modular_squareroot_in_FQ2 = lambda value: None  # noqa: E731
        assert compare("Dnone", "decompress_G2", (2**383 + 7, 9)) == ("raise", "ValueError")
        for m in (old_mod, new_mod):
            m.modular_squareroot_in_FQ2 = lambda value: FQ2([3, 4])  # noqa: E731
            m.is_on_curve = lambda pt, b: False  # noqa: E731
        assert compare("Doff", "decompress_G2", (2**383 + 7, 9)) == ("raise", "ValueError")
    finally:
        for m, f1, f2 in saved:
            m.modular_squareroot_in_FQ2 = f1
            m.is_on_curve = f2
    print("D done: %d comparisons, %.1fs" % (N["n"], time.time() - t0))

    # ---- E. untouched functions still agree
    pts = [Z2, G2, multiply(G2, 5), multiply(G2, curve_order - 1), C.g2_torsion_point(rng)]
    for pt in pts:
        compare("E", "compress_G2", pt)
    for z in [0, 2**383, 2**383 + 2**382, 2**384 - 1, 2**383 + q, 2**383 + 5, 2**383 + 2**381 + 4]:
        compare("E", "get_flags", z)
        compare("E", "is_point_at_infinity", z)
        compare("E", "is_point_at_infinity", z, 0)
        compare("E", "is_point_at_infinity", z, 1)
        compare("E", "decompress_G1", z)
    for v in [FQ2([1, 0]), FQ2([0, 1]), FQ2([4, 4]), FQ2([5, 0]), FQ2([rng.randrange(q), rng.randrange(q)])]:
        compare("E", "modular_squareroot_in_FQ2", v)
    print("E done: %d comparisons, %.1fs" % (N["n"], time.time() - t0))

    # ---- F. end to end on the refactored tree
    pk = G2Basic.SkToPk(sk)
    assert G2Basic.Verify(pk, msg, S) is True
    assert G2Basic.Verify(pk, msg, C.flip(S, 2)) is False  # negated signature
    assert G2Basic.Verify(pk, msg, C.INF_SIG) is False
    proof = G2ProofOfPossession.PopProve(sk)
    assert G2ProofOfPossession.PopVerify(pk, proof) is True
    assert G2ProofOfPossession.PopVerify(pk, S) is False
    assert G2MessageAugmentation.Verify(pk, msg, G2MessageAugmentation.Sign(sk, msg)) is True

    print("totals:", N, "elapsed %.1fs" % (time.time() - t0))
    if N["bad"]:
        print("FAILED")
        sys.exit(1)
    print("OK: pristine and refactored point_compression agree on all %d comparisons" % N["n"])


if __name__ == "__main__":
    main()
