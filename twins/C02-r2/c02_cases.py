"""
Deterministic input generators shared by the C02 equivalence demonstrations.

Everything here is built with the *current* (possibly refactored) library only to
manufacture byte strings; the byte strings themselves are then fed to both the
pristine and the refactored code by equiv.py.  A generator bug could therefore at
worst reduce coverage, never mask a difference.
"""
import os
import random
import sys

sys.path.insert(0, os.getcwd())

from py_ecc.bls.g2_primitives import G1_to_pubkey, G2_to_signature  # noqa: E402
from py_ecc.bls.hash import i2osp, os2ip  # noqa: E402
from py_ecc.fields import (  # noqa: E402
    optimized_bls12_381_FQ as FQ,
    optimized_bls12_381_FQ2 as FQ2,
)
from py_ecc.optimized_bls12_381 import (  # noqa: E402
    G1,
    G2,
    Z2,
    add,
    b,
    b2,
    curve_order,
    field_modulus as q,
    is_inf,
    is_on_curve,
    multiply,
    neg,
)

INF_SIG = b"\xc0" + b"\x00" * 95
INF_PK = b"\xc0" + b"\x00" * 47


def flip(bs, bit):
    """flip bit number `bit` (0 = most significant bit of byte 0)"""
    out = bytearray(bs)
    out[bit // 8] ^= 0x80 >> (bit % 8)
    return bytes(out)


def g2_torsion_point(rng):
    """a non-trivial point of the twist curve killed by the cofactor (not in G2)"""
    while True:
        x = FQ2([rng.randrange(q), rng.randrange(q)])
        rhs = x**3 + b2
        y = rhs ** ((q * q + 7) // 16)  # candidate root, may be off by 8th root
        found = None
        from py_ecc.bls.constants import EIGHTH_ROOTS_OF_UNITY

        for r in EIGHTH_ROOTS_OF_UNITY:
            if (y * r) ** 2 == rhs:
                found = y * r
                break
        if found is None:
            continue
        P = (x, found, FQ2.one())
        assert is_on_curve(P, b2)
        T = multiply(P, curve_order)
        if not is_inf(T):
            assert is_on_curve(T, b2)
            return T


def g1_torsion_point(rng):
    while True:
        x = rng.randrange(q)
        rhs = (x**3 + b.n) % q
        y = pow(rhs, (q + 1) // 4, q)
        if y * y % q != rhs:
            continue
        P = (FQ(x), FQ(y), FQ(1))
        T = multiply(P, curve_order)
        if not is_inf(T):
            return T


_TORSION = {}


def cached_g2_torsion(rng, k):
    if k not in _TORSION:
        _TORSION[k] = g2_torsion_point(rng)
    return _TORSION[k]


def signature_candidates(suite_sign, other_signs, sk, msg, rng, nflips=96, lite=False):
    """
    candidate 96-byte strings (and malformed ones) for Verify(pk(sk), msg, .)
    returns list of (label, candidate)
    """
    from py_ecc.bls.g2_primitives import signature_to_G2

    S_bytes = suite_sign(sk, msg)
    S = signature_to_G2(S_bytes)
    out = [("canonical", S_bytes)]
    for name, fn in other_signs:
        out.append(("other:" + name, fn()))
    out.append(("neg", G2_to_signature(neg(S))))
    if not lite:
        out.append(("double", G2_to_signature(multiply(S, 2))))
    out.append(("S+T", G2_to_signature(add(S, cached_g2_torsion(rng, 0)))))
    out.append(("infinity", INF_SIG))
    if lite == "min":
        return [o for o in out if o[0] not in ("double", "neg")]
    out.append(("T", G2_to_signature(cached_g2_torsion(rng, 1))))
    if not lite:
        out.append(("G2", G2_to_signature(G2)))
        out.append(
            ("randG2", G2_to_signature(multiply(G2, rng.randrange(1, curve_order))))
        )
    # flag bits (bit 0,1,2) single and multi flips
    for bits in [(0,), (1,), (2,), (0, 1), (0, 2), (1, 2), (0, 1, 2)]:
        c = S_bytes
        for bt in bits:
            c = flip(c, bt)
        out.append(("flags" + repr(bits), c))
    # flag bits of the second half (must all be zero)
    for bt in (384, 385, 386):
        out.append(("z2flag%d" % bt, flip(S_bytes, bt)))
    # infinity with stray bits
    out.append(("inf+a", flip(INF_SIG, 2)))
    out.append(("inf-b", flip(INF_SIG, 1)))
    out.append(("inf-c", flip(INF_SIG, 0)))
    out.append(("inf+z2", INF_SIG[:95] + b"\x01"))
    out.append(("inf+x1", INF_SIG[:47] + b"\x01" + INF_SIG[48:]))
    # re-encodings: z2 + q, x1 + q when it fits
    z1, z2 = os2ip(S_bytes[:48]), os2ip(S_bytes[48:])
    out.append(("z2+q", S_bytes[:48] + i2osp(z2 + q, 48)))
    x1 = z1 % 2**381
    if x1 + q < 2**381:
        out.append(("x1+q", i2osp(z1 + q, 48) + S_bytes[48:]))
    out.append(("x1=q", i2osp((z1 - x1) + q, 48) + S_bytes[48:]))
    out.append(("x1=q-1", i2osp((z1 - x1) + q - 1, 48) + S_bytes[48:]))
    out.append(("z2=q", S_bytes[:48] + i2osp(q, 48)))
    out.append(("z2=q-1", S_bytes[:48] + i2osp(q - 1, 48)))
    out.append(("x=0", i2osp(2**383, 48) + i2osp(0, 48)))
    out.append(("x=0,a", i2osp(2**383 + 2**381, 48) + i2osp(0, 48)))
    # single-bit flips at every byte position (bit inside the byte varies)
    positions = range(96) if nflips >= 96 else sorted(rng.sample(range(96), nflips))
    for pos in positions:
        bit = pos * 8 + (rng.randrange(8) if pos else rng.randrange(3, 8))
        out.append(("flip@%d" % bit, flip(S_bytes, bit)))
    # multi-bit flips
    for _ in range(3 if lite else 10):
        c = S_bytes
        for bt in rng.sample(range(768), rng.randrange(2, 6)):
            c = flip(c, bt)
        out.append(("multiflip", c))
    # malformed containers
    out.append(("short", S_bytes[:95]))
    out.append(("long", S_bytes + b"\x00"))
    out.append(("longfront", b"\x00" + S_bytes))
    out.append(("empty", b""))
    out.append(("bytearray", bytearray(S_bytes)))
    out.append(("memoryview", memoryview(S_bytes)))
    out.append(("str", S_bytes.hex()))
    out.append(("none", None))
    out.append(("int", os2ip(S_bytes)))
    out.append(("tuple", tuple(S_bytes)))
    out.append(("random", bytes(rng.randrange(256) for _ in range(96))))
    out.append(("random-c", bytes([0x80 | rng.randrange(32)]) + bytes(rng.randrange(256) for _ in range(95))))
    return out


def pubkey_variants(pk, rng):
    z = os2ip(pk)
    x = z % 2**381
    out = [
        ("pk-inf", INF_PK),
        ("pk-short", pk[:47]),
        ("pk-long", pk + b"\x00"),
        ("pk-longfront", b"\x00" + pk),
        ("pk-bytearray", bytearray(pk)),
        ("pk-none", None),
        ("pk-str", pk.hex()),
        ("pk-neg", flip(pk, 2)),
        ("pk-noc", flip(pk, 0)),
        ("pk-b", flip(pk, 1)),
        ("pk-x=q", i2osp(z - x + q, 48)),
        ("pk-torsion", G1_to_pubkey(g1_torsion_point(rng))),
        ("pk-G1", G1_to_pubkey(G1)),
        ("pk-flip", flip(pk, 8 * rng.randrange(1, 48) + rng.randrange(8))),
        ("pk-random", bytes(rng.randrange(256) for _ in range(48))),
    ]
    return out


def outcome(fn, *args):
    """result (with its type) or exception class of fn(*args)"""
    try:
        r = fn(*args)
    except BaseException as e:  # noqa: B902
        return ("raise", type(e).__name__)
    return ("ok", type(r).__name__, repr(r))
