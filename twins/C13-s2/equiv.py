import os, sys; sys.path.insert(0, os.getcwd())
import importlib.util
import random

HERE = os.path.dirname(os.path.abspath(__file__))


def load(name, path):
    spec = importlib.util.spec_from_file_location(name, path)
    mod = importlib.util.module_from_spec(spec)
    sys.modules[name] = mod
    spec.loader.exec_module(mod)
    return mod


old = load("pristine_secp256k1", os.path.join(HERE, "pristine", "secp256k1.py"))
import py_ecc.secp256k1 as pkg
from py_ecc.secp256k1 import secp256k1 as new

assert os.path.realpath(new.__file__).startswith(os.path.realpath(os.getcwd())), new.__file__

# --- constants: identical value and exact type ------------------------------
for name in ["P", "N", "A", "B", "Gx", "Gy", "G"]:
    vo, vn = getattr(old, name), getattr(new, name)
    assert vo == vn and type(vo) is type(vn), name
    if isinstance(vo, tuple):
        assert [type(e) for e in vo] == [type(e) for e in vn] == [int, int]
    else:
        assert type(vn) is int
    assert repr(vo) == repr(vn)
assert pkg.P is new.P and pkg.N is new.N and pkg.G is new.G
pub = lambda m: sorted(k for k in vars(m) if not k.startswith("__"))
assert pub(old) == pub(new), set(pub(old)) ^ set(pub(new))

rng = random.Random(0xC13 + 2)
P, N = old.P, old.N
nchecks = 0


def canon(v):
    if isinstance(v, tuple):
        return ("tuple",) + tuple(canon(e) for e in v)
    return (type(v).__name__, v)


def run(f, *a):
    try:
        return ("ok", canon(f(*a)))
    except Exception as e:  # noqa: BLE001
        return ("exc", type(e))


def same(fname, *a):
    global nchecks
    r_old = run(getattr(old, fname), *a)
    r_new = run(getattr(new, fname), *a)
    assert r_old == r_new, (fname, a, r_old, r_new)
    nchecks += 1
    return r_new


def rescale(pt, lam):
    x, y, z = pt
    return (x * lam**2 % P, y * lam**3 % P, z * lam % P)


# on-curve Jacobian points in many representatives
ks = [1, 2, 3, 4, 5, N - 1, N - 2, (N - 1) // 2, (N + 1) // 2] + [
    rng.randrange(1, N) for _ in range(25)
]
G3 = (old.Gx, old.Gy, 1)
base = [old.jacobian_multiply(G3, k) for k in ks]
pts = []
for pt in base:
    pts.append(pt)
    pts.append(rescale(pt, rng.randrange(1, P)))
    # non-reduced representative (coordinates shifted by multiples of P, negative too)
    pts.append((pt[0] + P, pt[1] - P, pt[2] + 2 * P))
infs = [(0, 0, 0), (0, 0, 1), (5, 0, 7), (1, 0, 0), (P - 1, 0, P - 1)]
# y == P is NOT recognised as the identity marker by `not p[1]`: keep that path too
odd = [(3, P, 1), (0, 7, 0), (1, 1, 0), (0, 1, 1), (P, P, P), (2, 3, 5), (-1, -1, -1),
       (P - 1, P - 1, P - 1), (2**300, 2**299 + 1, 2**298 + 3)]
offcurve = [(rng.randrange(P), rng.randrange(1, P), rng.randrange(1, P)) for _ in range(10)]
allpts = pts + infs + odd + offcurve

for pt in allpts:
    same("jacobian_double", pt)
    same("from_jacobian", pt)
for a in allpts:
    for b in allpts[::3] + infs:
        same("jacobian_add", a, b)
        same("jacobian_add", b, a)
# doubling through add (different representatives), inverse points, identity operands
for pt in base:
    l1, l2 = rng.randrange(1, P), rng.randrange(1, P)
    same("jacobian_add", rescale(pt, l1), rescale(pt, l2))
    neg = (pt[0], (-pt[1]) % P, pt[2])
    same("jacobian_add", rescale(pt, l1), rescale(neg, l2))
    same("jacobian_add", rescale(pt, l1), old.jacobian_double(rescale(pt, l2)))
    for I in infs:
        assert new.jacobian_add(pt, I) is pt and new.jacobian_add(I, pt) is pt

scalars = [0, 1, 2, 3, N - 1, N, N + 1, 2 * N, -1, -N, 2**256, 2**255 - 19] + [
    rng.randrange(N) for _ in range(10)
]
for pt in pts[:12] + infs + odd[:4]:
    for n in scalars:
        same("jacobian_multiply", pt, n)
for n in scalars:
    same("multiply", old.G, n)
aff = [old.from_jacobian(b) for b in base[:12]] + [(0, 0), (1, 0), (0, 7), (P, P), (5, 5)]
for a in aff:
    for b in aff:
        same("add", a, b)
    same("to_jacobian", a)
    same("multiply", a, rng.randrange(N))

for a, n in [(0, P), (0, N), (1, P), (P - 1, P), (P, P), (N, N), (2, N), (N - 1, N),
             (P + 5, P), (-3, P), (12345, N), (0, 0)] + [
    (rng.randrange(2 * P), m) for m in (P, N) for _ in range(20)
]:
    same("inv", a, n)

# malformed inputs: same exception classes
bad = [None, (), (1,), (1, 2), (1, 2, 3, 4), "abc", (1.5, 2.5, 1.0), ("a", "b", "c"),
       (None, None, None), [old.Gx, old.Gy, 1], (old.Gx, old.Gy, None)]
for x in bad:
    same("jacobian_double", x)
    same("from_jacobian", x)
    same("to_jacobian", x)
    same("jacobian_multiply", x, 5)
    for y in [G3, (0, 0, 0), x]:
        same("jacobian_add", x, y)
        same("jacobian_add", y, x)
same("jacobian_multiply", G3, 2.5)
same("jacobian_multiply", G3, None)
same("multiply", old.G, "7")

# ECDSA on top of the constants, incl. boundary keys / hashes and bad signatures
keys = [b"\x00" * 31 + b"\x01", b"\x00" * 32, b"\xff" * 32, N.to_bytes(32, "big"),
        (N - 1).to_bytes(32, "big"), b"", b"\x01"] + [
    rng.randrange(1, N).to_bytes(32, "big") for _ in range(6)
]
msgs = [b"\x00" * 32, b"\xff" * 32, b"", b"abc"] + [rng.randbytes(32) for _ in range(3)]
for k in keys:
    same("privtopub", k)
    for m in msgs:
        same("deterministic_generate_k", m, k)
        r = same("ecdsa_raw_sign", m, k)
        if r[0] == "ok":
            vrs = tuple(e[1] for e in r[1][1:])
            same("ecdsa_raw_recover", m, vrs)
            v, rr, ss = vrs
            for bad_vrs in [(26, rr, ss), (29, rr, ss), (v, 0, ss), (v, rr, 0), (v, N, ss),
                            (v, rr, N), (v, rr + 1, ss), (55 - v, rr, ss), (v, P, ss),
                            (v, 5, 5), (v, rr, N - ss), (v, rr)]:
                same("ecdsa_raw_recover", m, bad_vrs)
same("bytes_to_int", b"")
same("bytes_to_int", b"\x01\x02")
same("bytes_to_int", "ab")
same("bytes_to_int", None)

# repeated calls after interleaving give equal results
a1 = same("jacobian_add", pts[0], pts[4])
same("jacobian_double", pts[7])
a2 = same("jacobian_add", pts[0], pts[4])
assert a1 == a2

print("s2 equivalence OK:", nchecks, "comparisons")
