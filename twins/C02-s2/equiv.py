import os, sys; sys.path.insert(0, os.getcwd())  # noqa: E401,E702

"""
Equivalence demonstration for twin C02 (BLS: Verify accepts exactly the one
canonical signature).

The EDITED library is whatever `import py_ecc` finds in the current directory.
The PRISTINE versions of the touched bls modules (and of the modules stacked on
top of them) are the byte-identical copies in ./pristine/ next to this file; they
are loaded as extra sub-modules of the package py_ecc.bls under private alias
names (py_ecc.bls._p_constants, ._p_point_compression, ...).  The only thing done
to their source in memory is retargeting the sibling relative imports so that the
pristine stack is self-contained:

  _p_ciphersuites -> _p_g2_primitives -> _p_point_compression -> _p_constants
  _p_ciphersuites -> _p_hash_to_curve -> _p_constants

Both stacks share py_ecc.fields / py_ecc.optimized_bls12_381 / py_ecc.bls.hash
(none of which is touched by the edit), so results can be compared directly,
including coordinate classes.
"""

import hashlib
import random
import subprocess
import time
import types

T0 = time.time()
HERE = os.path.dirname(os.path.abspath(__file__))
PRISTINE = os.path.join(HERE, "pristine")

import py_ecc.bls  # noqa: E402  (the edited tree)
from py_ecc.bls import ciphersuites as N_cs  # noqa: E402
from py_ecc.bls import constants as N_const  # noqa: E402
from py_ecc.bls import g2_primitives as N_g2  # noqa: E402
from py_ecc.bls import hash_to_curve as N_h2c  # noqa: E402
from py_ecc.bls import point_compression as N_pc  # noqa: E402

assert os.path.realpath(py_ecc.__file__).startswith(
    os.path.realpath(os.getcwd())
), "equiv.py must be started with the worktree as current directory"

REWRITES = (
    ("from .constants import", "from ._p_constants import"),
    ("from .point_compression import", "from ._p_point_compression import"),
    ("from .g2_primitives import", "from ._p_g2_primitives import"),
    ("from .hash_to_curve import", "from ._p_hash_to_curve import"),
)


def load_pristine(alias, filename):
    path = os.path.join(PRISTINE, filename)
    with open(path) as f:
        src = f.read()
    # the saved copy really is the committed file
    try:
        head = subprocess.run(
            ["git", "show", "HEAD:py_ecc/bls/" + filename],
            capture_output=True,
            text=True,
            check=True,
        ).stdout
        assert head == src, "pristine copy of %s differs from HEAD" % filename
    except (OSError, subprocess.CalledProcessError):
        pass
    for old, new in REWRITES:
        src = src.replace(old, new)
    name = "py_ecc.bls." + alias
    mod = types.ModuleType(name)
    mod.__package__ = "py_ecc.bls"
    mod.__file__ = path
    sys.modules[name] = mod
    exec(compile(src, path, "exec"), mod.__dict__)
    return mod


P_const = load_pristine("_p_constants", "constants.py")
P_pc = load_pristine("_p_point_compression", "point_compression.py")
P_g2 = load_pristine("_p_g2_primitives", "g2_primitives.py")
P_h2c = load_pristine("_p_hash_to_curve", "hash_to_curve.py")
P_cs = load_pristine("_p_ciphersuites", "ciphersuites.py")

# the pristine stack really is self-contained
assert P_g2.decompress_G2 is P_pc.decompress_G2
assert P_cs.signature_to_G2 is P_g2.signature_to_G2
assert P_cs.hash_to_G2 is P_h2c.hash_to_G2
assert P_pc.POW_2_381 is P_const.POW_2_381
assert P_pc.decompress_G2 is not N_pc.decompress_G2
assert N_g2.decompress_G2 is N_pc.decompress_G2
assert N_cs.signature_to_G2 is N_g2.signature_to_G2

from py_ecc.fields import (  # noqa: E402
    optimized_bls12_381_FQ as FQ,
    optimized_bls12_381_FQ2 as FQ2,
)
from py_ecc.optimized_bls12_381 import (  # noqa: E402
    G1,
    G2,
    Z1,
    Z2,
    add,
    b2,
    curve_order,
    field_modulus as q,
    is_on_curve,
    multiply,
    neg,
    normalize,
)

rnd = random.Random(0xC02)
N_CHECKS = 0


def freeze(v):
    """A comparable, type-aware image of a result."""
    if isinstance(v, (FQ, FQ2)):
        if isinstance(v, FQ):
            return (type(v).__name__, type(v.n).__name__, v.n)
        return (
            type(v).__name__,
            tuple((type(c).__name__, int(c)) for c in v.coeffs),
        )
    if isinstance(v, (tuple, list)):
        return (type(v).__name__,) + tuple(freeze(x) for x in v)
    if v is None or isinstance(v, (bool, int, bytes, str)):
        return (type(v).__name__, v)
    raise TypeError("cannot freeze %r" % (type(v),))


def outcome(f, *args):
    try:
        return ("ok", freeze(f(*args)))
    except BaseException as e:  # noqa: B902
        if isinstance(e, (KeyboardInterrupt, SystemExit)):
            raise
        return ("exc", type(e).__module__, type(e).__name__, str(e))


def same(label, fn_new, fn_old, *args):
    global N_CHECKS
    a = outcome(fn_new, *args)
    b = outcome(fn_old, *args)
    if a != b:
        print("MISMATCH", label, args, "\n  new:", a, "\n  old:", b)
        sys.exit(1)
    N_CHECKS += 1
    return a


# --------------------------------------------------------------------------
# 0. constants: same value and same type, names still importable
# --------------------------------------------------------------------------
for name in sorted(set(dir(P_const)) | set(n for n in dir(N_const))):
    if name.startswith("__"):
        continue
    if not hasattr(P_const, name):
        continue  # a newly named constant is allowed, a vanished one is not
    assert hasattr(N_const, name), "constant vanished: " + name
    a, b = getattr(N_const, name), getattr(P_const, name)
    if isinstance(b, (int, tuple)) and not isinstance(b, type):
        if isinstance(b, tuple):
            assert type(a) is tuple and len(a) == len(b), name
            assert [freeze(x) for x in a] == [freeze(x) for x in b], name
        else:
            assert type(a) is type(b) and a == b, name
        N_CHECKS += 1
# every public name of the pristine modules is still there
for P_mod, N_mod in ((P_pc, N_pc), (P_g2, N_g2), (P_cs, N_cs), (P_h2c, N_h2c)):
    for name in dir(P_mod):
        if name.startswith("__") or name in ("Tuple", "Optional"):
            continue
        if N_mod is N_pc and name in ("FQ2_ORDER", "POW_2_382"):
            # constants that point_compression merely imported for its own use and
            # no longer needs; they are still in py_ecc.bls.constants (checked above)
            continue
        assert hasattr(N_mod, name), (N_mod.__name__, name)
        pv, nv = getattr(P_mod, name), getattr(N_mod, name)
        if isinstance(pv, int) and not isinstance(pv, bool):
            assert type(nv) is type(pv) and nv == pv, name
# the names point_compression exports are the very objects other modules bind
for name in ("compress_G1", "compress_G2", "decompress_G1", "decompress_G2"):
    assert getattr(N_g2, name) is getattr(N_pc, name)
from py_ecc.bls.point_compression import (  # noqa: E402,F401
    compress_G1,
    compress_G2,
    decompress_G1,
    decompress_G2,
    get_flags,
    is_point_at_infinity,
    modular_squareroot_in_FQ2,
)

# s2: the rewritten / derived / newly named constants have exactly the values
# (and the plain int / bytes types) of the expressions they replace
assert type(N_const.POW_2_381) is int and N_const.POW_2_381 == 2**381 == P_const.POW_2_381
assert type(N_const.POW_2_382) is int and N_const.POW_2_382 == 2**382 == P_const.POW_2_382
assert type(N_const.POW_2_383) is int and N_const.POW_2_383 == 2**383 == P_const.POW_2_383
assert type(N_const.POW_2_384) is int and N_const.POW_2_384 == 2**384 == P_const.POW_2_384
assert type(N_const.COMPRESSED_INFINITY) is int
assert N_const.COMPRESSED_INFINITY == P_const.POW_2_383 + P_const.POW_2_382
assert type(N_const.FQ_SQRT_EXPONENT) is int
assert N_const.FQ_SQRT_EXPONENT == (P_pc.q + 1) // 4 and N_pc.q is P_pc.q
assert type(N_const.FQ2_SQRT_EXPONENT) is int
assert N_const.FQ2_SQRT_EXPONENT == (P_pc.FQ2_ORDER + 8) // 16
assert N_const.FQ2_ORDER == P_const.FQ2_ORDER and N_const.G2_COFACTOR == P_const.G2_COFACTOR
assert N_const.HASH_TO_FIELD_L == P_const.HASH_TO_FIELD_L == 64
for _name in ("G2Basic", "G2MessageAugmentation", "G2ProofOfPossession"):
    _n, _p = getattr(N_cs, _name), getattr(P_cs, _name)
    assert type(_n.DST) is bytes and _n.DST == _p.DST and hash(_n.DST) == hash(_p.DST)
    assert "DST" in vars(_n)  # still a class attribute of the suite itself
assert type(N_cs.G2ProofOfPossession.POP_TAG) is bytes
assert N_cs.G2ProofOfPossession.POP_TAG == P_cs.G2ProofOfPossession.POP_TAG
assert N_cs.BaseG2Ciphersuite.DST == P_cs.BaseG2Ciphersuite.DST == b""
assert len({N_cs.G2Basic.DST, N_cs.G2MessageAugmentation.DST,
            N_cs.G2ProofOfPossession.DST, N_cs.G2ProofOfPossession.POP_TAG}) == 4

# --------------------------------------------------------------------------
# 1. get_flags / is_point_at_infinity
# --------------------------------------------------------------------------
ints = [0, 1, 2, q - 1, q, q + 1]
for k in (380, 381, 382, 383, 384, 385, 400):
    for d in (-1, 0, 1):
        ints.append(2**k + d)
ints += [2**383 + 2**382, 2**383 + 2**382 + 2**381, 2**384 - 1, 2**768, -1, -(2**381)]
ints += [rnd.getrandbits(384) for _ in range(200)]
for z in ints:
    same("get_flags", N_pc.get_flags, P_pc.get_flags, z)
    same("is_inf1", N_pc.is_point_at_infinity, P_pc.is_point_at_infinity, z)
    for z2 in (None, 0, 1, q, 2**381, False):
        same("is_inf2", N_pc.is_point_at_infinity, P_pc.is_point_at_infinity, z, z2)
for bad in ("x", None, 1.5):
    same("get_flags-bad", N_pc.get_flags, P_pc.get_flags, bad)
    same("is_inf-bad", N_pc.is_point_at_infinity, P_pc.is_point_at_infinity, bad)

# --------------------------------------------------------------------------
# 2. modular_squareroot_in_FQ2
# --------------------------------------------------------------------------
vals = [FQ2([0, 0]), FQ2([1, 0]), FQ2([0, 1]), FQ2([q - 1, 0]), FQ2([4, 0]), b2]
vals += [FQ2([rnd.randrange(q), rnd.randrange(q)]) for _ in range(12)]
vals += [v * v for v in vals[1:8]]
for v in vals:
    same("sqrtFQ2", N_pc.modular_squareroot_in_FQ2, P_pc.modular_squareroot_in_FQ2, v)

# --------------------------------------------------------------------------
# 3. compression of points (affine, projective, infinity, off-curve)
# --------------------------------------------------------------------------
g2_pts = [Z2, G2, neg(G2), multiply(G2, 2), multiply(G2, curve_order - 1)]
g2_pts += [multiply(G2, rnd.randrange(1, curve_order)) for _ in range(4)]
g2_pts += [(FQ2.one(), FQ2.one(), FQ2.zero())]  # another infinity representative
lam = FQ2([5, 7])
g2_pts += [(G2[0] * lam, G2[1] * lam, G2[2] * lam)]  # projective rescaling
g2_pts += [(G2[0], G2[1] + FQ2.one(), G2[2])]  # off curve
for pt in g2_pts:
    same("compress_G2", N_pc.compress_G2, P_pc.compress_G2, pt)
    same("G2_to_signature", N_g2.G2_to_signature, P_g2.G2_to_signature, pt)
g1_pts = [Z1, G1, neg(G1), multiply(G1, 2), multiply(G1, curve_order - 1)]
g1_pts += [multiply(G1, rnd.randrange(1, curve_order)) for _ in range(4)]
g1_pts += [(FQ.one(), FQ.one(), FQ.zero()), (G1[0] * 3, G1[1] * 3, G1[2] * 3)]
for pt in g1_pts:
    same("compress_G1", N_pc.compress_G1, P_pc.compress_G1, pt)
    same("G1_to_pubkey", N_g2.G1_to_pubkey, P_g2.G1_to_pubkey, pt)

# --------------------------------------------------------------------------
# 4. decoding of candidate signatures / public keys (the canonical-encoding
#    mechanism of the property), at the byte level
# --------------------------------------------------------------------------
SUITES = ("G2Basic", "G2MessageAugmentation", "G2ProofOfPossession")
sk0 = 0x263DBD792F5B1BE47ED85F8938C0F29586AF0D3AC7B977F21C278FE1462040E3 % curve_order
msg0 = b"\x12" * 32
pk0 = N_cs.G2Basic.SkToPk(sk0)
assert pk0 == P_cs.G2Basic.SkToPk(sk0)
sig0 = N_cs.G2Basic.Sign(sk0, msg0)
S0 = N_g2.signature_to_G2(sig0)


def flip(bs, bit):
    ba = bytearray(bs)
    ba[bit // 8] ^= 0x80 >> (bit % 8)
    return bytes(ba)


def enc(z1, z2):
    return z1.to_bytes(48, "big") + z2.to_bytes(48, "big")


z1_0 = int.from_bytes(sig0[:48], "big")
z2_0 = int.from_bytes(sig0[48:], "big")
x1_0 = z1_0 % 2**381
cands = [sig0]
# one flipped bit at every byte position (all 8 bits in the two leading bytes)
for byte in range(96):
    bits = range(8) if byte in (0, 1, 47, 48, 49, 95) else (rnd.randrange(8),)
    for bit in bits:
        cands.append(flip(sig0, 8 * byte + bit))
# multi-bit flips
for _ in range(40):
    c = sig0
    for _ in range(rnd.randrange(2, 6)):
        c = flip(c, rnd.randrange(768))
    cands.append(c)
# all 8x8 settings of the three flag bits of both halves
for f1 in range(8):
    for f2 in range(8):
        cands.append(enc((f1 << 381) | x1_0, (f2 << 381) | (z2_0 % 2**381)))
# infinity and its non-canonical relatives
for f1 in range(8):
    cands.append(enc(f1 << 381, 0))
    cands.append(enc(f1 << 381, 1))
    cands.append(enc(f1 << 381, 1 << 381))
    cands.append(enc((f1 << 381) | 1, 0))
# coordinates at and around the modulus (re-encodings x + p)
for xa in (0, 1, q - 1, q, q + 1, x1_0 + q if x1_0 + q < 2**381 else q, 2**381 - 1):
    for xb in (0, 1, q - 1, q, q + 1, 2**381 - 1, 2**384 - 1, z2_0, z2_0 + q):
        if xb < 2**384:
            for fl in (4, 5):
                cands.append(enc((fl << 381) | xa, xb))
# negation, doubling, neighbours, other group elements, random valid encodings
for pt in (neg(S0), multiply(S0, 2), add(S0, G2), G2, neg(G2)):
    cands.append(N_g2.G2_to_signature(pt))
for _ in range(12):
    cands.append(enc((4 << 381) | rnd.randrange(q), rnd.randrange(q)))
    cands.append(enc((5 << 381) | rnd.randrange(q), rnd.randrange(q)))
cands += [b"", b"\x00" * 96, b"\xff" * 96, b"\xc0" + b"\x00" * 95, sig0[:95], sig0 + b"\x00"]
cands += [sig0[:48], b"\xc0" + b"\x00" * 47]

n_ok = 0
n_sub = 0
torsion_sig = None
for k, c in enumerate(cands):
    r = same("signature_to_G2", N_g2.signature_to_G2, P_g2.signature_to_G2, c)
    if len(c) == 96 and (k % 3 == 0 or r[0] == "ok"):
        p = (int.from_bytes(c[:48], "big"), int.from_bytes(c[48:], "big"))
        r2 = same("decompress_G2", N_pc.decompress_G2, P_pc.decompress_G2, p)
        assert r2 == r
    if r[0] == "ok":
        n_ok += 1
        pt = N_g2.signature_to_G2(c)
        # canonical: re-encoding gives the same bytes on both sides
        a = same("roundtrip", N_g2.G2_to_signature, P_g2.G2_to_signature, pt)
        if len(c) == 96:  # (shorter strings are rejected by Verify's length test)
            assert a == ("ok", freeze(c)), ("non-canonical encoding decoded", c.hex())
        if n_sub < 8 or torsion_sig is None:
            n_sub += 1
            sc = same("subgroup", N_g2.subgroup_check, P_g2.subgroup_check, pt)
            if sc == ("ok", ("bool", False)) and torsion_sig is None:
                torsion_sig = c
assert n_ok > 20 and torsion_sig is not None

pk_cands = [pk0, pk0[:47], pk0 + b"\x00", b"", b"\xc0" + b"\x00" * 47, b"\x00" * 48]
for byte in range(48):
    bits = range(8) if byte in (0, 47) else (rnd.randrange(8),)
    for bit in bits:
        pk_cands.append(flip(pk0, 8 * byte + bit))
for f in range(8):
    pk_cands.append(((f << 381) | (int.from_bytes(pk0, "big") % 2**381)).to_bytes(48, "big"))
    pk_cands.append((f << 381).to_bytes(48, "big"))
    for x in (q - 1, q, q + 1, 2**381 - 1, 1, 2, 3, 4):
        pk_cands.append(((f << 381) | x).to_bytes(48, "big"))
for c in pk_cands:
    same("pubkey_to_G1", N_g2.pubkey_to_G1, P_g2.pubkey_to_G1, c)
    same("decompress_G1", N_pc.decompress_G1, P_pc.decompress_G1, int.from_bytes(c, "big"))
    same("KeyValidate", N_cs.G2Basic.KeyValidate, P_cs.G2Basic.KeyValidate, c)

# --------------------------------------------------------------------------
# 5. Sign / Verify / PopProve / PopVerify on both stacks; the property itself
# --------------------------------------------------------------------------
for name in SUITES:
    assert getattr(N_cs, name).DST == getattr(P_cs, name).DST
    assert type(getattr(N_cs, name).DST) is bytes
assert N_cs.G2ProofOfPossession.POP_TAG == P_cs.G2ProofOfPossession.POP_TAG

sks = [1, sk0, curve_order - 1]
msgs = [b"", msg0]
canon = {}
for name in SUITES:
    Ns, Ps = getattr(N_cs, name), getattr(P_cs, name)
    for sk in sks:
        same("SkToPk", Ns.SkToPk, Ps.SkToPk, sk)
        for m in msgs:
            if sk == curve_order - 1 and (name != "G2Basic" or m == b""):
                continue
            r = same("Sign", Ns.Sign, Ps.Sign, sk, m)
            assert r[0] == "ok"
            canon[(name, sk, m)] = r[1][1]
for sk in sks[:2]:
    r = same("PopProve", N_cs.G2ProofOfPossession.PopProve, P_cs.G2ProofOfPossession.PopProve, sk)
    canon[("POP", sk, None)] = r[1][1]
for bad_sk in (0, curve_order, -1, "1", 1.0):
    for name in SUITES:
        same("Sign-bad", getattr(N_cs, name).Sign, getattr(P_cs, name).Sign, bad_sk, b"m")
same("Sign-badmsg", N_cs.G2Basic.Sign, P_cs.G2Basic.Sign, 1, "str")

calls = []  # (label, suite-name, method, args, expected or None)


def plan(name, meth, args, expected):
    calls.append((name, meth, args, expected))


sk, m = sk0, msg0
for si, name in enumerate(SUITES):
    Ns = getattr(N_cs, name)
    pk = Ns.SkToPk(sk)
    S = canon[(name, sk, m)]
    Spt = N_g2.signature_to_G2(S)
    plan(name, "Verify", (pk, m, S), True)
    if si == 1:
        plan(name, "Verify", (pk, b"", canon[(name, sk, b"")]), True)
    if si == 0:
        pkm1 = Ns.SkToPk(curve_order - 1)
        plan(name, "Verify", (pkm1, m, canon[(name, curve_order - 1, m)]), True)
        plan(name, "Verify", (pkm1, m, S), False)
    # other key / other message / other suite / proof as signature
    plan(name, "Verify", (pk, m, canon[(name, 1, m)]), False)
    if si == 2:
        plan(name, "Verify", (Ns.SkToPk(1), m, S), False)
    plan(name, "Verify", (pk, m, canon[(name, sk, b"")]), False)
    for other in SUITES:
        if other != name:
            plan(name, "Verify", (pk, m, canon[(other, sk, m)]), False)
    if si != 1:
        plan(name, "Verify", (pk, m, canon[("POP", sk, None)]), False)
    if si != 0:
        plan(name, "Verify", (pk, pk, canon[("POP", sk, None)]), False)
    # algebraic relatives
    H = multiply(Spt, pow(sk, -1, curve_order))  # = H(m) for this suite
    relatives = [
        multiply(Spt, 2),
        multiply(H, (sk + 1) % curve_order),
        multiply(H, (sk - 1) % curve_order),
    ]
    for pt in (neg(Spt), Z2, relatives[si]):
        plan(name, "Verify", (pk, m, N_g2.G2_to_signature(pt)), False)
    # S + T for a point T outside the prime-order subgroup
    Tpt = N_g2.signature_to_G2(torsion_sig)
    plan(name, "Verify", (pk, m, N_g2.G2_to_signature(add(Spt, Tpt))), False)
    plan(name, "Verify", (pk, m, torsion_sig), False)
    # bit flips incl. the three flag bits, sign-bit re-encoding
    for bit in (0, 1, 2, 3, 383, 384, 385, 386, 767, rnd.randrange(768)):
        plan(name, "Verify", (pk, m, flip(S, bit)), False)
    # malformed
    plan(name, "Verify", (pk, m, S[:95]), False)
    plan(name, "Verify", (pk, m, S + b"\x00"), False)
    plan(name, "Verify", (pk[:47], m, S), False)
    plan(name, "Verify", (b"\xc0" + b"\x00" * 47, m, b"\xc0" + b"\x00" * 95), False)
    plan(name, "Verify", (pk, "not bytes", S), None)  # Aug: TypeError from PK + str
# augmented signature checked without its key prefix / with it under Basic
pk = N_cs.G2Basic.SkToPk(sk)
Saug = canon[("G2MessageAugmentation", sk, m)]
plan("G2Basic", "Verify", (pk, m, Saug), False)
plan("G2ProofOfPossession", "Verify", (pk, pk + m, Saug), False)
# PopVerify
proof = canon[("POP", sk, None)]
plan("G2ProofOfPossession", "PopVerify", (pk, proof), True)
plan("G2ProofOfPossession", "PopVerify", (pk, canon[("POP", 1, None)]), False)
plan("G2ProofOfPossession", "PopVerify", (N_cs.G2Basic.SkToPk(1), proof), False)
plan("G2ProofOfPossession", "PopVerify", (pk, N_cs.G2ProofOfPossession.Sign(sk, pk)), False)
plan("G2ProofOfPossession", "PopVerify", (pk, N_g2.G2_to_signature(neg(N_g2.signature_to_G2(proof)))), False)
plan("G2ProofOfPossession", "PopVerify", (pk, N_g2.G2_to_signature(Z2)), False)
for bit in (0, 1, 2, 400):
    plan("G2ProofOfPossession", "PopVerify", (pk, flip(proof, bit)), False)

first = {}
n_true = 0
for i, (name, meth, args, expected) in enumerate(calls):
    r = same(
        "%s.%s" % (name, meth),
        getattr(getattr(N_cs, name), meth),
        getattr(getattr(P_cs, name), meth),
        *args,
    )
    if expected is not None:
        assert r == ("ok", ("bool", expected)), (name, meth, args, r)
    n_true += bool(expected)
    first[i] = r
assert n_true >= 6

# call histories: repeat a sample of the calls in shuffled order, interleaved
# with decoding / signing calls on equal and different arguments
order = [i for i in range(len(calls)) if calls[i][3]]  # accepting calls
rnd.shuffle(order)
order = order[:3]
rest = [i for i in range(len(calls)) if not calls[i][3]]
rnd.shuffle(rest)
order += rest[:12]
rnd.shuffle(order)
for i in order:
    name, meth, args, expected = calls[i]
    c = rnd.choice(cands)
    same("interleave-dec", N_g2.signature_to_G2, P_g2.signature_to_G2, c)
    same("interleave-dec", N_g2.signature_to_G2, P_g2.signature_to_G2, sig0)
    r = same(
        "again %s.%s" % (name, meth),
        getattr(getattr(N_cs, name), meth),
        getattr(getattr(P_cs, name), meth),
        *args,
    )
    assert r == first[i]
assert same("Sign-again", N_cs.G2Basic.Sign, P_cs.G2Basic.Sign, sk0, msg0) == (
    "ok",
    freeze(sig0),
)

# module-level constants were not mutated by any of the above
for name in dir(P_const):
    v = getattr(P_const, name)
    if isinstance(v, int) and not name.startswith("__"):
        assert getattr(N_const, name) == v
assert [freeze(x) for x in N_const.EIGHTH_ROOTS_OF_UNITY] == [
    freeze(x) for x in P_const.EIGHTH_ROOTS_OF_UNITY
]

print(
    "EQUIVALENT: %d paired checks, %d Verify/PopVerify calls, %.1fs"
    % (N_CHECKS, len(calls) + len(order), time.time() - T0)
)
