import os, sys; sys.path.insert(0, os.getcwd())  # noqa: E401,E702

"""
Equivalence demonstration for refactoring r3 (py_ecc/bls/point_compression.py).

Loads the pristine point_compression module under another module name inside the
py_ecc.bls package and compares it with the refactored module of the working tree
on compress_G1 / compress_G2 (the touched functions) and on every other public
function of the module, over: multiples of the generators (small, large, random
scalars), hash_to_G2 outputs, projectively rescaled points, points whose y has a
zero imaginary part, both infinities, off-curve and malformed inputs.  Finally the
ciphersuite outputs of the working tree are recomputed with the pristine encoder.
"""
import importlib.util
import random
from hashlib import sha256

HERE = os.path.dirname(os.path.abspath(__file__))

import py_ecc.bls.point_compression as new  # noqa: E402

assert os.path.abspath(new.__file__).startswith(os.getcwd()), new.__file__

spec = importlib.util.spec_from_file_location(
    "py_ecc.bls._pristine_point_compression",
    os.path.join(HERE, "pristine", "point_compression.py"),
)
old = importlib.util.module_from_spec(spec)
sys.modules[spec.name] = old
spec.loader.exec_module(old)

from py_ecc.fields import (  # noqa: E402
    optimized_bls12_381_FQ as FQ,
    optimized_bls12_381_FQ2 as FQ2,
)
from py_ecc.optimized_bls12_381 import (  # noqa: E402
    G1,
    G2,
    Z1,
    Z2,
    add,
    b,
    b2,
    curve_order as r,
    field_modulus as q,
    is_on_curve,
    multiply,
    neg,
)
from py_ecc.bls.hash_to_curve import hash_to_G2  # noqa: E402

checked = 0
mismatches = []


def run(f, *a):
    try:
        return ("ok", f(*a))
    except BaseException as e:  # noqa: B902
        return ("exc", type(e), str(e))


def same(name, *a):
    global checked
    ro, rn = run(getattr(old, name), *a), run(getattr(new, name), *a)
    checked += 1
    ok = ro == rn
    if ok and ro[0] == "ok":
        ok = type(ro[1]) is type(rn[1])
        if ok and isinstance(ro[1], tuple):
            ok = [type(v) for v in ro[1]] == [type(v) for v in rn[1]]
    if not ok:
        mismatches.append((name, a, ro, rn))
    return ro


rng = random.Random(0xC0903)
scalars = (
    list(range(1, 40))
    + [r - k for k in range(1, 20)]
    + [(r + 1) // 2, (r - 1) // 2, 2**128, 2**254 + 1]
    + [rng.randrange(1, r) for _ in range(40)]
)

# ---------------- G1
g1_points = [multiply(G1, k) for k in scalars]
g1_points += [neg(p) for p in g1_points[:25]]
g1_points += [add(g1_points[3], g1_points[50])]
for p in list(g1_points[:20]):
    lam = FQ(rng.randrange(2, q))
    g1_points.append((p[0] * lam, p[1] * lam, p[2] * lam))
# x = 0 is on G1: y^2 = 4 -> y = 2 or q - 2 (smallest / largest sign cases)
for y in (2, q - 2):
    pt = (FQ(0), FQ(y), FQ(1))
    assert is_on_curve(pt, b)
    g1_points.append(pt)
g1_points += [Z1, (FQ(3), FQ(4), FQ(0)), multiply(G1, r)]
a_flags = set()
for p in g1_points:
    res = same("compress_G1", p)
    assert res[0] == "ok"
    a_flags.add((res[1] >> 381) & 7)
    same("decompress_G1", res[1])
assert a_flags == {0b100, 0b101, 0b110}, a_flags  # both signs and infinity exercised
# compress_G1 does not check the curve equation: off-curve and boundary y values
half = (q - 1) // 2
for yv in [0, 1, half - 1, half, half + 1, half + 2, q - 1]:
    same("compress_G1", (FQ(7), FQ(yv), FQ(1)))
    same("compress_G1", (FQ(7) * 5, FQ(yv) * 5, FQ(5)))
for bad in [None, 5, (), (FQ(1), FQ(2)), (1, 2, 3), (1, 2, 0), b"x" * 48, "abc",
            (FQ(1), FQ(2), FQ(3), FQ(4)), G2, Z2]:
    same("compress_G1", bad)

# ---------------- G2
g2_points = [multiply(G2, k) for k in scalars]
g2_points += [neg(p) for p in g2_points[:25]]
g2_points += [add(g2_points[3], g2_points[50])]
for i in range(12):
    g2_points.append(hash_to_G2(b"msg-%d" % i, b"QUUX-V01-CS02-with-BLS12381G2_XMD:SHA-256_SSWU_RO_", sha256))
for p in list(g2_points[:20]):
    lam = FQ2([rng.randrange(1, q), rng.randrange(0, q)])
    g2_points.append((p[0] * lam, p[1] * lam, p[2] * lam))
# points on the twist whose y has zero imaginary part (a_flag taken from y_re):
# need x^3 = a^2 - b2 with a in FQ, i.e. a cube root in FQ2.  q^2 - 1 = 9 * m with
# gcd(m, 3) = 1, so t^(1/3 mod m) is a cube root up to one of the 9 elements of the
# 3-Sylow subgroup, which is searched exhaustively.
m_odd = (q * q - 1) // 9
assert (q * q - 1) % 9 == 0 and m_odd % 3 != 0
e3 = pow(3, -1, m_odd)
sylow = None
hh = 2
while sylow is None:
    g = FQ2([hh, 1]) ** m_odd
    if g**3 != FQ2([1, 0]):
        sylow = [g**k for k in range(9)]
    hh += 1


def cube_root(t):
    if t ** ((q * q - 1) // 3) != FQ2([1, 0]):
        return None
    r0 = t**e3
    for w in sylow:
        if (r0 * w) ** 3 == t:
            return r0 * w
    return None


found = 0
for a in range(1, 200):
    x = cube_root(FQ2([a * a, 0]) - b2)
    if x is None:
        continue
    for yy in (FQ2([a, 0]), FQ2([q - a, 0])):
        pt = (x, yy, FQ2([1, 0]))
        assert is_on_curve(pt, b2) and yy.coeffs[1] == 0
        g2_points.append(pt)
        lam = FQ2([rng.randrange(1, q), rng.randrange(0, q)])
        g2_points.append((x * lam, yy * lam, lam))
    found += 1
    if found >= 4:
        break
assert found >= 1, "no twist point with y_im == 0 found"
zero_im_cases = found
g2_points += [Z2, multiply(G2, r), (FQ2([1, 1]), FQ2([2, 3]), FQ2([0, 0]))]
flags2 = set()
for p in g2_points:
    res = same("compress_G2", p)
    if res[0] == "ok":
        flags2.add((res[1][0] >> 381) & 7)
        assert 0 <= res[1][1] < q
        same("decompress_G2", res[1])
assert {0b100, 0b101, 0b110} <= flags2, flags2
# off-curve -> ValueError in both; malformed -> same exception class in both
one2 = FQ2([1, 0])
P = g2_points[0]
for bad in [
    (FQ2([1, 1]), FQ2([1, 1]), one2),
    (FQ2([0, 0]), FQ2([0, 0]), one2),
    (P[0], P[1] + one2, P[2]),
    (P[0] + one2, P[1], P[2]),
    (P[0], P[1], P[2] + one2),
    None,
    5,
    (),
    (one2, one2),
    (1, 2, 3),
    b"x" * 96,
    "abc",
    G1,
    Z1,
    (P[0], P[1], P[2], P[2]),
]:
    res = same("compress_G2", bad)
    assert res[0] == "exc" or bad is Z1 or bad is G1, (bad, res)

# ---------------- untouched helpers of the module (still identical)
for z in [0, 1, 2**381, 2**382, 2**383, 2**383 + 2**382, 2**384 - 1, q, q - 1] + [
    rng.getrandbits(384) for _ in range(30)
]:
    same("get_flags", z)
    same("is_point_at_infinity", z)
    same("is_point_at_infinity", z, 0)
    same("is_point_at_infinity", z, 1)
    same("decompress_G1", z)
    same("decompress_G2", (z, 0))
    same("decompress_G2", (z, rng.getrandbits(381)))
for v in [FQ2([1, 0]), FQ2([0, 1]), FQ2([4, 0]), FQ2([2, 3]), FQ2([q - 1, 0])]:
    same("modular_squareroot_in_FQ2", v)

# ---------------- end to end through the ciphersuites of the working tree
from py_ecc.bls import G2Basic, G2MessageAugmentation, G2ProofOfPossession  # noqa: E402
from py_ecc.bls.hash import i2osp  # noqa: E402


def old_pubkey(pt):
    return i2osp(old.compress_G1(pt), 48)


def old_signature(pt):
    z1, z2 = old.compress_G2(pt)
    return i2osp(z1, 48) + i2osp(z2, 48)


for sk in [1, 2, r - 1, rng.randrange(1, r), rng.randrange(1, r)]:
    pk = G2Basic.SkToPk(sk)
    assert pk == old_pubkey(multiply(G1, sk))
    checked += 1
    for suite, prefix in [
        (G2Basic, b""),
        (G2MessageAugmentation, pk),
        (G2ProofOfPossession, b""),
    ]:
        for m in [b"", b"abc", b"\x00" * 48]:
            expect = old_signature(
                multiply(hash_to_G2(prefix + m, suite.DST, sha256), sk)
            )
            assert suite.Sign(sk, m) == expect
            checked += 1
    expect = old_signature(
        multiply(hash_to_G2(pk, G2ProofOfPossession.POP_TAG, sha256), sk)
    )
    assert G2ProofOfPossession.PopProve(sk) == expect
    checked += 1
sa = G2Basic.Sign(5, b"a")
sb = G2Basic.Sign(6, b"b")
pa = old.decompress_G2((int.from_bytes(sa[:48], "big"), int.from_bytes(sa[48:], "big")))
pb = old.decompress_G2((int.from_bytes(sb[:48], "big"), int.from_bytes(sb[48:], "big")))
assert G2Basic.Aggregate([sa, sb]) == old_signature(add(add(Z2, pa), pb))
assert G2Basic.Aggregate([sa, old_signature(neg(pa))]) == b"\xc0" + b"\x00" * 95
checked += 2

if mismatches:
    for m in mismatches[:20]:
        print("MISMATCH", m)
    print(f"{len(mismatches)} mismatches out of {checked} comparisons")
    sys.exit(1)
print(
    f"r3 equivalence OK: {checked} comparisons, 0 mismatches "
    f"({zero_im_cases} x-values with y_im == 0 on the twist exercised)"
)
